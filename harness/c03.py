"""C03 — flow match and lookup semantics agree with OpenFlow 1.0 (DESIGN §5 C03).

Three computations per case, on the same inputs:
  * the real code   : ofp_match.unpack(flow_mod=True) / from_packet(spec_frags=True) / matches_with_wildcards / FlowTable.add_entry /
                      entry_for_packet / SoftwareSwitch.rx_packet                       (`impl`)
  * the Lean model  : Model/Match.lean + Model/FlowTable.lean through drv_c03            (must equal the real code)
  * the standard    : Spec/OF10Match.lean through drv_c03  ==  the short Python transcription below (`spec_*`), which is the
                      property oracle evaluated on the real code's observables.
The frame description given to model and spec is read off the BYTES of the frame (Spec/OF10Frame.lean in the driver, `raw_phdr` here), not
off the packet library's parse: what the library takes the frame for is part of what is checked.  Only incomplete frames (truncated or
malformed headers, where the standard is silent) are described by the library's parse (`phdr_of`) and compared model-vs-code.
"""
import struct, copy
import common, poxenv
from common import Check

# ------------------------------------------------------------------ wire record <-> 40 bytes (independent of POX)
F = ["wildcards", "in_port", "dl_src", "dl_dst", "dl_vlan", "dl_vlan_pcp", "dl_type", "nw_tos", "nw_proto", "nw_src", "nw_dst", "tp_src", "tp_dst"]
W, IN_PORT, DL_SRC, DL_DST, DL_VLAN, PCP, DL_TYPE, TOS, PROTO, NW_SRC, NW_DST, TP_SRC, TP_DST = range(13)
BIT = {IN_PORT: 0, DL_VLAN: 1, DL_SRC: 2, DL_DST: 3, DL_TYPE: 4, PROTO: 5, TP_SRC: 6, TP_DST: 7, PCP: 20, TOS: 21}
FLAG_FIELDS = [IN_PORT, DL_VLAN, DL_SRC, DL_DST, DL_TYPE, PROTO, TP_SRC, TP_DST, PCP, TOS]
FIELD_MAX = {IN_PORT: 0xffff, DL_SRC: (1 << 48) - 1, DL_DST: (1 << 48) - 1, DL_VLAN: 0xffff, PCP: 0xff, DL_TYPE: 0xffff, TOS: 0xff,
             PROTO: 0xff, NW_SRC: 0xffffffff, NW_DST: 0xffffffff, TP_SRC: 0xffff, TP_DST: 0xffff}

def pack_rec(r):
    return (struct.pack("!LH", r[W], r[IN_PORT]) + r[DL_SRC].to_bytes(6, "big") + r[DL_DST].to_bytes(6, "big") +
            struct.pack("!HBx", r[DL_VLAN], r[PCP]) + struct.pack("!HBBxx", r[DL_TYPE], r[TOS], r[PROTO]) +
            struct.pack("!LLHH", r[NW_SRC], r[NW_DST], r[TP_SRC], r[TP_DST]))

def unpack_rec(b):
    w, ip = struct.unpack("!LH", b[:6])
    vl, pcp = struct.unpack("!HBx", b[18:22])
    ty, tos, pr = struct.unpack("!HBBxx", b[22:28])
    s, d, ts, td = struct.unpack("!LLHH", b[28:40])
    return [w, ip, int.from_bytes(b[6:12], "big"), int.from_bytes(b[12:18], "big"), vl, pcp, ty, tos, pr, s, d, ts, td]

def mkwild(flags, sc, dc, hi=0):
    """flags: iterable of field indexes to wildcard; sc/dc: 6-bit counters; hi: bits 22..31"""
    w = (sc & 63) << 8 | (dc & 63) << 14 | (hi & 0x3ff) << 22
    for f in flags: w |= 1 << BIT[f]
    return w

# ------------------------------------------------------------------ OpenFlow 1.0 §3.4, transcribed (the property oracle)
def spec_headers(ph, port):
    """Figure 4 / Table 3: 12-tuple of a frame, fields that do not apply are zero.  Order = F[1:]."""
    if ph["typ"] < 0x600:
        l = ph["llc"]
        t = l[1] if (l is not None and l[0] == 0) else 0x05ff
    else:
        t = ph["typ"]
    vid, pcp = 0xffff, 0
    if ph["vlan"] is not None:
        vid, pcp, t = ph["vlan"]
    h = [port, ph["src"], ph["dst"], vid, pcp, t, 0, 0, 0, 0, 0, 0]
    l3 = ph["l3"]
    if t == 0x0806 and l3 is not None and l3[0] == "arp":
        h[PROTO - 1], h[NW_SRC - 1], h[NW_DST - 1] = l3[1] & 0xff, l3[2], l3[3]
    elif t == 0x0800 and l3 is not None and l3[0] == "ip":
        _, s, d, pr, tos, frag, l4 = l3
        h[NW_SRC - 1], h[NW_DST - 1], h[PROTO - 1], h[TOS - 1] = s, d, pr, tos & 0xfc
        if not frag and l4 is not None:
            if (l4[0] == "p" and pr in (6, 17)) or (l4[0] == "i" and pr == 1):
                h[TP_SRC - 1], h[TP_DST - 1] = l4[1], l4[2]
    return h

def wild(r, f): return (r[W] >> BIT[f]) & 1 == 1
def ign_src(r): return min(32, (r[W] >> 8) & 63)
def ign_dst(r): return min(32, (r[W] >> 14) & 63)

def spec_match(r, h, variant=frozenset()):
    """r: transmitted ofp_match (13 numbers), h: 12-tuple.  `variant` switches on the deviations the code is known to have,
    only to *classify* an oracle failure (finding_key); the oracle itself uses the empty variant."""
    H = [None] + list(h)
    raw = "rawprereq" in variant
    dl_is = lambda t: (raw or not wild(r, DL_TYPE)) and r[DL_TYPE] == t
    nw_spec = dl_is(0x0800) or dl_is(0x0806)
    ip_spec = dl_is(0x0800)
    tp_spec = dl_is(0x0800) and (raw or not wild(r, PROTO)) and r[PROTO] in (1, 6, 17)
    if raw:     # the code compares against the frame's *absent* fields as "never equal"
        nw_here = H[DL_TYPE] in (0x0800, 0x0806)
        ip_here = H[DL_TYPE] == 0x0800
        tp_here = "tp_present" in variant
    else:
        nw_here = ip_here = tp_here = True
    for f in (IN_PORT, DL_SRC, DL_DST, DL_VLAN, PCP, DL_TYPE):
        if not wild(r, f) and r[f] != H[f]: return False
    if ip_spec and not wild(r, TOS):
        if not ip_here: return False
        if "tos8" in variant:
            if r[TOS] != H[TOS] | (variant_ecn(variant)): return False
        elif r[TOS] >> 2 != H[TOS] >> 2: return False
    if nw_spec and not wild(r, PROTO):
        if not nw_here or r[PROTO] != H[PROTO]: return False
    for f, k in ((NW_SRC, ign_src(r)), (NW_DST, ign_dst(r))):
        if nw_spec and k < 32:
            if not nw_here: return False
            if "hostbits" in variant:
                if (H[f] >> k) << k != r[f]: return False
            elif r[f] >> k != H[f] >> k: return False
    for f in (TP_SRC, TP_DST):
        if tp_spec and not wild(r, f):
            if not tp_here or r[f] != H[f]: return False
    return True

def variant_ecn(variant):
    for v in variant:
        if v.startswith("ecn="): return int(v[4:])
    return 0

def spec_exact(r): return r[W] & 0x3fffff == 0                     # "has no wildcards", literally (Lean: Spec.exact; used by C04)
def spec_rank(prio, r): return 0x10000 if spec_exact(r) else prio

def spec_exact_sig(r):
    """exact match under the prerequisite rule (Lean: Spec.exactSig): no wildcard on a field whose prerequisite is specified,
    complete addresses when IPv4/ARP is specified; wildcard bits of ignored fields do not count"""
    dl_is = lambda t: not wild(r, DL_TYPE) and r[DL_TYPE] == t
    nw_spec = dl_is(0x0800) or dl_is(0x0806)
    ip_spec = dl_is(0x0800)
    tp_spec = dl_is(0x0800) and not wild(r, PROTO) and r[PROTO] in (1, 6, 17)
    prereq = {TOS: ip_spec, PROTO: nw_spec, TP_SRC: tp_spec, TP_DST: tp_spec}
    if any(wild(r, f) and prereq.get(f, True) for f in FLAG_FIELDS): return False
    return not nw_spec or (ign_src(r) == 0 and ign_dst(r) == 0)
def spec_rank_sig(prio, r): return 0x10000 if spec_exact_sig(r) else prio

# ------------------------------------------------------------------ the check
# ---------------------------------------------------------------- the frame's description, from its bytes
# Python twin of lean/PoxModel/Spec/OF10Frame.lean (`Spec.Frame.parse`): the driver parses the bytes itself for the model side, this
# one feeds the Python transcription of the standard; the two are compared through `hdr` / `spec` on every case.
def be(b): return int.from_bytes(b, "big")

def raw_phdr(fr):
    """OpenFlow 1.0 view of a frame, from its BYTES (Figure 4 / Table 3), independent of the packet library.
    Returns (phdr, complete): complete = every header the types promise is there in full and well-formed (so that the standard
    says what its fields are); otherwise phdr holds what could be read and the oracle stays silent."""
    if len(fr) < 14: return None, False
    ph = {"src": be(fr[6:12]), "dst": be(fr[0:6]), "typ": be(fr[12:14]), "llc": None, "vlan": None, "l3": None}
    t, off = ph["typ"], 14
    if t < 0x600:                                   # 802.3 length: LLC, possibly SNAP
        if len(fr) < off + 3: return ph, False
        dsap, ssap, ctl = fr[off], fr[off + 1], fr[off + 2]
        if dsap == 0xaa and ssap == 0xaa and ctl == 3:
            if len(fr) < off + 8: return ph, False
            oui, t2 = be(fr[off + 3:off + 6]), be(fr[off + 6:off + 8])
            ph["llc"] = [oui, t2]
            if oui != 0: return ph, True            # SNAP of another organisation: dl_type 0x05ff, nothing behind it is looked at
            t, off = t2, off + 8
            if t < 0x600: return ph, False          # a length inside SNAP: not Ethernet II in 802.2, outside the transcription
        else:
            ph["llc"] = [None, 0xffff]
            # I-/S-format control fields (2 bytes) and the group-bit variants of the SNAP SAPs: plain LLC for the standard, but kept out
            return ph, not ((dsap & 0xfe) == 0xaa or (ssap & 0xfe) == 0xaa)
    if t == 0x8100:                                 # the one tag OpenFlow 1.0 knows
        if len(fr) < off + 4: return ph, False
        tci, t = be(fr[off:off + 2]), be(fr[off + 2:off + 4])
        ph["vlan"] = [tci & 0xfff, tci >> 13, t]
        off += 4
        if t < 0x600: return ph, False              # tag followed by a length field: outside the transcription
    if t == 0x0800:
        ip = fr[off:]
        if len(ip) < 20: return ph, False
        ver, ihl, tos, tot = ip[0] >> 4, ip[0] & 15, ip[1], be(ip[2:4])
        fo = be(ip[6:8]); flags, fragoff = fo >> 13, fo & 0x1fff
        proto, src, dst = ip[9], be(ip[12:16]), be(ip[16:20])
        if ver != 4 or ihl < 5 or tot < ihl * 4 or ihl * 4 > len(ip): return ph, False
        frag = bool(flags & 1) or fragoff != 0      # MF set or offset non-zero; the reserved bit and DF say nothing about fragmentation
        pay = ip[ihl * 4:min(tot, len(ip))]
        l4, ok = None, True
        if fragoff == 0:
            if proto in (6, 17):
                need = 8 if proto == 17 else 20
                if len(pay) >= need:
                    l4 = ["p", be(pay[0:2]), be(pay[2:4])]
                    if proto == 6:
                        doff = (pay[12] >> 4) * 4
                        if doff < 20 or doff > len(pay): l4, ok = None, frag      # the option area's content has no bearing on the ports
                else: ok = frag
            elif proto == 1:
                if len(pay) >= 4: l4 = ["i", pay[0], pay[1]]
                else: ok = frag
        ph["l3"] = ["ip", src, dst, proto, tos, frag, l4]
        return ph, ok
    if t == 0x0806:
        a = fr[off:]
        if len(a) < 28 or be(a[0:2]) != 1 or be(a[2:4]) != 0x0800 or a[4] != 6 or a[5] != 4: return ph, False
        ph["l3"] = ["arp", be(a[6:8]), be(a[14:18]), be(a[24:28])]
        return ph, True
    return ph, True


class C03(Check):
    id = "C03"
    prop_module = "PoxModel.Properties.C03"
    lean_targets = ["drv_c03"]
    driver = "drv_c03"
    # the code as it stands (Variant.repaired = /repo HEAD, Variant.full = HEAD + the D36 patch) first; then the statements for every variant / history; last the reverted tree
    # (Variant.head: regression witnesses).  `lookup_stateless` is definitional (restates the model) and deliberately not listed.
    theorems = ["Pox.C03.matches_iff_current", "Pox.C03.extract_ok_current", "Pox.C03.exact_iff_current", "Pox.C03.table_sorted_current",
                "Pox.C03.exact_outranks_current", "Pox.C03.flowOk_current", "Pox.C03.lookup_spec_wire_current", "Pox.C03.lookup_spec_wire_literal_current",
                "Pox.C03.miss_iff_wire_current", "Pox.C03.history_lookup_wire_current", "Pox.C03.history_lookup_sequence_wire", "Pox.C03.subsumes_iff_current",
                "Pox.C03.flow_from_packet_current", "Pox.C03.flow_from_packet_exact_current",
                "Pox.C03.history_lookup_wire_queries_current", "Pox.C03.history_lookup_wire_queries", "Pox.C03.history_queries_erase", "Pox.C03.query_between",
                "Pox.C03.history_sorted_queries", "Pox.C03.query_reports", "Pox.C03.arp_fields_only_for_arp_current", "Pox.C03.extract_rarp_current",
                "Pox.C03.frame_complete_regular", "Pox.C03.current_eq_full_regular", "Pox.C03.extract_ok_bytes_current", "Pox.C03.matches_iff_bytes_current",
                "Pox.C03.lookup_spec_bytes_current", "Pox.C03.extract_tcp_options_defect",
                "Pox.C03.matches_iff_repaired", "Pox.C03.extract_ok_repaired", "Pox.C03.lookup_spec_wire_repaired",
                "Pox.C03.lookup_spec_wire_literal_repaired", "Pox.C03.miss_iff_wire_repaired", "Pox.C03.history_lookup_wire_repaired",
                "Pox.C03.exact_outranks_repaired", "Pox.C03.exact_iff_repaired",
                "Pox.C03.table_sorted_repaired", "Pox.C03.subsumes_iff_repaired", "Pox.C03.flow_from_packet_matches_repaired",
                "Pox.C03.flow_from_packet_exact_repaired", "Pox.C03.flowOk_repaired",
                "Pox.C03.matches_iff_full", "Pox.C03.extract_ok_full", "Pox.C03.lookup_spec_wire_full", "Pox.C03.history_lookup_wire_full", "Pox.C03.subsumes_iff_full",
                "Pox.C03.flow_from_packet_full", "Pox.C03.flow_from_packet_exact_full",
                "Pox.C03.extract_ok_bytes_repaired", "Pox.C03.lookup_spec_bytes_repaired", "Pox.C03.extract_ok_bytes_full", "Pox.C03.matches_iff_bytes_full",
                "Pox.C03.lookup_spec_bytes_full", "Pox.C03.flowOk_full",
                "Pox.C03.history_sorted", "Pox.C03.step_preserves_sorted", "Pox.C03.add_entry_total_by", "Pox.C03.add_position",
                "Pox.C03.removal_sublist", "Pox.C03.history_exact_first", "Pox.C03.history_lookup", "Pox.C03.history_lookup_wire",
                "Pox.C03.matches_iff_v", "Pox.C03.extract_ok_v", "Pox.C03.exact_iff_v", "Pox.C03.subsumes_iff_v",
                "Pox.C03.flow_from_packet_matches_v", "Pox.C03.spec_frags_irrelevant", "Pox.C03.subsumes_iff_forall",
                "Pox.C03.irregular_l4_witness", "Pox.C03.irregular_l3_witness", "Pox.C03.extract_rarp_defect",
                "Pox.C03.table_sorted", "Pox.C03.add_entry_total", "Pox.C03.exact_outranks", "Pox.C03.lookup_spec", "Pox.C03.miss_iff",
                "Pox.C03.extract_ok", "Pox.C03.matches_iff", "Pox.C03.lookup_spec_wire", "Pox.C03.miss_iff_wire", "Pox.C03.flow_from_packet_matches",
                "Pox.C03.flow_from_packet_hit", "Pox.C03.flow_from_packet_exact_iff", "Pox.C03.flow_from_packet_exact", "Pox.C03.subsumes_iff",
                "Pox.C03.matches_tos_defect", "Pox.C03.matches_prereq_defect", "Pox.C03.extract_arp_defect", "Pox.C03.flow_from_packet_exact_defect",
                "Pox.C03.exact_outranks_defect"]
    anchors = ()          # computed in setup() from the source: the bodies of ANCHORED (line numbers move with every fix commit)
    ANCHORED = {"pox/openflow/libopenflow_01.py": {"ofp_match": ["from_packet", "get_nw_dst", "get_nw_src", "_normalize_wildcards", "_unwire_wildcards",
                                                               "_wire_wildcards", "pack", "is_wildcarded", "is_exact", "unpack", "matches_with_wildcards"]},
                "pox/openflow/flow_table.py": {"TableEntry": ["effective_priority", "is_matched_by", "is_idle_timed_out", "is_hard_timed_out"],
                                               "FlowTable": ["add_entry", "remove_entry", "matching_entries", "flow_stats", "aggregate_stats", "_remove_specific_entries",
                                                             "remove_expired_entries", "remove_matching_entries", "entry_for_packet"]}}
    trusted_base = ["models Model/Match.lean, Model/FlowTable.lean, Model/FlowTableQ.lean (the calls that only read: a query returns the table it was given), Model/MatchV.lean "
                    "hand-written from ofp_match / FlowTable; tied by this correspondence run",
                    "Spec/OF10Match.lean: hand transcription of OpenFlow 1.0 §3.4 (12-tuple, Figure 4 header parsing, Table 3, prefix wildcards, exact-match priority "
                    "read under the prerequisite rule: Spec.exactSig); its Python twin in harness/c03.py is cross-checked against it on every case",
                    "Spec/OF10Frame.lean: hand transcription of the frame formats (Ethernet II / 802.2 SNAP, 802.1Q tag type 0x8100 only, IPv4 flags / IHL, ARP, "
                    "TCP / UDP / ICMP) from bytes to the frame description, with its completeness rule; Python twin raw_phdr cross-checked through hdr / spec on every case",
                    "harness/c03.py phdr_of: incomplete frames only — header tuple read off the real parsed packet (packet parser = C14/C15)",
                    "harness/c03.py detect_variant: which of the proposed repairs D26/D37/D38 the tree has is read off the source (AST shapes, unknown shape = error); "
                    "the driver then evaluates Model/MatchV at that variant and the correspondence validates the choice"]
    assumptions = ["frames whose L3/L4 header is truncated or malformed are compared model-vs-code only: the standard says nothing about them",
                   "VLAN-tagged 802.3/LLC frames (tag followed by a length field) are outside the frame generator",
                   "lookup with in_port given (rx_packet always passes one)",
                   "matches_with_wildcards(consider_other_wildcards=False) on two FLOW matches is a correspondence-only observable (the switch evaluates it on packet matches only, "
                   "whose MACs are always assigned): there the address class's EthAddr(zero) == None (probed) is mirrored on the model's input (a2), not in the model",
                   "hypotheses of matches_iff / history_lookup_wire at /repo HEAD: wildcarded dl_type/nw_proto fields are zero on the wire (D38), ToS values carry no ECN bits (D36), "
                   "ARP opcode <= 255 (D37), exact flows are IPv4 TCP/UDP/ICMP flows without any wildcard bit (D26); each excluded case is a listed finding with a `_defect` theorem, "
                   "and the `_v` theorems drop the hypothesis for the variant that has the corresponding repair",
                   "read-only calls (flow / aggregate / table statistics through the switch or directly, matching_entries, len, iteration, printing, per-entry reports, "
                   "check_for_overlapping_entry, port / desc / queue statistics, features, get-config, barrier, echo): the model treats them as no-ops on the table; WHAT they report "
                   "(the set of entries the non-strict test selects, a count) is a correspondence-only observable — the oracle demands only that the table holds what it held and "
                   "that every later lookup is the standard's",
                   "frames handed to the table AFTER rewrite actions (packet_out [set_vlan_vid/pcp, strip_vlan, set_dl_*, set_nw_*, set_tp_* ..., output:OFPP_TABLE] with the frame as data or "
                   "by buffer id; the packet object an upstream switch emitted, received by rx_packet): which frame that is, is read off the bytes that leave the switch afterwards "
                   "(every entry outputs to a spare port, a miss returns the whole frame in a packet-in) — what the actions are supposed to do to a frame is C12's subject and not presumed; "
                   "the model is given those bytes (model_request2), the oracle holds the entry used to the standard's reading of them",
                   "packet objects built by hand with the packet library's classes (never serialised, never parsed) are held to the standard's reading of the bytes they serialise to; only coherent "
                   "objects are built (type fields name the header objects that follow)",
                   "left open by OpenFlow 1.0 3.4 and by the property, and therefore removed from BOTH sides of the model comparison: the order of entries of equal effective priority inside the "
                   "table (compared as a sequence of equal-priority runs, each run a set) and which of several matching entries of one rank a lookup returns (compared as the smallest id among "
                   "the entries of that rank that match by the standard); the model's own choice (a new entry goes in front of its equals: add_position) is a fact about the model only",
                   "remove_expired_entries is modelled for any expiry predicate (theorems) and with the idle/hard rule on never-touched entries (driver); "
                   "what remove_matching_entries selects is C04's subject, here it is only mirrored"]
    design_ref = "DESIGN.md §5 C03, §6 D22 D26 D29, Appendix D.10"
    technique = ("Lean 4 proof (bit-level lemmas on the wildcard word, case analysis over the match prerequisites, loop invariant of the insert binary search, "
                 "invariant-by-induction over histories of table operations, input normalisation to transfer theorems between code variants) + differential correspondence "
                 "of the compiled model against the real match/table code + spec oracle")
    level_text = ("Theorems for the code as it stands (Variant.current = /repo HEAD: repairs D37, D38, D26, D36, C03-K7; the variant is established on every run by probing one "
                  "witness input per repair and printed as code_variant in the evidence): code-match = standard-match on the extracted 12-tuple for every transmitted match "
                  "and every complete frame (matches_iff_current), extraction = Figure 4 (extract_ok_current; ARP fields only behind dl_type 0x0806: arp_fields_only_for_arp_current, "
                  "extract_rarp_current), after every history of add_entry / remove_entry / remove_matching_entries / remove_expired_entries and for every sequence of lookups the answer "
                  "is the best matching flow currently installed, a miss iff none matches (history_lookup_wire_current, history_lookup_sequence_wire, lookup_spec_wire_current, "
                  "miss_iff_wire_current) — also when statistics requests and other read-only calls of the table / the switch are interleaved anywhere in the history "
                  "(history_lookup_wire_queries_current, query_between: in the model they return the table they were given, which the correspondence checks after each such call), exact entries stand before wildcarded ones and the code's exactness test is the standard's (exact_outranks_current, exact_iff_current). "
                  "READING CLAIMED for 'exact match (has no wildcards)': the prerequisite rule — wildcard bits on fields that are ignored for lack of prerequisites do not count "
                  "(Spec.exactSig / IsBestSig; what the reference switch does and the code implements since D26); lookup_spec_wire_literal_current is the literal reading "
                  "(all 22 bits zero), proved for flows that wildcard no ignored field, on which the two readings coincide. "
                  "Also: the table is sorted after every history (table_sorted_current; in the model a new entry goes in front of its equals, add_position — a choice the standard leaves open and the correspondence does not demand of the code), non-strict selection is subsumption "
                  "over all header tuples (subsumes_iff_current), a flow built by from_packet/pack matches its packet and is exact (flow_from_packet_current, flow_from_packet_exact_current). "
                  "Remaining hypotheses: complete frames (regularG false; irregular_l4/l3_witness), 16-bit priorities — nothing about ECN bits, ARP opcodes or wildcarded prerequisite fields. "
                  "The `_v` theorems state all of this for every combination of the repairs; the _full / _repaired / un-suffixed ones concern superseded trees (before C03-K7 / before D36 / "
                  "before D37, D38, D26) and serve as regression statements. "
                  "OPEN: a TCP segment whose option area the packet library rejects (option length 0 / 1 / overrunning, known kind with a wrong length) reaches from_packet without a tcp "
                  "object; tp_src / tp_dst stay unassigned and flows naming a port miss, where the standard takes the ports from the header regardless of options "
                  "(extract_tcp_options_defect, candidate fixes/C03_tcp_ports_despite_bad_options.diff).")
    level_note = ("Trusted: Lean kernel, axioms propext/Classical.choice/Quot.sound, the hand-written models and the Spec transcriptions (OF10Match: matching; OF10Frame: bytes -> frame "
                  "description), this harness. The theorems are about the model on frame DESCRIPTIONS (PHdr). The _bytes_ theorems instantiate them at the description Spec.Frame.parse "
                  "gives for a byte sequence; in Lean the bytes occur only in the hypothesis `Spec.Frame.parse fr = some (p, true)` (which yields regularG false p) — nothing in Lean "
                  "links the CODE's own bytes -> packet-object path (pox.lib.packet) to that description. That link, like the model-code tie as a whole, is the per-run correspondence: "
                  "the real code is given the bytes, the driver parses the same bytes with Spec.Frame.parse and gives the model that description, and extracted fields, match results "
                  "and lookups are compared on every case and held to the standard's 12-tuple of that description (all 2^10 wildcard combinations, prefix counters 0..63, byte-level sweeps of "
                  "IP flags / offsets / IHL / lengths / TCP option areas / EtherTypes / LLC-SNAP forms, tables to 40 entries, operation histories to 90 calls, packet->flow round trips). "
                  "Incomplete frames (a header the type fields promise is cut short) are compared model-vs-code only, on the library's description.")
    rule = ("case = one frame x a batch of transmitted/local matches | a table of <=40 flow entries x frames | a history of <=90 table operations with lookups in between "
            "(on a bare FlowTable or on the table of a SoftwareSwitch with a connection; read-only calls between any two steps: OFPST_FLOW / AGGREGATE / TABLE / PORT / DESC / QUEUE requests "
            "from their bytes with the replies read from the wire, flow_stats / aggregate_stats / matching_entries filtered, unfiltered and by out_port, len, iteration, printing, "
            "check_for_overlapping_entry, features / get-config / barrier / echo; on a switch every lookup also through rx_packet) | sequences of lookups on one unchanged table (frames differing in exactly one of the 12 fields or in fragmentation, both orders, A-B-A triples, entries discriminating on that field; each answer also compared with a fresh copy of the table) | "
            "a packet->from_packet->pack->unpack->lookup round trip | subsumption pairs | resubmit: a table on a switch x steps (frame, in_port, list of rewrite actions, handed to the table by "
            "packet_out data + output:TABLE / by buffer id + output:TABLE / as the packet object an upstream switch emitted / plainly received), entries aimed at the frame before and after the rewrite | "
            "any of the kinds with the packet OBJECT built by hand instead of parsed (`built`: 13 base frames, SNAP / LLC / foreign-OUI encapsulations, QinQ, fragments, ARP opcodes > 255, random descriptions); corpus = all 1024 flag combinations x prefix counters x at/near values on 9 fixed frames + "
            "prefix sweeps 0..63 + defect witnesses + 8 fixed histories + one sandwich history per read-only call (lookups / the call / lookups / add / remove / strict delete / expiry, "
            "exact entry with a low priority field in front of high wildcarded ones) + 26 action lists x 11 base frames x {data, buffer, chain, rx} resubmissions + hand-built objects of every header class; non-trivial = a batch with both outcomes / a table or history with a hit / a round trip of a frame with L3 or VLAN")
    coverage_cases = 200

    # ---------------------------------------------------------------- real code
    def setup(self):
        poxenv.boot()
        import pox.openflow.libopenflow_01 as of
        from pox.openflow.flow_table import FlowTable, TableEntry
        from pox.datapaths.switch import SoftwareSwitch
        import pox.datapaths.switch as swmod
        self.DpPacketOut = swmod.DpPacketOut
        import pox.lib.packet as pkt
        from pox.lib.addresses import IPAddr, EthAddr
        self.of, self.FlowTable, self.TableEntry, self.SoftwareSwitch, self.pkt = of, FlowTable, TableEntry, SoftwareSwitch, pkt
        self.IPAddr, self.EthAddr = IPAddr, EthAddr
        self._corpus = None; self._byte_frames = None; self._tcpopt_phs = set(); self._built = {}; self._view_cache = {}; self._resubmit_frames = {}
        self.zero_mac_eq_none = bool(EthAddr(b"\0" * 6) == None)      # noqa: E711 -- the address class's own comparison is what is probed
        self.anchors = self.compute_anchors()
        self.variant = self.detect_variant()

    # Which of the repairs D26/D37/D38 the tree under test has (Model/MatchV.lean `Variant`).  Decided by BEHAVIOUR on the three witness
    # inputs of the findings (so that a behaviour-preserving refactoring of the code cannot confuse it); the statement shapes in the
    # source are only a cross-check: a known shape that contradicts the probe is an error.  Whatever is chosen, the correspondence run
    # validates it on every case.
    VARIANT_SHAPES = {
        "arpLow8": ("from_packet", {
            False: "if p.opcode <= 255:\n    match.nw_proto = p.opcode\n    match.nw_src = p.protosrc\n    match.nw_dst = p.protodst",
            True: "match.nw_proto = p.opcode & 255\nmatch.nw_src = p.protosrc\nmatch.nw_dst = p.protodst"}),
        "exactSig": ("is_wildcarded", {
            False: "return self.wildcards & OFPFW_ALL != 0",
            True: "return self.wildcards & ~self._unwire_wildcards(0) & OFPFW_ALL != 0"}),
        "prereqExact": ("_unwire_wildcards", {
            False: "if self._dl_type == 2048:\n    if self._nw_proto not in (1, 6, 17):",
            True: "dl_type = None if wildcards & OFPFW_DL_TYPE else self._dl_type\nnw_proto = None if wildcards & OFPFW_NW_PROTO else self._nw_proto\n"
                  "if dl_type == 2048:\n    if nw_proto not in (1, 6, 17):"})}

    def probe_variant(self):
        """the three witnesses, on the real code"""
        of = self.of
        arp257 = bytes.fromhex("000000000002" "000000000001" "0806" "0001" "0800" "06" "04" "0101" "000000000001" "0a000001" "000000000000" "0a000002")
        pm = of.ofp_match.from_packet(self.pkt.ethernet(arp257), 1, spec_frags=True)
        if pm.nw_proto == 1 and pm.nw_src is not None: arp = True
        elif pm.nw_proto is None and pm.nw_src is None: arp = False
        else: raise RuntimeError("from_packet on ARP opcode 257: nw_proto=%r (neither known behaviour)" % (pm.nw_proto,))
        r = [mkwild([f for f in FLAG_FIELDS if f != PROTO], 32, 32)] + [0] * 12; r[DL_TYPE] = 0x0800; r[PROTO] = 7
        m = of.ofp_match(); m.unpack(pack_rec(r), 0, flow_mod=True)
        nwp = (m.wildcards >> BIT[PROTO]) & 1
        ex = [0, 1, 1, 2, 0xffff, 0, 0x0806, 0, 1, 0x0a000001, 0x0a000002, 0, 0]
        m2 = of.ofp_match(); m2.unpack(pack_rec(ex), 0, flow_mod=True)
        # strict test of TableEntry.is_matched_by: identical up to address bits below the prefix (both-ways encompassing), or `==`
        a = [mkwild([f for f in FLAG_FIELDS if f != DL_TYPE], 24, 32)] + [0] * 12; a[DL_TYPE] = 0x0800; a[NW_SRC] = 0x0a090909
        b = list(a); b[NW_SRC] = 0x0a010101
        ma, mb = of.ofp_match(), of.ofp_match(); ma.unpack(pack_rec(a), 0, flow_mod=True); mb.unpack(pack_rec(b), 0, flow_mod=True)
        te = self.TableEntry(priority=5, match=ma, actions=[], now=0)
        self.strict_both_ways = bool(te.is_matched_by(mb, priority=5, strict=True)) and bool(te.is_matched_by(ma, priority=5, strict=True))
        # D36: a flow nw_tos = 0 against a packet with ToS 0x02 (ECT(0)), and what from_packet extracts from it
        tcp_ecn = bytes.fromhex("000000000002" "000000000001" "0800" "4502002a00010000400600000a0101010a020202" "03e80050" "00000000" "00000000" "50000001" "00000000" "7879")
        pme = of.ofp_match.from_packet(self.pkt.ethernet(tcp_ecn), 1, spec_frags=True)
        rt = [mkwild([f for f in FLAG_FIELDS if f not in (DL_TYPE, TOS)], 32, 32)] + [0] * 12; rt[DL_TYPE] = 0x0800
        mt = of.ofp_match(); mt.unpack(pack_rec(rt), 0, flow_mod=True)
        hit = bool(mt.matches_with_wildcards(pme, consider_other_wildcards=False))
        if hit and pme.nw_tos == 0: tos = True
        elif not hit and pme.nw_tos == 2: tos = False
        else: raise RuntimeError("ToS witness: match=%r extracted nw_tos=%r (neither known behaviour)" % (hit, pme.nw_tos))
        # RARP (0x8035) parsed with the library's ARP class: does from_packet take the ARP fields from it (fixes/C03_rarp_not_arp.diff: no)?
        rarp = bytes.fromhex("000000000002" "000000000001" "8035" "0001" "0800" "06" "04" "0003" "000000000001" "0a000001" "000000000000" "0a000002")
        pmr = of.ofp_match.from_packet(self.pkt.ethernet(rarp), 1, spec_frags=True)
        if pmr.nw_proto == 3 and pmr.nw_src is not None: self.rarp_as_arp = True
        elif pmr.nw_proto is None and pmr.nw_src is None and pmr.nw_dst is None: self.rarp_as_arp = False
        else: raise RuntimeError("from_packet on a RARP frame: nw_proto=%r nw_src=%r (neither known behaviour)" % (pmr.nw_proto, pmr.nw_src))
        # a complete TCP header whose first option has length 0 (the packet library rejects it): are the ports still extracted
        # (fixes/C03_tcp_ports_despite_bad_options.diff: yes)?
        badopt = bytes.fromhex("000000000002" "000000000001" "0800" "4500002e00074000400600000a0101010a020202" "0fa00050" "00000001" "00000000" "60020001" "00000000" "020005b4" "7879")
        pmt = of.ofp_match.from_packet(self.pkt.ethernet(badopt), 1, spec_frags=True)
        if pmt.tp_src is None and pmt.tp_dst is None: self.tcpopt_drops = True
        elif pmt.tp_src == 4000 and pmt.tp_dst == 80: self.tcpopt_drops = False
        else: raise RuntimeError("from_packet on a TCP segment with a zero-length option: tp_src=%r tp_dst=%r (neither known behaviour)" % (pmt.tp_src, pmt.tp_dst))
        return {"arpLow8": arp, "prereqExact": bool(nwp), "exactSig": bool(m2.is_exact), "tosDscp": tos, "arpTypeGuard": not self.rarp_as_arp}

    def shape_variant(self):
        """flag -> True/False when the source has one of the two known statement shapes, else None"""
        import ast, os
        out = {}
        try:
            tree = ast.parse(open(os.path.join(common.REPO, "pox/openflow/libopenflow_01.py")).read())
            cls = [n for n in tree.body if isinstance(n, ast.ClassDef) and n.name == "ofp_match"][0]
            fns = {f.name: f for f in cls.body if isinstance(f, ast.FunctionDef)}
        except Exception:
            return {k: None for k in self.VARIANT_SHAPES}
        for flag, (fn, shapes) in self.VARIANT_SHAPES.items():
            out[flag] = None
            if fn not in fns: continue
            if flag == "arpLow8":            # the body of `elif isinstance(p, arp):`
                node = [n for n in ast.walk(fns[fn]) if isinstance(n, ast.If) and ast.unparse(n.test).startswith("isinstance(p, arp)")]
                if len(node) != 1: continue
                text = "\n".join(ast.unparse(x) for x in node[0].body)
            else:
                stmts = [x for x in fns[fn].body if not (isinstance(x, ast.Expr) and isinstance(getattr(x, "value", None), ast.Constant))]
                text = "\n".join(ast.unparse(x) for x in stmts)
            hits = [k for k, shape in shapes.items() if text.startswith(shape)]
            if len(hits) == 1: out[flag] = hits[0]
        return out

    def detect_variant(self):
        probe, shape = self.probe_variant(), self.shape_variant()
        for k, v in shape.items():
            if v is not None and v != probe[k]:
                raise RuntimeError("ofp_match: the source has the %s shape of repair %s but behaves otherwise on the witness input" % (v, k))
        self.variant_source = {k: ("shape+probe" if shape.get(k) is not None else "probe") for k in probe}
        return [probe["arpLow8"], probe["prereqExact"], probe["exactSig"], probe["tosDscp"], probe["arpTypeGuard"]]

    def extra_evidence(self):
        names = {(False,) * 5: "Variant.head", (True, True, True, False, False): "Variant.repaired", (True, True, True, True, False): "Variant.full",
                 (True, True, True, True, True): "Variant.current"}
        return {"code_variant": dict(zip(["arpLow8", "prereqExact", "exactSig", "tosDscp", "arpTypeGuard"], self.variant)),
                "code_variant_name": names.get(tuple(self.variant), "(mixed)"), "code_variant_decided_by": self.variant_source,
                "tcp_ports_lost_on_rejected_options": self.tcpopt_drops,
                "strict_test_both_ways": self.strict_both_ways, "rarp_parsed_as_arp_feeds_from_packet": self.rarp_as_arp,
                "zero_mac_equals_none_in_address_class": self.zero_mac_eq_none}

    def compute_anchors(self):
        import ast, os
        out = []
        for rel, classes in self.ANCHORED.items():
            tree = ast.parse(open(os.path.join(common.REPO, rel)).read())
            for node in tree.body:
                if isinstance(node, ast.ClassDef) and node.name in classes:
                    for fn in node.body:
                        if isinstance(fn, ast.FunctionDef) and fn.name in classes[node.name]:
                            body = fn.body
                            if isinstance(body[0], ast.Expr) and isinstance(getattr(body[0], "value", None), ast.Constant) and isinstance(body[0].value.value, str):
                                body = body[1:]
                            out.append((rel, body[0].lineno, fn.end_lineno))
        return out

    def parse(self, hexframe):
        return self.pkt.ethernet(bytes.fromhex(hexframe))

    def packet(self, hexframe):
        """the packet OBJECT handed to the code under test for this frame: parsed from the bytes, or — when the case lists the frame under
        "built" — put together by hand with the packet library's classes and never serialised (no header of it has `parsed` set, none has `raw`)"""
        d = self._built.get(hexframe)
        return self.parse(hexframe) if d is None else self.build_obj(d)

    def phdr_of(self, e):
        """header tuple as the packet library parsed it + 'wf' (every header the types promise is there and parsed)"""
        P = self.pkt
        mac = lambda a: int.from_bytes(a.toRaw() if hasattr(a, "toRaw") else bytes(a), "big")
        ph = {"src": mac(e.src), "dst": mac(e.dst), "typ": e.type, "llc": None, "vlan": None, "l3": None}
        wf = bool(e.parsed)
        l2 = [wf]
        p = e.next
        t = e.type
        if isinstance(p, P.llc):
            wf = wf and p.parsed
            ph["llc"] = [int.from_bytes(p.oui, "big") if p.oui is not None else None, p.eth_type]
            t = p.eth_type if (p.oui == b"\0\0\0") else None
            p = p.next
        if isinstance(p, P.vlan):
            wf = wf and p.parsed
            ph["vlan"] = [p.id, p.pcp, p.eth_type]
            t = p.eth_type
            if t < 0x600: wf = False                       # tag followed by a length field: outside the spec transcription
            p = p.next
        elif t == 0x8100: wf = False                       # promised tag missing / truncated
        l2[0] = wf                                         # Ethernet / LLC / 802.1Q part complete
        if isinstance(p, P.ipv4):
            frag = bool((p.flags & p.MF_FLAG) or p.frag != 0)
            q, l4 = p.next, None
            if isinstance(q, (P.udp, P.tcp)): l4 = ["p", q.srcport, q.dstport]; wf = wf and q.parsed
            elif isinstance(q, P.icmp): l4 = ["i", q.type, q.code]; wf = wf and q.parsed
            elif p.protocol in (1, 6, 17) and not frag: wf = False
            ph["l3"] = ["ip", p.srcip.toUnsigned(), p.dstip.toUnsigned(), p.protocol, p.tos, frag, l4]
            wf = wf and p.parsed and t == 0x0800
        elif isinstance(p, P.arp):
            ph["l3"] = ["arp", p.opcode, p.protosrc.toUnsigned(), p.protodst.toUnsigned()]
            wf = wf and p.parsed and t == 0x0806
        elif t in (0x0800, 0x0806): wf = False             # promised L3 header missing
        return ph, (2 if wf else 1 if l2[0] else 0)

    def view(self, hexframe):
        """description of the frame given to model and standard + 'wf': read off the BYTES for complete frames — the packet library's
        idea of the frame is not consulted, so a library that takes the frame for something else is seen to disagree —, the library's
        parse only for incomplete ones (model-vs-code there; the standard is silent on the missing part)"""
        hit = self._view_cache.get(hexframe)
        if hit is not None: return hit
        ph, ok = raw_phdr(bytes.fromhex(hexframe))
        if ok:
            if self.tcpopt_drops and self.tcpopt_class(hexframe, ph): self._tcpopt_phs.add(common.canon(ph))
            r = (ph, 2)
        else:
            r = self.phdr_of(self.parse(hexframe))
        if len(self._view_cache) < 20000: self._view_cache[hexframe] = r
        return r

    def mview(self, hexframe):
        """the same as sent to the driver: the bytes themselves (hex) for complete frames — `Spec.Frame.parse` reads them there"""
        ph, ok = raw_phdr(bytes.fromhex(hexframe))
        if ok and self.rarp_as_arp and spec_headers(ph, 0)[DL_TYPE - 1] == 0x8035:
            # open finding extract:arp-fields-on-rarp (Lean: extract_rarp_defect): the tree takes ARP fields from what the library parses
            # with its arp class behind type 0x8035.  The model mirrors that when it is given the library's (irregular) description;
            # the standard still gets the bytes' (`view`), so the oracle reports the deviation.
            return self.phdr_of(self.parse(hexframe))[0]
        if ok and self.tcpopt_class(hexframe, ph):
            # open finding (extract|match|lookup):tcp-options-rejected (Lean: extract_tcp_options_defect): same arrangement — the model gets the
            # library's description (no transport object), the standard the bytes' (ports)
            return self.phdr_of(self.parse(hexframe))[0]
        return hexframe if ok else self.phdr_of(self.parse(hexframe))[0]

    def sview(self, hexframe, mv):
        """{"sphdr": bytes} when the model was given another description than the bytes' of a complete frame: the standard is evaluated on the bytes'"""
        if isinstance(mv, str): return {}
        return {"sphdr": hexframe} if raw_phdr(bytes.fromhex(hexframe))[1] else {}

    def tcpopt_class(self, hexframe, ph=None):
        """complete TCP segment (per its bytes) for which the packet library hands from_packet no tcp object — only while the probe finds
        that the tree loses the ports then"""
        if not self.tcpopt_drops: return False
        if ph is None:
            ph, ok = raw_phdr(bytes.fromhex(hexframe))
            if not ok: return False
        l3 = ph["l3"]
        if not (l3 is not None and l3[0] == "ip" and l3[3] == 6 and l3[6] is not None): return False
        try: lib = self.phdr_of(self.parse(hexframe))[0]
        except Exception: return False
        return lib["l3"] is not None and lib["l3"][0] == "ip" and lib["l3"][6] is None

    def views_of(self, m):
        """[wildcards, 12 attribute views] of a real ofp_match"""
        out = [m.wildcards]
        for name in F[1:]:
            v = getattr(m, name)
            if v is None: out.append(None)
            elif name in ("dl_src", "dl_dst"): out.append(int.from_bytes(v if isinstance(v, bytes) else v.toRaw(), "big"))
            elif name in ("nw_src", "nw_dst"): out.append(self.IPAddr(v).toUnsigned())
            else: out.append(int(v))
        return out

    def raw_of(self, m):
        """13 numbers describing a real ofp_match through its public attributes only: the wildcard word and the attribute views
        (a wildcarded field reads None -> 0; no test looks at the value of a wildcarded field)"""
        v = self.views_of(m)
        return [v[0]] + [0 if x is None else x for x in v[1:]]

    def real_match(self, spec):
        """spec: {'w': hex40} (unpack flow_mod=True) | {'loc': rec, 'force_w': bool} (built locally by attribute assignment)"""
        of = self.of
        m = of.ofp_match()
        if "w" in spec:
            m.unpack(bytes.fromhex(spec["w"]), 0, flow_mod=True)
            return m
        r = spec["loc"]
        for f in FLAG_FIELDS:
            if not wild(r, f):
                v = r[f]
                if f in (DL_SRC, DL_DST): v = self.EthAddr(v.to_bytes(6, "big"))
                setattr(m, F[f], v)
        sc, dc = (r[W] >> 8) & 63, (r[W] >> 14) & 63
        if sc < 32: m.nw_src = (self.IPAddr(r[NW_SRC].to_bytes(4, "big")), 32 - sc)
        if dc < 32: m.nw_dst = (self.IPAddr(r[NW_DST].to_bytes(4, "big")), 32 - dc)
        if spec.get("force_w"):
            m.wildcards = r[W]                             # plain attribute store: no normalisation (out-of-range counters stay)
            m._nw_src = self.IPAddr(r[NW_SRC].to_bytes(4, "big")); m._nw_dst = self.IPAddr(r[NW_DST].to_bytes(4, "big"))
        return m

    # -- the real API is driven in all its calling forms (positional / keyword, bytes / bytearray / offset), chosen from the case's content
    def _cv(self, case):
        import zlib
        return zlib.crc32(common.canon(case).encode())
    def _int(self, n):
        return int(str(n))                      # a value built at run time, never the object the table already holds
    def _unpack(self, hexw, form):
        m = self.of.ofp_match(); b = bytes.fromhex(hexw)
        if form % 3 == 0: m.unpack(b, 0, flow_mod=True)
        elif form % 3 == 1: m.unpack(raw=bytearray(b), offset=0, flow_mod=True)
        else: m.unpack(b"\xff\xff\xff" + b, 3, True)
        return m
    def _entry(self, prio, m, idle, hard, now, form, cookie=0, out=None):
        """cookie: carried into flow statistics (identifies the entry in a reply read from the wire); out: port of an output action"""
        prio = self._int(prio)
        acts = [] if out is None else [self.of.ofp_action_output(port=out)]
        if form % 2: return self.TableEntry(priority=prio, cookie=cookie, match=m, actions=acts, idle_timeout=idle, hard_timeout=hard, now=now)
        return self.TableEntry(prio, cookie, idle, hard, 0, m, acts, None, now)
    def _lookup(self, ft, e, port, form):
        return ft.entry_for_packet(e, port) if form % 2 else ft.entry_for_packet(packet=e, in_port=port)
    def _poke(self, m):
        """what applications do with match objects in between: hash (which locks the object), compare, print"""
        hash(m); m == m; str(m); m.show()

    # -- calls that only READ (HARDENING 10: the neighbouring feature is part of the input): statistics through the switch (requests built
    #    byte by byte, replies packed at send time and read from their bytes) or directly on the FlowTable, filtered and unfiltered,
    #    len / iteration / printing / per-entry reports, requests that do not concern the table.  Op shapes (tableops histories):
    #      ["q", "flow_stats" | "aggregate", "direct", ref, out_port]      ref: "all" (a fresh ofp_match()) | hex40 | "@j" (entry j's own match object)
    #      ["q", "matching", "direct", ref, out_port]                      matching_entries(strict=False)
    #      ["q", "len" | "entries" | "show", "direct"]   ["q", "overlap", "direct", hex40, priority]
    #      ["q", "flow_stats" | "aggregate", "switch", ref, out_port, table_id]   ["q", "table_stats", "switch"]   ["q", "other", "switch", which]
    class _Conn(object):
        """the switch's connection: what is sent is encoded at send time, as a socket would"""
        def __init__(self): self.sent, self.handler = [], None
        def set_message_handler(self, h): self.handler = h
        def send(self, msg): self.sent.append(bytes(msg) if isinstance(msg, (bytes, bytearray)) else msg.pack())

    ALLW = [0x3fffff] + [0] * 12

    def _stats_exchange(self, sw, conn, stype, body, xid):
        """an OFPST request from its bytes into the switch; -> bodies of the replies (bytes), in order"""
        of = self.of
        raw = struct.pack("!BBHL", 1, 16, 12 + len(body), xid) + struct.pack("!HH", stype, 0) + body
        m = of.ofp_stats_request(); m.unpack(raw)
        start = len(conn.sent)
        conn.handler(conn, m)
        out = []
        for r in conn.sent[start:]:
            if len(r) >= 12 and r[1] == 17 and be(r[4:8]) == xid and be(r[8:10]) == stype: out.append(r[12:be(r[2:4])])
        return out

    def _query(self, ft, sw, conn, ents, idx, op, form, now):
        """carry out one read-only call; -> its canonical answer (what the model's `TableOps.answer` is compared with)"""
        of = self.of
        what, via = op[1], op[2]
        canon_ids = lambda es: sorted((idx.get(id(e), "foreign-object") for e in es), key=lambda x: (isinstance(x, str), x))
        def mobj(ref):
            if ref == "all": return of.ofp_match()
            if ref.startswith("@"): return ents[int(ref[1:])].match
            return self._unpack(ref, form)
        if via == "direct":
            if what == "flow_stats":
                m = mobj(op[3])
                r = ft.flow_stats(m, op[4], now) if form % 2 else ft.flow_stats(match=m, out_port=op[4], now=now)
                for x in r: x.pack()
                return sorted(int(x.cookie) for x in r)
            if what == "aggregate":
                m = mobj(op[3])
                r = ft.aggregate_stats(m, op[4]) if form % 2 else ft.aggregate_stats(match=m, out_port=op[4])
                r.pack()
                return int(r.flow_count)
            if what == "matching":
                m = mobj(op[3])
                r = ft.matching_entries(m, 0, False, op[4]) if form % 2 else ft.matching_entries(match=m, strict=False, out_port=op[4])
                return canon_ids(r)
            if what == "len":
                n = len(ft); bool(ft)
                return n
            if what == "entries":
                a = [idx.get(id(e), "foreign-object") for e in ft.entries]
                list(ft.entries); tuple(ft.entries); sorted(ft.entries, key=lambda e: e.priority); list(reversed(ft.entries))
                for e in list(ft.entries): (e in ft.entries); ft.entries.index(e); ft.entries.count(e)
                if len(ft): ft.entries[0]; ft.entries[-1]; ft.entries[:]
                return a
            if what == "show":
                for e in list(ft.entries):
                    str(e); repr(e); e.show(); e.effective_priority; e.is_expired(now); e.is_idle_timed_out(now); e.is_hard_timed_out(now)
                    e.flow_stats(now).pack(); e.to_flow_mod().pack(); e.to_flow_removed(now, reason=0).pack()
                    e.match.show(); e.match.pack(); e.match.is_exact; e.match.is_wildcarded; hash(e.match); e.match == of.ofp_match()
                    e.is_matched_by(of.ofp_match()); e.is_matched_by(e.match, e.priority, True); e.match.get_nw_src(); e.match.get_nw_dst()
                return None
            if what == "overlap":
                ft.check_for_overlapping_entry(self._entry(op[4], self._unpack(op[3], form), 0, 0, now, form))
                return None
            raise ValueError(what)
        if sw is None: raise ValueError("switch query on a bare table")
        xid = 0x51000000 + form % 0x10000
        if what in ("flow_stats", "aggregate"):
            rec = self.ALLW if op[3] == "all" else unpack_rec(bytes.fromhex(op[3]))
            body = pack_rec(rec) + struct.pack("!BBH", op[5], 0, 0xffff if op[4] is None else op[4])
            rs = self._stats_exchange(sw, conn, 1 if what == "flow_stats" else 2, body, xid)
            if not rs: return "no-reply"
            if what == "aggregate": return be(rs[0][16:20]) if len(rs[0]) >= 24 else "short-reply"
            got = []
            for b in rs:
                o = 0
                while o + 88 <= len(b):
                    ln = be(b[o:o + 2])
                    if ln < 88: return "short-entry"
                    got.append(be(b[o + 64:o + 72])); o += ln
            return sorted(got)
        if what == "table_stats":
            rs = self._stats_exchange(sw, conn, 3, b"", xid)
            return be(rs[0][44:48]) if rs and len(rs[0]) >= 64 else "no-reply"
        if what == "other":
            w = op[3]
            if w.startswith("port"):
                self._stats_exchange(sw, conn, 4, struct.pack("!H6x", {"port_all": 0xffff, "port_1": 1, "port_77": 77}[w]), xid)
            elif w == "desc": self._stats_exchange(sw, conn, 0, b"", xid)
            elif w == "queue": self._stats_exchange(sw, conn, 5, struct.pack("!HxxL", 0xfffc, 0xffffffff), xid)
            else:
                cls = {"features": of.ofp_features_request, "config": of.ofp_get_config_request, "barrier": of.ofp_barrier_request, "echo": of.ofp_echo_request}[w]
                raw = cls(xid=xid).pack()
                m = cls(); m.unpack(raw); conn.handler(conn, m)
            return None
        raise ValueError(what)

    def _q_model(self, case, op):
        """the model's form of a read-only op (Drivers/C03.lean `"q"`)"""
        what = op[1]
        if what in ("flow_stats", "aggregate", "matching"):
            if op[2] == "switch" and op[5] not in (0xff, 0): return ["q", "other"]          # another table: no flows
            ref = op[3]
            while ref.startswith("@"): ref = [o for o in case["ops"] if o[0] == "add" and o[1] == int(ref[1:])][0][3]
            return ["q", "select", self.ALLW if ref == "all" else unpack_rec(bytes.fromhex(ref)), op[4]]
        return ["q", "other"] if what == "other" else ["q", "all"]

    @staticmethod
    def _q_answer(op, sel):
        """canonical answer from the entries the model's query reports on (ids, table order)"""
        what = op[1]
        if what in ("flow_stats", "matching"): return sorted(sel)
        if what in ("aggregate", "len", "table_stats"): return len(sel)
        if what == "entries": return list(sel)
        return None

    def impl(self, case):
        self._built = case.get("built") or {}
        try: return self._impl(case)
        finally: self._built = {}

    def _impl(self, case):
        k = case["kind"]
        if k == "resubmit": return self.impl_resubmit(case)
        if k == "pairs":
            e = self.packet(case["frame"])
            ph, wf = self.view(case["frame"])
            if case.get("via_packet_in"):       # from_packet's other entry: an ofp_packet_in carrying the frame
                pm = self.of.ofp_match.from_packet(self.of.ofp_packet_in(in_port=case["port"], data=bytes.fromhex(case["frame"])), spec_frags=True)
            else:
                pm = self.of.ofp_match.from_packet(e, case["port"], spec_frags=True)
            res, recs = [], []
            for ms in case["matches"]:
                m = self.real_match(ms)
                recs.append(unpack_rec(bytes.fromhex(ms["w"])) if "w" in ms else self.raw_of(m))
                try:
                    r = bool(m.matches_with_wildcards(pm, consider_other_wildcards=False))
                except Exception as ex:
                    r = "exc:" + type(ex).__name__
                res.append([m.wildcards, (1 if r else 0) if isinstance(r, bool) else r])
            return {"phdr": ph, "wf": wf, "pm": self.views_of(pm), "res": res, "recs": recs}
        if k == "subsume":
            res = []
            for pr in case["pairs"]:
                a, b = self.real_match(pr["a"]), self.real_match(pr["b"])
                try:
                    r = 1 if a.matches_with_wildcards(b) else 0
                    lenient = 1 if a.matches_with_wildcards(b, False) else 0          # the lenient test in between must not change the strict one
                    r2 = 1 if a.matches_with_wildcards(other=b, consider_other_wildcards=True) else 0
                except Exception as ex: r = lenient = r2 = "exc:" + type(ex).__name__
                res.append([r, 1 if a == b else 0, lenient, r2])
            return {"res": res}
        if k == "table":
            cv = self._cv(case)
            sw = self.SoftwareSwitch(dpid=1, name="c03", ports=4) if case.get("via_switch") else None
            ft = sw.table if sw else self.FlowTable()
            ents, idx = [], {}
            for i, (prio, w) in enumerate(case["entries"]):
                m = self._unpack(w, cv + i)
                if (cv + i) % 3 == 0: self._poke(m)
                te = self._entry(prio, m, 0, 0, 0, cv + i)
                idx[id(te)] = i
                ents.append(te)
                ft.add_entry(te) if (cv + i) % 2 else ft.add_entry(entry=te)
            order = [idx.get(id(te), "foreign-object") for te in ft.entries]
            eff = [te.effective_priority for te in ft.entries]
            exact = [1 if te.match.is_exact else 0 for te in ents]
            twin = None
            if case.get("twin"):                # a second table in the same process, priorities in reverse: the two must not share anything
                ftb, idxb = self.FlowTable(), {}
                prios = [p for p, _ in case["entries"]][::-1]
                for i, (prio, (_, w)) in enumerate(zip(prios, case["entries"])):
                    te = self._entry(prio, self._unpack(w, cv), 0, 0, 0, cv); idxb[id(te)] = i; ftb.add_entry(te)
                twin = []
            lookups, rx, phs, wfs, pk = [], [], [], [], {}
            for n, fr in enumerate(case["frames"]):
                if fr["frame"] not in pk: pk[fr["frame"]] = self.packet(fr["frame"])
                e = pk[fr["frame"]]             # the same packet object again when a frame is looked up again
                ph, wf = self.view(fr["frame"])
                phs.append(ph); wfs.append(wf)
                if twin is not None:
                    tb = ftb.entry_for_packet(e, fr["port"]); twin.append(None if tb is None else idxb.get(id(tb), "foreign-object"))
                te = self._lookup(ft, e, fr["port"], cv + n)
                lookups.append(None if te is None else idx.get(id(te), "foreign-object"))
                if (cv + n) % 4 == 0:
                    for x in ents[:3]: self._poke(x.match)
                if sw:
                    before = [x.packet_count for x in ents]
                    sw.rx_packet(e, fr["port"], packet_data=bytes.fromhex(fr["frame"]))
                    hit = [i for i, x in enumerate(ents) if x.packet_count != before[i]]
                    rx.append(hit[0] if len(hit) == 1 else (None if not hit else "many"))
            codematch = []          # which entries the code itself accepts, per frame (used only to classify a lookup failure)
            for fr in case["frames"]:
                pm = self.of.ofp_match.from_packet(self.parse(fr["frame"]), fr["port"], spec_frags=True)
                codematch.append([1 if te.match.matches_with_wildcards(pm, consider_other_wildcards=False) else 0 for te in ents])
            fresh = twin_fresh = None
            if case.get("seq"):                 # the same lookups, each on its own fresh copy of the table and a fresh packet object
                def alone(entries, fr):
                    ft2, ix = self.FlowTable(), {}
                    for i, (prio, w) in enumerate(entries):
                        m = self.of.ofp_match(); m.unpack(bytes.fromhex(w), 0, flow_mod=True)
                        te = self.TableEntry(priority=prio, match=m, actions=[], now=0); ix[id(te)] = i
                        ft2.add_entry(te)
                    te = ft2.entry_for_packet(self.packet(fr["frame"]), fr["port"])
                    return None if te is None else ix.get(id(te), "foreign-object")
                fresh = [alone(case["entries"], fr) for fr in case["frames"]]
                if twin is not None:
                    tw = [[p, w] for p, (_, w) in zip([p for p, _ in case["entries"]][::-1], case["entries"])]
                    twin_fresh = [alone(tw, fr) for fr in case["frames"]]
            return {"order": order, "eff": eff, "exact": exact, "lookups": lookups, "rx": rx if sw else None, "phdrs": phs, "wfs": wfs, "codematch": codematch,
                    "fresh": fresh, "twin": twin, "twin_fresh": twin_fresh}
        if k == "selfflow":
            e = self.packet(case["frame"])
            ph, wf = self.view(case["frame"])
            m = self.of.ofp_match.from_packet(e, case["port"], spec_frags=case["sf"])
            if case.get("rawmac"): m.dl_src = e.src.toRaw(); m.dl_dst = e.dst.toRaw()   # addresses given as raw bytes
            for i in case.get("blank", ()): setattr(m, F[i], None)            # the controller wildcards some fields again
            wire = m.pack(flow_mod=True)
            m2 = self.of.ofp_match(); m2.unpack(wire, 0, flow_mod=True)
            pm = self.of.ofp_match.from_packet(e, case["swport"], spec_frags=True)
            return {"phdr": ph, "wf": wf, "m": self.views_of(m), "wire": unpack_rec(wire), "m2w": m2.wildcards,
                    "hit": 1 if m2.matches_with_wildcards(pm, consider_other_wildcards=False) else 0, "exact": 1 if m2.is_exact else 0}
        if k == "tableops":
            cv = self._cv(case)
            sw = conn = None
            if case.get("sw"):                  # the table of a switch with a connection: statistics requests go through its handlers
                sw = self.SoftwareSwitch(dpid=1, name="c03", ports=4); conn = self._Conn(); sw.set_connection(conn)
                ft = sw.table
            else: ft = self.FlowTable()
            ents, idx, trace, looks, pk = {}, {}, [], [], {}
            ids = lambda: [idx.get(id(te), "foreign-object") for te in ft.entries]
            clock = 1.0
            for n, op in enumerate(case["ops"]):
                raised = 0
                try:
                    if op[0] == "add":
                        i, prio, w, idle, hard, now = op[1:7]
                        clock = max(clock, now / 1000.0)
                        m = ents[int(w[1:])].match if w.startswith("@") else self._unpack(w, cv + n)      # "@j": the very match object of entry j again
                        if (cv + n) % 5 == 0: self._poke(m)
                        te = self._entry(prio, m, idle, hard, now / 1000.0, cv + n, cookie=i, out=op[7] if len(op) > 7 else None)
                        idx[id(te)] = i
                        ents[i] = te
                        ft.add_entry(te)
                    elif op[0] == "q":
                        try: ans, qr = self._query(ft, sw, conn, ents, idx, op, cv + n, clock), 0
                        except Exception as ex: ans, qr = None, type(ex).__name__
                        trace.append(["q", qr, ids(), ans])
                        continue
                    elif op[0] == "remove":
                        ft.remove_entry(ents[op[1]]) if (cv + n) % 2 else ft.remove_entry(entry=ents[op[1]])
                    elif op[0] == "rm_match":
                        m = self._unpack(op[1], cv + n)
                        if (cv + n) % 2: ft.remove_matching_entries(m, self._int(op[2]), bool(op[3]))
                        else: ft.remove_matching_entries(match=m, priority=self._int(op[2]), strict=bool(op[3]))
                    elif op[0] == "expire":
                        clock = max(clock, op[1] / 1000.0)
                        ft.remove_expired_entries(op[1] / 1000.0) if (cv + n) % 2 else ft.remove_expired_entries(now=op[1] / 1000.0)
                    elif op[0] == "lookup":
                        if op[1] not in pk: pk[op[1]] = self.packet(op[1])
                        e = pk[op[1]]
                        ph, wf = self.view(op[1])
                        pm = self.of.ofp_match.from_packet(self.parse(op[1]), op[2], spec_frags=True)
                        present = [i for i in ids() if i in ents]
                        looks.append({"phdr": ph, "wf": wf, "present": present,
                                      "codematch": {str(i): 1 if ents[i].match.matches_with_wildcards(pm, consider_other_wildcards=False) else 0 for i in present}})
                        te = self._lookup(ft, e, op[2], cv + n)
                        trace.append(["l", None if te is None else idx.get(id(te), "foreign-object")])
                        if sw is not None:      # the same frame through the switch's data path: which entry's counter moved
                            before = {i: x.packet_count for i, x in ents.items()}
                            try:
                                sw.rx_packet(e, op[2], packet_data=bytes.fromhex(op[1]))
                                hit = [i for i, x in ents.items() if x.packet_count != before[i]]
                                looks[-1]["rx"] = [hit[0] if len(hit) == 1 else (None if not hit else "many")]
                            except Exception as ex:
                                looks[-1]["rx"] = ["raised " + type(ex).__name__]
                        continue
                    else: raise ValueError(op[0])
                except Exception as ex:
                    # `remove_entry` of an object that is not in the table raises ValueError (1); anything else a table call raises is reported by name
                    raised = 1 if (op[0] == "remove" and isinstance(ex, ValueError)) else type(ex).__name__
                    if op[0] == "lookup":
                        trace.append(["l", "raised " + type(ex).__name__]); continue
                trace.append(["t", raised, ids()])
            return {"trace": trace, "looks": looks, "lookups": [t[1] for t in trace if t[0] == "l"]}
        raise ValueError(k)

    # -- frames as the switch itself hands them to the table: after the rewrite actions of a packet_out that ends in output:OFPP_TABLE (frame
    #    given as data, or the buffer id of an earlier packet-in), or as the packet OBJECT one switch emitted received by the next one.
    #    case: {"kind":"resubmit","entries":[[priority, hex40]...],"steps":[{"frame":hex,"port":in_port,"acts":[[name, value]...],"via":"data"|"buffer"|"chain"|"rx"}...]}
    #    What the looked-up frame IS is read off the bytes that leave the switch afterwards (every entry outputs to port 5; a miss sends a
    #    packet-in with the whole frame): the actions' own semantics (C12's subject) are not presumed.
    OUT_PORT = 5

    def mk_action(self, a):
        of = self.of; k, v = a[0], (a[1] if len(a) > 1 else None)
        if k == "set_vlan_vid": return of.ofp_action_vlan_vid(vlan_vid=v)
        if k == "set_vlan_pcp": return of.ofp_action_vlan_pcp(vlan_pcp=v)
        if k == "strip_vlan": return of.ofp_action_strip_vlan()
        if k == "set_dl_src": return of.ofp_action_dl_addr.set_src(self.EthAddr(bytes.fromhex(v)))
        if k == "set_dl_dst": return of.ofp_action_dl_addr.set_dst(self.EthAddr(bytes.fromhex(v)))
        if k == "set_nw_src": return of.ofp_action_nw_addr.set_src(self.IPAddr(struct.pack("!I", v)))
        if k == "set_nw_dst": return of.ofp_action_nw_addr.set_dst(self.IPAddr(struct.pack("!I", v)))
        if k == "set_nw_tos": return of.ofp_action_nw_tos(nw_tos=v)
        if k == "set_tp_src": return of.ofp_action_tp_port.set_src(v)
        if k == "set_tp_dst": return of.ofp_action_tp_port.set_dst(v)
        raise ValueError(k)

    def impl_resubmit(self, case):
        of = self.of
        cv = self._cv(case)
        def switch():
            sw = self.SoftwareSwitch(dpid=1, name="c03", ports=self.OUT_PORT); conn = self._Conn(); sw.set_connection(conn)
            return sw, conn
        def to_switch(conn, msg):                # over the wire: packed, unpacked into a fresh message object
            raw = msg.pack(); m = type(msg)(); m.unpack(raw); conn.handler(conn, m)
        sw, conn = switch()
        to_switch(conn, of.ofp_set_config(miss_send_len=0xffff))
        ents, idx = [], {}
        for i, (prio, w) in enumerate(case["entries"]):
            te = self._entry(prio, self._unpack(w, cv + i), 0, 0, 0, cv + i, cookie=i, out=self.OUT_PORT)
            idx[id(te)] = i; ents.append(te)
            sw.table.add_entry(te)
        order = [idx.get(id(te), "foreign-object") for te in sw.table.entries]
        eff = [te.effective_priority for te in sw.table.entries]
        exact = [1 if te.match.is_exact else 0 for te in ents]
        emitted = []
        sw.addListener(self.DpPacketOut, lambda ev: emitted.append(ev.packet.pack()))          # serialised at the moment it leaves
        up = None
        steps = []
        for n, st in enumerate(case["steps"]):
            frame, port = bytes.fromhex(st["frame"]), st["port"]
            acts = [self.mk_action(a) for a in st["acts"]]
            before = [x.packet_count for x in ents]
            del emitted[:]
            start = len(conn.sent)
            raised = None
            try:
                if st["via"] == "data":
                    to_switch(conn, of.ofp_packet_out(in_port=port, data=frame, actions=acts + [of.ofp_action_output(port=of.OFPP_TABLE)]))
                elif st["via"] == "buffer":
                    to_switch(conn, of.ofp_packet_out(in_port=port, data=frame, actions=[of.ofp_action_output(port=of.OFPP_CONTROLLER, max_len=0xffff)]))
                    pins = [r for r in conn.sent[start:] if len(r) >= 18 and r[1] == 10 and r[16] == 1]
                    bid = be(pins[-1][8:12]) if pins else 0xffffffff
                    start = len(conn.sent)
                    to_switch(conn, of.ofp_packet_out(in_port=port, buffer_id=bid, actions=acts + [of.ofp_action_output(port=of.OFPP_TABLE)]))
                elif st["via"] == "chain":            # rewritten and sent out by an upstream switch; its packet OBJECT is what this one receives
                    if up is None:
                        up = switch(); up[0].addListener(self.DpPacketOut, lambda ev: handed.append(ev.packet))
                    handed = []
                    to_switch(up[1], of.ofp_packet_out(in_port=port, data=frame, actions=acts + [of.ofp_action_output(port=self.OUT_PORT)]))
                    for pk in handed[:1]: sw.rx_packet(pk, port)
                elif st["via"] == "rx":               # no rewriting: the frame arrives (reference point of the family)
                    sw.rx_packet(self.packet(st["frame"]), port, packet_data=frame)
                else: raise ValueError(st["via"])
            except Exception as ex:
                raised = type(ex).__name__
            hit = [i for i, x in enumerate(ents) if x.packet_count != before[i]]
            used = hit[0] if len(hit) == 1 else (None if not hit else "many")
            out = None
            if len(emitted) == 1: out = emitted[0]
            elif not emitted:
                pins = [r for r in conn.sent[start:] if len(r) >= 18 and r[1] == 10 and r[16] == 0 and be(r[2:4]) == len(r)]
                if len(pins) == 1 and be(pins[0][12:14]) == len(pins[0]) - 18: out = pins[0][18:]
            rec = {"used": used, "raised": raised, "left": None if out is None else out.hex(), "n_out": len(emitted), "phdr": None, "wf": 0, "codematch": None}
            if out is not None:
                try:
                    rec["phdr"], rec["wf"] = self.view(out.hex())
                    pm = of.ofp_match.from_packet(self.parse(out.hex()), port, spec_frags=True)
                    rec["codematch"] = [1 if te.match.matches_with_wildcards(pm, consider_other_wildcards=False) else 0 for te in ents]
                except Exception:
                    rec["phdr"], rec["wf"] = None, 0
            steps.append(rec)
        return {"order": order, "eff": eff, "exact": exact, "steps": steps, "lookups": [r["used"] for r in steps]}

    # ---------------------------------------------------------------- model side
    def model_request(self, case):
        r = self._model_request(case)
        if r is not None: r["v"] = self.variant
        return r

    def model_request2(self, case, obs):
        """resubmit: the model is given the frames the switch was SEEN to hand to its table (the bytes that left it), as a `table` request"""
        if case["kind"] != "resubmit": return None
        frames = []
        self._resubmit_frames[self._cv(case)] = [(r["left"], st["port"]) for st, r in zip(case["steps"], obs["steps"]) if r["wf"] >= 2]
        for st, r in zip(case["steps"], obs["steps"]):
            if r["wf"] < 2: continue
            mv = self.mview(r["left"])
            frames.append(dict({"phdr": mv, "port": st["port"]}, **self.sview(r["left"], mv)))
        return {"op": "table", "entries": [[p, unpack_rec(bytes.fromhex(w))] for p, w in case["entries"]], "frames": frames, "v": self.variant}

    def _model_request(self, case):
        k = case["kind"]
        if k == "resubmit": return None
        if k == "pairs":
            ph = self.mview(case["frame"])
            sp = self.sview(case["frame"], ph)
            ms = []
            for s in case["matches"]:
                if "w" in s: ms.append({"rec": unpack_rec(bytes.fromhex(s["w"])), "wire": True})
                else: ms.append({"rec": self.raw_of(self.real_match(s)), "wire": False})
            return dict({"op": "pairs", "phdr": ph, "port": case["port"], "matches": ms}, **sp)
        if k == "subsume":
            ps = []
            for pr in case["pairs"]:
                if "w" in pr["a"]:
                    ps.append({"a": unpack_rec(bytes.fromhex(pr["a"]["w"])), "b": unpack_rec(bytes.fromhex(pr["b"]["w"])), "wire": True})
                else:
                    ps.append({"a": self.raw_of(self.real_match(pr["a"])), "b": self.raw_of(self.real_match(pr["b"])), "wire": False})
                if self.zero_mac_eq_none:
                    # pox.lib.addresses: EthAddr(None) is the all-zero address, so EthAddr("00:00:00:00:00:00") == None.  In the LENIENT test
                    # a.matches_with_wildcards(b, consider_other_wildcards=False) a specified all-zero MAC in `a` therefore passes against a
                    # wildcarded (None) MAC in `b` — as if `a` had wildcarded the field.  The switch never evaluates that: entry_for_packet
                    # passes a packet's match, whose MACs are always assigned, and the strict form rejects the pair on the wildcard bits
                    # first.  The lenient test on two flow matches is a correspondence-only observable here; the quirk (probed in setup,
                    # gone as soon as the address class stops equating zero with None) is mirrored on the model's INPUT, not in the model.
                    a, b = ps[-1]["a"], ps[-1]["b"]
                    a2 = list(a)
                    for f in (DL_SRC, DL_DST):
                        if not wild(a, f) and a[f] == 0 and wild(b, f): a2[W] |= 1 << BIT[f]
                    if a2 != a: ps[-1]["a2"] = a2
            return {"op": "subsume", "pairs": ps}
        if k == "table":
            frames = []
            for fr in case["frames"]:
                mv = self.mview(fr["frame"])
                frames.append(dict({"phdr": mv, "port": fr["port"]}, **self.sview(fr["frame"], mv)))
            return {"op": "table", "entries": [[p, unpack_rec(bytes.fromhex(w))] for p, w in case["entries"]], "frames": frames}
        if k == "selfflow":
            mv = self.mview(case["frame"])
            return dict({"op": "selfflow", "phdr": mv, "port": case["port"], "swport": case["swport"], "sf": bool(case["sf"]),
                         "blank": list(case.get("blank", ()))}, **self.sview(case["frame"], mv))
        if k == "tableops":
            ops = []
            for op in case["ops"]:
                if op[0] == "add":
                    w = op[3]
                    while w.startswith("@"): w = [o for o in case["ops"] if o[0] == "add" and o[1] == int(w[1:])][0][3]
                    ops.append(["add", op[1], op[2], unpack_rec(bytes.fromhex(w)), op[4], op[5], op[6], op[7] if len(op) > 7 else None])
                elif op[0] == "q": ops.append(self._q_model(case, op))
                elif op[0] == "rm_match": ops.append(["rm_match", unpack_rec(bytes.fromhex(op[1])), op[2], bool(op[3])])
                elif op[0] == "lookup": ops.append(["lookup", self.mview(op[1]), op[2]])
                else: ops.append(list(op))
            return {"op": "tableops", "ops": ops, "sm": self.strict_both_ways}

    # -- what OpenFlow 1.0 (3.4: "if multiple entries have the same priority, the switch is free to choose any ordering") and the property leave
    #    open is taken out of BOTH sides of the model comparison: the table is compared as the sequence of its runs of equal effective priority
    #    (order between runs exact, a run as a set), and a lookup that returned one of several matching entries of ONE rank as the smallest id
    #    among them.  Everything else stays exact: another rank, a non-matching entry, a miss are never identified with anything.
    @staticmethod
    def _runs(ids, key):
        out = []
        for i in ids:
            k = key(i) if isinstance(i, int) else "foreign"
            if out and out[-1][0] == k and k != "foreign": out[-1][1].append(i)
            else: out.append([k, [i]])
        return [[k, sorted(g, key=lambda x: (isinstance(x, str), x))] for k, g in out]

    @staticmethod
    def _tie(got, present, rank, recs, ph, port):
        """got, unless it is one of several present entries of its own rank that match the frame by the standard: then the smallest of those"""
        if not isinstance(got, int) or isinstance(got, bool) or got not in rank: return got
        peers = [i for i in present if isinstance(i, int) and i in rank and rank[i] == rank[got]]
        if len(peers) < 2 or got not in peers: return got
        h = spec_headers(ph, port)
        T = [i for i in peers if spec_match(recs[i], h)]
        return min(T) if got in T else got

    def _canon_table(self, case, v, frames):
        """frames: [(hexframe, port)] in the order of v["lookups"]"""
        recs = {i: unpack_rec(bytes.fromhex(w)) for i, (_, w) in enumerate(case["entries"])}
        rank = {i: spec_rank_sig(case["entries"][i][0], r) for i, r in recs.items()}
        present = list(recs)
        v = dict(v)
        effs = dict(zip([x for x in v["order"]], v["eff"])) if len(v["order"]) == len(v["eff"]) else {}
        v["order"] = self._runs(v["order"], lambda i: effs.get(i, "?"))
        for kk in ("lookups", "rx"):
            if kk in v and v[kk] is not None and len(v[kk]) == len(frames):
                v[kk] = [self._tie(g, present, rank, recs, self.view(fr)[0], port) for g, (fr, port) in zip(v[kk], frames)]
        return v

    def _canon_trace(self, case, trace):
        wire_of = {}
        for op in case["ops"]:
            if op[0] == "add": wire_of[op[1]] = wire_of[int(op[3][1:])] if op[3].startswith("@") else op[3]
        recs = {op[1]: unpack_rec(bytes.fromhex(wire_of[op[1]])) for op in case["ops"] if op[0] == "add"}
        rank = {op[1]: spec_rank_sig(op[2], recs[op[1]]) for op in case["ops"] if op[0] == "add"}
        key = lambda i: rank.get(i, "?")
        out, present = [], []
        for op, t in zip(case["ops"], trace):
            if t[0] == "t":
                present = t[2]; out.append(["t", t[1], self._runs(t[2], key)])
            elif t[0] == "q":
                present = t[2]
                ans = self._runs(t[3], key) if (op[1] == "entries" and isinstance(t[3], list)) else t[3]
                out.append(["q", t[1], self._runs(t[2], key), ans])
            elif t[0] == "l" and op[0] == "lookup":
                out.append(["l", self._tie(t[1], present, rank, recs, self.view(op[1])[0], op[2])])
            else: out.append(t)
        return out + list(trace[len(out):])

    def impl_view(self, case, obs):
        k = case["kind"]
        if k == "pairs":
            ph = obs["phdr"]
            h = spec_headers(ph, case["port"])
            # the Python transcription of the standard rides along so that it is compared with Lean's Spec on every case
            return {"pm": obs["pm"], "res": obs["res"], "hdr": h, "spec": [1 if spec_match(r, h) else 0 for r in obs["recs"]] if self._wire(case) else None}
        if k == "subsume":
            return {"res": obs["res"]}
        if k == "table":
            recs = [unpack_rec(bytes.fromhex(w)) for _, w in case["entries"]]
            spec = [[1 if spec_match(r, spec_headers(ph, fr["port"])) else 0 for r in recs] for ph, fr in zip(obs["phdrs"], case["frames"])]
            v = {"order": obs["order"], "eff": obs["eff"], "exact": obs["exact"], "lookups": obs["lookups"], "spec": spec,
                 "rank": [spec_rank_sig(p, r) for (p, _), r in zip(case["entries"], recs)]}
            if obs["rx"] is not None: v["rx"] = obs["rx"]
            return self._canon_table(case, v, [(fr["frame"], fr["port"]) for fr in case["frames"]])
        if k == "tableops":
            return {"trace": self._canon_trace(case, obs["trace"])}
        if k == "resubmit":
            recs = [unpack_rec(bytes.fromhex(w)) for _, w in case["entries"]]
            done = [(st, r) for st, r in zip(case["steps"], obs["steps"]) if r["wf"] >= 2]
            v = {"order": obs["order"], "eff": obs["eff"], "exact": obs["exact"], "lookups": [r["used"] for _, r in done],
                 "spec": [[1 if spec_match(rr, spec_headers(r["phdr"], st["port"])) else 0 for rr in recs] for st, r in done],
                 "rank": [spec_rank_sig(p, rr) for (p, _), rr in zip(case["entries"], recs)]}
            return self._canon_table(case, v, [(r["left"], st["port"]) for st, r in done])
        if k == "selfflow":
            return {kk: obs[kk] for kk in ("m", "wire", "m2w", "hit", "exact")} | {"spec": 1 if spec_match(obs["wire"], spec_headers(obs["phdr"], case["swport"])) else 0}

    def _wire(self, case):
        return all("w" in s for s in case["matches"])

    def model_obs(self, case, resp):
        if "error" in resp: return resp
        k = case["kind"]
        if k == "pairs":
            return {"pm": resp["pm"], "res": [[a, b] for a, b, _ in resp["res"]], "hdr": resp["hdr"],
                    "spec": [c for _, _, c in resp["res"]] if self._wire(case) else None}
        if k == "subsume":
            return {"res": [[a, c, d, a] for a, _, c, d in resp["res"]]}
        if k == "table":
            v = {kk: resp[kk] for kk in ("order", "eff", "exact", "lookups", "spec", "rank")}
            if case.get("via_switch"): v["rx"] = resp["lookups"]
            return self._canon_table(case, v, [(fr["frame"], fr["port"]) for fr in case["frames"]])
        if k == "tableops":
            return {"trace": self._canon_trace(case, [["q", t[1], t[2], self._q_answer(op, t[3])] if t[0] == "q" else t for op, t in zip(case["ops"], resp["trace"])])}
        if k == "resubmit":
            v = {kk: resp[kk] for kk in ("order", "eff", "exact", "lookups", "spec", "rank")}
            return self._canon_table(case, v, self._resubmit_frames.get(self._cv(case), []))
        if k == "selfflow":
            return {kk: resp[kk] for kk in ("m", "wire", "m2w", "hit", "exact", "spec")}

    # ---------------------------------------------------------------- the property, on the real code's observables
    def _classify(self, r, h, got, ph):
        """which known deviation (if any) explains the code answering `got` where the standard says `not got`"""
        l3 = ph["l3"]
        tp_present = l3 is not None and l3[0] == "ip" and (l3[5] or l3[6] is not None)
        ecn = (l3[4] & 3) if (l3 is not None and l3[0] == "ip") else 0
        # a deviation is only offered as explanation when the input is syntactically in its input class
        base = []
        if (wild(r, DL_TYPE) and r[DL_TYPE] in (0x0800, 0x0806)) or (wild(r, PROTO) and r[DL_TYPE] == 0x0800 and r[PROTO] in (1, 6, 17)):
            base.append("rawprereq")
        if (r[TOS] & 3) or ecn: base.append("tos8")
        if any(k < 32 and r[f] & ((1 << k) - 1) for f, k in ((NW_SRC, ign_src(r)), (NW_DST, ign_dst(r)))): base.append("hostbits")
        for n in (1, 2, 3):
            for combo in _combos(base, n):
                v = set(combo)
                if "rawprereq" in v and tp_present: v.add("tp_present")
                if "tos8" in v: v.add("ecn=%d" % ecn)
                if spec_match(r, h, frozenset(v)) == got:
                    return "+".join(combo)
        if ph["llc"] is not None and ph["llc"][0] == 0:       # SNAP header not recognised: 802.3 frame without SNAP, nothing behind it
            ph2 = dict(ph, llc=[None, ph["llc"][1]], vlan=None, l3=None)
            if spec_match(r, spec_headers(ph2, h[0]), frozenset()) == got: return "snap-not-recognised"
        return "unexplained"

    def oracle(self, case, obs):
        if case.get("corr_only"): return None              # model-vs-code tie on inputs whose oracle failure is reported by a twin case
        k = case["kind"]
        if k == "pairs":
            if not obs["wf"]: return None                  # standard silent about truncated headers
            ph = obs["phdr"]
            h = spec_headers(ph, case["port"])
            pm = obs["pm"]
            for i, name in enumerate(F[1:]):
                if i >= 6 and obs["wf"] < 2: break          # L3/L4 part truncated: only the layer-2 fields are checked
                got = pm[i + 1]
                want = h[i]
                if got is None:
                    if want != 0: return "extract:%s absent, standard says %d" % (name, want)
                elif got != want:
                    return "extract:%s=%d, standard says %d" % (name, got, want)
            if not self._wire(case) or obs["wf"] < 2: return None
            for j, (r, (wc, got)) in enumerate(zip(obs["recs"], obs["res"])):
                if got not in (0, 1): return "match:%d raised %s" % (j, got)
                want = spec_match(r, h)
                if bool(got) != want:
                    return "match:%d code=%d standard=%d why=%s" % (j, got, int(want), self._classify(r, h, bool(got), ph))
            return None
        if k == "table":
            recs = [unpack_rec(bytes.fromhex(w)) for _, w in case["entries"]]
            flows = {i: (p, r) for i, ((p, _), r) in enumerate(zip(case["entries"], recs))}
            for fi, (ph, wf, fr, got) in enumerate(zip(obs["phdrs"], obs["wfs"], case["frames"], obs["lookups"])):
                if wf < 2: continue
                if obs["rx"] is not None and obs["rx"][fi] != got:
                    return "lookup:frame %d rx_packet used entry %s, entry_for_packet %s" % (fi, obs["rx"][fi], got)
                if obs.get("twin") is not None and obs["twin"][fi] != obs["twin_fresh"][fi]:
                    return ("lookup:frame %d on a second table (same matches, priorities reversed) returned entry %s, alone it returns %s "
                            "why=depends-on-another-table" % (fi, obs["twin"][fi], obs["twin_fresh"][fi]))
                v = self._lookup_verdict(flows, got, ph, fr["port"], lambda i: obs["codematch"][fi][i], "frame %d" % fi)
                if v:
                    # lookup is a function of (table, frame): the same frame on a fresh copy of the table is the reference
                    if obs.get("fresh") is not None and obs["fresh"][fi] != got and self._lookup_verdict(
                            flows, obs["fresh"][fi], ph, fr["port"], lambda i: obs["codematch"][fi][i], "") is None:
                        return "lookup:frame %d (lookup number %d on this table) returned entry %s, on a fresh copy of the table %s why=depends-on-earlier-lookups" % (
                            fi, fi + 1, got, obs["fresh"][fi])
                    return v
            return None
        if k == "resubmit":
            recs = [unpack_rec(bytes.fromhex(w)) for _, w in case["entries"]]
            flows = {i: (p, r) for i, ((p, _), r) in enumerate(zip(case["entries"], recs))}
            for n, (st, r) in enumerate(zip(case["steps"], obs["steps"])):
                where = "step %d (%s, actions %s)" % (n, st["via"], "+".join(a[0] for a in st["acts"]) or "none")
                if r["raised"]: return "lookup:%s raised %s why=handing-the-frame-to-the-table-raised" % (where, r["raised"])
                if r["left"] is None:
                    return "lookup:%s the frame neither left through an entry's output (%d frames out) nor came back as a table-miss packet-in why=no-outcome" % (where, r["n_out"])
                if r["wf"] < 2: continue
                v = self._lookup_verdict(flows, r["used"], r["phdr"], st["port"], lambda i: r["codematch"][i], where)
                if v: return v
            return None
        if k == "selfflow":
            if obs["wf"] < 2: return None
            if case["sf"] and case["port"] is not None and not case.get("rawmac"):
                # the controller-side extraction is held to the standard too (fields the controller blanked again are not looked at)
                hc = spec_headers(obs["phdr"], case["port"])
                for i, name in enumerate(F[1:]):
                    if (i + 1) in case.get("blank", ()): continue
                    got, want = obs["m"][i + 1], hc[i]
                    if (got is None and want != 0) or (got is not None and got != want):
                        return "extract:%s=%s, standard says %d" % (name, got, want)
            h = spec_headers(obs["phdr"], case["swport"])
            want = spec_match(obs["wire"], h)
            if bool(obs["hit"]) != want:
                return "match:0 code=%d standard=%d why=%s" % (obs["hit"], int(want), self._classify(obs["wire"], h, bool(obs["hit"]), obs["phdr"]))
            l3 = obs["phdr"]["l3"]
            if not obs["hit"] and (case["sf"] or not (l3 is not None and l3[0] == "ip" and l3[5])) and case["port"] in (None, case["swport"]):
                return "selfflow:the flow built from the packet does not match it"      # theorem flow_from_packet_matches
            return None
        if k == "tableops":
            # the property on a history: each lookup answers with the best matching flow among those the table holds at that moment
            wire_of = {}
            for op in case["ops"]:
                if op[0] == "add": wire_of[op[1]] = wire_of[int(op[3][1:])] if op[3].startswith("@") else op[3]
            flows = {op[1]: (op[2], unpack_rec(bytes.fromhex(wire_of[op[1]]))) for op in case["ops"] if op[0] == "add"}
            # what the table holds after each call (the contract of the FlowTable API; what a non-strict / strict remove_matching_entries
            # selects is C04's subject: there only "nothing appears, nothing is reordered" is demanded)
            timers = {op[1]: (op[4], op[5], op[6]) for op in case["ops"] if op[0] == "add"}
            prev = []
            for oi, (op, t) in enumerate(zip(case["ops"], obs["trace"])):
                if t[0] == "q":
                    # a call that only reads: the table holds what it held (what it REPORTS is not this property's subject; the lookups
                    # that follow are held to the standard below, against the entries the table is known to hold)
                    if sorted(map(str, t[2])) != sorted(map(str, prev)):
                        return "table:op %d %s (%s, read-only) left %s, the table held %s why=contents-after-query" % (oi, op[1], op[2], t[2], prev)
                    prev = t[2]
                    continue
                if t[0] != "t": continue
                raised, now_ids = t[1], t[2]
                if op[0] == "add":
                    want, wr = set(prev) | {op[1]}, 0
                    ok = set(now_ids) == want and [x for x in now_ids if x != op[1]] == prev and raised == wr
                elif op[0] == "remove":
                    want, wr = (set(prev) - {op[1]}, 0) if op[1] in prev else (set(prev), 1)
                    ok = now_ids == [x for x in prev if x in want] and raised == wr
                elif op[0] == "expire":
                    dead = {i for i in prev if (timers[i][0] > 0 and op[1] - timers[i][2] > timers[i][0] * 1000) or (timers[i][1] > 0 and op[1] - timers[i][2] > timers[i][1] * 1000)}
                    want = set(prev) - dead
                    ok = now_ids == [x for x in prev if x in want] and raised == 0
                else:
                    # remove_matching_entries: nothing appears or moves; and the cases every reading agrees on — strict with the very bytes and
                    # priority of an installed flow removes it, strict at a priority no installed flow has removes nothing, a non-strict
                    # match-all empties the table
                    want = None
                    ok = now_ids == [x for x in prev if x in set(now_ids)] and raised == 0
                    rr = unpack_rec(bytes.fromhex(op[1]))
                    if ok and op[3]:
                        same = [i for i in prev if wire_of[i] == op[1] and flows[i][0] == op[2]]
                        if any(i in now_ids for i in same): ok, want = False, set(prev) - set(same)
                        elif not any(flows[i][0] == op[2] for i in prev) and now_ids != prev: ok, want = False, set(prev)
                    elif ok and all(wild(rr, f) for f in FLAG_FIELDS) and ign_src(rr) == 32 and ign_dst(rr) == 32:
                        # (entries that set undefined wildcard bits 22..31 the request does not set are C04's business: the code compares those bits)
                        stay = {i for i in prev if (flows[i][1][W] >> 22) & ~(rr[W] >> 22)}
                        if not set(now_ids) <= stay: ok, want = False, stay
                if not ok:
                    return "table:op %d %s left %s%s, the table held %s%s why=contents-after-%s" % (
                        oi, op[0], now_ids, " (raised)" if raised else "", prev, "" if want is None else ", expected the entries %s" % sorted(want), op[0])
                prev = now_ids
            looks = iter(obs["looks"])
            for oi, op in enumerate(case["ops"]):
                if op[0] != "lookup": continue
                lk = next(looks)
                if lk["wf"] < 2: continue
                got = obs["trace"][oi][1]
                present = {i: flows[i] for i in lk["present"]}
                v = self._lookup_verdict(present, got, lk["phdr"], op[2], lambda i: lk["codematch"][str(i)], "op %d" % oi)
                if v: return v
                if "rx" in lk and lk["rx"][0] != got:
                    return "lookup:op %d rx_packet used entry %s, entry_for_packet %s why=rx-differs-from-lookup" % (oi, lk["rx"][0], got)
            return None
        return None

    def _lookup_verdict(self, flows, got, ph, port, codematch, where):
        """flows: id -> (priority, transmitted match) of the entries in the table; got: id the code returned or None"""
        if isinstance(got, str):
            return "lookup:%s answered with %s why=not-an-entry-of-this-table" % (where, got)
        h = spec_headers(ph, port)
        S = [i for i, (p, r) in flows.items() if spec_match(r, h)]
        rank = lambda i: spec_rank_sig(*flows[i])
        if got is None:
            if S:
                i = S[0]
                return "lookup:%s miss, entry %d matches why=%s" % (where, i, self._classify(flows[i][1], h, False, ph))
            return None
        if got not in S:
            return "lookup:%s returned entry %d which does not match why=%s" % (where, got, self._classify(flows[got][1], h, True, ph))
        best = max(S, key=rank)
        if rank(best) > rank(got):
            if codematch(best):
                rb = flows[best][1]
                why = ("priority-order" if not spec_exact_sig(rb) else
                       "exact-outranked" if (rb[DL_TYPE] == 0x0800 and rb[PROTO] in (1, 6, 17)) else "exact-non-l4-outranked")
            else:
                why = self._classify(rb := flows[best][1], h, False, ph)
            return "lookup:%s returned entry %d (rank %d), entry %d (rank %d) matches why=%s" % (where, got, rank(got), best, rank(best), why)
        return None

    def finding_key(self, case, obs, failure):
        if failure.startswith("harness exception"): return "harness:" + failure[18:60]
        head = failure.split(":", 1)[0]
        if head in ("extract", "match", "lookup") and self.tcpopt_drops:
            # the frame the failure is about: a complete TCP segment the packet library hands over without a tcp object, and the failure is
            # about a transport field / a flow that names one
            import re
            fr = None
            if case["kind"] in ("pairs", "selfflow"): fr = case["frame"]
            elif case["kind"] == "table":
                mm = re.search(r"frame (\d+)", failure); fr = case["frames"][int(mm.group(1))]["frame"] if mm else None
            elif case["kind"] == "tableops":
                mm = re.search(r"op (\d+)", failure); op = case["ops"][int(mm.group(1))] if mm else None
                fr = op[1] if op is not None and op[0] == "lookup" else None
            if fr is not None and self.tcpopt_class(fr) and (head != "extract" or failure.split(":", 1)[1].startswith("tp_")):
                return head + ":tcp-options-rejected"
        if case["kind"] == "resubmit" and head == "lookup":
            return "lookup-after-actions:" + (failure.rsplit("why=", 1)[1] if "why=" in failure else "unexplained")
        if head == "extract":
            name = failure.split(":", 1)[1].split(" ")[0].split("=")[0]
            ph = obs.get("phdr") or {}
            l3, l = ph.get("l3"), ph.get("llc")
            if name in ("nw_proto", "nw_src", "nw_dst") and ph and spec_headers(ph, 0)[DL_TYPE - 1] == 0x8035: return "extract:arp-fields-on-rarp"
            if l3 is not None and l3[0] == "arp" and l3[1] > 255 and name in ("nw_proto", "nw_src", "nw_dst"): return "extract:arp-opcode-above-255"
            if name == "nw_tos" and l3 is not None and l3[0] == "ip" and l3[4] & 3: return "extract:nw_tos-carries-ecn-bits"
            got = obs.get("pm") or obs.get("m") or []
            if l is not None and l[0] == 0 and len(got) > DL_TYPE and got[DL_TYPE] == 0x05ff: return "extract:snap-not-recognised"
            return "extract:" + name
        if head == "selfflow": return "selfflow:miss"
        if head == "table": return "table:" + failure.rsplit("why=", 1)[1]
        why = failure.rsplit("why=", 1)[1] if "why=" in failure else failure.split(" ", 1)[-1][:40]
        return "%s:%s" % (head, why)

    def nontrivial(self, case, obs):
        k = case["kind"]
        if k == "selfflow": return obs["phdr"]["l3"] is not None or obs["phdr"]["vlan"] is not None
        if k == "pairs": return len({r[1] for r in obs["res"]}) > 1 or obs["phdr"]["l3"] is not None
        if k == "subsume": return len({r[0] for r in obs["res"]}) > 1
        return any(x is not None for x in obs["lookups"])

    def shrink_candidates(self, case):
        k = case["kind"]
        if k == "pairs" and len(case["matches"]) > 1:
            for i in range(len(case["matches"])):
                c = dict(case); c["matches"] = [case["matches"][i]]; yield c
        if k == "subsume" and len(case["pairs"]) > 1:
            for i in range(len(case["pairs"])):
                c = dict(case); c["pairs"] = [case["pairs"][i]]; yield c
        if k == "tableops":
            for i in range(len(case["ops"])):
                op = case["ops"][i]
                if op[0] == "add" and any((o[0] == "remove" and o[1] == op[1]) or (o[0] == "add" and o[3] == "@%d" % op[1]) or
                                          (o[0] == "q" and len(o) > 3 and o[3] == "@%d" % op[1]) for o in case["ops"]):
                    continue                                                                    # keep ids that are referred to
                c = dict(case); c["ops"] = case["ops"][:i] + case["ops"][i + 1:]
                if any(o[0] == "lookup" for o in c["ops"]): yield c
        if k == "resubmit":
            if len(case["steps"]) > 1:
                for i in range(len(case["steps"])):
                    c = dict(case); c["steps"] = [case["steps"][i]]; yield c
            for i in range(len(case["entries"])):
                if len(case["entries"]) > 1:
                    c = dict(case); c["entries"] = case["entries"][:i] + case["entries"][i + 1:]; yield c
            if len(case["steps"]) == 1 and len(case["steps"][0]["acts"]) > 1:
                st = case["steps"][0]
                for i in range(len(st["acts"])):
                    c = dict(case); c["steps"] = [dict(st, acts=st["acts"][:i] + st["acts"][i + 1:])]; yield c
        if k == "table":
            if len(case["frames"]) > 1:
                for i in range(len(case["frames"])):
                    c = dict(case); c["frames"] = [case["frames"][i]]; yield c
            for i in range(len(case["entries"])):
                if len(case["entries"]) > 1:
                    c = dict(case); c["entries"] = case["entries"][:i] + case["entries"][i + 1:]; yield c

    # ---------------------------------------------------------------- frames (built with the real packet library)
    def frame(self, rng, kind=None, clean=True):
        """a frame the packet parser accepts without raising (parser robustness is C15's subject, not this check's)"""
        for _ in range(50):
            fr = self._frame(rng, kind, clean)
            try: self.parse(fr); return fr
            except Exception: continue
        raise RuntimeError("frame generator: parser keeps raising")

    def _frame(self, rng, kind=None, clean=True):
        """returns hex of a frame.  clean=True: no ECN bits, ARP opcode <= 255 (the inputs of open findings are generated separately)"""
        P, IP, Eth = self.pkt, self.IPAddr, self.EthAddr
        kind = kind or rng.choice(["tcp", "udp", "icmp", "ipother", "arp", "vlan_ip", "vlan_arp", "llc", "snap_ip", "snap_other", "snap_oui",
                                   "other", "frag_first", "frag_later", "ipopts", "trunc_l3", "trunc_l4", "qinq", "snap_vlan", "ipv6", "bytes", "bytes_ip", "bytes_ip"])
        if kind == "bytes":                     # one of the swept byte-level frames
            if self._byte_frames is None: self._byte_frames = [fr for _, fr in self.byte_frames()]
            return rng.choice(self._byte_frames)
        if kind == "bytes_ip":                  # IPv4 with random flag bits / offset / IHL / lengths behind a random encapsulation, built byte by byte
            proto = rng.choice([6, 17, 1, 1, 6, 17, 47, rng.randint(0, 255)])
            ihl = rng.choice([5, 5, 5, 6, 15, rng.randint(5, 15)])
            d = self.raw_ip(proto, rng.randint(0, 7), rng.choice([0, 0, 0, 1, 185, 8191, rng.randint(0, 8191)]), ihl,
                            tos=rng.choice([0, 0x10, 0xb8]) | (0 if clean else rng.choice([1, 2, 3])), src=rng.choice([0x0a000001, 0xc0a80101, 0]), dst=rng.choice([0x0a000002, 0xffffffff]),
                            a=rng.choice([0, 8, 80, 4000, 65535]), b=rng.choice([0, 3, 80, 5060, 65535]),
                            opts=None if rng.random() < 0.6 else bytes(rng.randint(0, 255) for _ in range(4 * (ihl - 5))),
                            tcpoff=rng.choice([5, 5, 5, 6, 15]), totdelta=rng.choice([0, 0, 0, -2, 4]), pad=b"\0" * rng.choice([0, 0, 6]))
            w = rng.random()
            t = 0x0800 if rng.random() < 0.8 else rng.choice(self.ETYPES)
            src, dst = rng.choice([0x11, 0x020000000001, 0xfefffffffffe]), rng.choice([0x22, 0xffffffffffff])
            if w < 0.5: return self.raw_eth(t, d, src, dst)
            if w < 0.75: return self.raw_eth(rng.choice([0x8100, 0x8100, 0x8100, 0x88a8, 0x9100]), self.raw_tag(t, d, rng.choice([0, 5, 4095]), rng.choice([0, 3, 7]), rng.choice([0, 0, 1])), src, dst)
            if w < 0.9: return self.raw_eth(None, self.raw_llc(d, typ=t, oui=rng.choice([0, 0, 0, 0x0c])), src, dst)
            return self.raw_eth(None, self.raw_llc(self.raw_tag(t, d), typ=0x8100), src, dst)
        mac = lambda: Eth(bytes([rng.choice([0, 2, 0x12]), 0, 0, 0, rng.randint(0, 2), rng.randint(1, 4)]))
        ipa = lambda: IP("%d.%d.%d.%d" % (rng.choice([10, 10, 192, 172]), rng.choice([0, 1, 9, 168]), rng.choice([0, 1, 9, 255]), rng.randint(1, 4)))
        tosv = lambda: rng.choice([0, 0, 0x10, 0xb8, 0x20]) | (0 if clean else rng.choice([1, 2, 3]))
        port = lambda: rng.choice([0, 1, 53, 80, 255, 256, 443, 1000, 32767, 32768, 65535, rng.randint(0, 65535)])
        def l4(proto):
            if proto == 6: t = P.tcp(srcport=port(), dstport=port(), off=5, win=1); t.payload = b"xy"; return t
            if proto == 17: u = P.udp(srcport=port(), dstport=port()); u.payload = b"abcd"; return u      # even lengths only: packet_utils.checksum fails on odd data (D12, C14)
            if proto == 1:
                i = P.icmp(type=rng.choice([0, 3, 8, 11]), code=rng.choice([0, 1, 3])); i.payload = P.echo(id=1, seq=2) if i.type in (0, 8) else b"\0" * 8
                return i
            return bytes(rng.randint(0, 255) for _ in range(rng.randint(0, 12)))
        def ip(proto=None, **kw):
            proto = proto if proto is not None else rng.choice([6, 17, 1])
            i = P.ipv4(srcip=ipa(), dstip=ipa(), protocol=proto, tos=tosv(), **kw); i.payload = l4(proto); return i
        def arpp():
            op = rng.choice([1, 2, 1, 2, 3, 255]) if clean else rng.choice([256, 257, 0x0201, 0xffff])
            return P.arp(opcode=op, hwsrc=mac(), hwdst=mac(), protosrc=ipa(), protodst=ipa())
        def eth(typ, payload):
            e = P.ethernet(src=mac(), dst=mac(), type=typ); e.payload = payload; return e.pack()
        def vl(typ, payload):
            v = P.vlan(id=rng.choice([0, 1, 100, 4095]), pcp=rng.choice([0, 0, 3, 7]), eth_type=typ); v.payload = payload; return v
        def raw8023(llcbytes, payload):
            body = llcbytes + payload
            return mac().toRaw() + mac().toRaw() + struct.pack("!H", len(body)) + body
        tobytes = lambda x: x if isinstance(x, bytes) else x.pack()
        if kind == "tcp": b = eth(0x0800, ip(6))
        elif kind == "udp": b = eth(0x0800, ip(17))
        elif kind == "icmp": b = eth(0x0800, ip(1))
        elif kind == "ipother": b = eth(0x0800, ip(rng.choice([0, 50, 89, 132, 255])))
        elif kind == "arp": b = eth(0x0806, arpp())
        elif kind == "vlan_ip": b = eth(0x8100, vl(0x0800, ip()))
        elif kind == "vlan_arp": b = eth(0x8100, vl(0x0806, arpp()))
        elif kind == "qinq": b = eth(0x8100, vl(0x8100, vl(0x0800, ip())))
        elif kind == "llc": b = raw8023(bytes([rng.choice([0x42, 0xe0, 0xf0]), rng.choice([0x42, 0xe0]), 3]), b"\1\2\3\4\5\6\7\10")
        elif kind == "snap_ip": b = raw8023(bytes([0xaa, 0xaa, 3, 0, 0, 0, 8, 0]), tobytes(ip()))
        elif kind == "snap_vlan": b = raw8023(bytes([0xaa, 0xaa, 3, 0, 0, 0, 0x81, 0]), tobytes(vl(0x0800, ip())))
        elif kind == "snap_other": b = raw8023(bytes([0xaa, 0xaa, 3, 0, 0, 0]) + struct.pack("!H", rng.choice([0x0806, 0x88b5, 0x1234, 0x0801])), tobytes(arpp()))
        elif kind == "snap_oui": b = raw8023(bytes([0xaa, 0xaa, 3, 0, 0, 0x0c, 0x20, 0]), b"cdp-ish payload")
        elif kind == "ipv6": b = eth(0x86dd, struct.pack("!IHBB", 6 << 28, 0, 59, 64) + bytes(15) + b"\1" + bytes(15) + b"\2")
        elif kind == "other": b = eth(rng.choice([0x88b5, 0x8847, 0x0801, 0x0600, 0xffff, 0x9000]), bytes(rng.randint(0, 255) for _ in range(rng.randint(0, 30))))
        elif kind == "frag_first": b = eth(0x0800, ip(rng.choice([6, 17, 1]), flags=P.ipv4.MF_FLAG))
        elif kind == "frag_later": b = eth(0x0800, ip(rng.choice([6, 17, 1]), frag=rng.choice([1, 185, 8191]), flags=rng.choice([0, P.ipv4.MF_FLAG])))
        elif kind == "ipopts":
            i = ip(rng.choice([6, 17, 1])); n = rng.choice([1, 2, 10]); i.hl = 5 + n; i.raw_options = b"\1" * (4 * n); b = eth(0x0800, i)
        elif kind == "trunc_l3":
            full = eth(rng.choice([0x0800, 0x0806]), ip() if rng.random() < 0.5 else arpp()); b = full[:14 + rng.randint(0, 19)]
            if rng.random() < 0.3: b = eth(0x0800, bytes([0x65]) + tobytes(ip())[1:])      # version 6 in an 0x0800 frame
        elif kind == "trunc_l4":
            pr = rng.choice([6, 17, 1]); full = eth(0x0800, ip(pr)); b = full[:34 + rng.randint(0, {6: 19, 17: 7, 1: 3}[pr])]
        else: raise ValueError(kind)
        return b.hex()

    FIXED = ["tcp", "arp", "vlan_ip", "icmp", "llc", "snap_ip", "frag_later", "ipv6", "ipother"]

    def fixed_frames(self):
        import random
        rng = random.Random(11)
        return [self.frame(rng, k) for k in self.FIXED]

    def headers_of(self, hexframe, port):
        ph, wf = self.view(hexframe)
        return ph, wf, spec_headers(ph, port)

    # ---------------------------------------------------------------- matches at / near a frame
    def near_rec(self, rng, h, ph, flags, sc, dc, perturb=(), hi=0, canon=True):
        """transmitted match whose fields are the frame's (full ToS byte), except `perturb`ed ones;
        canon: a wildcarded dl_type / nw_proto field is sent as zero (what the standard recommends; the other case is finding D38)"""
        r = [mkwild(flags, sc, dc, hi)] + list(h)
        if ph["l3"] is not None and ph["l3"][0] == "ip": r[TOS] = ph["l3"][4]
        for f in perturb:
            if f == TOS: r[f] = (r[f] + 4 * rng.choice([1, 7])) & 0xff
            elif f in (NW_SRC, NW_DST): r[f] ^= 1 << rng.choice([0, 7, 8, 23, 24, 31])
            elif f == DL_TYPE: r[f] = rng.choice([0x0800, 0x0806, 0x86dd, 0x05ff, (r[f] + 1) & 0xffff])
            elif f == PROTO: r[f] = rng.choice([1, 6, 17, 0, (r[f] + 1) & 0xff])
            else: r[f] = (r[f] + rng.choice([1, FIELD_MAX[f]])) & FIELD_MAX[f]          # +1 / -1
        if canon:
            if wild(r, DL_TYPE): r[DL_TYPE] = 0
            if wild(r, PROTO): r[PROTO] = 0
        return r

    def trigger(self, r, ph):
        """syntactic membership of (transmitted match, frame) in the input class of an open finding (used only to keep batches apart)"""
        l3 = ph["l3"]
        if (wild(r, DL_TYPE) and r[DL_TYPE] in (0x0800, 0x0806)) or (wild(r, PROTO) and r[DL_TYPE] == 0x0800 and r[PROTO] in (1, 6, 17)): return "prereq"
        if r[TOS] & 3 or (l3 is not None and l3[0] == "ip" and l3[4] & 3): return "tos"
        if l3 is not None and l3[0] == "arp" and l3[1] > 255: return "arp"
        if self.rarp_as_arp and spec_headers(ph, 0)[DL_TYPE - 1] == 0x8035: return "rarp"
        if common.canon(ph) in self._tcpopt_phs: return "tcpopt"      # descriptions of frames seen in `view` to be in the class of the open TCP-option finding
        return None

    def batches(self, frame, port, recs, ph, size=64, tag=None):
        """split transmitted matches into clean batches and one-class batches for the open findings (each of those twice:
        once with the oracle, once correspondence-only so that the model is still compared on them)"""
        groups = {}
        for r in recs: groups.setdefault(self.trigger(r, ph), []).append(r)
        for cls in sorted(groups, key=lambda x: x or ""):
            rs = groups[cls]
            n = size if cls is None else 8
            for i in range(0, len(rs), n):
                c = {"kind": "pairs", "frame": frame, "port": port, "matches": [{"w": pack_rec(r).hex()} for r in rs[i:i + n]]}
                if tag: c["tag"] = tag
                if cls is None:
                    if (len(rs) + i + port) % 5 == 0: c["via_packet_in"] = True
                    yield c
                else:
                    c["class"] = cls
                    yield c
                    c2 = dict(c); c2["corr_only"] = True; yield c2

    COUNTS = [0, 1, 8, 24, 31, 32] + list(range(33, 64))

    def corpus(self):
        if self._corpus is not None: return self._corpus
        import random
        rng = random.Random(3)
        cases = self.zero_mac_cases()
        frames = self.fixed_frames()
        for fi, fr in enumerate(frames):
            port = 1 + fi % 4
            ph, wf, h = self.headers_of(fr, port)
            # (a) all 2^10 flag combinations, values at the frame's; (b) the same with one field off by one
            recs = []
            for c in range(1024):
                flags = [f for i, f in enumerate(FLAG_FIELDS) if c >> i & 1]
                sc, dc = self.COUNTS[c % len(self.COUNTS)], self.COUNTS[(c // 7) % len(self.COUNTS)]
                recs.append(self.near_rec(rng, h, ph, flags, sc, dc))
                f = (FLAG_FIELDS + [NW_SRC, NW_DST])[c % 12]
                recs.append(self.near_rec(rng, h, ph, flags, sc, dc, perturb=[f]))
                if c % 4 == 0: recs.append(self.near_rec(rng, h, ph, flags, sc, dc, perturb=[rng.choice(FLAG_FIELDS)], canon=False))
            cases += list(self.batches(fr, port, recs, ph, size=128))
            # (c) prefix counters 0..63 on both addresses: address at the frame's, a bit flipped just inside / just outside the prefix, host bits set
            recs = []
            for fld, other in ((NW_SRC, NW_DST), (NW_DST, NW_SRC)):
                for k in range(64):
                    for mode in ("at", "inside", "outside", "host"):
                        r = self.near_rec(rng, h, ph, [], k if fld == NW_SRC else 32, k if fld == NW_DST else 32)
                        kk = min(k, 32)
                        if mode == "inside" and kk < 32: r[fld] ^= 1 << kk
                        elif mode == "outside" and kk > 0: r[fld] ^= 1 << (kk - 1)
                        elif mode == "host" and kk > 0: r[fld] = (r[fld] | ((1 << kk) - 1)) ^ (rng.getrandbits(kk) & ~1)
                        recs.append(r)
            cases += list(self.batches(fr, port, recs, ph, size=128))
        # (d) witnesses of the defects / findings (the Lean `_defect` theorems use the same inputs)
        cases += self.witnesses()
        # (e) locally built matches and subsumption on a fixed set
        cases += list(self.local_and_subsume(rng, frames, 12))
        # (f) tables
        for i in range(6):
            cases.append(self.table_case(rng, frames, n=rng.choice([1, 5, 12, 40]), via_switch=(i % 2 == 0)))
        cases += self.table_witnesses()
        cases += list(self.lookup_seq_cases(rng))
        cases += self.sandwich_cases()
        cases += self.query_sandwich_cases()
        cases += self.sweep_pairs(rng)
        cases += self.byte_cases(rng)
        cases += self.resubmit_corpus()
        cases += self.built_cases(rng)
        for i in range(8):
            cases.append(self.tableops_case(rng, frames, nops=[4, 10, 25, 60][i % 4]))
        for fr in frames:
            for sf in (True, False):
                for port in (2, None):
                    ph = self.headers_of(fr, 2)[0]
                    c = {"kind": "selfflow", "frame": fr, "port": port, "swport": 2, "sf": sf}
                    if port is None and sf: c["blank"] = [2, 3, 8, 11]; c["rawmac"] = False
                    if port == 2 and not sf: c["rawmac"] = True
                    if not sf and ph["l3"] is not None and ph["l3"][0] == "ip" and ph["l3"][5]: c["corr_only"] = True
                    cases.append(c)
        self._corpus = cases
        return cases

    def zero_mac_cases(self):
        """an all-zero MAC in `a` against a wildcarded / zero / non-zero MAC in `b`, in all three tests (strict, ==, lenient) — the input on which the
        address class's `zero == None` shows in the lenient test (found by thorough seed 7); minimised pairs + the pair as found"""
        allw = mkwild(FLAG_FIELDS, 32, 32)
        def rec(spec):          # spec: {field: value} specified, everything else wildcarded
            r = [mkwild([f for f in FLAG_FIELDS if f not in spec], 32, 32)] + [0] * 12
            for f, v in spec.items(): r[f] = v
            return r
        prs = []
        for f in (DL_SRC, DL_DST):
            for av in (0, 1, 0x010000000000):
                for bspec in ({}, {f: 0}, {f: 1}, {IN_PORT: 1}):
                    prs.append({"a": {"w": pack_rec(rec({f: av})).hex()}, "b": {"w": pack_rec(rec(bspec)).hex()}})
        prs.append({"a": {"w": pack_rec(rec({DL_SRC: 0, DL_DST: 0})).hex()}, "b": {"w": pack_rec(rec({})).hex()}})
        prs.append({"a": {"w": pack_rec(rec({DL_SRC: 0, DL_DST: 0})).hex()}, "b": {"w": pack_rec(rec({DL_SRC: 0})).hex()}})
        prs.append({"a": {"w": pack_rec(rec({DL_SRC: 0, DL_DST: 2})).hex()}, "b": {"w": pack_rec(rec({})).hex()}})
        prs.append({"a": {"w": "0039edb70001000000000104000000000000000007000000200000000aa809040a09090200008000"},
                    "b": {"w": "000808280001000000000104000000000001000007000800200000000aa809040a09090200008000"}})
        loc = [{"a": {"loc": unpack_rec(bytes.fromhex(p["a"]["w"]))}, "b": {"loc": unpack_rec(bytes.fromhex(p["b"]["w"]))}} for p in prs]
        return [{"kind": "subsume", "pairs": prs, "tag": "zero MAC vs wildcarded MAC"}, {"kind": "subsume", "pairs": loc, "tag": "zero MAC vs wildcarded MAC (local)"}]

    def witnesses(self):
        out = []
        e = lambda h: bytes.fromhex(h)
        tcp = ("000000000002" "000000000001" "0800" "4500002a00010000400600000a0101010a020202" "03e80050" "00000000" "00000000" "50000001" "00000000" "7879")
        tcp_ecn = tcp[:30] + "02" + tcp[32:]
        arp257 = ("000000000002" "000000000001" "0806" "0001" "0800" "06" "04" "0101" "000000000001" "0a000001" "000000000000" "0a000002")
        snap = ("000000000002" "000000000001" "0032" "aaaa03" "000000" "0800" + tcp[28:])
        # D29: nw_src = 10.9.9.9/8 against 10.1.1.1
        r = [mkwild([f for f in FLAG_FIELDS if f != DL_TYPE], 24, 32)] + [0] * 12; r[DL_TYPE] = 0x0800; r[NW_SRC] = 0x0a090909
        out.append({"kind": "pairs", "frame": tcp, "port": 1, "matches": [{"w": pack_rec(r).hex()}], "tag": "D29 witness"})
        # D22: SNAP frame, match on dl_type = 0x0800
        r = [mkwild([f for f in FLAG_FIELDS if f != DL_TYPE], 32, 32)] + [0] * 12; r[DL_TYPE] = 0x0800
        out.append({"kind": "pairs", "frame": snap, "port": 1, "matches": [{"w": pack_rec(r).hex()}], "tag": "D22 witness"})
        # ToS: nw_tos = 0 against a frame with ECT(0)
        r = [mkwild([f for f in FLAG_FIELDS if f not in (DL_TYPE, TOS)], 32, 32)] + [0] * 12; r[DL_TYPE] = 0x0800
        out.append({"kind": "pairs", "frame": tcp_ecn, "port": 1, "matches": [{"w": pack_rec(r).hex()}], "tag": "tos witness", "class": "tos"})
        # prerequisite read from a wildcarded field: DL_TYPE wildcarded, dl_type field 0x0800, nw_proto = 7
        r = [mkwild([f for f in FLAG_FIELDS if f != PROTO], 32, 32)] + [0] * 12; r[DL_TYPE] = 0x0800; r[PROTO] = 7
        out.append({"kind": "pairs", "frame": tcp, "port": 1, "matches": [{"w": pack_rec(r).hex()}], "tag": "prereq witness", "class": "prereq"})
        # ARP opcode 257
        r = [mkwild([f for f in FLAG_FIELDS if f not in (DL_TYPE, PROTO)], 32, 32)] + [0] * 12; r[DL_TYPE] = 0x0806; r[PROTO] = 1
        out.append({"kind": "pairs", "frame": arp257, "port": 1, "matches": [{"w": pack_rec(r).hex()}], "tag": "arp opcode witness", "class": "arp"})
        return out + [dict(c, corr_only=True) for c in out if "class" in c]

    def table_witnesses(self):
        arp = ("000000000002" "000000000001" "0806" "0001" "0800" "06" "04" "0001" "000000000001" "0a000001" "000000000000" "0a000002")
        ex = [0, 1, 1, 2, 0xffff, 0, 0x0806, 0, 1, 0x0a000001, 0x0a000002, 0, 0]           # wildcards = 0: exact
        wl = [mkwild([f for f in FLAG_FIELDS if f != IN_PORT], 32, 32), 1] + [0] * 11
        c = {"kind": "table", "entries": [[1, pack_rec(ex).hex()], [100, pack_rec(wl).hex()]], "frames": [{"frame": arp, "port": 1}],
             "tag": "D26 witness", "class": "exact"}
        return [c, dict(c, corr_only=True)]

    # ---------------------------------------------------------------- generators
    def rand_flags(self, rng):
        p = rng.choice([0.0, 0.1, 0.3, 0.5, 0.9])
        return [f for f in FLAG_FIELDS if rng.random() < p]

    def rand_rec(self, rng, h, ph, canon=True):
        sc, dc = rng.choice(self.COUNTS), rng.choice(self.COUNTS)
        if rng.random() < 0.3: sc, dc = rng.choice([0, 8, 32]), rng.choice([0, 8, 32])
        pert = [f for f in FLAG_FIELDS + [NW_SRC, NW_DST] if rng.random() < rng.choice([0, 0, 0.08, 0.2])]
        r = self.near_rec(rng, h, ph, self.rand_flags(rng), sc, dc, perturb=pert, hi=rng.choice([0, 0, 0, 1, 0x3ff]), canon=canon)
        if not canon and rng.random() < 0.3 and self.trigger(r, ph) is None: r[TOS] |= rng.choice([1, 2, 3])   # ECN bits in the match's ToS (input class of the ToS finding), never combined with another finding's input class
        if rng.random() < 0.15:                 # host bits under the prefix mask (D29 input class)
            for f, k in ((NW_SRC, sc), (NW_DST, dc)):
                k = min(k, 32)
                if k: r[f] = (r[f] & ~((1 << k) - 1) & 0xffffffff) | rng.getrandbits(k)
        return r

    def generate(self, rng, tier):
        nfr = 260 if tier == "quick" else 8000
        ntab = 220 if tier == "quick" else 5000
        fixed = self.fixed_frames()
        for i in range(nfr):
            kind = None
            clean = rng.random() < 0.85
            fr = self.frame(rng, kind, clean=clean)
            port = rng.choice([1, 2, 3, 4, 0xfffe])
            ph, wf, h = self.headers_of(fr, port)
            recs = [self.rand_rec(rng, h, ph, canon=rng.random() < 0.9) for _ in range(64)]
            if i % 3 == 0:                     # matches aimed at another frame's headers
                ph2, _, h2 = self.headers_of(rng.choice(fixed), port)
                recs += [self.rand_rec(rng, h2, ph2) for _ in range(16)]
            for c in self.batches(fr, port, recs, ph): yield c
            # the flow a controller would install for this very packet (from_packet -> pack -> unpack -> lookup test)
            sf = rng.random() < 0.5
            c = {"kind": "selfflow", "frame": fr, "port": rng.choice([port, port, None]), "swport": port, "sf": sf}
            if rng.random() < 0.4: c["blank"] = sorted(rng.sample(range(1, 13), rng.choice([1, 2, 4, 8])))
            if rng.random() < 0.1: c["rawmac"] = True
            if self.trigger([0] * 13, ph) is not None or (not sf and ph["l3"] is not None and ph["l3"][0] == "ip" and ph["l3"][5]):
                c["corr_only"] = True          # open-finding frames; a flow built with spec_frags=False from a fragment is the controller's business
            yield c
        pool = fixed + [self.frame(rng) for _ in range(30)]
        for i in range(ntab):
            yield self.table_case(rng, pool, n=rng.choice([0, 1, 2, 3, 8, 20, 40, rng.randint(1, 40)]), via_switch=(i % 4 == 0))
            if i % 5 == 0:         # input class of D26: exact-match flows that are not IPv4 TCP/UDP/ICMP, wildcard bits on ignored fields
                c = self.table_case(rng, pool, n=rng.choice([2, 5, 12, 30]), exact_class=True)
                yield c
                yield dict(c, corr_only=True)
        for _ in range(1 if tier == "quick" else 12):      # randomised again (entry mix, order, exact / catch-all entries)
            for c in self.lookup_seq_cases(rng, per=2): yield c
        for i in range(150 if tier == "quick" else 2500):
            yield self.tableops_case(rng, pool, nops=rng.choice([3, 8, 20, 60, 90]))
        for i in range(90 if tier == "quick" else 1500):    # the same with read-only calls between the steps, half of them on a switch's table
            yield self.tableops_case(rng, pool, nops=rng.choice([8, 20, 40, 90]), queries=rng.choice([0.15, 0.3, 0.5]), sw=(i % 2 == 0))
        for c in self.local_and_subsume(rng, pool, 40 if tier == "quick" else 1200): yield c
        for c in self.resubmit_random(rng, pool, 120 if tier == "quick" else 2500): yield c
        for c in self.built_cases(rng, [("random %d" % i, self.rand_desc(rng)) for i in range(40 if tier == "quick" else 600)]): yield c

    def rand_desc(self, rng):
        """a random frame description for `build_obj` (coherent: the type fields name the headers that follow)"""
        d = copy.deepcopy(self.SEQ_BASES[rng.choice(sorted(self.SEQ_BASES))])
        d["src"] = rng.choice([d["src"], 0x020000000001, rng.getrandbits(48) & 0xfeffffffffff]); d["dst"] = rng.choice([d["dst"], 0xffffffffffff, rng.getrandbits(48)])
        w = rng.random()
        if w < 0.35: d["vlan"] = [rng.choice([0, 1, 100, 4095, rng.randint(0, 4095)]), rng.choice([0, 0, 3, 7])]
        elif w < 0.5: d["vlan"] = None
        if d["vlan"] is not None and rng.random() < 0.15: d["vlan2"] = [rng.randint(0, 4095), rng.randint(0, 7)]
        l3 = d["l3"]
        if l3[0] == "ip":
            l3[1], l3[2] = rng.choice([l3[1], 0, 0xffffffff, rng.getrandbits(32)]), rng.choice([l3[2], rng.getrandbits(32)])
            l3[4] = rng.choice([0, 0x10, 0xb8, 0xfc]); l3[5] = rng.choice([0, 0, 0, 1, 2])
            if l3[3] != 1: l3[6], l3[7] = rng.choice([0, 53, 32768, 65535, rng.randint(0, 65535)]), rng.choice([0, 80, 255, 256, 65535, rng.randint(0, 65535)])
            else: l3[6], l3[7] = rng.choice([0, 3, 8, 11]), rng.choice([0, 1, 3])
            if rng.random() < 0.1: l3[3] = rng.choice([0, 2, 47, 50, 89, 132, 255])
        elif l3[0] == "arp":
            l3[1] = rng.choice([1, 2, 3, 255, 256, 257, 0xffff]); l3[2], l3[3] = rng.getrandbits(32), rng.choice([l3[3], rng.getrandbits(32)])
        else:
            l3[1] = rng.choice([0x88b5, 0x86dd, 0x8035, 0x8847, 0x0600, 0xffff, 0x9100, 0x88a8])
        if rng.random() < 0.15: d["enc"] = rng.choice(["snap", "snap", "snap_oui", "llc"])
        return d

    def search_cases(self, rng, tier):
        return self.generate(rng, "quick")

    def table_case(self, rng, pool, n, via_switch=False, exact_class=False):
        """n flow entries aimed at 2-5 frames of the pool (so that several entries match the same frame), clustered priorities,
        a mix of exact (wildcards = 0) and wildcarded entries; inputs of the open findings D26/D36/D38 are kept out (see table_witnesses)"""
        frames = []
        for _ in range(rng.randint(2, 5)):
            for _try in range(20):
                fr = rng.choice(pool); port = rng.choice([1, 2, 3])
                ph, wf, h = self.headers_of(fr, port)
                if self.trigger([0] * 13, ph) is None: break
            frames.append((fr, port, ph, h))
        prios = [rng.choice([0, 1, 100, 0x8000, 0xffff]) for _ in range(3)]
        ents = []
        while len(ents) < n:
            fr, port, ph, h = rng.choice(frames)
            mode = rng.random()
            if mode < 0.2:                      # exact entry for this frame: only where the code's notion of exact agrees (TCP/UDP/ICMP over IP)
                r = self.near_rec(rng, h, ph, [], 0, 0, perturb=[rng.choice(FLAG_FIELDS)] if rng.random() < 0.2 else ())
                if exact_class and rng.random() < 0.5:       # wildcard bits only on fields the prerequisite rule ignores
                    r[W] = mkwild([f for f in (TOS, PROTO, TP_SRC, TP_DST) if rng.random() < 0.5 and not
                                   {TOS: r[DL_TYPE] == 0x0800, PROTO: r[DL_TYPE] in (0x0800, 0x0806)}.get(f, r[DL_TYPE] == 0x0800 and r[PROTO] in (1, 6, 17))],
                                  0 if r[DL_TYPE] in (0x0800, 0x0806) else rng.choice([0, 8, 32, 63]), 0 if r[DL_TYPE] in (0x0800, 0x0806) else rng.choice([0, 32]))
                if not exact_class and not (r[DL_TYPE] == 0x0800 and r[PROTO] in (1, 6, 17)): continue
            else:
                r = self.rand_rec(rng, h, ph)
                if not exact_class and spec_exact_sig(r) and not (r[DL_TYPE] == 0x0800 and r[PROTO] in (1, 6, 17) and spec_exact(r)): continue
            if self.trigger(r, ph) is not None: continue
            if any(self.trigger(r, ph2) is not None for _, _, ph2, _ in frames): continue
            p = rng.choice(prios) if rng.random() < 0.8 else rng.randint(0, 0xffff)
            ents.append([p, pack_rec(r).hex()])
        c = {"kind": "table", "entries": ents, "frames": [{"frame": fr, "port": port} for fr, port, _, _ in frames]}
        if via_switch: c["via_switch"] = True
        if exact_class: c["class"] = "exact"
        return c

    # ---------------------------------------------------------------- frames built byte by byte (the packet library is not involved)
    @staticmethod
    def raw_ip(proto, flags=0, fragoff=0, ihl=5, tos=0, src=0x0a000001, dst=0x0a000002, a=4000, b=80, opts=None, tcpoff=5, totdelta=0, pad=b"", tcpopts=None, udplen=12):
        """IPv4 datagram: flags = the three flag bits (4 reserved, 2 DF, 1 MF), 13-bit fragment offset, IHL with options, total length
        off by `totdelta` from what is there, trailing `pad`; behind it a TCP (data offset `tcpoff`, NOP options) / UDP / ICMP header"""
        if proto == 6 and tcpopts is not None:        # the option area as given (zero-padded to a multiple of 4), data offset to match
            o = tcpopts + b"\0" * (-len(tcpopts) % 4)
            l4 = struct.pack("!HHLLBBHHH", a, b, 1, 0, ((5 + len(o) // 4) & 15) << 4, 0x02, 1, 0, 0) + o + b"xy"
        elif proto == 6: l4 = struct.pack("!HHLLBBHHH", a, b, 1, 0, (tcpoff & 15) << 4, 0x10, 1, 0, 0) + b"\1" * (4 * max(0, tcpoff - 5)) + b"xy"
        elif proto == 17: l4 = struct.pack("!HHHH", a, b, udplen, 0) + b"abcd"
        elif proto == 1: l4 = struct.pack("!BBH", a & 0xff, b & 0xff, 0) + b"\0" * 8
        else: l4 = struct.pack("!HH", a, b) + b"\0" * 6
        opts = (b"\1" * (4 * max(0, ihl - 5))) if opts is None else opts
        tot = 20 + len(opts) + len(l4) + totdelta
        return (struct.pack("!BBHHHBBH", 0x40 | (ihl & 15), tos, tot & 0xffff, 7, ((flags & 7) << 13) | (fragoff & 0x1fff), 64, proto, 0) +
                src.to_bytes(4, "big") + dst.to_bytes(4, "big") + opts + l4 + pad)

    @staticmethod
    def raw_arp(op=1, spa=0x0a000001, tpa=0x0a000002, htype=1, ptype=0x0800, hlen=6, plen=4):
        return struct.pack("!HHBBH", htype, ptype, hlen, plen, op) + b"\0\0\0\0\0\x11" + spa.to_bytes(4, "big") + b"\0" * 6 + tpa.to_bytes(4, "big")

    @staticmethod
    def raw_eth(typ, payload, src=0x000000000011, dst=0x000000000022):
        """typ None: an 802.3 length field (the payload's length)"""
        return (dst.to_bytes(6, "big") + src.to_bytes(6, "big") + struct.pack("!H", len(payload) if typ is None else typ) + payload).hex()

    @staticmethod
    def raw_tag(typ, payload, vid=5, pcp=3, cfi=0):
        return struct.pack("!HH", (pcp << 13) | (cfi << 12) | vid, typ) + payload

    @staticmethod
    def raw_llc(payload, dsap=0xaa, ssap=0xaa, ctl=3, oui=0, typ=0x0800):
        return bytes([dsap, ssap, ctl]) + oui.to_bytes(3, "big") + struct.pack("!H", typ) + payload

    # EtherTypes: the tag types of 802.1Q / 802.1ad / the pre-standard QinQ values, the 802.3 length boundary, the types with L3 meaning for
    # OpenFlow and their neighbours, and — read from the module at run time — every type the packet library has a constant or a parser for
    ETYPES = [0x8100, 0x88a8, 0x9100, 0x9200, 0x9300, 0x80ff, 0x8101, 0x88a7, 0x88a9, 0x90ff, 0x9101, 0x05dc, 0x05ff, 0x0600, 0x0601, 0x0000, 0x002e,
              0x0800, 0x0801, 0x07ff, 0x0806, 0x0805, 0x0807, 0x8035, 0x86dd, 0x8847, 0x8848, 0x88cc, 0x888e, 0x88e7, 0x22f3, 0xffff, 0xfffe]

    # TCP option areas: well-formed (what real stacks send) and malformed (what a parser may choke on); the ports do not depend on any of it
    TCP_OPTION_AREAS = {
        "nop": b"\1\1\1\1", "eol": b"\0\0\0\0", "eol-then-junk": b"\0\2\0\0", "mss": b"\2\4\5\xb4", "ws": b"\3\3\7", "sackperm": b"\4\2",
        "sack1": b"\5\x0a" + b"\0\0\0\1\0\0\0\2", "sack4": b"\1\1\5\x22" + bytes(32), "ts": b"\x08\x0a" + bytes(8),
        "syn": b"\2\4\5\xb4\4\2\x08\x0a" + bytes(8) + b"\1\3\3\7", "synack-40": b"\2\4\5\xb4\1\3\3\7\1\1\x08\x0a" + bytes(8) + b"\4\2" + b"\1" * 18,
        "mptcp-capable": b"\x1e\x0c\x00\x81" + b"\1" * 8, "mptcp-capable-20": b"\x1e\x14\x00\x81" + b"\1" * 16, "mptcp-join": b"\x1e\x0c\x10\x01" + bytes(8),
        "mptcp-dss": b"\x1e\x14\x20\x05" + bytes(16), "mptcp-dss-short": b"\x1e\x04\x20\x01", "mptcp-add-addr": b"\x1e\x08\x30\x01\x0a\0\0\1",
        "mptcp-fastclose": b"\x1e\x0c\x70\x00" + bytes(8), "mptcp-unknown-subtype": b"\x1e\x04\xf0\x00", "md5": b"\x13\x12" + bytes(16), "fastopen": b"\x22\2",
        "fastopen-cookie": b"\x22\x0a" + bytes(8), "unknown-kind": b"\xfd\4\1\2", "unknown-kind-len2": b"\xfe\2", "experimental": b"\xfd\6\xf9\x89\0\0",
        "len0": b"\2\0\5\xb4", "len1": b"\2\1\5\xb4", "overrun": b"\2\x28\5\xb4", "overrun-by-1": b"\1\1\2\3", "mss-len3": b"\2\3\5", "mss-len6": b"\2\6\5\xb4\0\0",
        "ws-len4": b"\3\4\7\7", "sackperm-len3": b"\4\3\0", "sack-len3": b"\5\3\0", "sack-len9": b"\5\x09" + bytes(7), "ts-len4": b"\x08\4\0\0",
        "unknown-len0": b"\xfd\0\0\0", "unknown-len1": b"\xfd\1\0\0", "last-octet-is-a-kind": b"\1\1\1\2", "mptcp-len2": b"\x1e\2", "mptcp-len3": b"\x1e\3\0",
        "good-then-bad": b"\2\4\5\xb4\3\0\0\0", "bad-after-eol": b"\0\3\0\0",
    }

    def etypes(self):
        eth = self.pkt.ethernet
        lib = [v for k, v in vars(eth).items() if k.endswith("_TYPE") and isinstance(v, int)] + [k for k in getattr(eth, "type_parsers", {}) if isinstance(k, int)]
        out = list(self.ETYPES)
        for t in sorted(set(lib)):
            for x in (t, t - 1, t + 1):
                if 0 <= x <= 0xffff and x not in out: out.append(x)
        return out

    def byte_frames(self):
        """[(family, hex)]: frames in which the bytes the packet library has to interpret take every value of their small domains —
        IP flag bits x fragment offsets x protocols, IHL / options / total length, TCP data offset, every EtherType of `etypes()` as outer
        type, behind an 802.1Q tag and inside SNAP, in front of tag-like / IP / ARP / LLC-like payloads, LLC / SNAP header forms"""
        out = []
        ip, arp, eth, tag, llc = self.raw_ip, self.raw_arp, self.raw_eth, self.raw_tag, self.raw_llc
        ab = {6: (4000, 80), 17: (4000, 5060), 1: (8, 0), 47: (1, 2)}
        for flags in range(8):
            for fo in (0, 1, 185, 8191):
                for proto in (6, 17, 1, 47):
                    for ihl in ((5, 6) if fo in (0, 185) else (5,)):
                        a, b = ab[proto]
                        out.append(("ipflags", eth(0x0800, ip(proto, flags, fo, ihl, a=a, b=b))))
            out.append(("ipflags", eth(0x8100, tag(0x0800, ip(17, flags, 0, a=7, b=9)))))
            out.append(("ipflags", eth(None, llc(ip(6, flags, 0, a=7, b=9)))))
        for ihl in range(5, 16):
            for proto in (6, 17, 1):
                a, b = ab[proto]
                out.append(("ihl", eth(0x0800, ip(proto, 0, 0, ihl, a=a, b=b))))
                o = (b"\x94\x04\0\0" + b"\x07\x07\x04" + b"\0" * 4 + b"\0" + b"\x44\x04\x05\0" * 9)[:4 * (ihl - 5)]
                out.append(("ihl", eth(0x0800, ip(proto, 2, 0, ihl, a=a, b=b, opts=o))))
        for proto in (6, 17, 1):
            a, b = ab[proto]
            for td, pad in ((0, b"\0" * 6), (-2, b""), (4, b""), (-4, b"\0" * 18)):
                out.append(("iplen", eth(0x0800, ip(proto, 0, 0, 5, a=a, b=b, totdelta=td, pad=pad))))
                out.append(("iplen", eth(0x0800, ip(proto, 0, 0, 7, a=a, b=b, totdelta=td, pad=pad))))
        for bad in (dict(ihl=4), dict(ihl=0), dict(ihl=15, opts=b"\1" * 8), dict(totdelta=-30)):
            out.append(("iplen", eth(0x0800, ip(17, 0, 0, **bad))))
        for off in range(0, 16):
            out.append(("tcpoff", eth(0x0800, ip(6, 2, 0, 5, tcpoff=off))))
        for name, o in sorted(self.TCP_OPTION_AREAS.items()):
            out.append(("tcpopt", eth(0x0800, ip(6, 2, 0, 5, tcpopts=o))))
            out.append(("tcpopt", eth(0x8100, tag(0x0800, ip(6, 0, 0, 6, a=1, b=65535, tcpopts=o)))))
        for kind in list(range(0, 9)) + [19, 28, 29, 30, 34, 69, 253, 254, 255]:          # every option kind the library knows + unknown ones, at lengths around its own
            for ln in (0, 1, 2, 3, 4, 8, 10, 12, 20, 40):
                body = bytes([kind, ln]) + bytes(max(0, min(ln, 38) - 2))
                if len(body) <= 40: out.append(("tcpopt", eth(0x0800, ip(6, 2, 0, 5, tcpopts=body))))
        for ul in (0, 1, 7, 8, 11, 12, 13, 1500, 65535):                 # UDP length field: the ports do not depend on it
            out.append(("udplen", eth(0x0800, ip(17, 2, 0, 5, a=4000, b=5060, udplen=ul))))
        for t, c in ((0, 0), (3, 1), (3, 4), (5, 1), (8, 0), (11, 0), (12, 0), (13, 0), (17, 0), (42, 0), (255, 255)):   # ICMP types whose bodies the library parses
            out.append(("icmp", eth(0x0800, ip(1, 0, 0, 5, a=t, b=c))))
            out.append(("icmp", eth(0x0800, ip(1, 0, 0, 5, a=t, b=c, totdelta=-6))))        # body cut short, the 4-octet header intact
        udp = ip(17, 2, 0, a=4000, b=5060)
        for t in self.etypes():
            out.append(("etype", eth(t, tag(0x0800, udp))))                 # a tag-like payload: only 0x8100 makes it a tag
            out.append(("etype", eth(t, udp)))                             # an IP datagram: only 0x0800 makes it one
            out.append(("etype", eth(t, arp())))                           # an ARP packet: only 0x0806 makes it one
            out.append(("etype", eth(t, llc(udp))))                        # a SNAP header: only behind a length
            out.append(("etype", eth(0x8100, tag(t, udp))))                # behind the tag
            out.append(("etype", eth(0x8100, tag(t, tag(0x0800, udp)))))   # a second tag-like header behind the tag
            out.append(("etype", eth(0x8100, tag(t, arp(op=2)))))
            out.append(("etype", eth(None, llc(udp, typ=t))))              # inside SNAP
            out.append(("etype", eth(None, llc(tag(0x0800, udp), typ=t))))
        for dsap in (0xaa, 0xab, 0x42, 0xfe, 0):
            for ssap in (0xaa, 0xab, 0x42, 0):
                for ctl in (3, 0x13, 0, 1):
                    if (dsap, ssap) != (0xaa, 0xaa) and ctl not in (3, 0): continue
                    for oui in ((0, 0x00000c, 0x0080c2, 0x010000) if (dsap, ssap, ctl) == (0xaa, 0xaa, 3) else (0,)):
                        out.append(("llc", eth(None, llc(udp, dsap, ssap, ctl, oui))))
        for n in (0, 1, 2, 3, 7):                  # length field with less than an LLC / SNAP header behind it
            out.append(("llc", eth(n, llc(b"")[:n])))
        return out

    def byte_cases(self, rng):
        """the frames of `byte_frames` in every role: extraction + matches on the fields their bytes decide, the flow a controller builds
        from them, and lookups in tables whose entries discriminate on those fields (several frames of a family on one table, in sequence)"""
        cases, fam = [], {}
        disc = [DL_TYPE, DL_VLAN, PCP, PROTO, NW_SRC, NW_DST, TP_SRC, TP_DST]
        for n, (family, fr) in enumerate(self.byte_frames()):
            try: self.parse(fr)
            except Exception: continue             # parser robustness is C15's subject
            port = 1 + n % 4
            ph, wf, h = self.headers_of(fr, port)
            recs = [self.near_rec(rng, h, ph, [], 0, 0), self.only_field_rec(h, [])]
            for f in disc:
                r = self.only_field_rec(h, [f]); recs.append(r)
                r2 = list(r); r2[f] = (r2[f] + 1) & FIELD_MAX[f]; recs.append(r2)
            recs.append(self.only_field_rec(h, [TP_SRC, TP_DST])); recs.append(self.only_field_rec(h, [DL_VLAN, DL_TYPE]))
            for c in self.batches(fr, port, recs, ph, tag="bytes " + family): cases.append(c)
            cls = self.trigger([0] * 13, ph)
            if n % 3 == 0 or cls is not None:
                c = {"kind": "selfflow", "frame": fr, "port": port, "swport": port, "sf": True, "tag": "bytes " + family}
                cases.append(c)
                if cls is not None: cases.append(dict(c, corr_only=True))
            if wf == 2 and cls is None: fam.setdefault(family, []).append((fr, port, h))
            elif wf == 2:                            # open-finding frames get a table of their own: the lookup failure is reported under the finding's key
                ents = [[100, pack_rec(self.only_field_rec(h, [TP_DST])).hex()], [1, pack_rec(self.only_field_rec(h, [])).hex()]]
                c = {"kind": "table", "entries": ents, "frames": [{"frame": fr, "port": port}], "tag": "bytes " + family, "class": cls}
                cases.append(c); cases.append(dict(c, corr_only=True))
        for family in sorted(fam):
            fs = fam[family]
            for i in range(0, len(fs), 4):
                grp = fs[i:i + 4]
                ents = []
                for j, (fr, port, h) in enumerate(grp):
                    ents.append([100 + 10 * j, pack_rec(self.only_field_rec(h, [DL_TYPE, DL_VLAN, TP_SRC, TP_DST])).hex()])
                    ents.append([60 + j, pack_rec(self.only_field_rec(h, [[DL_TYPE], [DL_VLAN], [PROTO], [NW_DST]][(i // 4 + j) % 4])).hex()])
                    if h[DL_TYPE - 1] == 0x0800 and h[PROTO - 1] in (1, 6, 17) and j % 2 == 0:
                        ents.append([5, pack_rec([0] + list(h)).hex()])                                       # exact entry
                ents.append([1, pack_rec(self.only_field_rec(grp[0][2], [])).hex()])                          # catch-all
                if (i // 4) % 2: ents.reverse()
                order = [{"frame": fr, "port": port} for fr, port, _ in grp]
                c = {"kind": "table", "entries": ents, "frames": order + order[::-1][1:], "seq": True, "tag": "bytes " + family}
                if (i // 4) % 3 == 0: c["via_switch"] = True
                elif (i // 4) % 3 == 1: c["twin"] = True
                cases.append(c)
                if (i // 4) % 4 == 0:
                    ops = [["add", j, p, w, 0, 0, 1000] for j, (p, w) in enumerate(ents)]
                    for fr, port, _ in grp: ops.append(["lookup", fr, port])
                    ops.append(["rm_match", ents[0][1], ents[0][0], True])
                    for fr, port, _ in grp: ops.append(["lookup", fr, port])
                    cases.append({"kind": "tableops", "ops": ops, "tag": "bytes " + family})
        return cases

    # ---------------------------------------------------------------- sequences of lookups on one table
    def build_obj(self, d, _len=None):
        """packet OBJECT from a description {src,dst (ints), vlan: None|[id,pcp], l3: ["ip",src,dst,proto,tos,frag,a,b] | ["arp",op,spa,tpa] | ["other",ethertype]};
        for proto 1 (a,b) = ICMP type/code, else ports; frag: 0 none, 1 first fragment (MF), 2 later fragment (offset 185).  Optional: "vlan2": [id,pcp] a
        second tag behind the first; "enc": "snap" (802.3 length + LLC/SNAP, OUI 0, carrying the EtherType) | "snap_oui" (SNAP of another organisation) |
        "llc" (plain LLC).  Real packet library; nothing is serialised or parsed: every header object is constructed, `parsed` stays False."""
        P, IP, Eth = self.pkt, self.IPAddr, self.EthAddr
        l3 = d["l3"]
        if l3[0] == "ip":
            _, s, t, proto, tos, frag, a, b = l3
            if proto == 6: q = P.tcp(srcport=a, dstport=b, off=5, win=1); q.payload = b"xy"
            elif proto == 17: q = P.udp(srcport=a, dstport=b); q.payload = b"abcd"
            elif proto == 1: q = P.icmp(type=a, code=b); q.payload = b"\0" * 8
            else: q = struct.pack("!HH", a, b) + b"\0" * 4
            pay = P.ipv4(srcip=IP(s.to_bytes(4, "big")), dstip=IP(t.to_bytes(4, "big")), protocol=proto, tos=tos,
                         flags=P.ipv4.MF_FLAG if frag == 1 else 0, frag=185 if frag == 2 else 0)
            pay.payload = q; typ = 0x0800
        elif l3[0] == "arp":
            pay = P.arp(opcode=l3[1], hwsrc=Eth(d["src"].to_bytes(6, "big")), hwdst=Eth(b"\0" * 6),
                        protosrc=IP(l3[2].to_bytes(4, "big")), protodst=IP(l3[3].to_bytes(4, "big"))); typ = 0x0806
        else:
            pay = b"payload-" + bytes([l3[1] & 0xff]); typ = l3[1]
        if d.get("vlan2") is not None:
            v = P.vlan(id=d["vlan2"][0], pcp=d["vlan2"][1], eth_type=typ); v.payload = pay; pay = v; typ = 0x8100
        if d["vlan"] is not None:
            v = P.vlan(id=d["vlan"][0], pcp=d["vlan"][1], eth_type=typ); v.payload = pay; pay = v; typ = 0x8100
        enc = d.get("enc")
        if enc is not None:
            if _len is None:                        # the 802.3 length field: measured on a twin, so that this object is never serialised
                _len = len(self.build_obj(d, _len=0).pack()) - 14
            if enc == "snap": l = P.llc(dsap=0xaa, ssap=0xaa, control=3, oui=b"\0\0\0", eth_type=typ)
            elif enc == "snap_oui": l = P.llc(dsap=0xaa, ssap=0xaa, control=3, oui=b"\0\0\x0c", eth_type=typ)
            elif enc == "llc": l = P.llc(dsap=0x42, ssap=0x42, control=3)
            else: raise ValueError(enc)
            l.payload = pay; pay = l; typ = _len
        e = P.ethernet(src=Eth(d["src"].to_bytes(6, "big")), dst=Eth(d["dst"].to_bytes(6, "big")), type=typ); e.payload = pay
        return e

    def build_frame(self, d):
        """the bytes (hex) of the frame of description d: the hand-built object of `build_obj`, serialised"""
        return self.build_obj(d).pack().hex()

    SEQ_BASES = {
        "tcp": {"src": 0x000000000011, "dst": 0x000000000022, "vlan": None, "l3": ["ip", 0x0a000001, 0x0a000002, 6, 0, 0, 4000, 80]},
        "udp": {"src": 0x000000000011, "dst": 0x000000000022, "vlan": None, "l3": ["ip", 0x0a000001, 0x0a000002, 17, 0xb8, 0, 4000, 5060]},
        "icmp": {"src": 0x000000000011, "dst": 0x000000000022, "vlan": None, "l3": ["ip", 0x0a000001, 0x0a000002, 1, 0, 0, 8, 0]},
        "arp": {"src": 0x000000000011, "dst": 0xffffffffffff, "vlan": None, "l3": ["arp", 1, 0x0a000001, 0x0a000002]},
        "other": {"src": 0x000000000011, "dst": 0x000000000022, "vlan": None, "l3": ["other", 0x88b5]},
        "vlan_udp": {"src": 0x000000000011, "dst": 0x000000000022, "vlan": [10, 0], "l3": ["ip", 0x0a000001, 0x0a000002, 17, 0, 0, 4000, 5060]},
        "vlan_arp": {"src": 0x000000000011, "dst": 0xffffffffffff, "vlan": [10, 5], "l3": ["arp", 2, 0x0a000001, 0x0a000002]},
        # rare values at every position: zeros (falsy), maxima, signed/unsigned boundaries
        "zero_udp": {"src": 0x000000000001, "dst": 0x000000000002, "vlan": [0, 0], "l3": ["ip", 0, 0, 17, 0, 0, 0, 0]},
        "zero_icmp": {"src": 0x000000000001, "dst": 0x000000000002, "vlan": None, "l3": ["ip", 1, 0, 1, 0, 0, 0, 0]},
        "zero_arp": {"src": 0x000000000001, "dst": 0x000000000002, "vlan": None, "l3": ["arp", 0, 0, 0]},
        "max_udp": {"src": 0xfefffffffffe, "dst": 0xfffffffffffe, "vlan": [4094, 6], "l3": ["ip", 0xfffffffe, 0xfffffffe, 17, 0xf8, 0, 65534, 65534]},
        "mid_tcp": {"src": 0x7fffffffffff, "dst": 0x800000000000, "vlan": [2047, 3], "l3": ["ip", 0x7fffffff, 0x80000000, 6, 0x7c, 0, 32767, 32768]},
        "frag_udp": {"src": 0x000000000011, "dst": 0x000000000022, "vlan": None, "l3": ["ip", 0x0a000001, 0x0a000002, 17, 0, 2, 4000, 5060]},
    }

    def seq_variants(self, d, field, rng):
        """descriptions that differ from `d` in exactly the extracted field `field` (index into F), [] if the field does not apply to this frame;
        "frag" = the same datagram as fragment / unfragmented (tp_src and tp_dst become 0)"""
        out = []
        def mod(path, val):
            n = copy.deepcopy(d)
            if path[0] == "l3": n["l3"][path[1]] = val
            elif path[0] == "vlan": n["vlan"][path[1]] = val
            else: n[path[0]] = val
            out.append(n)
        l3 = d["l3"]
        if field == DL_SRC: mod(["src"], d["src"] + 1); mod(["src"], d["src"] ^ 0x010000000000)
        elif field == DL_DST: mod(["dst"], (d["dst"] + 1) & 0xffffffffffff); mod(["dst"], d["dst"] ^ 0x000000010000)
        elif field == DL_VLAN:
            if d["vlan"] is not None:
                mod(["vlan", 0], d["vlan"][0] + 1)
                n = copy.deepcopy(d); n["vlan"] = None
                if d["vlan"][1] == 0: out.append(n)            # untagged: dl_vlan 0xffff, pcp 0 -- only the vlan field differs when pcp was 0
        elif field == PCP:
            if d["vlan"] is not None: mod(["vlan", 1], (d["vlan"][1] + 5) % 8); mod(["vlan", 1], (d["vlan"][1] + 1) % 8)
        elif field == DL_TYPE:
            if l3[0] == "other": mod(["l3", 1], l3[1] + 1); mod(["l3", 1], 0x9000)
        elif field == TOS:
            if l3[0] == "ip": mod(["l3", 4], l3[4] ^ 0xb8); mod(["l3", 4], (l3[4] + 0x20) & 0xfc)      # DSCP changes only: ECN bits are D36's input class
        elif field == PROTO:
            if l3[0] == "ip" and l3[5] == 0 and l3[3] in (6, 17): mod(["l3", 3], 23 - l3[3])
            elif l3[0] == "ip" and l3[5] == 2: mod(["l3", 3], 23 - l3[3]) if l3[3] in (6, 17) else None
            elif l3[0] == "arp": mod(["l3", 1], 3 - l3[1]); mod(["l3", 1], l3[1] + 2)
        elif field == NW_SRC:
            if l3[0] in ("ip", "arp"): i = 1 if l3[0] == "ip" else 2; mod(["l3", i], l3[i] + 1); mod(["l3", i], l3[i] ^ 0x00010000)
        elif field == NW_DST:
            if l3[0] in ("ip", "arp"): i = 2 if l3[0] == "ip" else 3; mod(["l3", i], l3[i] + 1); mod(["l3", i], l3[i] ^ 0x01000000)
        elif field == TP_SRC:
            if l3[0] == "ip" and l3[5] == 0 and l3[3] in (1, 6, 17): mod(["l3", 6], l3[6] + 1 if l3[3] != 1 else 0)
        elif field == TP_DST:
            if l3[0] == "ip" and l3[5] == 0 and l3[3] in (1, 6, 17): mod(["l3", 7], l3[7] + 1 if l3[3] != 1 else 3)
        elif field == "frag":
            if l3[0] == "ip" and l3[3] in (6, 17): mod(["l3", 5], 1 if l3[5] != 1 else 0); mod(["l3", 5], 2 if l3[5] != 2 else 0)
        return [x for x in out if x is not None]

    def only_field_rec(self, h, fields, hi=0):
        """transmitted match that compares exactly `fields` (plus the prerequisites they need), values from the header tuple h"""
        need = set(fields)
        if need & {TOS, PROTO, NW_SRC, NW_DST, TP_SRC, TP_DST}: need.add(DL_TYPE)
        if need & {TP_SRC, TP_DST}: need.add(PROTO)
        r = [mkwild([f for f in FLAG_FIELDS if f not in need], 0 if NW_SRC in need else 32, 0 if NW_DST in need else 32, hi)] + list(h)
        for f in FLAG_FIELDS:
            if f not in need: r[f] = 0
        if NW_SRC not in need: r[NW_SRC] = 0
        if NW_DST not in need: r[NW_DST] = 0
        return r

    SEQ_FIELDS = [IN_PORT, DL_SRC, DL_DST, DL_VLAN, PCP, DL_TYPE, TOS, PROTO, NW_SRC, NW_DST, TP_SRC, TP_DST, "frag"]

    def lookup_seq_cases(self, rng, bases=None, per=1):
        """Sequences of lookups on ONE table without any change in between: frames that differ in exactly one extracted field (every one of
        the 12 match fields, and fragment / non-fragment), looked up in both orders and as A,B,A / A,A,B triples, against entries that
        discriminate on that very field (one per value, different priorities), with and without a catch-all, sometimes an exact entry.
        The oracle holds every single lookup to the standard, whatever was looked up before (and compares with a fresh copy of the table)."""
        for bname in (bases or sorted(self.SEQ_BASES)):
            d = self.SEQ_BASES[bname]
            for field in self.SEQ_FIELDS:
                port = 1 + (len(bname) + self.SEQ_FIELDS.index(field)) % 3
                if bname.startswith("zero"): port = 0
                elif bname.startswith("max"): port = 0xfffe
                elif bname.startswith("mid"): port = 0x7fff
                if field == IN_PORT: pairs = [((d, port), (d, {0: 1, 0xfffe: 0xffff, 0x7fff: 0x8000}.get(port, port % 3 + 1)))]
                else: pairs = [((d, port), (v, port)) for v in self.seq_variants(d, field, rng)[:per + 1]]
                for (da, pa), (db, pb) in pairs:
                    fa, fb = self.build_frame(da), self.build_frame(db)
                    try: (pha, wfa, ha), (phb, wfb, hb) = self.headers_of(fa, pa), self.headers_of(fb, pb)
                    except Exception: continue
                    if wfa < 2 or wfb < 2: continue
                    disc = [TP_SRC, TP_DST] if field == "frag" else [field]
                    ents = [[200, pack_rec(self.only_field_rec(ha, disc)).hex()], [300, pack_rec(self.only_field_rec(hb, disc)).hex()]]
                    if rng.random() < 0.6: ents.append([10, pack_rec(self.only_field_rec(ha, [])).hex()])                   # catch-all
                    if rng.random() < 0.4: ents.append([rng.choice([1, 250]), pack_rec([0] + list(ha)).hex()])              # exact entry of A
                    if rng.random() < 0.4: ents.insert(0, [rng.choice([5, 250, 400]), pack_rec(self.only_field_rec(hb, disc + [DL_SRC])).hex()])
                    if rng.random() < 0.5: ents.reverse()
                    A, B = {"frame": fa, "port": pa}, {"frame": fb, "port": pb}
                    for order in ([A, B], [B, A], [A, B, A], [B, B, A, B]):
                        c = {"kind": "table", "entries": ents, "frames": order, "seq": True, "tag": "seq %s %s" % (bname, field if field == "frag" else F[field])}
                        if pa in (1, 2, 3, 4) and pb in (1, 2, 3, 4) and rng.random() < 0.15: c["via_switch"] = True
                        elif rng.random() < 0.3: c["twin"] = True
                        yield c

    # ---------------------------------------------------------------- frames handed to the table after rewrite actions
    @staticmethod
    def gen_rewrite(b, acts):
        """what OpenFlow 1.0 rewrite actions make of the header fields of frame `b` (checksums not maintained).  Used ONLY to aim table entries at the
        frame the switch will probably look up; the oracle reads the looked-up frame off the bytes that leave the switch."""
        b = bytes(b)
        for a in acts:
            k, v = a[0], (a[1] if len(a) > 1 else None)
            tagged = len(b) >= 18 and be(b[12:14]) == 0x8100
            o = 18 if tagged else 14
            ip = len(b) >= o + 20 and be(b[o - 2:o]) == 0x0800 and b[o] >> 4 == 4 and (b[o] & 15) >= 5
            if k in ("set_vlan_vid", "set_vlan_pcp"):
                if not tagged: b = b[:12] + b"\x81\x00\x00\x00" + b[12:]
                tci = be(b[14:16])
                tci = (tci & 0xf000) | (v & 0xfff) if k == "set_vlan_vid" else (tci & 0x1fff) | ((v & 7) << 13)
                b = b[:14] + struct.pack("!H", tci) + b[16:]
            elif k == "strip_vlan":
                if tagged: b = b[:12] + b[16:]
            elif k == "set_dl_src": b = b[:6] + bytes.fromhex(v) + b[12:]
            elif k == "set_dl_dst": b = bytes.fromhex(v) + b[6:]
            elif k == "set_nw_src" and ip: b = b[:o + 12] + struct.pack("!I", v) + b[o + 16:]
            elif k == "set_nw_dst" and ip: b = b[:o + 16] + struct.pack("!I", v) + b[o + 20:]
            elif k == "set_nw_tos" and ip: b = b[:o + 1] + bytes([(v & 0xfc) | (b[o + 1] & 3)]) + b[o + 2:]
            elif k in ("set_tp_src", "set_tp_dst") and ip:
                l4 = o + (b[o] & 15) * 4
                if b[o + 9] in (6, 17) and be(b[o + 6:o + 8]) & 0x3fff == 0 and len(b) >= l4 + 4:
                    q = l4 + (0 if k == "set_tp_src" else 2)
                    b = b[:q] + struct.pack("!H", v) + b[q + 2:]
        return b

    ACTION_LISTS = [
        [], [["set_vlan_vid", 5]], [["set_vlan_vid", 0]], [["set_vlan_vid", 4095]], [["set_vlan_vid", 0x1005]], [["set_vlan_pcp", 0]], [["set_vlan_pcp", 3]], [["set_vlan_pcp", 7]],
        [["strip_vlan"]], [["set_dl_src", "020000000099"]], [["set_dl_dst", "ffffffffffff"]], [["set_nw_src", 0xc0a80101]], [["set_nw_dst", 0x0a000063]],
        [["set_nw_tos", 0xb8]], [["set_nw_tos", 0x20]], [["set_tp_src", 53]], [["set_tp_dst", 65535]], [["set_tp_dst", 0]],
        [["set_vlan_vid", 100], ["set_vlan_pcp", 6]], [["set_vlan_pcp", 2], ["set_vlan_vid", 7]], [["strip_vlan"], ["set_vlan_vid", 9]], [["set_vlan_pcp", 1], ["strip_vlan"]],
        [["set_vlan_vid", 8], ["strip_vlan"], ["set_vlan_pcp", 4]], [["set_vlan_vid", 12], ["set_nw_dst", 0x0a000063], ["set_tp_dst", 8080]],
        [["set_dl_src", "020000000099"], ["set_vlan_pcp", 5], ["set_nw_tos", 0x48]], [["strip_vlan"], ["strip_vlan"]],
    ]
    RESUBMIT_BASES = ["tcp", "udp", "icmp", "arp", "other", "vlan_udp", "vlan_arp", "zero_udp", "max_udp", "mid_tcp", "frag_udp"]

    def resubmit_case(self, rng, fr, port, acts, vias, extra=6, tag=None):
        """one frame, one action list, handed to the table in each of the `vias`; entries aimed at the frame before AND after the rewrite, on the
        fields the rewrite changes (different priorities, so that taking the frame for the unrewritten one — or for something in between, e.g. an
        untagged frame of type 0x8100 — returns another entry), on dl_vlan / dl_type / the addresses behind a tag, an exact entry, sometimes a catch-all"""
        b1 = bytes.fromhex(fr); b2 = self.gen_rewrite(b1, acts)
        ph1, wf1, h1 = self.headers_of(fr, port)
        ph2, wf2, h2 = self.headers_of(b2.hex(), port)
        changed = [f for f in range(1, 13) if h1[f - 1] != h2[f - 1]]
        flag = lambda fs: [f for f in fs if f in FLAG_FIELDS or f in (NW_SRC, NW_DST)]
        ents = []
        def add(p, r):
            if self.trigger(r, ph1) is None and self.trigger(r, ph2) is None: ents.append([p, pack_rec(r).hex()])
        add(300, self.only_field_rec(h2, flag(changed) or [DL_TYPE]))
        add(200, self.only_field_rec(h1, flag(changed) or [DL_TYPE]))
        add(250, self.only_field_rec(h2, [DL_VLAN])); add(240, self.only_field_rec(h1, [DL_VLAN]))
        add(260, self.only_field_rec(h2, [DL_VLAN, PCP, DL_TYPE]))
        l3f = [DL_TYPE, NW_DST] if h2[DL_TYPE - 1] in (0x0800, 0x0806) else [DL_TYPE]
        add(270, self.only_field_rec(h2, l3f))
        if h2[DL_TYPE - 1] == 0x0800 and h2[PROTO - 1] in (1, 6, 17):
            add(280, self.only_field_rec(h2, [TP_SRC, TP_DST])); add(5, [0] + list(h2))
        add(230, self.only_field_rec([h1[0], h1[1], h1[2], 0xffff, 0, 0x8100] + [0] * 6, [DL_VLAN, DL_TYPE]))          # an untagged frame of type 0x8100
        for _ in range(extra):
            h, ph = (h2, ph2) if rng.random() < 0.7 else (h1, ph1)
            r = self.rand_rec(rng, h, ph)
            if spec_exact_sig(r) and not (r[DL_TYPE] == 0x0800 and r[PROTO] in (1, 6, 17) and spec_exact(r)): continue
            add(rng.choice([1, 100, 255, 256, 290, 0x8000, rng.randint(0, 400)]), r)
        if rng.random() < 0.5: add(1, self.only_field_rec(h2, []))
        rng.shuffle(ents)
        c = {"kind": "resubmit", "entries": ents, "steps": [{"frame": fr, "port": port, "acts": acts, "via": v} for v in vias]}
        if tag: c["tag"] = tag
        return c

    def resubmit_corpus(self):
        """every rewrite action (and short lists of them) on untagged / tagged / priority-tagged frames of every L3 kind, handed to the table with the
        frame as data, by buffer id, and as the packet object an upstream switch emitted"""
        import random
        rng = random.Random(29)
        out = []
        for bi, bname in enumerate(self.RESUBMIT_BASES):
            fr = self.build_frame(self.SEQ_BASES[bname])
            for ai, acts in enumerate(self.ACTION_LISTS):
                port = [1, 2, 3, 4, 0xfffd, 0xffff, 0][(bi + ai) % 7]
                vias = ["data", "buffer"] + (["chain", "rx"] if port in (1, 2, 3, 4) else [])
                out.append(self.resubmit_case(rng, fr, port, acts, vias, extra=3, tag="resubmit %s %s" % (bname, "+".join(a[0] for a in acts) or "none")))
        return out

    def rand_actions(self, rng):
        mac = lambda: "%012x" % rng.choice([0x11, 0x22, 0x020000000099, 0xffffffffffff, 0, rng.getrandbits(48)])
        ip = lambda: rng.choice([0x0a000001, 0x0a000002, 0xc0a80101, 0, 0xffffffff, rng.getrandbits(32)])
        port = lambda: rng.choice([0, 53, 80, 4000, 32768, 65535, rng.randint(0, 65535)])
        mk = {"set_vlan_vid": lambda: rng.choice([0, 1, 5, 100, 4095, 0x1005, 0xffff]), "set_vlan_pcp": lambda: rng.choice([0, 1, 3, 7, 8, 0xff]),
              "strip_vlan": None, "set_dl_src": mac, "set_dl_dst": mac, "set_nw_src": ip, "set_nw_dst": ip, "set_nw_tos": lambda: rng.choice([0, 0x20, 0xb8, 0xfc]),
              "set_tp_src": port, "set_tp_dst": port}
        names = sorted(mk)
        acts = []
        for _ in range(rng.choice([1, 1, 1, 2, 2, 3, 4])):
            k = rng.choice(names + ["set_vlan_vid", "set_vlan_pcp", "strip_vlan"])
            acts.append([k] if mk[k] is None else [k, mk[k]()])
        return acts

    def resubmit_random(self, rng, pool, n):
        done = 0
        for _ in range(n * 4):
            if done >= n: break
            fr = rng.choice(pool); port = rng.choice([1, 2, 3, 4, 1, 2, 0xfffd, 0xffff, 0xfffe, 0])
            ph, wf, h = self.headers_of(fr, port)
            if wf < 2 or self.trigger([0] * 13, ph) is not None: continue
            acts = self.rand_actions(rng)
            ph2, wf2, _ = self.headers_of(self.gen_rewrite(bytes.fromhex(fr), acts).hex(), port)
            if wf2 < 2 or self.trigger([0] * 13, ph2) is not None: continue
            vias = [v for v in ("data", "buffer", "chain", "rx") if (v in ("data", "buffer") or port in (1, 2, 3, 4)) and rng.random() < 0.6] or ["data"]
            yield self.resubmit_case(rng, fr, port, acts, vias, extra=rng.choice([2, 6, 12]))
            done += 1

    # ---------------------------------------------------------------- packet objects built by hand (never serialised, never parsed)
    def built_descs(self):
        out = [(n, self.SEQ_BASES[n]) for n in sorted(self.SEQ_BASES)]
        B = self.SEQ_BASES
        out += [("snap_" + n, dict(copy.deepcopy(B[n]), enc="snap")) for n in ("tcp", "udp", "icmp", "arp", "other", "vlan_udp")]
        out += [("snap_oui", dict(copy.deepcopy(B["other"]), enc="snap_oui")), ("llc", dict(copy.deepcopy(B["other"]), enc="llc"))]
        out += [("qinq_" + n, dict(copy.deepcopy(B[n]), vlan2=[77, 2])) for n in ("vlan_udp", "vlan_arp")]
        d = copy.deepcopy(B["tcp"]); d["l3"][5] = 1; out.append(("frag_first_tcp", d))
        d = copy.deepcopy(B["vlan_udp"]); d["l3"][5] = 2; out.append(("vlan_frag_udp", d))
        d = copy.deepcopy(B["udp"]); d["l3"][3] = 47; out.append(("gre", d))
        d = copy.deepcopy(B["arp"]); d["l3"][1] = 0x0102; out.append(("arp_op258", d))
        d = copy.deepcopy(B["other"]); d["l3"][1] = 0x86dd; out.append(("v6type", d))
        d = copy.deepcopy(B["other"]); d["l3"][1] = 0x8035; out.append(("rarptype", d))
        return out

    def built_cases(self, rng, descs=None):
        """from_packet / entry_for_packet / rx_packet given packet objects that were CONSTRUCTED with the packet library's classes, one per header class
        and encapsulation: held to the standard's reading of the bytes the object serialises to (the model gets those bytes)"""
        cases = []
        disc = [DL_TYPE, DL_VLAN, PCP, PROTO, NW_SRC, NW_DST, TP_SRC, TP_DST, TOS, DL_SRC]
        for n, (name, d) in enumerate(descs or self.built_descs()):
            try: fr = self.build_frame(d)
            except Exception: continue
            port = 1 + n % 4
            ph, wf, h = self.headers_of(fr, port)
            if self.trigger([0] * 13, ph) is not None: continue
            built = {fr: d}
            recs = [self.near_rec(rng, h, ph, [], 0, 0), self.only_field_rec(h, [])]
            for f in disc:
                r = self.only_field_rec(h, [f]); recs.append(r)
                r2 = list(r); r2[f] = (r2[f] + 1) & FIELD_MAX[f]; recs.append(r2)
            recs.append(self.only_field_rec(h, [DL_VLAN, DL_TYPE]))
            for c in self.batches(fr, port, recs, ph, tag="built " + name):
                c.pop("via_packet_in", None); c["built"] = built; cases.append(c)
            cases.append({"kind": "selfflow", "frame": fr, "port": port, "swport": port, "sf": True, "tag": "built " + name, "built": built})
            if wf < 2: continue
            ents = [[100, pack_rec(self.only_field_rec(h, [DL_TYPE, DL_VLAN])).hex()], [90, pack_rec(self.only_field_rec(h, [DL_VLAN])).hex()],
                    [80, pack_rec(self.only_field_rec(h, [DL_TYPE, NW_DST] if h[DL_TYPE - 1] in (0x0800, 0x0806) else [DL_TYPE])).hex()],
                    [70, pack_rec(self.only_field_rec([h[0], h[1], h[2], 0xffff, 0, 0x8100] + [0] * 6, [DL_VLAN, DL_TYPE])).hex()],
                    [60, pack_rec(self.only_field_rec(h, [DL_SRC])).hex()]]
            if h[DL_TYPE - 1] == 0x0800 and h[PROTO - 1] in (1, 6, 17):
                ents += [[120, pack_rec(self.only_field_rec(h, [TP_SRC, TP_DST])).hex()], [5, pack_rec([0] + list(h)).hex()]]
            ents = [e for e in ents if self.trigger(unpack_rec(bytes.fromhex(e[1])), ph) is None]
            if n % 2: ents.reverse()
            c = {"kind": "table", "entries": ents, "frames": [{"frame": fr, "port": port}] * 2, "seq": True, "tag": "built " + name, "built": built}
            if n % 3 != 2: c["via_switch"] = True
            cases.append(c)
            ops = [["add", j, p, w, 0, 0, 1000] for j, (p, w) in enumerate(ents)] + [["lookup", fr, port], ["rm_match", ents[0][1], ents[0][0], True], ["lookup", fr, port]]
            c = {"kind": "tableops", "ops": ops, "tag": "built " + name, "built": built}
            if n % 2 == 0: c["sw"] = True
            cases.append(c)
        return cases

    def sandwich_cases(self):
        """lookup F / one table operation that must change the answer for F / lookup F again — for every kind of operation — and the sweep
        shapes: six entries that all match F, every subset of them expiring in ONE remove_expired_entries call (adjacent victims, first,
        last, all), idle and hard expiring in the same sweep, then a lookup"""
        out = []
        for bname in ("tcp", "arp", "vlan_udp"):
            d = self.SEQ_BASES[bname]; fr = self.build_frame(d); port = 2
            ph, wf, h = self.headers_of(fr, port)
            low = pack_rec(self.only_field_rec(h, [IN_PORT])).hex()
            high = pack_rec(self.only_field_rec(h, [DL_SRC, DL_TYPE])).hex()
            broad = pack_rec(self.only_field_rec(h, [])).hex()
            L = ["lookup", fr, port]
            seqs = {
                "add-higher": [["add", 0, 10, low, 0, 0, 1000], L, ["add", 1, 20, high, 0, 0, 1000], L],
                "add-lower": [["add", 0, 10, low, 0, 0, 1000], L, ["add", 1, 5, high, 0, 0, 1000], L],
                "add-equal": [["add", 0, 10, low, 0, 0, 1000], L, ["add", 1, 10, high, 0, 0, 1000], L, ["add", 2, 10, "@0", 0, 0, 1000], L],
                "remove-hit": [["add", 0, 10, low, 0, 0, 1000], ["add", 1, 20, high, 0, 0, 1000], L, ["remove", 1], L, ["remove", 1], L, ["remove", 0], L],
                "rm-strict": [["add", 0, 10, low, 0, 0, 1000], ["add", 1, 20, high, 0, 0, 1000], L, ["rm_match", high, 19, True], L, ["rm_match", high, 20, True], L],
                "rm-broad": [["add", 0, 10, low, 0, 0, 1000], ["add", 1, 20, high, 0, 0, 1000], L, ["rm_match", broad, 0, False], L],
                "expire-idle": [["add", 0, 10, low, 0, 0, 1000], ["add", 1, 20, high, 1, 0, 1000], L, ["expire", 2000], L, ["expire", 2125], L],
                "expire-hard": [["add", 0, 10, low, 0, 0, 1000], ["add", 1, 20, high, 0, 2, 1000], L, ["expire", 3000], L, ["expire", 3125], L],
                "expire-both": [["add", 0, 10, low, 1, 1, 1000], ["add", 1, 20, high, 5, 1, 1000], ["add", 2, 30, "@1", 1, 5, 1000], L, ["expire", 2125], L],
                "alias-remove": [["add", 0, 20, high, 0, 0, 1000], ["add", 1, 10, "@0", 0, 0, 1000], L, ["remove", 0], L, ["remove", 1], L],
            }
            for name, ops in seqs.items():
                out.append({"kind": "tableops", "ops": ops, "tag": "sandwich %s %s" % (bname, name)})
            # sweep shapes
            prios = [50, 40, 40, 30, 20, 20]
            for mask in range(64):
                ops = []
                for i in range(6):
                    w = [low, high, broad][i % 3]
                    ops.append(["add", i, prios[i], w, 1 if (mask >> i & 1) and i % 2 == 0 else 0, 2 if (mask >> i & 1) and i % 2 else 0, 1000])
                ops += [L, ["expire", 3125], L]
                out.append({"kind": "tableops", "ops": ops, "tag": "sweep %s %d" % (bname, mask)})
        return out

    def query_catalogue(self, refs, sw, alias=None):
        """every read-only entry point of the table / its switch x the argument shapes that select differently: unfiltered ("all"), filtered
        by the transmitted matches `refs`, by an entry's own match object (`alias` = its id), with and without an out_port filter, every
        table id; sw: also the requests that go through the switch's handlers"""
        out = []
        direct_refs = ["all"] + list(refs) + (["@%d" % alias] if alias is not None else [])
        for what in ("flow_stats", "aggregate"):
            for ref in direct_refs:
                for outp in (None, 3):
                    out.append(["q", what, "direct", ref, outp])
        for ref in direct_refs[:2]:
            for outp in (None, 3):
                out.append(["q", "matching", "direct", ref, outp])
        out += [["q", "len", "direct"], ["q", "entries", "direct"], ["q", "show", "direct"]]
        for ref in refs[:1]: out.append(["q", "overlap", "direct", ref, 30000])
        if sw:
            for what in ("flow_stats", "aggregate"):
                for ref, outp, tid in [("all", None, 0xff), ("all", None, 0), ("all", 3, 0xff), ("all", None, 5)] + [(r, None, (0xff, 0)[i % 2]) for i, r in enumerate(refs)]:
                    out.append(["q", what, "switch", ref, outp, tid])
            out.append(["q", "table_stats", "switch"])
            for w in ("port_all", "port_1", "port_77", "desc", "queue", "features", "config", "barrier", "echo"):
                out.append(["q", "other", "switch", w])
        return out

    def query_sandwich_cases(self):
        """lookup / ONE read-only call / the same lookups again / a table modification / lookups — for every call of `query_catalogue`, on a
        bare table and on a switch's table.  The entries are chosen so that any disturbance of the table a read-only call could cause
        shows in a later lookup: an exact entry with a LOW priority field in front of wildcarded ones with high fields, two wildcarded
        entries of equal priority, a non-matching entry with the highest field, a catch-all at the bottom; the modifications that follow
        (an add that must land in front, a remove, a strict delete, an expiry) rely on the table's order as well."""
        import random
        rng = random.Random(17)
        out = []
        for bname in ("tcp", "vlan_udp", "icmp"):
            d = self.SEQ_BASES[bname]; port = 2
            dg = self.seq_variants(d, TP_SRC, rng)[0]                 # G: the same flow from another source port / ICMP type — the exact entry does not match it
            F, G = self.build_frame(d), self.build_frame(dg)
            ph, wf, h = self.headers_of(F, port)
            hx = lambda fields, **kw: pack_rec(self.only_field_rec(h, fields, **kw)).hex()
            catch, exact = hx([]), pack_rec([0] + list(h)).hex()
            whi, wmid, wmid2, wtop = hx([DL_TYPE, NW_DST]), hx([IN_PORT]), hx([DL_DST]), hx([TP_DST])
            rn = self.only_field_rec(h, [DL_SRC]); rn[DL_SRC] = (rn[DL_SRC] + 1) & FIELD_MAX[DL_SRC]
            LF, LG = ["lookup", F, port], ["lookup", G, port]
            for sw in (False, True):
                for q in self.query_catalogue([whi, exact, wmid], sw, alias=1):
                    if sw and q[2] == "direct" and q[1] not in ("flow_stats", "aggregate", "len"): continue      # the direct calls on a switch's table: a sample
                    if not sw and q[2] == "switch": continue
                    ops = [["add", 0, 1, catch, 0, 0, 1000, 1], ["add", 1, 100, exact, 0, 0, 1000, 2], ["add", 2, 40000, whi, 0, 2, 1000, 3], LF, LG, q, LF, LG,
                           ["add", 3, 30000, wmid, 0, 0, 1000, 4], ["add", 4, 30000, wmid2, 0, 0, 1000, 3], ["add", 5, 50000, pack_rec(rn).hex(), 0, 0, 1000, 2], q, LF, LG,
                           ["add", 6, 50000, wtop, 0, 0, 1000, 4], LF, LG, q, ["remove", 6], LG, LF, q, ["rm_match", exact, 100, True], LF, q,
                           ["expire", 3125], LF, LG, q, ["add", 7, 7, "@1", 0, 0, 3125, 2], LF, LG]
                    c = {"kind": "tableops", "ops": ops, "tag": "read-only %s %s" % (bname, " ".join(str(x) for x in q[1:3]))}
                    if sw: c["sw"] = True
                    out.append(c)
        return out

    def sweep_pairs(self, rng):
        """every IP protocol number, ICMP types/codes, EtherTypes around the 802.3 cutoff and around the tags, ARP opcodes — a frame each,
        against matches on that very field (exact, off by one, wildcarded)"""
        def case(d, fields, port=1):
            try:
                fr = self.build_frame(d); self.parse(fr)
            except Exception:
                return []
            ph, wf, h = self.headers_of(fr, port)
            recs = []
            for f in fields:
                r = self.only_field_rec(h, [f]); recs.append(r)
                r2 = list(r); r2[f] = (r2[f] + 1) & FIELD_MAX[f]; recs.append(r2)
                r3 = list(r); r3[f] = (r3[f] - 1) & FIELD_MAX[f]; recs.append(r3)
            recs.append(self.only_field_rec(h, []))
            return list(self.batches(fr, port, recs, ph))
        out = []
        base = self.SEQ_BASES
        for proto in range(256):
            d = copy.deepcopy(base["udp"]); d["l3"][3] = proto; d["l3"][4] = 0
            if proto == 1: d["l3"][6], d["l3"][7] = 8, 0
            out += case(d, [PROTO, TP_SRC] if proto in (1, 6, 17) else [PROTO])
        for t in list(range(0, 256, 15)) + [255]:
            d = copy.deepcopy(base["icmp"]); d["l3"][6], d["l3"][7] = t, 255 - t
            out += case(d, [TP_SRC, TP_DST])
        for et in (0x05dc, 0x05ff, 0x0600, 0x0601, 0x07ff, 0x0801, 0x0805, 0x0807, 0x8101, 0x88b5, 0xfffe, 0xffff):
            d = copy.deepcopy(base["other"]); d["l3"][1] = et
            out += case(d, [DL_TYPE])
        for op in (0, 1, 2, 3, 254, 255, 256, 257, 0x0100 + 2, 0x7fff, 0x8000, 0xffff):
            d = copy.deepcopy(base["arp"]); d["l3"][1] = op
            out += case(d, [PROTO, NW_SRC])
        return out

    def tableops_case(self, rng, pool, nops, queries=0.0, sw=False):
        """a history on one FlowTable: adds (clustered priorities, many equal: the insertion position among equals is observable),
        remove_entry of present and absent objects, remove_matching_entries (non-strict with broad matches; strict with a copy of
        an installed match at the same / another priority), remove_expired_entries at an advancing clock, lookups in between.
        Inputs of the open findings are kept out, as in table_case."""
        frames = []
        for _ in range(rng.randint(2, 4)):
            for _try in range(20):
                fr = rng.choice(pool); port = rng.choice([1, 2, 3])
                ph, wf, h = self.headers_of(fr, port)
                if self.trigger([0] * 13, ph) is None: break
            frames.append((fr, port, ph, h))
        prios = [rng.choice([0, 1, 100, 0x7fff, 0x8000, 0xffff]) for _ in range(2)]
        def flow():
            while True:
                fr, port, ph, h = rng.choice(frames)
                if rng.random() < 0.2:
                    r = self.near_rec(rng, h, ph, [], 0, 0, perturb=[rng.choice(FLAG_FIELDS)] if rng.random() < 0.2 else ())
                    if not (r[DL_TYPE] == 0x0800 and r[PROTO] in (1, 6, 17)): continue
                else:
                    r = self.rand_rec(rng, h, ph)
                    if spec_exact_sig(r) and not (r[DL_TYPE] == 0x0800 and r[PROTO] in (1, 6, 17) and spec_exact(r)): continue
                if any(self.trigger(r, ph2) is not None for _, _, ph2, _ in frames): continue
                return r
        ops, now, nid, installed, everadded, allrecs = [], 1000, 0, {}, [], {}
        while len(ops) < nops:
            x = rng.random()
            if x < 0.5 or not installed:
                if len(installed) >= 40: continue
                p = rng.choice(prios) if rng.random() < 0.85 else rng.choice([rng.randint(0, 0xffff), 0x7fff, 0x8000, 255, 256, 257])
                idle = 0 if sw else rng.choice([0, 0, 1, 5])     # a switch touches the entries it uses: the idle rule on never-touched entries does not apply there
                outp = rng.choice([None, 1, 3, 3]) if queries else None
                if everadded and rng.random() < 0.12:           # the very match object of an earlier entry again (aliasing)
                    j = rng.choice(everadded); r = allrecs[j]
                    ops.append(["add", nid, p, "@%d" % j, idle, rng.choice([0, 0, 2, 10]), now] + ([outp] if queries else []))
                else:
                    r = flow()
                    ops.append(["add", nid, p, pack_rec(r).hex(), idle, rng.choice([0, 0, 2, 10]), now] + ([outp] if queries else []))
                allrecs[nid] = r
                installed[nid] = (p, r); everadded.append(nid); nid += 1
            elif x < 0.58:
                i = rng.choice(sorted(installed)) if rng.random() < 0.8 else rng.choice(everadded)   # sometimes an object that has left the table
                ops.append(["remove", i]); installed.pop(i, None)
            elif x < 0.66:
                if rng.random() < 0.5:
                    p, r = installed[rng.choice(sorted(installed))]
                    r = list(r)
                    k = min(32, (r[W] >> 8) & 63)
                    if 0 < k and rng.random() < 0.5: r[NW_SRC] ^= 1 << rng.randrange(k)     # identical flow, other bits below the prefix
                    elif rng.random() < 0.15: f = rng.choice([DL_SRC, IN_PORT, TP_DST]); r[f] = (r[f] + 1) & FIELD_MAX[f]   # or a different one
                    ops.append(["rm_match", pack_rec(r).hex(), p if rng.random() < 0.7 else (p + 1) & 0xffff, True])
                else:
                    fr, port, ph, h = rng.choice(frames)
                    r = self.near_rec(rng, h, ph, [f for f in FLAG_FIELDS if rng.random() < 0.8], rng.choice([32, 32, 24, 8]), rng.choice([32, 32, 24]))
                    ops.append(["rm_match", pack_rec(r).hex(), 0, False])
                installed = dict(installed)             # what is left is whatever the code leaves: ids are only used for later `remove`s
            elif x < 0.72:
                now += rng.choice([125, 1000, 1125, 2500, 6000])
                ops.append(["expire", now])
            else:
                fr, port, ph, h = rng.choice(frames)
                ops.append(["lookup", fr, port])
            if queries and rng.random() < queries:          # a call that only reads, between any two steps
                refs = [pack_rec(installed[i][1]).hex() for i in rng.sample(sorted(installed), min(2, len(installed)))]
                fr, port, ph, h = rng.choice(frames)
                refs.append(pack_rec(self.near_rec(rng, h, ph, [f for f in FLAG_FIELDS if rng.random() < 0.8], rng.choice([32, 32, 24, 8]), rng.choice([32, 32, 24]))).hex())
                ops.append(rng.choice(self.query_catalogue(refs, sw, alias=rng.choice(everadded) if everadded else None)))
            if rng.random() < 0.3: now += rng.choice([125, 250, 1000])
        ops.append(["lookup", frames[0][0], frames[0][1]])
        c = {"kind": "tableops", "ops": ops}
        if sw: c["sw"] = True
        return c

    def local_and_subsume(self, rng, pool, n):
        for _ in range(n):
            fr = rng.choice(pool); port = rng.choice([1, 2])
            ph, wf, h = self.headers_of(fr, port)
            if self.trigger([0] * 13, ph) is not None: continue
            # locally built matches (attribute assignment; out-of-range counters forced into the word) against the frame: model-vs-code only
            ms = []
            for _ in range(24):
                r = self.rand_rec(rng, h, ph)
                r[W] &= 0x3fffff
                ms.append({"loc": r, "force_w": rng.random() < 0.5})
            yield {"kind": "pairs", "frame": fr, "port": port, "matches": ms}
            # round trip: local match -> pack(flow_mod=True) -> wire
            ws = []
            for s in ms[:12]:
                if s["force_w"]: continue
                try: ws.append({"w": self.real_match(s).pack(flow_mod=True).hex()})
                except Exception: pass
            if ws:
                for c in self.batches(fr, port, [unpack_rec(bytes.fromhex(w["w"])) for w in ws], ph, tag="roundtrip"): yield c
            # subsumption: a is b with more wildcards / shorter prefixes / a perturbed field
            prs, loc = [], []
            for _ in range(24):
                b = self.rand_rec(rng, h, ph)
                if rng.random() < 0.7: b[W] &= 0x3fffff        # otherwise keep bits 22..31 (the code compares them in the flag test)
                a = list(b)
                mode = rng.random()
                if mode < 0.6:
                    fl = [f for f in FLAG_FIELDS if wild(b, f) or rng.random() < 0.3]
                    sc = min(63, ((b[W] >> 8) & 63) + rng.choice([0, 0, 1, 8])); dc = min(63, ((b[W] >> 14) & 63) + rng.choice([0, 0, 1, 8]))
                    a[W] = mkwild(fl, sc, dc)
                    if rng.random() < 0.3: a[rng.choice([NW_SRC, NW_DST])] ^= 1 << rng.choice([0, 8, 24, 31])
                    if rng.random() < 0.2: f = rng.choice(FLAG_FIELDS); a[f] = (a[f] + 1) & FIELD_MAX[f]
                elif mode < 0.8:
                    a = self.rand_rec(rng, h, ph); a[W] &= 0x3fffff
                prs.append({"a": {"w": pack_rec(a).hex()}, "b": {"w": pack_rec(b).hex()}})
                fw = rng.random() < 0.3                          # out-of-range counters stored as they are
                loc.append({"a": {"loc": [a[W] & 0x3fffff] + a[1:], "force_w": fw}, "b": {"loc": [b[W] & 0x3fffff] + b[1:], "force_w": fw}})
            yield {"kind": "subsume", "pairs": prs}
            yield {"kind": "subsume", "pairs": loc}

def _combos(xs, n):
    import itertools
    return itertools.combinations(xs, n)

CHECK = C03
