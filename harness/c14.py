"""C14 — packet headers survive build -> bytes -> parse with valid lengths and checksums (DESIGN §5 C14).

case kinds
  {"kind":"cksum","data":hex,"start":n,"skip":k|None}        packet_utils.checksum vs model (Model/Checksum.lean) and RFC 1071
  {"kind":"stack","top":cls,"layers":[{k:…,fields…},…,terminal]}   build -> pack -> top(raw=bytes) -> attributes -> re-pack
  {"kind":"mutparse","top":cls,"layers":[…],"mut":[trunc n | set i v …]}   packed bytes, damaged (or not: raw bodies behind headers that compute
                                                               the checksums), parsed and re-packed: model comparison only
  {"kind":"seq","top":cls,"layers":[…],"delta":[{i,f,v}…],"other":[…]?,"bfirst":b}   a call HISTORY on the same objects (HARDENING.md 1, 2, 4):
        build A (and a second object B of its own, before or after), pack A, pack/parse/re-pack B, change fields of A in place, pack A again
        (twice), parse the bytes (keyword, positional, classmethod, parse() on an empty object and on an object that parsed B before), re-pack
        (twice).  Every call must give what the same call gives on fresh objects: the stack property for A-before, B and A-after, equal
        results for the repeated calls; the model (which has no state) is asked the three stacks separately.
  {"kind":"hist","stacks":[layers…],"ops":[attach p c|bytes, pack o, reparse o as k …]}   the SAME header objects moved / shared between containers
        (set as payload of A, then of B, then A given something else; one object under two containers packed alternately; payload replaced and
        re-attached; a header parsed off the wire re-used under a built header; swaps; random sequences).  Every pack must emit the frame of a
        freshly built stack with the same arrangement (tracked symbolically in hist_sim); the model is asked each such stack on its own.

The oracle is independent of the Lean model: it compares the built chain (after pack) with the re-parsed chain, the two
serialisations, and recomputes every length / Internet-checksum field found in the emitted bytes with the RFC 1071
implementation in this file (`rfc1071`) over an independent walk of the wire format (`wire_check`), and compares the emitted frame with
what a reference encoder written from the RFCs in this file (`ref_encode`) produces for the same layer list.
"""
import os, sys, json, re, struct, copy, traceback, importlib
import common, poxenv
from common import Check

# Validation aid, OFF by default: `C14_PROPOSED_FINDINGS=/verif/fixes/C14_proposed_findings.json ./check C14` lets the runner treat the
# known-finding entries proposed in the report as if the coordinator had already merged them into known_findings.json (which this
# module must not edit).  Without the variable the official behaviour is untouched.
if os.environ.get("C14_PROPOSED_FINDINGS"):
    _orig_init = common.Findings.__init__
    def _init(self):
        _orig_init(self)
        extra = json.load(open(os.environ["C14_PROPOSED_FINDINGS"]))["findings"]
        have = {f.get("id") for f in self.open}
        self.open += [f for f in extra if f.get("status", "open") == "open" and f.get("id") not in have]
    common.Findings.__init__ = _init

CORE = {"ethernet", "vlan", "arp", "ipv4", "udp", "tcp", "icmp", "echo", "unreach", "time_exceeded"}       # Model/PacketHdr.lean
EXT = {"llc", "mpls", "lldp", "eapol", "eap", "ipv6", "icmpv6", "echo6", "gre", "vxlan", "igmp", "rip",        # Model/PacketExt.lean
       "nd_ns", "nd_na", "nd_rs", "nd_ra", "toobig6", "timeex6", "unreach6", "dhcp"}
MODELLED = CORE | EXT
TERMINAL = {"bytes", "none"}
UDP_SPECIAL = {67, 68, 53, 5353, 520, 4789}
ETH_PARSED = {0x8100, 0x0806, 0x8035, 0x0800, 0x86dd, 0x88cc, 0x888e, 0x8847, 0x8848}
IP_PARSED = {17, 6, 1, 2, 47}

# ----------------------------------------------------------------------------- independent RFC 1071

def rfc1071(data):
    """RFC 1071 §1: 16-bit big-endian words, odd byte padded on the right, end-around carry, complement."""
    if len(data) % 2:
        data = data + b"\0"
    s = 0
    for i in range(0, len(data), 2):
        s += (data[i] << 8) | data[i + 1]
    while s >> 16:
        s = (s & 0xffff) + (s >> 16)
    return (~s) & 0xffff

def zero_word(data, k):
    if k is None or 2 * k + 2 > len(data):
        return data
    return data[:2 * k] + b"\0\0" + data[2 * k + 2:]

def be(b):
    return int.from_bytes(b, "big")

def wire_check(layers, b):
    """Walk the emitted bytes along the layer kinds of the case (own knowledge of the formats; no library code) and
    recompute every length and checksum field.  Returns None or (layer kind, description)."""
    off = 0
    ip = None          # ("4", src, dst, proto) or ("6", src, dst, nh): pseudo-header material read from the wire
    for L in layers:
        k = L["k"]
        rem = b[off:]
        if k in TERMINAL:
            return None
        if k == "ethernet":
            off += 14; ip = None
        elif k == "vlan":
            off += 4; ip = None
        elif k == "mpls":
            off += 4; ip = None
        elif k == "llc":
            n = 3
            if len(rem) >= 3 and ((rem[2] & 1) == 0 or (rem[2] & 3) == 2): n = 4
            if L.get("oui") is not None: n += 5
            off += n; ip = None
        elif k == "ipv4":
            if len(rem) < 20: return (k, "emitted IPv4 header shorter than 20 bytes")
            ihl = (rem[0] & 15) * 4
            if rem[0] >> 4 != L["v"]: return (k, "version nibble")
            if ihl != 20 + len(bytes.fromhex(L["raw_options"])): return (k, "IHL %d does not cover 20 + options" % ihl)
            if be(rem[2:4]) != len(rem): return (k, "total length field %d, datagram has %d bytes" % (be(rem[2:4]), len(rem)))
            want = rfc1071(rem[:10] + b"\0\0" + rem[12:ihl])
            if be(rem[10:12]) != want: return (k, "header checksum %04x, RFC 1071 gives %04x" % (be(rem[10:12]), want))
            if rfc1071(rem[:ihl]) != 0: return (k, "header checksum does not verify")
            ip = ("4", rem[12:16], rem[16:20], rem[9])
            off += ihl
        elif k == "ipv6":
            if len(rem) < 40: return (k, "emitted IPv6 header shorter than 40 bytes")
            if be(rem[4:6]) != len(rem) - 40: return (k, "payload length field %d, %d bytes follow" % (be(rem[4:6]), len(rem) - 40))
            nh = rem[6]
            off += 40
            for eh in L.get("ext", []):
                body = bytes.fromhex(eh["body"])
                want = bytes([eh["nh"]]) + (body if eh["t"] == 44 else bytes([(len(body) + 2) // 8 - 1]) + body)
                if b[off:off + len(want)] != want: return (k, "extension headers of the object are not in the emitted bytes")
                nh = eh["nh"]
                off += len(want)
            ip = ("6", rem[8:24], rem[24:40], nh)
        elif k in ("udp", "tcp", "icmpv6"):
            if k == "udp":
                if len(rem) < 8: return (k, "short")
                if be(rem[4:6]) != len(rem): return (k, "length field %d, segment has %d bytes" % (be(rem[4:6]), len(rem)))
                cpos, hl = 6, 8
            elif k == "tcp":
                if len(rem) < 20: return (k, "short")
                hl = (rem[12] >> 4) * 4
                if hl != L["_hdrlen"]: return (k, "data offset %d bytes, header+options need %d" % (hl, L["_hdrlen"]))
                cpos = 16
            else:
                cpos, hl = 2, 4
            if ip is not None:
                proto = {"udp": 17, "tcp": 6, "icmpv6": 58}[k]
                if ip[0] == "4":
                    # the library feeds prev.protocol; on the wire that is the enclosing header's protocol field
                    ph = ip[1] + ip[2] + bytes([0, ip[3]]) + struct.pack("!H", len(rem))
                else:
                    ph = ip[1] + ip[2] + struct.pack("!IHBB", len(rem), 0, 0, ip[3])
                want = rfc1071(ph + rem[:cpos] + b"\0\0" + rem[cpos + 2:])
                if k == "udp" and want == 0: want = 0xffff
                got = be(rem[cpos:cpos + 2])
                if got != want: return (k, "checksum %04x, RFC 1071 over pseudo-header+segment gives %04x" % (got, want))
            off += hl; ip = None
        elif k == "icmp":
            if len(rem) < 4: return (k, "short")
            want = rfc1071(rem[:2] + b"\0\0" + rem[4:])
            if be(rem[2:4]) != want: return (k, "checksum %04x, RFC 1071 gives %04x" % (be(rem[2:4]), want))
            off += 4; ip = None
        elif k in ("echo", "unreach", "time_exceeded", "echo6", "unreach6"):
            off += 4; ip = None
        elif k == "igmp":
            if len(rem) < 8: return (k, "short")
            want = rfc1071(rem[:2] + b"\0\0" + rem[4:])
            if be(rem[2:4]) != want: return (k, "checksum %04x, RFC 1071 gives %04x" % (be(rem[2:4]), want))
            if rem[0] == 0x22:            # IGMPv3 report (RFC 3376 §4.2): the group records must tile the message exactly
                p = 8
                for _ in range(be(rem[6:8])):
                    if p + 8 > len(rem): return (k, "group record header runs past the message")
                    p += 8 + 4 * be(rem[p + 2:p + 4]) + 4 * rem[p + 1]
                if p != len(rem): return (k, "group record counts cover %d of %d bytes" % (p, len(rem)))
            return None
        elif k == "gre":
            if len(rem) < 4: return (k, "short")
            fl = be(rem[0:2]); n = 4
            # RFC 1701/2890: C, R, K, S, s, recursion, reserved, version — exactly the optional fields the object has
            want_fl = (0x8000 if L["csum"] else 0) | (0x4000 if L.get("routing") is not None else 0) | (0x2000 if L["key"] is not None else 0) | \
                      (0x1000 if L["seq"] is not None else 0) | (0x0800 if L["ssr"] else 0)
            if fl != want_fl: return (k, "flag word %04x, the object's optional fields need %04x" % (fl, want_fl))
            if fl & 0xc000:
                if fl & 0x8000:
                    want = rfc1071(rem[:4] + b"\0\0" + rem[6:])
                    if be(rem[4:6]) != want: return (k, "checksum %04x, RFC 1071 gives %04x" % (be(rem[4:6]), want))
                n += 4
            if fl & 0x2000: n += 4
            if fl & 0x1000: n += 4
            if fl & 0x4000:          # source route entries: family, offset, length, data; the list ends with a null entry
                want = b"".join(struct.pack("!HBB", e["af"], e["so"], len(e["data"]) // 2) + bytes.fromhex(e["data"]) for e in L["routing"]) + bytes(4)
                if rem[n:n + len(want)] != want: return (k, "source route entries of the object are not in the emitted bytes")
                n += len(want)
            off += n; ip = None
        elif k == "vxlan":
            off += 8; ip = None
        elif k == "eapol":
            if len(rem) < 4: return (k, "short")
            off += 4; ip = None
        elif k == "lldp":
            p = 0
            while p < len(rem):
                if p + 2 > len(rem): return (k, "TLV header cut")
                tl = be(rem[p:p + 2]); p += 2 + (tl & 0x1ff)
                if p > len(rem): return (k, "TLV length field runs past the PDU")
                if tl >> 9 == 0: break
            if p != len(rem): return (k, "TLV lengths cover %d of %d bytes" % (p, len(rem)))
            return None
        else:
            return None            # arp, eap, dhcp, dns, rip, ND messages: no length/checksum field to recompute
    return None

# ----------------------------------------------------------------------------- independent reference encoder

def _tcp_opt_bytes(o):
    t = o["t"]
    if t in (0, 1): return bytes([t])
    if t == 2: return struct.pack("!BBH", 2, 4, o["v"])
    if t == 3: return bytes([3, 3, o["v"]])
    if t == 4: return bytes([4, 2])
    if t == 5: return bytes([5, 2 + 8 * len(o["v"])]) + b"".join(struct.pack("!II", a, b) for a, b in o["v"])
    if t == 8: return struct.pack("!BBII", 8, 10, o["v"][0], o["v"][1])
    d = bytes.fromhex(o["v"]); return bytes([t, 2 + len(d)]) + d

def _nd_opts_bytes(opts):
    out = b""
    for o in opts:
        t = o["t"]
        if t in (1, 2): body = bytes.fromhex(o["addr"])
        elif t == 5: body = b"\0\0" + struct.pack("!I", o["mtu"])
        elif t == 3: body = struct.pack("!BBII", o["plen"], (0x80 if o["onlink"] else 0) | (0x40 if o["auto"] else 0), o["valid"], o["pref"]) + bytes(4) + bytes.fromhex(o["prefix"])
        else: body = bytes.fromhex(o["raw"])
        if (len(body) + 2) % 8: return None
        out += bytes([t, (len(body) + 2) // 8]) + body
    return out

def ref_encode(layers):
    """The frame the formats (RFC 791/768/793/792/826/8200/4443/4861/2131/3396/2453/3032/7348, 802.1Q) prescribe for this layer list,
    written from the RFCs without any library code; None when a layer is outside this encoder.  Returns (bytes, [(offset, kind)])."""
    marks = []
    def enc(i, ctx, off):
        L = layers[i]; k = L["k"]
        if k == "bytes": return bytes.fromhex(L["data"])
        if k == "none": return b""
        marks.append((off, k))
        rest = lambda n, c=None: enc(i + 1, c, off + n)
        if k == "ethernet":
            r = rest(14); return None if r is None else bytes.fromhex(L["dst"]) + bytes.fromhex(L["src"]) + struct.pack("!H", L["type"]) + r
        if k == "vlan":
            r = rest(4); return None if r is None else struct.pack("!HH", (L["pcp"] << 13) | (L["cfi"] << 12) | L["id"], L["eth_type"]) + r
        if k == "mpls":
            r = rest(4); return None if r is None else struct.pack("!I", (L["label"] << 12) | (L["tc"] << 9) | (L["s"] << 8) | L["ttl"]) + r
        if k == "llc":
            c = L["control"]; two = (c & 1) == 0 or (c & 3) == 2          # 802.2: I and S formats carry two control octets, U format one
            snap = L.get("oui") is not None
            if L["length"] != (4 if two else 3) + (5 if snap else 0): return None
            h = bytes([L["dsap"], L["ssap"], c & 0xff]) + (bytes([c >> 8]) if two else b"") + ((bytes.fromhex(L["oui"]) + struct.pack("!H", L["eth_type"])) if snap else b"")
            r = rest(len(h)); return None if r is None else h + r
        if k == "arp":
            if L["hwlen"] != 6 or L["protolen"] != 4: return None
            r = rest(28)
            return None if r is None else (struct.pack("!HHBBH", L["hwtype"], L["prototype"], 6, 4, L["opcode"]) + bytes.fromhex(L["hwsrc"]) + struct.pack("!I", L["protosrc"]) +
                                           bytes.fromhex(L["hwdst"]) + struct.pack("!I", L["protodst"]) + r)
        if k == "ipv4":
            opts = bytes.fromhex(L["raw_options"]); hl = 20 + len(opts)
            if L.get("_noid") or L["hl"] * 4 != hl: return None
            r = rest(hl, ("4", struct.pack("!I", L["srcip"]), struct.pack("!I", L["dstip"]), L["protocol"]))
            if r is None or hl + len(r) > 65535: return None
            h = struct.pack("!BBHHHBBHII", (L["v"] << 4) | L["hl"], L["tos"], hl + len(r), L["id"], (L["flags"] << 13) | L["frag"], L["ttl"], L["protocol"], 0, L["srcip"], L["dstip"]) + opts
            return h[:10] + struct.pack("!H", rfc1071(h)) + h[12:] + r
        if k == "ipv6":
            # RFC 8200 4: each extension header names the next one; 4.3-4.6: Hop-by-Hop / Routing / Destination Options carry their length in
            # 8-octet units not counting the first, the Fragment header is 8 octets; 8.1: the pseudo header names the UPPER-LAYER protocol
            eb = b""; upper = L["nh"]
            for eh in L.get("ext", []):
                body = bytes.fromhex(eh["body"])
                if eh["t"] != upper or (len(body) + 2) % 8: return None
                eb += bytes([eh["nh"]]) + (body if eh["t"] == 44 else bytes([(len(body) + 2) // 8 - 1]) + body); upper = eh["nh"]
            r = rest(40 + len(eb), ("6", bytes.fromhex(L["srcip"]), bytes.fromhex(L["dstip"]), upper))
            if r is None or len(eb) + len(r) > 65535: return None
            return struct.pack("!IHBB", (6 << 28) | (L["tc"] << 20) | L["flow"], len(eb) + len(r), L["nh"], L["hop_limit"]) + bytes.fromhex(L["srcip"]) + bytes.fromhex(L["dstip"]) + eb + r
        def pseudo(n, proto):
            if ctx[0] == "4": return ctx[1] + ctx[2] + struct.pack("!BBH", 0, ctx[3], n)
            return ctx[1] + ctx[2] + struct.pack("!IHBB", n, 0, 0, ctx[3])
        if k == "udp":
            r = rest(8)
            if r is None or ctx is None or 8 + len(r) > 65535: return None
            h = struct.pack("!HHHH", L["srcport"], L["dstport"], 8 + len(r), 0)
            c = rfc1071(pseudo(8 + len(r), 17) + h + r) or 0xffff
            return h[:6] + struct.pack("!H", c) + r
        if k == "tcp":
            ob = b"".join(_tcp_opt_bytes(o) for o in L["options"]); ob += bytes(-len(ob) % 4)
            r = rest(20 + len(ob))
            if r is None or ctx is None or len(ob) > 40: return None
            h = struct.pack("!HHIIBBHHH", L["srcport"], L["dstport"], L["seq"], L["ack"], (((20 + len(ob)) // 4) << 4) | L["res"], L["flags"], L["win"], 0, L["urg"]) + ob
            c = rfc1071(pseudo(len(h) + len(r), 6) + h + r)
            return h[:16] + struct.pack("!H", c) + h[18:] + r
        if k == "icmp":
            r = rest(4)
            if r is None: return None
            return struct.pack("!BBH", L["type"], L["code"], rfc1071(struct.pack("!BBH", L["type"], L["code"], 0) + r)) + r
        if k in ("echo", "echo6"):
            r = rest(4); return None if r is None else struct.pack("!HH", L["id"], L["seq"]) + r
        if k == "unreach":
            r = rest(4); return None if r is None else struct.pack("!HH", L["unused"], L["next_mtu"]) + r
        if k in ("time_exceeded", "unreach6"):
            r = rest(4); return None if r is None else struct.pack("!I", L["unused"]) + r
        if k == "toobig6":
            r = rest(4); return None if r is None else struct.pack("!I", L["mtu"]) + r
        if k == "timeex6":
            r = rest(4); return None if r is None else bytes(4) + r
        if k == "icmpv6":
            nxt = layers[i + 1]
            if nxt["k"].startswith("nd_"):
                o = _nd_opts_bytes(nxt.get("opts", []))
                if o is None: return None
                marks.append((off + 4, nxt["k"]))
                if nxt["k"] == "nd_rs": r = bytes(4) + o
                elif nxt["k"] == "nd_ra": r = struct.pack("!BBHII", nxt["hop_limit"], (0x80 if nxt["managed"] else 0) | (0x40 if nxt["other"] else 0), nxt["lifetime"], nxt["reachable"], nxt["retrans"]) + o
                elif nxt["k"] == "nd_ns": r = bytes(4) + bytes.fromhex(nxt["target"]) + o
                else: r = bytes([(0x80 if nxt["router"] else 0) | (0x40 if nxt["solicited"] else 0) | (0x20 if nxt["override"] else 0), 0, 0, 0]) + bytes.fromhex(nxt["target"]) + o
            else:
                r = rest(4)
            if r is None or ctx is None or ctx[0] != "6": return None
            h = struct.pack("!BBH", L["type"], L["code"], 0)
            c = rfc1071(ctx[1] + ctx[2] + struct.pack("!IHBB", 4 + len(r), 0, 0, 58) + h + r)
            return h[:2] + struct.pack("!H", c) + r
        if k == "vxlan":
            r = rest(8)
            if r is None: return None
            return (bytes(8) if L["vni"] is None else bytes([8, 0, 0, 0]) + struct.pack("!I", L["vni"] << 8)) + r
        if k == "rip":
            out = struct.pack("!BBH", L["command"], L["version"], 0)
            for e in L["entries"]:
                out += struct.pack("!HHIIII", e["af"], e["tag"], e["ip"], e["mask"], e["nh"], e["metric"])          # RFC 2453: unsigned
            return out
        if k == "igmp":
            if L["vt"] == 0x22: return None
            h = struct.pack("!BBHI", L["vt"], L["mrt"], 0, L["addr"]) + bytes.fromhex(L["extra"])
            return h[:2] + struct.pack("!H", rfc1071(h)) + h[4:]
        if k == "dhcp":
            if not L["options"]: return None          # an option-less object is a BOOTP message; the library emits no option field at all for it
            ch = bytes.fromhex(L["chaddr"])
            out = struct.pack("!BBBBIHHIIII", L["op"], L["htype"], L["hlen"], L["hops"], L["xid"], L["secs"], L["flags"], L["ciaddr"], L["yiaddr"], L["siaddr"], L["giaddr"])
            out += ch.ljust(16, b"\0")[:16] + bytes.fromhex(L["sname"]).ljust(64, b"\0")[:64] + bytes.fromhex(L["file"]).ljust(128, b"\0")[:128] + bytes([0x63, 0x82, 0x53, 0x63])
            for o in L["options"]:
                v = C14._dhcp_opt_bytes(o)
                if o["c"] in (0, 255): continue
                for j in (range(0, len(v), 255) if len(v) > 255 else [0]):
                    part = v[j:j + 255] if len(v) > 255 else v
                    out += bytes([o["c"], len(part)]) + part + (b"\0" if len(part) % 2 else b"")
            return out + b"\xff"
        return None
    b = enc(0, None, 0)
    return (None, marks) if b is None else (b, marks)

def ref_check(layers, b):
    """None, or a description of the first byte of the emitted frame that differs from the reference encoding"""
    try:
        ref, marks = ref_encode(layers)
    except (struct.error, KeyError, IndexError, ValueError, TypeError):
        return None          # field values outside their wire ranges etc.: nothing to say
    if ref is None or ref == b: return None
    p = next((i for i in range(min(len(ref), len(b))) if ref[i] != b[i]), min(len(ref), len(b)))
    off, kind = max((m for m in marks if m[0] <= p), default=(0, layers[0]["k"]))
    return "reference %s: emitted frame differs from the wire format at byte %d (%s+%d): emitted %s, format says %s; %d vs %d bytes" % (
        kind, p, kind, p - off, b[p:p + 1].hex() or "end", ref[p:p + 1].hex() or "end", len(b), len(ref))

# ----------------------------------------------------------------------------- the check

class C14(Check):
    id = "C14"
    prop_module = "PoxModel.Properties.C14"
    lean_targets = ["drv_c14"]
    driver = "drv_c14"
    theorems = []          # filled below
    # anchored functions of the behaviour-modelled classes, by qualified name
    ANCHOR_FUNCS = {"packet_utils": ["checksum"], "packet_base": ["packet_base.pack", "packet_base.set_payload"],
                    "ethernet": ["ethernet.parse", "ethernet.parse_next", "ethernet.hdr"], "vlan": ["vlan.parse", "vlan.hdr"],
                    "arp": ["arp.parse", "arp.hdr"], "ipv4": ["ipv4.parse", "ipv4.checksum", "ipv4.hdr"],
                    "udp": ["udp.parse", "udp.hdr", "udp.checksum"],
                    "tcp": ["tcp_opt.pack", "tcp_opt.unpack_new", "tcp.parse_options", "tcp.parse", "tcp.hdr", "tcp.checksum"],
                    "icmp": ["echo.parse", "echo.hdr", "time_exceeded.parse", "time_exceeded.hdr", "unreach.parse", "unreach.hdr", "icmp.parse", "icmp.hdr"],
                    "llc": ["llc.parse", "llc.hdr"], "mpls": ["mpls.parse", "mpls.hdr"], "eapol": ["eapol.parse", "eapol.hdr"], "eap": ["eap.parse", "eap.hdr"],
                    "lldp": ["lldp.next_tlv", "lldp.parse", "lldp.hdr", "simple_tlv.parse", "simple_tlv.pack", "chassis_id._parse_data", "chassis_id._pack_data",
                             "port_id._parse_data", "port_id._pack_data", "ttl._parse_data", "ttl._pack_data", "management_address._parse_data",
                             "management_address._pack_data", "organizationally_specific._parse_data", "organizationally_specific._pack_data",
                             "system_capabilities._parse_data", "system_capabilities._pack_data"],
                    "ipv6": ["ipv6.hdr"],
                    "icmpv6": ["icmpv6.hdr", "icmpv6._calc_checksum", "icmpv6.parse", "echo.parse", "echo.hdr", "_parse_ndp_options", "NDOptionBase.unpack_new",
                               "NDOptionBase.pack", "NDOptionGeneric._unpack_new", "NDOptionGeneric._pack_body", "NDOptLinkLayerAddress._unpack_new",
                               "NDOptLinkLayerAddress._pack_body", "NDOptPrefixInformation._unpack_new", "NDOptPrefixInformation._pack_body",
                               "NDOptMTU._unpack_new", "NDOptMTU._pack_body", "NDRouterSolicitation.unpack_new", "NDRouterSolicitation.pack",
                               "NDRouterAdvertisement.unpack_new", "NDRouterAdvertisement.pack", "NDNeighborSolicitation.unpack_new",
                               "NDNeighborSolicitation.pack", "NDNeighborAdvertisement.unpack_new", "NDNeighborAdvertisement.pack",
                               "TimeExceeded.unpack_new", "TimeExceeded.hdr", "PacketTooBig.unpack_new", "PacketTooBig.hdr", "unreach.parse", "unreach.hdr"],
                    "dhcp": ["dhcp.parse", "dhcp.parseOptions", "dhcp.parseOptionSegment", "dhcp.packOptions", "dhcp.hdr"],
                    "gre": ["gre.hdr"], "vxlan": ["vxlan.parse", "vxlan.hdr"], "igmp": ["igmp.hdr", "igmp.parse", "GroupRecord.unpack_new", "GroupRecord.pack"],
                    "rip": ["rip.hdr", "rip.parse", "RIPEntry.hdr", "RIPEntry.parse"]}
    anchors = []
    coverage_cases = 2500
    trusted_base = ["models Model/Checksum.lean, Model/PacketLayout.lean, Model/PacketHdr.lean (10 classes), Model/PacketExt.lean (llc, mpls, lldp, eapol, eap, ipv6, icmpv6 + echo + the four NDP messages with their options + packet-too-big / time-exceeded / unreachable, gre, vxlan, igmp, rip, dhcp with its option TLVs) hand-written from pox/lib/packet; tied by this correspondence run",
                    "harness/c14.py detect_variant: whether the tree has the repairs D50 (RIP metric struct 'I') / D49 (EAP request/response keep their body) is found by probing the classes (one RIP entry, one EAP request; the source shapes are a recorded cross-check only); the driver evaluates the model at that variant (XCfg) and the correspondence validates the choice",
                    "the driver answers every stack from the extended model and, for stacks of the ten original classes, refuses to answer unless the original model (the one the chain theorem is about) gives the identical result",
                    "RFC 1071 transcription `Pox.Checksum.rfc1071` (Lean) and `rfc1071` (harness/c14.py), cross-checked against each other on every cksum case",
                    "the harness's own wire-format walker (wire_check) for the positions of length/checksum fields and its reference encoder (ref_encode: Ethernet, 802.1Q, ARP, IPv4, IPv6, UDP, TCP+options, ICMP, ICMPv6+NDP, MPLS, VXLAN, RIP, IGMPv1/2, DHCP), both written from the RFCs, agreeing with model and code on every run"]
    assumptions = ["little-endian host (array('H') / struct 'H' in packet_utils.checksum are host order; model fixes LE)",
                   "struct packs/unpacks as documented; socket.ntohs swaps bytes",
                   "field values inside their wire ranges; ipv4.hl consistent with len(raw_options); llc.length consistent with control/SNAP (the library does not derive them)",
                   "checksum input <= 131072 bytes (two folds suffice below 2^32); every IP datagram is < 65536 bytes",
                   "a gre object with a computed checksum that is packed more than once has compute_csum=True (gre.hdr turns csum=True into the number it computed and, as its docstring says, a number is emitted as it stands)"]
    design_ref = "DESIGN.md §5 C14, Appendix D.1, D.6"
    technique = ("Lean 4 proof about hand-written executable models of packet_utils.checksum and the Ethernet/VLAN/ARP/IPv4/UDP/TCP/ICMP "
                 "headers + differential correspondence of the compiled model against the real classes + independent RFC 1071 oracle over the emitted bytes")
    level_text = ""      # filled below
    level_note = ""
    rule = ("case = header stack built from the library's own classes (field values from {0, max, sign bit, random}, payload lengths 0..1500 odd/even, option/TLV lists) "
            "or a direct checksum() call in every call form the code base uses; or a call history on the same objects (pack, change fields in place, pack again, parse in four call forms, a second object "
            "of the same classes built before/after), or a history that moves / shares header objects between containers and packs them; corpus: transport checksums solved to be exactly "
            "0x0000 / 0xffff / 0x0001 / 0xfffe / ... for UDP, TCP (+options), ICMP, ICMPv6 over both IP versions, LLC control fields with a zero second octet,  every payload length 0..33, block-size multiples +-1 of payload and of checksummed region, 65535-byte datagrams, option areas of every size up to "
            "exactly full, zero at every position, every value of every selector octet (ICMP/ICMPv6 type, IP protocol, TCP option kind, NDP option type/length, DHCP option code, IGMP type) and every prefix of "
            "NDP/DHCP/RIP/VXLAN/IGMP bodies behind valid checksums; distinct = sha1 of the canonical case; non-trivial = stack of >= 2 protocol layers or a checksum input of >= 2 bytes")

    # ------------------------------------------------------------------ setup
    declined = 0

    def setup(self):
        import logging
        logging.disable(logging.CRITICAL)
        P = lambda m: importlib.import_module("pox.lib.packet." + m)
        self.m = {n: P(n) for n in ("packet_base", "packet_utils", "ethernet", "vlan", "llc", "arp", "ipv4", "ipv6", "icmp",
                                    "icmpv6", "tcp", "udp", "dhcp", "dns", "lldp", "mpls", "gre", "vxlan", "igmp", "rip",
                                    "eapol", "eap")}
        A = importlib.import_module("pox.lib.addresses")
        self.EthAddr, self.IPAddr, self.IPAddr6 = A.EthAddr, A.IPAddr, A.IPAddr6
        self.packet_base = self.m["packet_base"].packet_base
        self.checksum = self.m["packet_utils"].checksum
        self.pkgdir = os.path.join(common.REPO, "pox", "lib")
        self.variant = self.detect_variant()
        self.shared_ok = self.probe_shared()
        self.gre_route_nocsum = self.probe_gre_route()
        # name-based anchors: resolved by common.AnchorCoverage with ast on every run (robust to line shifts)
        self.anchors = [("pox/lib/packet/%s.py" % mod, f) for mod, funcs in self.ANCHOR_FUNCS.items() for f in funcs]

    # Which of the repairs that change *modelled* behaviour the tree under test has (fixes/C14_D50_rip_metric_unsigned.diff,
    # fixes/C14_D49_eap_keep_type_data.diff) is found by PROBING the classes (HARDENING 8): what they do with one RIP entry whose metric
    # has the top bit set and with one EAP request.  The driver evaluates the model at that variant (Model/PacketExt.lean XCfg) and the
    # correspondence run validates the choice.  The statement shapes in the source are read as a cross-check only: a disagreement or an
    # unknown shape is recorded in the evidence, never an abort.  D45 (DHCP options) and D47 (NDP / ICMPv6 error bodies) are committed
    # and the model describes the repaired code; D46 / D48 only touch code the model declines, so they need no variant.
    def detect_variant(self):
        R = self.m["rip"]; EA = self.m["eap"]
        rip_unsigned = False
        try:
            b = R.rip(command=2, version=2, entries=[R.RIPEntry(address_family=2, route_tag=0, ip=self.IPAddr(0), netmask=self.IPAddr(0), next_hop=self.IPAddr(0), metric=0x80000001)]).pack()
            q = R.rip(raw=b)
            rip_unsigned = b[-4:] == b"\x80\x00\x00\x01" and len(q.entries) == 1 and q.entries[0].metric == 0x80000001
        except Exception:
            rip_unsigned = False
        eap_body = False
        try:
            raw = bytes([1, 7, 0, 7, 1]) + b"id"
            q = EA.eap(raw=raw)
            eap_body = (q.next == raw[4:])
        except Exception:
            eap_body = False
        v = {"rip_unsigned": bool(rip_unsigned), "eap_body": bool(eap_body)}
        try:
            src = self._variant_from_source()
            self.variant_crosscheck = "source shapes agree" if src == v else "source shapes say %r, probing says %r" % (src, v)
        except Exception as e:
            self.variant_crosscheck = "source shape not recognised (%s)" % (str(e)[:120],)
        return v

    def probe_shared(self):
        """Proposed finding C14-K1 (fixes/C14-K1_pack_reasserts_prev.diff): a header object that is the payload of two containers at once
        (a.payload = seg; b.payload = seg, a not given anything else) is packed through `a` with the pseudo header of `b`, because the
        transport classes read the addresses from seg.prev and pack() does not re-point it.  Histories that pack through such a stale
        container ("hist-shared") are generated when the tree under test packs them correctly (the repair is in) or the finding is
        registered in known_findings.json; until then every run would report the same defect."""
        try:
            I, U = self.m["ipv4"].ipv4, self.m["udp"].udp
            u = U(srcport=1, dstport=2, payload=b"abcd")
            a = I(srcip=self.IPAddr("10.0.0.1"), dstip=self.IPAddr("10.0.0.2"), protocol=17, payload=u)
            b = I(srcip=self.IPAddr("10.9.0.1"), dstip=self.IPAddr("10.9.0.2"), protocol=17, payload=u)
            x = a.pack(); seg = x[20:]
            if be(seg[6:8]) == (rfc1071(x[12:20] + bytes([0, 17]) + struct.pack("!H", len(seg)) + seg[:6] + b"\0\0" + seg[8:]) or 0xffff): return True
        except Exception:
            return True          # unknown behaviour: generate, let the oracle speak
        return any(f.get("id") == "C14-K1" for f in common.Findings().open)

    def probe_gre_route(self):
        """Proposed finding C14-K2 (fixes/C14-K2_gre_routing_without_checksum.diff): a gre header with source route entries but no checksum
        cannot be packed (hdr() packs `None` into the checksum word) and, read off the wire, comes back with csum = 0, so that re-packing
        sets the C bit.  Such objects are generated when the tree under test round-trips one or the finding is registered."""
        try:
            G = self.m["gre"].gre
            b = G(type=0x1234, routing=[(1, 0, 4, b"abcd"), (0, 0, 0, b"")], payload=b"xy").pack()
            if G(raw=b).pack() == b and be(b[0:2]) == 0x4000: return True
        except Exception:
            pass
        return any(f.get("id") == "C14-K2" for f in common.Findings().open)

    def _variant_from_source(self):
        import ast
        def funcs(mod, cls):
            tree = ast.parse(open(os.path.join(common.REPO, "pox/lib/packet/%s.py" % mod)).read())
            c = [n for n in tree.body if isinstance(n, ast.ClassDef) and n.name == cls][0]
            return {f.name: f for f in c.body if isinstance(f, ast.FunctionDef)}
        f = funcs("rip", "RIPEntry")
        fmts = []
        for fn, call in (("hdr", "pack"), ("parse", "unpack")):
            cs = [n for n in ast.walk(f[fn]) if isinstance(n, ast.Call) and ast.unparse(n.func) == "struct." + call]
            if len(cs) != 1 or not isinstance(cs[0].args[0], ast.Constant): raise RuntimeError("RIPEntry.%s: struct.%s call not recognised" % (fn, call))
            fmts.append(cs[0].args[0].value)
        if fmts == ["!HHiiii", "!HHiiii"]: rip_unsigned = False
        elif fmts == ["!HHiiiI", "!HHiiiI"]: rip_unsigned = True
        else: raise RuntimeError("RIPEntry hdr/parse formats %r" % (fmts,))
        f = funcs("eap", "eap")
        shapes = {"self.type, = struct.unpack('!B', raw[self.MIN_LEN:self.MIN_LEN + 1])": False,
                  "self.type, = struct.unpack('!B', raw[self.MIN_LEN:self.MIN_LEN + 1])\nself.next = raw[self.MIN_LEN:]": True}
        found = []
        for n in ast.walk(f["parse"]):
            if isinstance(n, ast.If) and ast.unparse(n.test) in ("self.code == self.REQUEST_CODE", "self.code == self.RESPONSE_CODE"):
                text = "\n".join(ast.unparse(x) for x in n.body)
                if "self.type" in text:
                    if text not in shapes: raise RuntimeError("eap.parse request/response branch:\n" + text)
                    found.append(shapes[text])
        if len(found) != 2 or found[0] != found[1]: raise RuntimeError("eap.parse: request/response branches (%r)" % (found,))
        return {"rip_unsigned": rip_unsigned, "eap_body": found[0]}

    # ------------------------------------------------------------------ building real objects from a layer list
    def build(self, layers):
        nxt = "absent"
        for L in reversed(layers):
            k = L["k"]
            if k == "bytes": nxt = bytes.fromhex(L["data"]); continue
            if k == "none": nxt = "absent"; continue
            nxt = getattr(self, "mk_" + k)(L, nxt)
        return nxt

    def _pl(self, kw, nxt):
        if nxt != "absent": kw["payload"] = nxt
        return kw

    def mk_ethernet(self, L, n):
        return self.m["ethernet"].ethernet(**self._pl(dict(dst=self.EthAddr(bytes.fromhex(L["dst"])), src=self.EthAddr(bytes.fromhex(L["src"])), type=L["type"]), n))
    def mk_vlan(self, L, n):
        return self.m["vlan"].vlan(**self._pl(dict(pcp=L["pcp"], cfi=L["cfi"], id=L["id"], eth_type=L["eth_type"]), n))
    def mk_arp(self, L, n):
        E = (lambda b: b) if L.get("_plain") else self.EthAddr        # arp.hdr also accepts raw bytes / int addresses
        I = (lambda v: v) if L.get("_plain") else self.IPAddr
        return self.m["arp"].arp(**self._pl(dict(hwtype=L["hwtype"], prototype=L["prototype"], hwlen=L["hwlen"], protolen=L["protolen"], opcode=L["opcode"],
                                                 hwsrc=E(bytes.fromhex(L["hwsrc"])), hwdst=E(bytes.fromhex(L["hwdst"])),
                                                 protosrc=I(L["protosrc"]), protodst=I(L["protodst"])), n))
    def mk_ipv4(self, L, n):
        kw = dict(v=L["v"], hl=L["hl"], tos=L["tos"], iplen=L["iplen"], id=L["id"], flags=L["flags"], frag=L["frag"], ttl=L["ttl"],
                  protocol=L["protocol"], csum=L["csum"], srcip=self.IPAddr(L["srcip"]), dstip=self.IPAddr(L["dstip"]), raw_options=bytes.fromhex(L["raw_options"]))
        if L.get("_noid"): del kw["id"]          # identification left to the class counter (ipv4.ip_id)
        return self.m["ipv4"].ipv4(**self._pl(kw, n))
    def mk_udp(self, L, n):
        return self.m["udp"].udp(**self._pl(dict(srcport=L["srcport"], dstport=L["dstport"], len=L["len"], csum=L["csum"]), n))
    def _tcpopt(self, o):
        T = self.m["tcp"].tcp_opt
        t = o["t"]
        if t in (0, 1, 4): return T(t, None)
        if t in (2, 3): return T(t, o["v"])
        if t == 5: return T(t, [tuple(p) for p in o["v"]])
        if t == 8: return T(t, tuple(o["v"]))
        return T(t, bytes.fromhex(o["v"]))
    def mk_tcp(self, L, n):
        t = self.m["tcp"].tcp(**self._pl(dict(srcport=L["srcport"], dstport=L["dstport"], seq=L["seq"], ack=L["ack"], off=L["off"], res=L["res"], flags=L["flags"],
                                               win=L["win"], csum=L["csum"], urg=L["urg"]), n))
        if L["options"] or not L.get("_defopts"):          # _defopts: an option-less segment keeps whatever the constructor gave it
            t.options = [self._tcpopt(o) for o in L["options"]]
        return t
    def mk_icmp(self, L, n):
        return self.m["icmp"].icmp(**self._pl(dict(type=L["type"], code=L["code"], csum=L["csum"]), n))
    def mk_echo(self, L, n):
        return self.m["icmp"].echo(**self._pl(dict(id=L["id"], seq=L["seq"]), n))
    def mk_unreach(self, L, n):
        return self.m["icmp"].unreach(**self._pl(dict(unused=L["unused"], next_mtu=L["next_mtu"]), n))
    def mk_time_exceeded(self, L, n):
        return self.m["icmp"].time_exceeded(**self._pl(dict(unused=L["unused"]), n))
    # --- protocol modules that are not behaviour-modelled
    def mk_llc(self, L, n):
        o = self.m["llc"].llc(**self._pl(dict(dsap=L["dsap"], ssap=L["ssap"], control=L["control"], length=L["length"]), n))
        if L.get("oui") is not None:
            o.oui = bytes.fromhex(L["oui"]); o.eth_type = L["eth_type"]
        return o
    def mk_mpls(self, L, n):
        return self.m["mpls"].mpls(**self._pl(dict(label=L["label"], tc=L["tc"], s=L["s"], ttl=L["ttl"]), n))
    def mk_eapol(self, L, n):
        return self.m["eapol"].eapol(**self._pl(dict(version=L["version"], type=L["type"], bodylen=L["bodylen"]), n))
    def mk_eap(self, L, n):
        return self.m["eap"].eap(**self._pl(dict(code=L["code"], id=L["id"], length=L["length"]), n))
    def mk_lldp(self, L, n):
        M = self.m["lldp"]
        o = M.lldp()
        for t in L["tlvs"]:
            tt = t["t"]
            if tt == 0: o.tlvs.append(M.end_tlv())
            elif tt == 1: o.tlvs.append(M.chassis_id(subtype=t["subtype"], id=bytes.fromhex(t["id"])))
            elif tt == 2: o.tlvs.append(M.port_id(subtype=t["subtype"], id=bytes.fromhex(t["id"])))
            elif tt == 3: o.tlvs.append(M.ttl(ttl=t["ttl"]))
            elif tt == 4: o.tlvs.append(M.port_description(payload=bytes.fromhex(t["payload"])))
            elif tt == 5: o.tlvs.append(M.system_name(payload=bytes.fromhex(t["payload"])))
            elif tt == 6: o.tlvs.append(M.system_description(payload=bytes.fromhex(t["payload"])))
            elif tt == 7: o.tlvs.append(M.system_capabilities(caps=[bool(t["caps"] >> i & 1) for i in range(16)],
                                                              enabled_caps=[bool(t["en"] >> i & 1) for i in range(16)]))
            elif tt == 8: o.tlvs.append(M.management_address(address_subtype=t["ast"], address=bytes.fromhex(t["addr"]),
                                                             interface_numbering_subtype=t["ins"], interface_number=t["ifn"],
                                                             object_identifier=bytes.fromhex(t["oid"])))
            elif tt == 127: o.tlvs.append(M.organizationally_specific(oui=bytes.fromhex(t["oui"]), subtype=t["subtype"], payload=bytes.fromhex(t["payload"])))
            else:
                u = M.unknown_tlv(); u.tlv_type = tt; u.payload = bytes.fromhex(t["payload"]); o.tlvs.append(u)
        return o
    def mk_ipv6(self, L, n):
        M = self.m["ipv6"]
        o = M.ipv6(**self._pl(dict(tc=L["tc"], flow=L["flow"], hop_limit=L["hop_limit"], next_header_type=L["nh"],
                                   srcip=self.IPAddr6(bytes.fromhex(L["srcip"]), raw=True), dstip=self.IPAddr6(bytes.fromhex(L["dstip"]), raw=True)), n))
        for e in L.get("ext", []):
            cls = {0: M.HopByHopOptions, 43: M.Routing, 44: M.Fragment, 60: M.DestinationOptions}[e["t"]]
            h = cls(raw_body=bytes.fromhex(e["body"]))
            h.next_header_type = e["nh"]
            if e["t"] != 44: h.payload_length = len(bytes.fromhex(e["body"]))
            o.extension_headers.append(h)
        return o
    def mk_icmpv6(self, L, n):
        return self.m["icmpv6"].icmpv6(**self._pl(dict(type=L["type"], code=L["code"]), n))
    def mk_echo6(self, L, n):
        return self.m["icmpv6"].echo(**self._pl(dict(id=L["id"], seq=L["seq"]), n))
    def mk_unreach6(self, L, n):
        return self.m["icmpv6"].unreach(**self._pl(dict(unused=L["unused"]), n))
    def _ndopts(self, L):
        M = self.m["icmpv6"]; out = []
        for o in L.get("opts", []):
            if o["t"] == 1: out.append(M.NDOptSourceLinkLayerAddress(address=self.EthAddr(bytes.fromhex(o["addr"]))))
            elif o["t"] == 2: out.append(M.NDOptTargetLinkLayerAddress(address=self.EthAddr(bytes.fromhex(o["addr"]))))
            elif o["t"] == 5: out.append(M.NDOptMTU(mtu=o["mtu"]))
            elif o["t"] == 3: out.append(M.NDOptPrefixInformation(prefix_length=o["plen"], on_link=o["onlink"], is_autonomous=o["auto"], valid_lifetime=o["valid"],
                                                                  preferred_lifetime=o["pref"], prefix=self.IPAddr6(bytes.fromhex(o["prefix"]), raw=True)))
            else:
                g = M.NDOptionGeneric(); g.TYPE = o["t"]; g.raw = bytes.fromhex(o["raw"]); out.append(g)
        return out
    def _ndkw(self, L, **kw):
        # the option list is only handed over when there is one, so that a container shared between instances would show (HARDENING 1)
        if L.get("opts"): kw["options"] = self._ndopts(L)
        return kw
    def mk_nd_ns(self, L, n):
        return self.m["icmpv6"].NDNeighborSolicitation(**self._ndkw(L, target=self.IPAddr6(bytes.fromhex(L["target"]), raw=True)))
    def mk_nd_na(self, L, n):
        return self.m["icmpv6"].NDNeighborAdvertisement(**self._ndkw(L, target=self.IPAddr6(bytes.fromhex(L["target"]), raw=True),
                                                                       is_router=L["router"], is_solicited=L["solicited"], is_override=L["override"]))
    def mk_nd_rs(self, L, n):
        return self.m["icmpv6"].NDRouterSolicitation(**self._ndkw(L))
    def mk_nd_ra(self, L, n):
        return self.m["icmpv6"].NDRouterAdvertisement(**self._ndkw(L, hop_limit=L["hop_limit"], is_managed=L["managed"], is_other=L["other"], lifetime=L["lifetime"],
                                                                     reachable=L["reachable"], retrans_timer=L["retrans"]))
    def mk_toobig6(self, L, n):
        return self.m["icmpv6"].PacketTooBig(**self._pl(dict(mtu=L["mtu"]), n))
    def mk_timeex6(self, L, n):
        return self.m["icmpv6"].TimeExceeded(**self._pl(dict(), n))
    def mk_igmp(self, L, n):
        M = self.m["igmp"]
        if L["vt"] == 0x22:
            grs = [M.GroupRecord(type=g["type"], address=self.IPAddr(g["addr"]), source_addresses=[self.IPAddr(a) for a in g["srcs"]], aux=bytes.fromhex(g["aux"]))
                   for g in L["groups"]]
            return M.igmp(ver_and_type=0x22, group_records=grs, extra=bytes.fromhex(L["extra"]))
        return M.igmp(ver_and_type=L["vt"], max_response_time=L["mrt"], address=self.IPAddr(L["addr"]), extra=bytes.fromhex(L["extra"]))
    def mk_gre(self, L, n):
        kw = dict(type=L["type"], key=L["key"], seq=L["seq"], csum=(True if L["csum"] else None), strict_source_route=L["ssr"])
        # gre.hdr() replaces csum=True by the number it computed ("include it if it is set to a number", class docstring), so an object that
        # is packed again after a change keeps the old checksum unless compute_csum is set: the histories use the documented switch
        if L["csum"] and L.get("_always"): kw["compute_csum"] = True
        if L.get("routing") is not None:
            kw["routing"] = [(e["af"], e["so"], len(e["data"]) // 2, bytes.fromhex(e["data"])) for e in L["routing"]] + [(0, 0, 0, b"")]
        return self.m["gre"].gre(**self._pl(kw, n))
    def mk_vxlan(self, L, n):
        return self.m["vxlan"].vxlan(**self._pl(dict(vni=L["vni"]), n))
    def mk_rip(self, L, n):
        M = self.m["rip"]
        es = [M.RIPEntry(address_family=e["af"], route_tag=e["tag"], ip=self.IPAddr(e["ip"]), netmask=self.IPAddr(e["mask"]), next_hop=self.IPAddr(e["nh"]), metric=e["metric"])
              for e in L["entries"]]
        return M.rip(command=L["command"], version=L["version"], entries=es)
    def mk_dhcp(self, L, n):
        M = self.m["dhcp"]
        ch = bytes.fromhex(L["chaddr"])
        o = M.dhcp(op=L["op"], htype=L["htype"], hlen=L["hlen"], hops=L["hops"], xid=L["xid"], secs=L["secs"], flags=L["flags"],
                   ciaddr=self.IPAddr(L["ciaddr"]), yiaddr=self.IPAddr(L["yiaddr"]), siaddr=self.IPAddr(L["siaddr"]), giaddr=self.IPAddr(L["giaddr"]),
                   chaddr=(self.EthAddr(ch[:6]) if L["hlen"] == 6 else ch), sname=bytes.fromhex(L["sname"]), file=bytes.fromhex(L["file"]))
        for op in L["options"]:
            o.options[op["c"]] = self._dhcp_opt(op)
        return o
    def _dhcp_opt(self, op):
        M = self.m["dhcp"]; c = op["c"]
        if op.get("plain"): return bytes.fromhex(op["raw"] if "raw" in op else op["v"])          # the dictionary also takes plain bytes values
        if "raw" in op: return M.DHCPRawOption(bytes.fromhex(op["raw"]))          # any code, value given as bytes
        if c == 53: return M.DHCPMsgTypeOption(op["v"])
        if c in (1, 28, 50, 54):
            return {1: M.DHCPSubnetMaskOption, 28: M.DHCPBroadcastAddressOption, 50: M.DHCPRequestIPOption, 54: M.DHCPServerIdentifierOption}[c](self.IPAddr(op["v"]))
        if c in (3, 4, 6): return {3: M.DHCPRoutersOption, 4: M.DHCPTimeServersOption, 6: M.DHCPDNSServersOption}[c]([self.IPAddr(a) for a in op["v"]])
        if c in (51, 58, 59): return {51: M.DHCPIPAddressLeaseTimeOption, 58: M.DHCPRenewalTimeOption, 59: M.DHCPRebindingTimeOption}[c](op["v"])
        if c == 55: return M.DHCPParameterRequestOption(list(op["v"]))
        return M.DHCPRawOption(bytes.fromhex(op["v"]))
    def mk_dns(self, L, n):
        M = self.m["dns"]
        o = M.dns(id=L["id"], qr=L["qr"], opcode=L["opcode"], aa=L["aa"], tc=L["tc"], rd=L["rd"], ra=L["ra"], z=L["z"], ad=L["ad"], cd=L["cd"], rcode=L["rcode"])
        for q in L["questions"]: o.questions.append(M.dns.question(q["name"], q["qtype"], q["qclass"]))
        for sec in ("answers", "authorities", "additional"):
            for r in L[sec]:
                t = r["qtype"]
                if t == 1: d = self.IPAddr(r["data"])
                elif t == 28: d = self.IPAddr6(bytes.fromhex(r["data"]), raw=True)
                elif t in (2, 5, 12, 15): d = r["data"]
                else: d = bytes.fromhex(r["data"])
                getattr(o, sec).append(M.dns.rr(r["name"], t, r["qclass"], r["ttl"], 0, d))
        return o

    # ------------------------------------------------------------------ attributes of an object chain
    def _mac(self, x):
        return (x.toRaw() if hasattr(x, "toRaw") else bytes(x)).hex()
    def _ip(self, x):
        return x.toUnsigned() if hasattr(x, "toUnsigned") else int(x)
    def _ip6(self, x):
        return x.raw.hex()
    def _hex(self, x):
        if x is None: return None
        if isinstance(x, str): return "str:" + x
        return bytes(x).hex()

    def _opt(self, o):
        t = o.type
        if t in (0, 1, 4): return {"t": t}
        if t in (2, 3): return {"t": t, "v": o.val}
        if t == 5: return {"t": t, "v": [list(p) for p in o.val]}
        if t == 8: return {"t": t, "v": list(o.val)}
        return {"t": t, "v": self._hex(getattr(o, "val", None))}

    def attrs(self, o):
        """canonical attribute dict of one header object (class-specific; everything the class serialises)"""
        mod = type(o).__module__.rsplit(".", 1)[-1]; name = type(o).__name__
        g = lambda a: getattr(o, a, None)
        if name == "ethernet": return {"k": "ethernet", "dst": self._mac(o.dst), "src": self._mac(o.src), "type": o.type}
        if name == "vlan": return {"k": "vlan", "pcp": o.pcp, "cfi": o.cfi, "id": o.id, "eth_type": o.eth_type}
        if name == "arp": return {"k": "arp", "hwtype": o.hwtype, "prototype": o.prototype, "hwlen": o.hwlen, "protolen": o.protolen, "opcode": o.opcode,
                                  "hwsrc": self._mac(o.hwsrc), "protosrc": self._ip(o.protosrc), "hwdst": self._mac(o.hwdst), "protodst": self._ip(o.protodst)}
        if name == "ipv4": return {"k": "ipv4", "v": o.v, "hl": o.hl, "tos": o.tos, "iplen": o.iplen, "id": o.id, "flags": o.flags, "frag": o.frag, "ttl": o.ttl,
                                   "protocol": o.protocol, "csum": o.csum, "srcip": self._ip(o.srcip), "dstip": self._ip(o.dstip), "raw_options": self._hex(o.raw_options)}
        if name == "udp": return {"k": "udp", "srcport": o.srcport, "dstport": o.dstport, "len": o.len, "csum": o.csum}
        if name == "tcp": return {"k": "tcp", "srcport": o.srcport, "dstport": o.dstport, "seq": o.seq, "ack": o.ack, "off": o.off, "res": o.res, "flags": o.flags,
                                  "win": o.win, "csum": o.csum, "urg": o.urg, "options": [self._opt(x) for x in o.options]}
        if name == "icmp": return {"k": "icmp", "type": o.type, "code": o.code, "csum": o.csum}
        if name == "echo" and mod == "icmp": return {"k": "echo", "id": o.id, "seq": o.seq}
        if name == "unreach" and mod == "icmp": return {"k": "unreach", "unused": o.unused, "next_mtu": o.next_mtu}
        if name == "time_exceeded": return {"k": "time_exceeded", "unused": o.unused}
        if name == "llc": return {"k": "llc", "dsap": o.dsap, "ssap": o.ssap, "control": o.control, "length": o.length, "oui": self._hex(o.oui),
                                  "eth_type": (o.eth_type if o.oui is not None else None)}
        if name == "mpls": return {"k": "mpls", "label": o.label, "tc": o.tc, "s": o.s, "ttl": o.ttl}
        if name == "eapol": return {"k": "eapol", "version": o.version, "type": o.type, "bodylen": o.bodylen}
        if name == "eap": return {"k": "eap", "code": o.code, "id": o.id, "length": o.length}
        if name == "lldp": return {"k": "lldp", "tlvs": [self._tlv(t) for t in o.tlvs]}
        if name == "ipv6": return {"k": "ipv6", "v": o.v, "tc": o.tc, "flow": o.flow, "payload_length": o.payload_length, "nh": o.next_header_type, "hop_limit": o.hop_limit,
                                   "srcip": self._ip6(o.srcip), "dstip": self._ip6(o.dstip),
                                   "ext": [{"t": getattr(e, "TYPE", None), "nh": e.next_header_type, "body": self._hex(e.raw_body)} for e in o.extension_headers]}
        if name == "icmpv6": return {"k": "icmpv6", "type": o.type, "code": o.code, "csum": o.csum}
        if name == "echo": return {"k": "echo6", "id": o.id, "seq": o.seq}
        if name == "unreach": return {"k": "unreach6", "unused": o.unused}
        if name == "NDNeighborSolicitation": return {"k": "nd_ns", "target": self._ip6(o.target), "opts": self._ndo(o)}
        if name == "NDNeighborAdvertisement": return {"k": "nd_na", "target": self._ip6(o.target), "opts": self._ndo(o), "router": bool(o.is_router),
                                                      "solicited": bool(o.is_solicited), "override": bool(o.is_override)}
        if name == "NDRouterSolicitation": return {"k": "nd_rs", "opts": self._ndo(o)}
        if name == "NDRouterAdvertisement": return {"k": "nd_ra", "hop_limit": o.hop_limit, "managed": bool(o.is_managed), "other": bool(o.is_other), "lifetime": o.lifetime,
                                                    "reachable": o.reachable, "retrans": g("retrans_timer"), "opts": self._ndo(o)}
        if name == "PacketTooBig": return {"k": "toobig6", "mtu": o.mtu}
        if name == "TimeExceeded": return {"k": "timeex6"}
        if name == "igmp":
            if o.ver_and_type == 0x22:
                return {"k": "igmp", "vt": o.ver_and_type, "csum": o.csum, "extra": self._hex(o.extra),
                        "groups": [{"type": r.type, "addr": self._ip(r.address), "srcs": [self._ip(a) for a in r.source_addresses], "aux": self._hex(r.aux)} for r in o.group_records]}
            return {"k": "igmp", "vt": o.ver_and_type, "mrt": o.max_response_time, "csum": o.csum, "addr": (None if o.address is None else self._ip(o.address)), "extra": self._hex(o.extra)}
        if name == "gre":
            d = {"k": "gre", "type": o.type, "ver": o.ver, "key": o.key, "seq": o.seq, "csum": o.csum, "route_offset": o.route_offset,
                 "ssr": bool(o.strict_source_route), "recursion": o.recursion}
            if o.routing is not None:          # (only when present: the model, which declines routing, has no such key)
                d["routing"] = [x.hex() if isinstance(x, bytes) else [x[0], x[1], x[2], bytes(x[3]).hex() if len(x) > 3 else ""] for x in o.routing]
            return d
        if name == "vxlan": return {"k": "vxlan", "vni": o.vni}
        if name == "rip": return {"k": "rip", "command": o.command, "version": o.version,
                                  "entries": [{"af": e.address_family, "tag": e.route_tag, "ip": self._ip(e.ip), "mask": self._ip(e.netmask), "nh": self._ip(e.next_hop), "metric": e.metric}
                                              for e in o.entries]}
        if name == "dhcp":
            ch = o.chaddr
            chx = None if ch is None else (self._mac(ch) + "00" * 10 if hasattr(ch, "toRaw") else bytes(ch).hex())
            return {"k": "dhcp", "op": o.op, "htype": o.htype, "hlen": o.hlen, "hops": o.hops, "xid": o.xid, "secs": o.secs, "flags": o.flags, "ciaddr": self._ip(o.ciaddr),
                    "yiaddr": self._ip(o.yiaddr), "siaddr": self._ip(o.siaddr), "giaddr": self._ip(o.giaddr), "chaddr": chx,
                    "sname": bytes(o.sname).ljust(64, b"\0").hex(), "file": bytes(o.file).ljust(128, b"\0").hex(), "magic": self._hex(o.magic),
                    "options": [[c, self._hex(v.pack() if hasattr(v, "pack") else v)] for c, v in o.options.items()]}
        if name == "dns":
            rr = lambda r: {"name": r.name, "qtype": r.qtype, "qclass": r.qclass, "ttl": r.ttl,
                            "data": (self._ip(r.rddata) if r.qtype == 1 else self._ip6(r.rddata) if r.qtype == 28 else r.rddata if isinstance(r.rddata, str) else self._hex(r.rddata))}
            return {"k": "dns", "id": o.id, "qr": bool(o.qr), "opcode": o.opcode, "aa": bool(o.aa), "tc": bool(o.tc), "rd": bool(o.rd), "ra": bool(o.ra), "z": bool(o.z),
                    "ad": bool(o.ad), "cd": bool(o.cd), "rcode": o.rcode, "questions": [{"name": q.name, "qtype": q.qtype, "qclass": q.qclass} for q in o.questions],
                    "answers": [rr(r) for r in o.answers], "authorities": [rr(r) for r in o.authorities], "additional": [rr(r) for r in o.additional]}
        return {"k": "?" + mod + "." + name}

    def _ndo(self, o):
        out = []
        for x in o.options:
            n = type(x).__name__
            if n.endswith("LinkLayerAddress"): out.append({"t": x.TYPE, "addr": self._mac(x.address)})
            elif n == "NDOptMTU": out.append({"t": 5, "mtu": x.mtu})
            elif n == "NDOptPrefixInformation": out.append({"t": 3, "plen": x.prefix_length, "onlink": bool(x.on_link), "auto": bool(x.is_autonomous), "valid": x.valid_lifetime,
                                                            "pref": x.preferred_lifetime, "prefix": self._ip6(x.prefix)})
            else: out.append({"t": getattr(x, "TYPE", None), "raw": self._hex(getattr(x, "raw", None))})
        return out

    def _tlv(self, t):
        tt = t.tlv_type
        if tt == 0: return {"t": 0}
        if tt in (1, 2): return {"t": tt, "subtype": t.subtype, "id": self._hex(t.id)}
        if tt == 3: return {"t": 3, "ttl": t.ttl}
        if tt == 7: return {"t": 7, "caps": sum(1 << i for i in range(16) if t.caps[i]), "en": sum(1 << i for i in range(16) if t.enabled_caps[i])}
        if tt == 8: return {"t": 8, "ast": t.address_subtype, "addr": self._hex(t.address), "ins": t.interface_numbering_subtype, "ifn": t.interface_number, "oid": self._hex(t.object_identifier)}
        if tt == 127: return {"t": 127, "oui": self._hex(t.oui), "subtype": t.subtype, "payload": self._hex(t.payload)}
        return {"t": tt, "payload": self._hex(t.payload)}

    def chain(self, o, built):
        out = []
        seen = 0
        while isinstance(o, self.packet_base) and seen < 64:
            seen += 1
            if not built and not o.parsed and type(o).__name__ not in ("TimeExceeded", "PacketTooBig"):
                out.append({"k": "unparsed", "cls": type(o).__name__, "raw": self._hex(getattr(o, "raw", None))}); return out
            out.append(self.attrs(o))
            o = o.next
        if o is None: out.append({"k": "none"})
        elif isinstance(o, bytes): out.append({"k": "bytes", "data": o.hex()})
        else: out.append({"k": "object", "cls": type(o).__name__})
        return out

    def _where(self, e):
        """innermost frame of the traceback that lies in pox/lib: 'file.qualname'"""
        tb = e.__traceback__; loc = None
        while tb is not None:
            fn = tb.tb_frame.f_code.co_filename
            if fn.startswith(self.pkgdir):
                loc = os.path.splitext(os.path.basename(fn))[0] + "." + tb.tb_frame.f_code.co_qualname
                me = tb.tb_frame.f_locals.get("self")
                if me is not None and type(me).__name__ not in loc.split("."):
                    loc += "@" + type(me).__name__
            tb = tb.tb_next
        return loc or "?"

    # ------------------------------------------------------------------ implementation
    def impl(self, case):
        if case["kind"] == "cksum":
            d = bytes.fromhex(case["data"])
            try:
                v = self.checksum(d, case["start"], case["skip"])
                # the call forms the code base uses (HARDENING 4): checksum(d), checksum(d, 0), checksum(d, 0, k), checksum(d, skip_word=k)
                forms = {"keywords": self.checksum(d, start=case["start"], skip_word=case["skip"]), "again": self.checksum(d, case["start"], case["skip"])}
                if case["start"] == 0:
                    forms["skip_word_only"] = self.checksum(d, skip_word=case["skip"])
                    if case["skip"] is None: forms["data_only"] = self.checksum(d); forms["two_positional"] = self.checksum(d, 0)
                bad = sorted(k for k, x in forms.items() if x != v)
                return {"v": v, "forms": bad} if bad else {"v": v}
            except Exception as e:
                return {"exc": type(e).__name__, "where": self._lib_exc(e)}
        if case["kind"] == "v6ext": return self.run_v6ext(case)
        obs = {}
        top = {"ethernet": self.m["ethernet"].ethernet, "ipv4": self.m["ipv4"].ipv4}[case["top"]]
        if case["kind"] == "mutparse":
            try:
                b = bytearray(self.build(case["layers"]).pack())
            except Exception as e:
                return {"exc": type(e).__name__, "stage": "pack", "where": self._lib_exc(e)}
            for m in case["mut"]:
                if m["m"] == "trunc": b = b[:m["n"]]
                elif m["i"] < len(b): b[m["i"]] = m["v"]
            b = bytes(b)
            obs["raw"] = b.hex()
            try:
                q = top(raw=b)
                obs["parsed"] = self.chain(q, False)
            except Exception as e:
                obs.update(exc2=type(e).__name__, stage="parse", where=self._lib_exc(e)); return obs
            try:
                obs["repack"] = q.pack().hex()
            except Exception as e:
                obs.update(repack_exc=type(e).__name__, stage="repack", where=self._lib_exc(e))
            return obs
        if case["kind"] == "seq":
            return self.run_seq(case, top)
        if case["kind"] == "hist":
            return self.run_hist(case)
        if case["kind"] == "fault":
            return self.run_fault(case, top)
        obs = self.run_stack(case["layers"], top)
        obs.pop("_q", None); obs.pop("_obj", None)
        return obs

    def _lib_exc(self, e):
        """an exception that did not pass through pox/lib was raised by this harness (or by calling the library in a way it no longer
        accepts): that is a broken tie, not a failing input — let it propagate to common.safe_impl"""
        w = self._where(e)
        if w == "?": raise e
        return w

    def run_stack(self, layers, top, obj=None):
        obs = {}
        if obj is None:
            try:
                obj = self.build(layers)
            except Exception as e:
                return {"exc": type(e).__name__, "stage": "build", "where": self._lib_exc(e)}
        try:
            b = obj.pack()
        except Exception as e:
            return {"exc": type(e).__name__, "stage": "pack", "where": self._lib_exc(e)}
        obs["pack"] = b.hex()
        obs["built"] = self.chain(obj, True)
        try:
            q = top(raw=b)
        except Exception as e:
            obs.update(exc2=type(e).__name__, stage="parse", where=self._lib_exc(e)); return obs
        obs["parsed"] = self.chain(q, False)
        try:
            b2 = q.pack()
        except Exception as e:
            obs.update(repack_exc=type(e).__name__, stage="repack", where=self._lib_exc(e)); return obs
        obs["repack"] = b2.hex()
        try:
            v = self.verify_api(obj, False) + self.verify_api(q, True)
        except Exception as e:
            v = ["a checksum method raises %s at %s" % (type(e).__name__, self._lib_exc(e))]
        if v: obs["verify"] = v
        obs["_q"] = q; obs["_obj"] = obj
        return obs

    def verify_api(self, o, parsed):
        """the classes' own verification methods (ipv4/udp/tcp .checksum(), .checksum(unparsed=True) on received objects, icmpv6.checksum_ok())
        must agree with the checksum field the object carries — the value that is on the wire, which the wire walk has already checked"""
        out = []; n = 0
        while isinstance(o, self.packet_base) and n < 64:
            n += 1
            name = type(o).__name__
            if parsed and not o.parsed: break
            if name in ("ipv4", "udp", "tcp") and isinstance(getattr(o, "csum", None), int):
                got = o.checksum()
                if got != o.csum: out.append("%s %s.checksum() = %04x, checksum field %04x" % ("parsed" if parsed else "built", name, got, o.csum))
                if parsed and name != "ipv4":
                    got = o.checksum(unparsed=True)
                    if got != o.csum: out.append("parsed %s.checksum(unparsed=True) = %04x, checksum field %04x" % (name, got, o.csum))
            if parsed and name == "icmpv6" and type(o.prev).__name__ == "ipv6" and not o.checksum_ok:
                out.append("parsed icmpv6.checksum_ok is False")
            o = o.next
        return out

    # ---- call histories on the same objects (HARDENING 1, 2, 4): what every call returns must be what a fresh process returns
    I = lambda bits, attr=None: ("int", bits, attr)
    SETTABLE = {"ethernet": {"dst": ("mac",), "src": ("mac",)}, "vlan": {"pcp": I(3), "cfi": I(1), "id": I(12)},
                "ipv4": {"tos": I(8), "id": I(16), "flags": I(3), "ttl": I(8), "srcip": ("ip4",), "dstip": ("ip4",)},
                "udp": {"srcport": I(16), "dstport": I(16)},
                "tcp": {"srcport": I(16), "dstport": I(16), "seq": I(32), "ack": I(32), "res": I(4), "flags": I(8), "win": I(16), "urg": I(16), "options": ("tcpopts",)},
                "icmp": {"code": I(8)}, "echo": {"id": I(16), "seq": I(16)}, "unreach": {"next_mtu": I(16), "unused": I(16)}, "time_exceeded": {"unused": I(32)},
                "ipv6": {"tc": I(8), "flow": I(20), "hop_limit": I(8), "srcip": ("ip6",), "dstip": ("ip6",)}, "icmpv6": {"code": I(8)}, "echo6": {"id": I(16), "seq": I(16)},
                "mpls": {"label": I(20), "tc": I(3), "ttl": I(8)}, "vxlan": {"vni": I(24)}, "toobig6": {"mtu": I(32)}, "unreach6": {"unused": I(32)},
                "nd_ra": {"hop_limit": I(8), "lifetime": I(16), "reachable": I(32), "retrans": I(32, "retrans_timer")}, "bytes": {"data": ("payload",)}}
    del I

    @staticmethod
    def apply_delta(layers, delta):
        out = [dict(L) for L in layers]
        for d in delta: out[d["i"]][d["f"]] = d["v"]
        return C14.fixup(out)

    def _set(self, obj, layers, d):
        hs = []; o = obj
        while isinstance(o, self.packet_base): hs.append(o); o = o.next
        L = layers[d["i"]]; how = self.SETTABLE[L["k"]][d["f"]]; v = d["v"]
        if how[0] == "payload": hs[d["i"] - 1].payload = bytes.fromhex(v); return
        h = hs[d["i"]]
        attr = d["f"]
        if how[0] == "int" and how[2]: attr = how[2]
        if how[0] == "mac": v = self.EthAddr(bytes.fromhex(v))
        elif how[0] == "ip4": v = self.IPAddr(v)
        elif how[0] == "ip6": v = self.IPAddr6(bytes.fromhex(v), raw=True)
        elif how[0] == "tcpopts": v = [self._tcpopt(x) for x in v]
        setattr(h, attr, v)

    # ---- histories over the SAME header objects moved / shared between containers (HARDENING 1 + 2)
    #   {"kind":"hist","stacks":[layers0, layers1, ...],"ops":[{"op":"attach","p":"s.i","c":"s.j"} | {"op":"attach","p":"s.i","bytes":hex} |
    #    {"op":"pack","o":"s.i"} | {"op":"reparse","o":"s.i","as":k}]}
    # "s.i" names the i-th header object of stack s as it was built (or, for a stack created by "reparse", as it came off the wire).
    # What every pack() must emit is the frame of a FRESHLY BUILT stack with the same headers in the same arrangement; that arrangement is
    # tracked here symbolically (hist_sim), with no reference to the library's prev/next pointers.
    @staticmethod
    def hist_sim(case):
        """per op: None, or for pack/reparse {"layers": the equivalent fresh stack, "top": kind, "stale": some header in the chain was last
        attached to a different container than the one it is packed through}"""
        layer, child, lastp = {}, {}, {}
        def add_stack(sidx, Ls):
            hs = [L for L in Ls if L["k"] not in TERMINAL]
            for i, L in enumerate(hs):
                layer[(sidx, i)] = L
                if i + 1 < len(hs): child[(sidx, i)] = ("obj", (sidx, i + 1)); lastp[(sidx, i + 1)] = (sidx, i)
            t = Ls[-1]
            child[(sidx, len(hs) - 1)] = ("bytes", t["data"]) if t["k"] == "bytes" else ("none",)
        for sidx, Ls in enumerate(case["stacks"]): add_stack(sidx, Ls)
        key = lambda x: tuple(int(v) for v in x.split("."))
        def walk(o):
            out, stale, seen = [], False, set()
            while True:
                if o in seen: return None          # a cycle: not a packet
                seen.add(o); out.append(layer[o]); c = child[o]
                if c[0] == "obj":
                    if lastp.get(c[1]) != o: stale = True
                    o = c[1]
                else:
                    out.append({"k": "bytes", "data": c[1]} if c[0] == "bytes" else {"k": "none"}); return out, stale
        res = []
        for op in case["ops"]:
            if op["op"] == "attach":
                pk = key(op["p"])
                if "bytes" in op: child[pk] = ("bytes", op["bytes"])
                else: child[pk] = ("obj", key(op["c"])); lastp[key(op["c"])] = pk
                res.append(None)
            else:
                w = walk(key(op["o"]))
                if w is None: res.append({"cycle": True}); continue
                Ls, stale = w
                res.append({"layers": C14.fixup([dict(L) for L in Ls]), "top": Ls[0]["k"], "stale": stale})
                if op["op"] == "reparse": add_stack(op["as"], Ls)
        return res

    def run_hist(self, case):
        tops = {"ethernet": self.m["ethernet"].ethernet, "ipv4": self.m["ipv4"].ipv4}
        objs = {}
        def register(sidx, o):
            i = 0
            while isinstance(o, self.packet_base): objs["%d.%d" % (sidx, i)] = o; o = o.next; i += 1
        try:
            for sidx, Ls in enumerate(case["stacks"]):
                register(sidx, self.build([dict(L, _always=True) if L["k"] == "gre" else L for L in Ls]))
        except Exception as e:
            return {"exc": type(e).__name__, "stage": "build", "where": self._lib_exc(e)}
        sim = self.hist_sim(case)
        steps = []
        for op, ex in zip(case["ops"], sim):
            if op["op"] == "attach":
                try:
                    objs[op["p"]].payload = bytes.fromhex(op["bytes"]) if "bytes" in op else objs[op["c"]]
                    steps.append(None)
                except KeyError:
                    steps.append({"abort": "no such object"}); break
                except Exception as e:
                    steps.append({"exc": type(e).__name__, "stage": "set", "where": self._lib_exc(e)}); break
                continue
            if op["o"] not in objs or "cycle" in ex: steps.append({"abort": "no such object"}); break
            o = self.run_stack(ex["layers"], tops[ex["top"]], obj=objs[op["o"]])
            q = o.pop("_q", None); o.pop("_obj", None)
            if op["op"] == "reparse":
                if q is None: steps.append(o); break
                register(op["as"], q)
            steps.append(o)
        return {"steps": steps}

    def hist_oracle(self, case, obs):
        if "exc" in obs: return "constructor raises %s at %s" % (obs["exc"], obs["where"])
        sim = self.hist_sim(case)
        for i, (op, ex, o) in enumerate(zip(case["ops"], sim, obs["steps"])):
            if o is None: continue
            if "abort" in o: return None          # an earlier step already differed (reported there) or the case names no object
            if op["op"] == "attach": return "setting a payload raises %s at %s" % (o["exc"], o["where"])
            f = self.stack_oracle(ex["layers"], o)
            if f is not None: return "[history step %d: %s of %s] %s" % (i, op["op"], op["o"], f)
        return None

    def run_seq(self, case, top):
        obs = {}
        always = lambda Ls: None if Ls is None else [dict(L, _always=True) if L["k"] == "gre" else L for L in Ls]
        LA = always(case["layers"]); LB = always(case.get("other")); delta = case.get("delta", [])
        try:
            if LB is not None and case.get("bfirst"): B = self.build(LB); A = self.build(LA)
            else:
                A = self.build(LA); B = self.build(LB) if LB is not None else None
        except Exception as e:
            return {"exc": type(e).__name__, "stage": "build", "where": self._lib_exc(e)}
        try:
            p1 = A.pack()
        except Exception as e:
            return {"exc": type(e).__name__, "stage": "pack", "where": self._lib_exc(e)}
        obs["A1"] = {"pack": p1.hex(), "built": self.chain(A, True)}
        if B is not None:
            obs["B"] = self.run_stack(LB, top, obj=B)
        try:
            for d in delta: self._set(A, LA, d)
        except Exception as e:
            if "B" in obs: obs["B"].pop("_q", None); obs["B"].pop("_obj", None)
            return dict(obs, exc=type(e).__name__, stage="set", where=self._lib_exc(e))
        a2 = self.run_stack(self.apply_delta(LA, delta), top, obj=A)
        obs["A2"] = a2
        same = {}
        if "repack" in a2:
            b = bytes.fromhex(a2["pack"]); q = a2["_q"]
            try:
                same["pack_again"] = (A.pack() == b)                       # a third pack of the built object
                same["repack_again"] = (q.pack().hex() == a2["repack"])     # a second pack of the parsed object
                want = a2["parsed"]
                same["parse_again"] = (self.chain(top(raw=b), False) == want)
                same["parse_positional"] = (self.chain(top(b), False) == want)
                same["parse_unpack"] = (self.chain(top.unpack(b), False) == want)
                e = top(); e.parse(b)
                same["parse_method"] = (self.chain(e, False) == want)
                if B is not None and "pack" in obs["B"]:
                    u = top(raw=bytes.fromhex(obs["B"]["pack"])); u.parse(b)            # an object that parsed another frame before
                    same["parse_reused_object"] = (self.chain(u, False) == want)
                    same["other_unchanged"] = (B.pack().hex() == obs["B"]["pack"])
            except Exception as e:
                same["exc"] = "%s at %s" % (type(e).__name__, self._lib_exc(e))
        obs["same"] = same
        for o in (obs.get("B"), a2):
            if o: o.pop("_q", None); o.pop("_obj", None)
        return obs

    # ---- a pack() that FAILS part-way, the repair of the object, and the next pack() (HARDENING 7 applied to serialisation)
    #   {"kind":"fault","top":cls,"layers":[…],"site":{"i":n,"f":field} | {"i":n,"list":key,"j":m},"new":value | element,
    #    "how":"none"|"range"|"type"|"bytearray","brk":"attr"|"replace","fix":"field"|"attr"|"replace"|"equal","prepack":b,"via":"top"|"self","times":1|2}
    # The stack is built (and, with prepack, packed once: every cache now holds the old content); one scalar field of header i, or one
    # nested object of it (DHCP option, TCP option, LLDP TLV, NDP option, RIP entry, DNS record, IGMP group record, IPv6 extension header)
    # is made unserialisable: a value of None / out of range / of the wrong type / a bytearray where bytes are split, put there by assignment
    # to the nested object's attribute or by putting an incomplete object in its place.  pack() is called (through the top header or on
    # header i itself, once or twice) and normally raises somewhere in the middle of the computed state (lengths, checksums, cached option
    # blocks of this and of the enclosing headers).  The caller then repairs the object: assigns the field; fills in the attribute of the
    # nested object; puts a new complete object in its place; or fills in the attribute and re-assigns an EQUAL value to the container (for a
    # DHCP value given as bytearray: the same value as bytes).  What the next pack() emits must be the frame of a freshly built stack with
    # the final values: the per-stack property, and the model's answer for that stack alone.
    NESTED = {"dhcp": (("options", "options"),), "tcp": (("options", "options"),), "lldp": (("tlvs", "tlvs"),), "rip": (("entries", "entries"),),
              "nd_ns": (("opts", "options"),), "nd_na": (("opts", "options"),), "nd_rs": (("opts", "options"),), "nd_ra": (("opts", "options"),),
              "dns": (("questions", "questions"), ("answers", "answers"), ("authorities", "authorities"), ("additional", "additional")),
              "igmp": (("groups", "group_records"),), "ipv6": (("ext", "extension_headers"),)}

    @staticmethod
    def _nested_attr(k, key, e):
        """the attribute of the nested object that carries the element's value (None: the element has no value to withhold)"""
        if k == "dhcp":
            if e.get("plain"): return "<value>"
            if "raw" in e: return "data"
            return {51: "seconds", 58: "seconds", 59: "seconds", 53: "type", 1: "addr", 28: "addr", 50: "addr", 54: "addr", 3: "addrs", 4: "addrs", 6: "addrs", 55: "options"}.get(e["c"], "data")
        if k == "tcp": return None if e["t"] in (0, 1, 4) else "val"
        if k == "lldp": return {0: None, 1: "id", 2: "id", 3: "ttl", 7: "caps", 8: "address", 127: "payload"}.get(e["t"], "payload")
        if k == "rip": return "metric"
        if k.startswith("nd_"): return {1: "address", 2: "address", 5: "mtu", 3: "valid_lifetime"}.get(e["t"], "raw")
        if k == "dns": return "qtype" if key == "questions" else "ttl"
        if k == "igmp": return "address"
        if k == "ipv6": return "next_header_type"
        return None

    def fault_sites(self, layers):
        out = []
        special = any(L["k"] == "udp" and (L["srcport"] in UDP_SPECIAL or L["dstport"] in UDP_SPECIAL) for L in layers)
        for i, L in enumerate(layers):
            k = L["k"]
            for f, how in self.SETTABLE.get(k, {}).items():
                if how[0] in ("payload", "tcpopts") or (k == "udp" and special): continue
                out.append({"i": i, "f": f})
            for key, _ in self.NESTED.get(k, ()):
                v = L.get(key)
                if not isinstance(v, list): continue
                for j, e in enumerate(v):
                    if self._nested_attr(k, key, e) is not None: out.append({"i": i, "list": key, "j": j})
        return out

    @staticmethod
    def fault_final(case):
        """the layer list of the repaired object"""
        st = case["site"]; Ls = [dict(L) for L in case["layers"]]
        if "f" in st: Ls[st["i"]][st["f"]] = case["new"]
        else:
            v = list(Ls[st["i"]][st["list"]]); v[st["j"]] = case["new"]; Ls[st["i"]][st["list"]] = v
        return C14.fixup(Ls)

    def _mk_elem(self, L, key, e):
        """the nested object the builders make for element `e` of list `key` of layer L (built through the same mk_* code as whole stacks)"""
        k = L["k"]
        if k == "dhcp": return self._dhcp_opt(e)
        if k == "tcp": return self._tcpopt(e)
        blank = {kk: [] for kk, _ in self.NESTED[k]}
        o = getattr(self, "mk_" + k)(dict(L, **dict(blank, **{key: [e]})), "absent")
        return getattr(o, dict(self.NESTED[k])[key])[-1]

    def run_fault(self, case, top):
        always = lambda Ls: [dict(L, _always=True) if L["k"] == "gre" else L for L in Ls]
        L0 = always(case["layers"]); LF = always(self.fault_final(case)); st = case["site"]; i = st["i"]
        obs = {}
        try:
            A = self.build(L0)
        except Exception as e:
            return {"exc": type(e).__name__, "stage": "build", "where": self._lib_exc(e)}
        hs = []; o = A
        while isinstance(o, self.packet_base): hs.append(o); o = o.next
        h = hs[i]; k = L0[i]["k"]
        if case.get("prepack"):
            obs["P"] = self.run_stack(L0, top, obj=A)
            obs["P"].pop("_q", None); obs["P"].pop("_obj", None)
            if "pack" not in obs["P"]: return obs
        # --- break
        how = case["how"]
        def bad(good, bits=None):
            if how == "none": return None
            if how == "type": return "x" if not isinstance(good, str) else 5
            if how == "range": return (1 << (bits or 64)) if isinstance(good, int) and not isinstance(good, bool) else None
            if how == "bytearray": return bytearray(good) if isinstance(good, (bytes, bytearray)) else None
            return None
        if "f" not in st:
            key = st["list"]; j = st["j"]; cont = getattr(h, dict(self.NESTED[k])[key])
            e0, e1 = L0[i][key][j], case["new"]
            ck = e0["c"] if k == "dhcp" else j
            an = self._nested_attr(k, key, e1)
            good = self._mk_elem(LF[i], key, e1)                   # the complete object with the final value
            nested = self._mk_elem(LF[i], key, e1) if case["brk"] == "replace" else cont[ck]
        try:
            if "f" in st:
                spec = self.SETTABLE[k][st["f"]]; attr = (spec[2] if spec[0] == "int" and spec[2] else st["f"])
                setattr(h, attr, bad(getattr(h, attr), spec[1] if spec[0] == "int" else None))
            elif an == "<value>": cont[ck] = bad(good)               # a plain value in the DHCP option dictionary
            else:
                setattr(nested, an, bad(getattr(good, an), 32))
                if case["brk"] == "replace": cont[ck] = nested
        except Exception as e:
            obs["refused"] = "%s at %s" % (type(e).__name__, self._lib_exc(e))          # (a setter that rejects the value: nothing was broken)
        # --- the failing pack()
        raised = []
        for _ in range(case.get("times", 1)):
            try:
                (A if case.get("via") != "self" else h).pack(); raised.append(None)
            except Exception as e:
                raised.append(type(e).__name__)
        obs["raised"] = raised
        # --- repair
        try:
            if "f" in st:
                self._set(A, L0, {"i": i, "f": st["f"], "v": case["new"]})
            else:
                fix = case["fix"]
                if an == "<value>": cont[ck] = good                                      # (equal to the bytearray it replaces)
                elif fix == "replace": cont[ck] = good
                else:
                    setattr(nested, an, getattr(good, an))
                    if k == "ipv6" and hasattr(good, "payload_length"): nested.payload_length = good.payload_length
                    if fix == "equal":
                        if k == "dhcp": cont[ck] = cont[ck]
                        else: setattr(h, dict(self.NESTED[k])[key], list(cont))
        except Exception as e:
            obs["fix_exc"] = "%s at %s" % (type(e).__name__, self._lib_exc(e)); return obs
        f = self.run_stack(LF, top, obj=A)
        if "pack" in f:
            try:
                f["again"] = (A.pack().hex() == f["pack"])
            except Exception as e:
                f["again"] = "%s at %s" % (type(e).__name__, self._lib_exc(e))
        f.pop("_q", None); f.pop("_obj", None)
        obs["F"] = f
        return obs

    def fault_oracle(self, case, obs):
        if "exc" in obs: return "constructor raises %s at %s" % (obs["exc"], obs["where"])
        if "P" in obs:
            f = self.stack_oracle(case["layers"], obs["P"])
            if f is not None: return "[pack before the fault] " + f
        if "fix_exc" in obs: return "repairing the object raises %s" % obs["fix_exc"]
        f = self.stack_oracle(self.fault_final(case), obs["F"])
        if f is not None: return "[pack after a failed pack and its repair] " + f
        if obs["F"].get("again") is not True: return "[pack after a failed pack and its repair] packing once more differs: %s" % (obs["F"].get("again"),)
        return None

    # ------------------------------------------------------------------ IPv6 extension-header chains (Model/IPv6Ext.lean)
    V6FIX = dict(tc=0, flow=0, hop_limit=64)
    def run_v6ext(self, case):
        """{"kind":"v6ext","exts":[{"t","nh","plen","body"}],"nht":n,"payload":hex,"trailer":hex}: an ipv6 object with that chain and a raw
        payload is packed; its bytes (+ trailer: bytes behind the datagram, as an Ethernet trailer would be) are parsed by ipv6(raw=...)"""
        M = self.m["ipv6"]
        payload, trailer = bytes.fromhex(case["payload"]), bytes.fromhex(case["trailer"])
        o = M.ipv6(next_header_type=case["nht"], srcip=self.IPAddr6(bytes(15) + b"\x01", raw=True), dstip=self.IPAddr6(bytes(15) + b"\x02", raw=True), **self.V6FIX)
        for e in case["exts"]:
            cls = {0: M.HopByHopOptions, 43: M.Routing, 44: M.Fragment, 60: M.DestinationOptions}[e["t"]]
            h = cls(raw_body=bytes.fromhex(e["body"]))
            h.next_header_type = e["nh"]
            if e["t"] != 44: h.payload_length = e["plen"]
            o.extension_headers.append(h)
        o.payload = payload
        try:
            b = o.pack()
        except Exception as ex:
            return {"packed": None, "exc": type(ex).__name__, "where": self._lib_exc(ex)}
        obs = {"packed": b[40:len(b) - len(payload)].hex() if b.endswith(payload) else None, "all": b.hex(), "plen_field": be(b[4:6])}
        try:
            q = M.ipv6(raw=b + trailer)
        except Exception as ex:
            obs.update(exc2=type(ex).__name__, where=self._lib_exc(ex)); return obs
        obs["res"] = "ok" if q.parsed else "unparsed"
        obs["exts"] = [{"t": getattr(x, "TYPE", None), "nh": x.next_header_type, "plen": getattr(x, "payload_length", 0) if getattr(x, "TYPE", None) != 44 else 0,
                        "body": self._hex(x.raw_body)} for x in q.extension_headers]
        if q.parsed:
            obs["nht"] = q.payload_type
            # (a damaged chain can end, by chance, in protocol 17 / 6 / 58: the payload is then handed to that parser, which keeps the bytes it was given)
            nx = q.next
            if isinstance(nx, self.packet_base) and isinstance(getattr(nx, "raw", None), (bytes, bytearray)): nx = nx.raw
            obs["payload"] = None if nx is None else (bytes(nx).hex() if isinstance(nx, (bytes, bytearray)) else "object:" + type(nx).__name__)
            try:
                obs["repack"] = q.pack().hex()
            except Exception as ex:
                obs.update(repack_exc=type(ex).__name__, where=self._lib_exc(ex))
        return obs

    @staticmethod
    def v6ext_wf(case):
        """the hypotheses of theorem ipv6_ext_roundtrip: well-formed headers, a linked chain, a payload protocol that is not an extension header"""
        t = case["nht"]
        for e in case["exts"]:
            n = len(e["body"]) // 2
            if e["t"] != t or not 0 <= e["nh"] < 256: return False
            if e["t"] == 44:
                if n != 7 or e["plen"] != 0: return False
            elif n != e["plen"] or n % 8 != 6 or n // 8 >= 256: return False
            t = e["nh"]
        if t == 59 and case["payload"]: return False               # NO_NEXT_HEADER with a payload: the caller contradicts itself
        return t not in (0, 43, 44, 60)

    def v6ext_oracle(self, case, obs):
        if not self.v6ext_wf(case) or case["trailer"]: return None        # C14 speaks of what the library assembles, parsed back as emitted
        payload = bytes.fromhex(case["payload"])
        if obs.get("packed") is None: return "pack() of an IPv6 header with well-formed extension headers fails: %s" % (obs.get("exc") or "payload not at the end")
        want = b"".join(bytes([e["nh"]]) + (b"" if e["t"] == 44 else bytes([(e["plen"] + 2) // 8 - 1])) + bytes.fromhex(e["body"]) for e in case["exts"])
        if bytes.fromhex(obs["packed"]) != want: return "extension headers emitted as %s, RFC 8200 layout gives %s" % (obs["packed"], want.hex())
        if obs["plen_field"] != len(want) + len(payload): return "payload length field %d, %d bytes follow the fixed header" % (obs["plen_field"], len(want) + len(payload))
        if "exc2" in obs: return "parsing the emitted bytes raises %s" % obs["exc2"]
        if obs["res"] != "ok": return "the emitted bytes do not parse"
        if obs["exts"] != [dict(e) for e in case["exts"]]: return "re-parsed extension headers differ: %s" % json.dumps(obs["exts"])[:300]
        last = case["exts"][-1]["nh"] if case["exts"] else case["nht"]
        if obs["nht"] != last: return "re-parsed payload protocol %s, built %d" % (obs["nht"], last)
        if last != 59 and obs["payload"] != payload.hex(): return "re-parsed payload differs: %s" % str(obs["payload"])[:120]
        if obs.get("repack") != obs["all"]: return "re-pack differs: %s" % (obs.get("repack_exc") or "bytes")
        return None

    def g_v6ext(self, rng, wf=None):
        wf = rng.random() < 0.7 if wf is None else wf
        n = rng.choice([0, 1, 1, 2, 2, 3, 4, 6])
        types = [rng.choice([0, 43, 44, 60]) for _ in range(n)]
        proto = rng.choice([99, 253, 41, 59, 2, 4, 132, 89])                      # not UDP/TCP/ICMPv6: the payload stays raw bytes
        exts = []
        for i, t in enumerate(types):
            nh = types[i + 1] if i + 1 < n else proto
            if t == 44: body, plen = self.rbytes(rng, 7), 0
            else:
                plen = 8 * rng.choice([0, 0, 1, 1, 2, 5, 31, 254, 255]) + 6
                body = self.rbytes(rng, plen)
            exts.append({"t": t, "nh": nh, "plen": plen, "body": body.hex()})
        case = {"kind": "v6ext", "exts": exts, "nht": types[0] if n else proto, "payload": self.rbytes(rng, rng.choice([0, 1, 7, 8, 9, 40, 300])).hex(), "trailer": ""}
        if not wf and exts:
            e = rng.choice(exts); v = rng.randrange(7)
            if v == 0: e["plen"] = max(0, e["plen"] + rng.choice([-6, -1, 1, 2, 8]))                         # length not matching the body
            elif v == 1: e["body"] = e["body"][:2 * rng.randrange(0, len(e["body"]) // 2 + 1)]                 # short body
            elif v == 2: e["nh"] = rng.choice([0, 43, 44, 60, 59, 256, 300])                                   # chain not linked / out of range
            elif v == 3: case["trailer"] = self.rbytes(rng, rng.choice([1, 4, 8, 18, 46])).hex()              # bytes behind the datagram
            elif v == 4: e["plen"] = rng.choice([2040, 2046, 2047, 2048, 4000])                                # length octet at / past 255
            elif v == 5: case["nht"] = rng.choice([0, 43, 44, 60, 59, 99])                                     # fixed header announces something else
            else: e["body"] = e["body"] + self.rbytes(rng, rng.choice([1, 2, 8])).hex()                       # long body
        return case

    def v6ext_corpus(self):
        cases = []
        B = lambda n, s=1: bytes((s + 3 * i) & 255 for i in range(n)).hex()
        E = lambda t, nh, plen=None: {"t": t, "nh": nh, "plen": 0 if t == 44 else plen, "body": B(7 if t == 44 else plen, t)}
        C = lambda exts, nht, pay=8, tr=0: {"kind": "v6ext", "exts": exts, "nht": nht, "payload": B(pay, 9), "trailer": B(tr, 0xee)}
        for proto in (99, 59, 253):
            cases.append(C([], proto))
            for t in (0, 43, 44, 60):
                for plen in ((0,) if t == 44 else (6, 14, 254 * 8 + 6, 255 * 8 + 6)):
                    for pay in (0, 1, 8, 64):
                        cases.append(C([E(t, proto, plen)], t, pay))
            for t1 in (0, 43, 44, 60):                                # every ordered pair, every body size mix
                for t2 in (0, 43, 44, 60):
                    for p1 in (6, 22):
                        cases.append(C([E(t1, t2, p1), E(t2, proto, 14)], t1, 5))
            cases.append(C([E(0, 43, 6), E(43, 44, 22), E(44, 60), E(60, 0, 6), E(0, proto, 14)], 0, 33))
        for tr in (1, 2, 6, 7, 8, 9, 16, 46):                         # bytes behind the datagram (the loop's `length` over-estimates)
            cases.append(C([E(0, 99, 6)], 0, 3, tr)); cases.append(C([E(44, 99)], 44, 3, tr)); cases.append(C([E(60, 44, 14), E(44, 99)], 60, 0, tr))
        bad = C([E(0, 99, 6)], 0); bad["exts"][0]["plen"] = 14; cases.append(bad)                    # announces 16 octets, carries 8
        bad = C([E(0, 99, 14)], 0); bad["exts"][0]["plen"] = 6; cases.append(bad)                    # announces 8, carries 16
        bad = C([E(0, 99, 6)], 0); bad["exts"][0]["nh"] = 256; cases.append(bad)                     # struct.error
        bad = C([E(44, 99)], 44); bad["exts"][0]["body"] = B(6); cases.append(bad)                   # assert in FixedExtensionHeader.pack
        bad = C([E(0, 99, 6)], 0); bad["exts"][0]["plen"] = 2047; cases.append(bad)                  # length octet 256
        bad = C([E(0, 60, 6)], 0, 4); cases.append(bad)                                              # announces a header that is not there (4 bytes)
        bad = C([E(0, 44, 6)], 0, 7); cases.append(bad)
        bad = C([E(0, 0, 6)], 0, 1); cases.append(bad)
        cases.append(C([E(0, 99, 6)], 60)); cases.append(C([E(0, 99, 6)], 59)); cases.append(C([E(0, 99, 6)], 17 + 200))
        return cases

    # ------------------------------------------------------------------ model
    def modelled(self, case):
        if case["kind"] in ("cksum", "v6ext"): return True
        ok = lambda Ls: all((L["k"] in MODELLED and not L.get("ext") and L.get("routing") is None) or L["k"] in TERMINAL for L in Ls)
        if case["kind"] == "hist": return all(ok(Ls) for Ls in case["stacks"])
        return ok(case["layers"]) and (case.get("other") is None or ok(case["other"]))

    @staticmethod
    def _mlayer(L):
        L = {k: v for k, v in L.items() if not k.startswith("_")}
        if L["k"] == "gre": L["csum"] = True if L["csum"] else None
        if L["k"] == "dhcp":
            L["magic"] = "63825363"
            L["options"] = [[o["c"], C14._dhcp_opt_bytes(o).hex()] for o in L["options"]]
        return L

    @staticmethod
    def _dhcp_opt_bytes(o):
        """wire value of a DHCP option of the case (what the option classes' pack() must produce)"""
        if "raw" in o: return bytes.fromhex(o["raw"])
        c, v = o["c"], o["v"]
        if c == 53: return bytes([v])
        if c in (1, 28, 50, 54, 51, 58, 59): return struct.pack("!I", v)
        if c in (3, 4, 6): return b"".join(struct.pack("!I", a) for a in v)
        if c == 55: return bytes(v)
        return bytes.fromhex(v)

    @staticmethod
    def _noid(case):
        if case["kind"] == "hist": return False
        return any(L.get("_noid") for key in ("layers", "other") for L in (case.get(key) or []))

    def _stack_req(self, case, layers, built=None, top=None):
        Ls = [self._mlayer(L) for L in layers]
        if built is not None:
            # an IPv4 header built without `id=` takes its identification from the class counter: the model is asked about the
            # identification the object was seen to have (HARDENING 1: the counter itself is state the model does not have)
            for L, bu in zip(Ls, built):
                if L["k"] == "ipv4" and bu.get("k") == "ipv4": L["id"] = bu["id"]
        return {"op": "stack", "top": top or case["top"], "cfg": self.variant, "layers": Ls}

    def model_request(self, case, obs=None):
        if case["kind"] == "v6ext":
            return {"op": "v6ext", "exts": case["exts"], "nht": case["nht"], "payload": case["payload"], "trailer": case["trailer"]}
        if case["kind"] == "cksum":
            return {"op": "cksum", "data": case["data"], "start": case["start"], "skip": case["skip"]}
        if not self.modelled(case): return None
        if self._noid(case) and obs is None: return None
        if case["kind"] == "mutparse":
            return {"op": "mutparse", "top": case["top"], "mut": case["mut"], "cfg": self.variant, "layers": [self._mlayer(L) for L in case["layers"]]}
        if case["kind"] == "hist":
            return {"op": "seq", "steps": [self._stack_req(case, ex["layers"], top=ex["top"]) for ex in self.hist_sim(case) if ex is not None and "layers" in ex]}
        if case["kind"] == "fault":
            return {"op": "seq", "steps": ([self._stack_req(case, case["layers"])] if case.get("prepack") else []) + [self._stack_req(case, self.fault_final(case))]}
        if case["kind"] == "seq":
            bu = (lambda o: o.get("built") if obs is not None and o is not None else None)
            steps = [self._stack_req(case, case["layers"], bu(obs and obs.get("A1")))]
            if case.get("other") is not None: steps.append(self._stack_req(case, case["other"], bu(obs and obs.get("B"))))
            steps.append(self._stack_req(case, self.apply_delta(case["layers"], case.get("delta", [])), bu(obs and obs.get("A2"))))
            return {"op": "seq", "steps": steps}
        return self._stack_req(case, case["layers"], obs.get("built") if obs is not None else None)

    def model_request2(self, case, obs):
        if case["kind"] in ("stack", "seq") and self.modelled(case) and self._noid(case) and isinstance(obs, dict) and ("built" in obs or "A2" in obs):
            return self.model_request(case, obs)
        return None

    @staticmethod
    def _stack_view(resp, keys=("pack", "built", "parsed", "repack", "repack_exc")):
        if "error" in resp: return resp
        if "exc" in resp: return {"exc": resp["exc"]}
        return {k: resp[k] for k in keys if k in resp}

    def model_obs(self, case, resp):
        if case["kind"] == "v6ext":
            if "error" in resp: return resp
            if resp["packed"] is None: return {"packed": None}
            return {k: resp[k] for k in ("packed", "res", "exts", "nht", "payload") if k in resp}
        if case["kind"] == "mutparse":
            # damaged bytes may lead into a parser outside the model (LLC, IPv6, IGMP, ...): the model says so and the case is
            # skipped (counted in the evidence), never guessed
            self._declined_now = "error" in resp and str(resp["error"]).startswith("unmodelled:")
            if self._declined_now:
                self.declined += 1
                return {"declined": True}
            if "error" in resp: return resp
            return {k: resp[k] for k in ("raw", "parsed", "repack", "repack_exc", "exc") if k in resp}
        if "error" in resp: return resp
        if case["kind"] == "cksum":
            want = rfc1071(zero_word(bytes.fromhex(case["data"]), case["skip"]))
            if resp["spec"] != want:
                return {"lean_spec": resp["spec"], "harness_spec": want}          # the two RFC 1071 transcriptions disagree
            return {"v": resp["code"]}
        if case["kind"] == "hist":
            return {"steps": [self._stack_view(x) for x in resp["steps"]]}
        if case["kind"] == "fault":
            out = {"F": self._stack_view(resp["steps"][-1])}
            if case.get("prepack"): out["P"] = self._stack_view(resp["steps"][0])
            return out
        if case["kind"] == "seq":
            st = resp["steps"]
            out = {"A1": self._stack_view(st[0], ("pack", "built")), "A2": self._stack_view(st[-1])}
            if case.get("other") is not None: out["B"] = self._stack_view(st[1])
            return out
        return self._stack_view(resp)

    def impl_view(self, case, obs):
        if case["kind"] == "v6ext":
            if obs.get("packed") is None: return {"packed": None}
            if "exc2" in obs: return {"exc2": obs["exc2"]}
            return {k: obs[k] for k in ("packed", "res", "exts", "nht", "payload") if k in obs}
        if case["kind"] == "mutparse":
            if getattr(self, "_declined_now", False): return {"declined": True}
            if "exc" in obs: return {"exc": obs["exc"]}
            return {k: obs[k] for k in ("raw", "parsed", "repack", "repack_exc", "exc2") if k in obs}
        if case["kind"] == "cksum": return {"v": obs["v"]} if "v" in obs else {"exc": obs["exc"]}
        sv = lambda o: {"exc": o["exc"]} if "exc" in o else {k: o[k] for k in ("pack", "built", "parsed", "repack", "repack_exc", "exc2") if k in o}
        if case["kind"] == "hist":
            # the model answers every pack of the history; the implementation's list stops where a step could not be carried out
            if "exc" in obs: return {"exc": obs["exc"]}
            return {"steps": [sv(o) for o in obs["steps"] if o is not None and "abort" not in o]}
        if case["kind"] == "fault":
            if "exc" in obs: return {"exc": obs["exc"]}
            return {k: sv(obs[k]) for k in ("P", "F") if k in obs}
        if case["kind"] == "seq":
            if "A1" not in obs: return {"A1": {"exc": obs["exc"]}}
            out = {"A1": obs["A1"]}
            if "B" in obs: out["B"] = sv(obs["B"])
            if "A2" in obs: out["A2"] = sv(obs["A2"])
            return out
        return sv(obs)

    # ------------------------------------------------------------------ the property, on the implementation's observables
    @staticmethod
    def _norm(ch):
        """payload identity: `next is None`, an empty bytes payload and an unparsed trailing object holding the bytes are the same payload"""
        out = []
        for L in ch:
            if L["k"] == "none": out.append({"k": "bytes", "data": ""})
            elif L["k"] == "unparsed": out.append({"k": "bytes", "data": L["raw"] or ""})
            else: out.append(L)
        return out

    def oracle(self, case, obs):
        if case["kind"] == "v6ext": return self.v6ext_oracle(case, obs)
        if case["kind"] == "cksum":
            if "exc" in obs: return "checksum() raises %s at %s" % (obs["exc"], obs["where"])
            if obs.get("forms"): return "checksum() call forms disagree: %s" % ",".join(obs["forms"])
            if case["start"] == 0:
                want = rfc1071(zero_word(bytes.fromhex(case["data"]), case["skip"]))
                if obs["v"] != want: return "checksum() = %04x, RFC 1071 = %04x" % (obs["v"], want)
            return None
        if case["kind"] == "mutparse":
            return None          # damaged input: C14 states nothing about it (C15 does); these cases only exercise the model's parsers
        if case["kind"] == "seq":
            return self.seq_oracle(case, obs)
        if case["kind"] == "hist":
            return self.hist_oracle(case, obs)
        if case["kind"] == "fault":
            return self.fault_oracle(case, obs)
        return self.stack_oracle(case["layers"], obs)

    def seq_oracle(self, case, obs):
        """every call of the history gives what the same call gives on fresh objects: the per-stack property for each pack/parse, and
        equal results for repeated calls"""
        if "exc" in obs and "A1" not in obs:
            return "%s raises %s at %s" % ("pack()" if obs["stage"] == "pack" else "constructor", obs["exc"], obs["where"])
        LA = case["layers"]
        w = wire_check(LA, bytes.fromhex(obs["A1"]["pack"]))
        if w is not None: return "wire %s: %s" % w
        r = ref_check(LA, bytes.fromhex(obs["A1"]["pack"]))
        if r is not None: return r
        if "B" in obs:
            f = self.stack_oracle(case["other"], obs["B"])
            if f is not None: return "[second object] " + f
        if "exc" in obs: return "setting a field raises %s at %s" % (obs["exc"], obs["where"])
        f = self.stack_oracle(self.apply_delta(LA, case.get("delta", [])), obs["A2"])
        if f is not None: return ("[pack after a field change] " if case.get("delta") else "[second pack] ") + f
        sm = obs["same"]
        if "exc" in sm: return "repeating a call raises %s" % sm["exc"]
        for k in ("pack_again", "repack_again", "parse_again", "parse_positional", "parse_unpack", "parse_method", "parse_reused_object", "other_unchanged"):
            if sm.get(k) is False: return "repeated call differs: %s" % k
        return None

    def stack_oracle(self, layers, obs):
        if "exc" in obs: return "%s raises %s at %s" % ("pack()" if obs["stage"] == "pack" else "constructor", obs["exc"], obs["where"])
        b = bytes.fromhex(obs["pack"])
        w = wire_check(layers, b)
        if w is not None: return "wire %s: %s" % w
        r = ref_check(layers, b)
        if r is not None: return r
        if "exc2" in obs: return "parsing the packed bytes raises %s at %s" % (obs["exc2"], obs["where"])
        bu, pa = self._norm(obs["built"]), self._norm(obs["parsed"])
        for i in range(max(len(bu), len(pa))):
            x = bu[i] if i < len(bu) else None; y = pa[i] if i < len(pa) else None
            if x != y:
                if x is None or y is None or x["k"] != y["k"]:
                    return "re-parsed chain differs at layer %d: built %s, parsed %s" % (i, x and x["k"], y and y["k"])
                f = sorted(k for k in set(x) | set(y) if x.get(k) != y.get(k))[0]
                if x["k"] == "bytes":
                    return "re-parsed payload-of-%s differs: built %d bytes, parsed %d bytes" % (bu[i - 1]["k"] if i else "?", len(x["data"]) // 2, len(y["data"]) // 2)
                return "re-parsed %s.%s differs: built %r, parsed %r" % (x["k"], f, x.get(f), y.get(f))
        if "repack_exc" in obs: return "re-pack of the parsed chain raises %s at %s" % (obs["repack_exc"], obs["where"])
        if obs["repack"] != obs["pack"]:
            b2 = bytes.fromhex(obs["repack"])
            p = next((i for i in range(min(len(b), len(b2))) if b[i] != b2[i]), min(len(b), len(b2)))
            return "re-pack differs at byte %d (%d vs %d bytes)" % (p, len(b), len(b2))
        if obs.get("verify"): return "verification method: " + obs["verify"][0]
        return None

    @staticmethod
    def _sig(L):
        """coarse structural signature of one layer (what kind of options / sub-structures it carries)"""
        k = L["k"]; tags = []
        if k == "tcp":
            ts = {o["t"] for o in L["options"]}
            if 5 in ts: tags.append("sack")
            if ts - {0, 1, 2, 3, 4, 5, 8}: tags.append("unknown-opt")
            if ts & {1, 2, 3, 4, 8} and not tags: tags.append("opts")
        if k == "ipv4" and L["raw_options"]: tags.append("options")
        if k == "ipv6" and L.get("ext"): tags.append("ext")
        if k == "lldp":
            opt = {t["t"] for t in L["tlvs"]} - {0, 1, 2, 3}
            if 8 in opt: tags.append("mgmt")
            if opt - {8}: tags.append("opt")
        if k == "dhcp":
            if L["options"]: tags.append("options")
        if k == "dns":
            if L["questions"]: tags.append("q")
            if L["answers"] or L["authorities"] or L["additional"]: tags.append("rr")
        if k == "igmp": tags.append("v3" if L["vt"] == 0x22 else "v2")
        if k == "gre" and L.get("routing") is not None: tags.append("routing" if L["csum"] else "routing-nocsum")
        if k == "eap": tags.append("code%d" % L["code"])
        if k == "vlan" and L["cfi"]: tags.append("cfi")
        if k in ("nd_ns", "nd_na", "nd_rs", "nd_ra") and L.get("opts"): tags.append("opts")
        return k + ("[" + ",".join(tags) + "]" if tags else "")

    def finding_key(self, case, obs, failure):
        if case["kind"] == "v6ext": return "v6ext:" + re.sub(r"[0-9a-f]{6,}|\d+", "N", failure)[:60]
        if case["kind"] == "cksum":
            if "exc" in obs: return "cksum:%s-length:%s" % ("odd" if len(case["data"]) // 2 % 2 else "even", obs["exc"])
            if obs.get("forms"): return "cksum:call-forms"
            return "cksum:value"
        if case["kind"] == "hist":
            m = re.match(r"\[history step (\d+): \w+ of \S+\] (.*)", failure, re.S)
            if not m: return "hist:" + failure[:60]
            i = int(m.group(1)); ex = self.hist_sim(case)[i]; o = obs["steps"][i]
            inner = self.stack_key(ex["layers"], o, m.group(2))
            fresh = self.run_stack(ex["layers"], {"ethernet": self.m["ethernet"].ethernet, "ipv4": self.m["ipv4"].ipv4}[ex["top"]])
            ff = self.stack_oracle(ex["layers"], fresh)
            if ff is not None and self.stack_key(ex["layers"], fresh, ff) == inner: return inner          # the same stack fails when built afresh
            return ("hist-shared:" if ex["stale"] else "hist:") + inner
        if case["kind"] == "fault":
            m = re.match(r"\[(pack before the fault|pack after a failed pack and its repair)\] (.*)", failure, re.S)
            if not m: return "fault:" + re.sub(r" at .*", "", failure)[:60]
            layers, o = (case["layers"], obs["P"]) if m.group(1) == "pack before the fault" else (self.fault_final(case), obs["F"])
            if m.group(2).startswith("packing once more"): return "fault:pack-again:" + "/".join(self._sig(L) for L in layers if L["k"] not in TERMINAL)
            inner = self.stack_key(layers, o, m.group(2))
            fresh = self.run_stack(layers, {"ethernet": self.m["ethernet"].ethernet, "ipv4": self.m["ipv4"].ipv4}[case["top"]])
            ff = self.stack_oracle(layers, fresh)
            if (ff is not None and self.stack_key(layers, fresh, ff) == inner) or m.group(1) == "pack before the fault": return inner          # not a matter of history
            st = case["site"]
            return "fault:%s.%s:%s:%s" % (case["layers"][st["i"]]["k"], st.get("f") or st["list"], case["fix"], inner)
        if case["kind"] == "seq":
            m = re.match(r"\[(second object|pack after a field change|second pack)\] (.*)", failure, re.S)
            if m:
                which = m.group(1)
                layers, o = (case["other"], obs["B"]) if which == "second object" else (self.apply_delta(case["layers"], case.get("delta", [])), obs["A2"])
                fresh = self.run_stack(layers, {"ethernet": self.m["ethernet"].ethernet, "ipv4": self.m["ipv4"].ipv4}[case["top"]])
                ff = self.stack_oracle(layers, fresh)
                if ff is not None and self.stack_key(layers, fresh, ff) == self.stack_key(layers, o, m.group(2)):
                    return self.stack_key(layers, o, m.group(2))          # not a matter of history: the same stack fails when built afresh
                tag = {"second object": "other", "pack after a field change": "set:" + ",".join(sorted({"%s.%s" % (case["layers"][d["i"]]["k"], d["f"]) for d in case["delta"]})),
                       "second pack": "pack2"}[which]
                return "seq:%s:%s" % (tag, self.stack_key(layers, o, m.group(2)))
            if failure.startswith("repeated call differs") or failure.startswith("repeating a call") or failure.startswith("setting a field"):
                return "seq:" + re.sub(r" at .*", "", failure)[:60] + ":" + "/".join(self._sig(L) for L in case["layers"] if L["k"] not in TERMINAL)
            return self.stack_key(case["layers"], obs if "A1" not in obs else dict(obs["A1"], **{k: obs[k] for k in ("exc", "stage", "where") if k in obs}), failure)
        return self.stack_key(case["layers"], obs, failure)

    def stack_key(self, layers, obs, failure):
        sigs = {L["k"]: self._sig(L) for L in layers}
        if failure.startswith("pack() raises") or failure.startswith("constructor raises"): return "%s:%s:%s" % (obs["stage"], obs["where"], obs["exc"])
        if failure.startswith("wire "):
            k = failure.split()[1].rstrip(":")
            what = re.sub(r"\b[0-9a-f]{4}\b|\d+", "N", failure.split(": ", 1)[1])[:48]
            if k in ("udp", "tcp", "icmpv6") and "checksum" in what and any(L["k"] == "ipv6" and L.get("ext") for L in layers):
                return "wire:ipv6[ext]/%s:%s" % (k, what)          # a transport header behind IPv6 extension headers
            return "wire:%s:%s" % (sigs.get(k, k), what)
        if failure.startswith("reference "):
            k = failure.split()[1].rstrip(":")
            return "ref:%s:%s" % (sigs.get(k, k), failure.split("(", 1)[1].split(")")[0] if "(" in failure else "")
        if failure.startswith("parsing the packed"): return "parse:%s:%s" % (obs["where"], obs["exc2"])
        if failure.startswith("re-parsed chain differs"):
            m = re.search(r"built (\S+), parsed (\S+)", failure)
            return "reparse-chain:%s->%s" % (sigs.get(m.group(1).rstrip(","), m.group(1).rstrip(",")), m.group(2))
        if failure.startswith("re-parsed payload-of-"):
            k = failure.split()[1][len("payload-of-"):]
            return "reparse-payload:%s" % sigs.get(k, k)
        if failure.startswith("re-parsed "):
            kf = failure.split()[1]
            k, f = kf.split(".", 1)
            return "reparse-field:%s.%s" % (sigs.get(k, k), f)
        if failure.startswith("re-pack of"): return "repack:%s:%s" % (obs["where"], obs["repack_exc"])
        if failure.startswith("re-pack differs"): return "repack-diff:" + "/".join(self._sig(L) for L in layers if L["k"] not in TERMINAL)
        if failure.startswith("verification method: "):
            return "verify:" + re.sub(r" = [0-9a-f]{4}, checksum field [0-9a-f]{4}| raises .*", "", failure[len("verification method: "):])
        return failure[:60]

    def nontrivial(self, case, obs):
        if case["kind"] == "v6ext": return len(case["exts"]) >= 1
        if case["kind"] == "cksum": return len(case["data"]) >= 4
        if case["kind"] == "mutparse": return False
        if case["kind"] == "hist": return True
        if case["kind"] == "fault": return any(x is not None for x in obs.get("raised", []))
        return sum(1 for L in case["layers"] if L["k"] not in TERMINAL) >= 2

    def shrink_candidates(self, case):
        if case["kind"] == "v6ext":
            for j in range(len(case["exts"])):
                ex = case["exts"][:j] + case["exts"][j + 1:]
                if j > 0 and j < len(case["exts"]): ex[j - 1] = dict(ex[j - 1], nh=case["exts"][j]["nh"])
                yield dict(case, exts=ex, nht=(case["exts"][1]["t"] if len(case["exts"]) > 1 else case["exts"][0]["nh"]) if j == 0 else case["nht"])
            if len(case["payload"]) > 2: yield dict(case, payload=case["payload"][:2])
            if case["trailer"]: yield dict(case, trailer="")
            return
        if case["kind"] == "mutparse": return
        if case["kind"] == "hist":
            for j in range(len(case["ops"])):
                yield dict(case, ops=case["ops"][:j] + case["ops"][j + 1:])
            return
        if case["kind"] == "fault":
            if case.get("prepack"): yield dict(case, prepack=False)
            if case.get("times", 1) > 1: yield dict(case, times=1)
            if case.get("via") == "self": yield dict(case, via="top")
            t = case["layers"][-1]
            if t["k"] == "bytes" and len(t["data"]) > 8: yield dict(case, layers=self.fixup(case["layers"][:-1] + [dict(t, data=t["data"][:8])]))
            return
        if case["kind"] == "seq":
            if case.get("other") is not None: yield {k: v for k, v in case.items() if k not in ("other", "bfirst")}
            for j in range(len(case.get("delta", []))):
                yield dict(case, delta=case["delta"][:j] + case["delta"][j + 1:])
            t = case["layers"][-1]
            if t["k"] == "bytes" and len(t["data"]) > 8 and not any(d["f"] == "data" for d in case.get("delta", [])):
                yield dict(case, layers=self.fixup(case["layers"][:-1] + [dict(t, data=t["data"][:8])]))
            return
        if case["kind"] == "cksum":
            d = case["data"]
            for n in (2, 4, len(d) // 2 // 2 * 2):
                if 0 < n < len(d): yield dict(case, data=d[:n]) if n % 2 == 0 else case
            if len(d) > 2: yield dict(case, data=d[:-2]); yield dict(case, data=d[2:])
            return
        Ls = case["layers"]
        def with_layers(new):
            c = dict(case); c["layers"] = self.fixup(new); return c
        t = Ls[-1]
        if t["k"] == "bytes" and len(t["data"]) > 2:
            for n in (0, 1, 2, 3, len(t["data"]) // 4):
                if n * 2 < len(t["data"]): yield with_layers(Ls[:-1] + [dict(t, data=t["data"][:2 * n])])
        for i, L in enumerate(Ls):
            for key in ("options", "tlvs", "ext", "entries", "questions", "answers", "authorities", "additional", "groups", "opts"):
                v = L.get(key)
                if isinstance(v, list) and v:
                    for j in range(len(v)):
                        if key == "tlvs" and v[j]["t"] in (0, 1, 2, 3): continue
                        yield with_layers(Ls[:i] + [dict(L, **{key: v[:j] + v[j + 1:]})] + Ls[i + 1:])
            if L["k"] == "ipv4" and L["raw_options"]:
                yield with_layers(Ls[:i] + [dict(L, raw_options="", hl=5)] + Ls[i + 1:])
            if L["k"] == "vlan" and i > 0:
                yield with_layers(Ls[:i - 1] + [dict(Ls[i - 1], **({"type": L["eth_type"]} if Ls[i - 1]["k"] == "ethernet" else {"eth_type": L["eth_type"]}))] + Ls[i + 1:])

    # ------------------------------------------------------------------ generators
    @staticmethod
    def val(rng, bits):
        m = (1 << bits) - 1
        return rng.choice([0, m, 1 << (bits - 1), (1 << (bits - 1)) - 1, 1, rng.randint(0, m), rng.randint(0, m), rng.randint(0, m)])

    @staticmethod
    def rbytes(rng, n):
        mode = rng.randrange(6)
        if mode == 0: return bytes(n)
        if mode == 1: return b"\xff" * n
        return bytes(rng.getrandbits(8) for _ in range(n))

    @staticmethod
    def plen(rng, lo=0, hi=1500):
        c = rng.randrange(10)
        if c < 3: n = rng.choice([0, 1, 2, 3, 4, 5, 7, 8, 9, 15, 16, 17])
        elif c < 4: n = rng.choice([8, 16, 24, 32, 64, 128, 256, 512, 1024, 1280, 1448, 2048, 4096]) + rng.choice([0, 0, 0, -1, 1])      # block-size multiples (HARDENING 3)
        elif c < 5: n = rng.randint(0, 64)
        elif c < 6: n = rng.choice([1399, 1400, 1471, 1472, 1473, 1479, 1480, 1499, 1500])
        else: n = rng.randint(0, hi)
        return max(lo, min(hi, n))

    def bytes_layer(self, rng, n=None, hi=1500):
        return {"k": "bytes", "data": self.rbytes(rng, self.plen(rng, 0, hi) if n is None else n).hex()}

    def g_eth(self, rng, inner_kind, t=None):
        if t is None:
            t = {"vlan": 0x8100, "arp": rng.choice([0x0806, 0x8035]), "ipv4": 0x0800, "ipv6": 0x86dd, "lldp": 0x88cc, "eapol": 0x888e,
                 "mpls": rng.choice([0x8847, 0x8848])}.get(inner_kind)
        if t is None:
            while True:
                t = rng.choice([0x0600, 0xffff, 0x8000, 0x1234 + 1536, rng.randint(1536, 0xffff)])
                if t not in ETH_PARSED: break
        return {"k": "ethernet", "dst": self.rbytes(rng, 6).hex(), "src": self.rbytes(rng, 6).hex(), "type": t}

    def g_vlan(self, rng, inner_kind):
        e = self.g_eth(rng, inner_kind)
        return {"k": "vlan", "pcp": self.val(rng, 3), "cfi": self.val(rng, 1), "id": self.val(rng, 12), "eth_type": e["type"]}

    def g_ipv4(self, rng, inner_kind, frag_ok=False):
        nopt = rng.choice([0, 0, 0, 1, 2, 10, rng.randint(0, 10)])
        proto = {"udp": 17, "tcp": 6, "icmp": 1, "igmp": 2, "gre": 47}.get(inner_kind)
        if proto is None:
            while True:
                proto = rng.choice([0, 255, 128, 89, rng.randint(0, 255)])
                if proto not in IP_PARSED: break
        return {"k": "ipv4", "v": 4, "hl": 5 + nopt, "tos": self.val(rng, 8), "iplen": 20, "id": self.val(rng, 16), "flags": self.val(rng, 3),
                "frag": (self.val(rng, 13) if frag_ok and rng.random() < 0.3 else 0), "ttl": self.val(rng, 8), "protocol": proto, "csum": 0,
                "srcip": self.val(rng, 32), "dstip": self.val(rng, 32), "raw_options": self.rbytes(rng, 4 * nopt).hex()}

    def g_port(self, rng, avoid=UDP_SPECIAL):
        while True:
            p = self.val(rng, 16)
            if p not in avoid: return p

    def g_tcpopts(self, rng):
        c = rng.randrange(8)
        if c < 3: return []
        out = []; room = 40
        for _ in range(rng.choice([1, 1, 2, 3, 5])):
            t = rng.choice([1, 1, 2, 3, 4, 5, 8, 8, 99, 254])
            if t == 1: o, n = {"t": 1}, 1
            elif t == 2: o, n = {"t": 2, "v": self.val(rng, 16)}, 4
            elif t == 3: o, n = {"t": 3, "v": self.val(rng, 8)}, 3
            elif t == 4: o, n = {"t": 4}, 2
            elif t == 5:
                k = rng.randint(1, 4); o, n = {"t": 5, "v": [[self.val(rng, 32), self.val(rng, 32)] for _ in range(k)]}, 2 + 8 * k
            elif t == 8: o, n = {"t": 8, "v": [self.val(rng, 32), self.val(rng, 32)]}, 10
            else:
                k = rng.choice([0, 1, 2, 5, 14]); o, n = {"t": t, "v": self.rbytes(rng, k).hex()}, 2 + k
            if n <= room: out.append(o); room -= n
        if rng.randrange(6) == 0: out += [{"t": 1}] * room           # the option area filled to the last byte (data offset 15)
        return out

    def g_tcp(self, rng):
        return {"k": "tcp", "srcport": self.val(rng, 16), "dstport": self.val(rng, 16), "seq": self.val(rng, 32), "ack": self.val(rng, 32), "off": 0, "res": self.val(rng, 4),
                "flags": self.val(rng, 8), "win": self.val(rng, 16), "csum": 0, "urg": self.val(rng, 16), "options": self.g_tcpopts(rng)}

    def g_l4(self, rng, budget):
        """layers below ipv4 (modelled ones), ending in a terminal; budget = max bytes"""
        c = rng.randrange(10)
        if c < 3:
            return "udp", [{"k": "udp", "srcport": self.g_port(rng), "dstport": self.g_port(rng), "len": 8, "csum": 0}, self.bytes_layer(rng, hi=budget - 8)]
        if c < 6:
            t = self.g_tcp(rng)
            return "tcp", [t, self.bytes_layer(rng, hi=budget - 60)]
        if c < 8:
            return "icmp", [{"k": "icmp", "type": rng.choice([0, 8]), "code": self.val(rng, 8), "csum": 0}, {"k": "echo", "id": self.val(rng, 16), "seq": self.val(rng, 16)},
                            self.bytes_layer(rng, hi=budget - 8)]
        if c < 9:
            while True:
                t = self.val(rng, 8)
                if t not in (0, 8, 3, 11): break
            return "icmp", [{"k": "icmp", "type": t, "code": self.val(rng, 8), "csum": 0}, self.bytes_layer(rng, hi=budget - 4)]
        # ICMP error quoting an inner datagram
        which = rng.choice(["unreach", "time_exceeded"])
        hd = {"k": "unreach", "unused": self.val(rng, 16), "next_mtu": self.val(rng, 16)} if which == "unreach" else {"k": "time_exceeded", "unused": self.val(rng, 32)}
        if rng.random() < 0.25:
            inner = [self.bytes_layer(rng, n=rng.randint(0, 23))]
        else:
            ik, il = self.g_l4(rng, 200) if rng.random() < 0.7 else (None, [self.bytes_layer(rng, n=rng.choice([4, 8, 9, 64]))])
            inner = [self.g_ipv4(rng, ik)] + il
        return "icmp", [{"k": "icmp", "type": 3 if which == "unreach" else 11, "code": self.val(rng, 8), "csum": 0}, hd] + inner

    def g_modelled(self, rng):
        c = rng.randrange(12)
        l2 = []
        nv = rng.choice([0, 0, 0, 1, 1, 2])
        if c == 0:
            body_kind, body = None, [self.bytes_layer(rng)]
        elif c == 1:
            body_kind = "arp"
            body = [{"k": "arp", "hwtype": 1, "prototype": 0x0800, "hwlen": 6, "protolen": 4, "opcode": self.val(rng, 16), "hwsrc": self.rbytes(rng, 6).hex(),
                     "protosrc": self.val(rng, 32), "hwdst": self.rbytes(rng, 6).hex(), "protodst": self.val(rng, 32), "_plain": rng.random() < 0.3},
                    self.bytes_layer(rng, n=rng.choice([0, 0, 18, 1]))]
        elif c == 2:
            body_kind = "ipv4"; body = [self.g_ipv4(rng, None, frag_ok=True), self.bytes_layer(rng, hi=1440)]
        else:
            k, l4 = self.g_l4(rng, 1440)
            body_kind = "ipv4"; body = [self.g_ipv4(rng, k)] + l4
        kinds = ["vlan"] * nv + [body_kind]
        layers = [self.g_eth(rng, kinds[0])] + [self.g_vlan(rng, kinds[i + 1]) for i in range(nv)] + body
        return {"kind": "stack", "top": "ethernet", "layers": self.fixup(layers)}

    # ---- un-modelled protocol modules (differential round trip + independent recomputation only)
    def g_other(self, rng):
        c = rng.choice(["llc", "llc", "mpls", "lldp", "lldp", "eapol", "ipv6", "ipv6", "icmpv6", "icmpv6", "igmp", "igmp", "gre", "gre", "vxlan", "rip", "dhcp", "dhcp", "dns", "dns"])
        E = lambda k, t=None: self.g_eth(rng, k, t)
        ip = lambda k: self.g_ipv4(rng, k)
        if c == "llc":
            snap = rng.random() < 0.5
            ctrl = rng.choice([3, 0xff, 0x03, 0x13, 0, 2, 0x7f01 & 0xfffe, 0x1234 & 0xfffc])
            two = (ctrl & 1) == 0 or (ctrl & 3) == 2
            if two: ctrl = (ctrl & 0xff) | (rng.choice([0, 0, 0xff, 0x80, 1, rng.randint(0, 255)]) << 8)          # second octet 0: N(R)=0, P/F clear
            L = {"k": "llc", "dsap": 0xaa if snap else rng.choice([0x42, 0, 0xfe, 0xe0]), "ssap": 0xaa if snap else rng.choice([0x42, 0, 0xfe, 0xe0]), "control": ctrl,
                 "length": (4 if two else 3) + (5 if snap else 0), "oui": None, "eth_type": None}
            if snap:
                zero = rng.random() < 0.5
                L["oui"] = "000000" if zero else self.rbytes(rng, 3).hex()
                if zero and rng.random() < 0.6:
                    L["eth_type"] = 0x0800
                    return self._stack([E("llc", 100), L, ip(None), self.bytes_layer(rng, hi=200)])
                L["eth_type"] = E(None)["type"]
            return self._stack([E("llc", rng.choice([3, 1500, 1535, rng.randint(3, 1500)])), L, self.bytes_layer(rng, hi=300)])
        if c == "mpls":
            n = rng.choice([1, 1, 2, 3])
            ls = [{"k": "mpls", "label": self.val(rng, 20), "tc": self.val(rng, 3), "s": 1 if i == n - 1 else 0, "ttl": self.val(rng, 8)} for i in range(n)]
            return self._stack([E("mpls")] + ls + [self.bytes_layer(rng, hi=300)])
        if c == "lldp":
            tl = [{"t": 1, "subtype": rng.randint(1, 7), "id": self.rbytes(rng, rng.choice([1, 6, 20])).hex()},
                  {"t": 2, "subtype": rng.randint(1, 7), "id": self.rbytes(rng, rng.choice([1, 2, 6])).hex()}, {"t": 3, "ttl": self.val(rng, 16)}]
            for _ in range(rng.choice([0, 1, 2, 4])):
                t = rng.choice([4, 5, 6, 7, 8, 127, 9, 100])
                if t in (4, 5, 6, 9, 100): tl.append({"t": t, "payload": self.rbytes(rng, rng.choice([0, 1, 5, 255, 511])).hex()})
                elif t == 7: tl.append({"t": 7, "caps": self.val(rng, 16), "en": self.val(rng, 16)})
                elif t == 8: tl.append({"t": 8, "ast": rng.choice([1, 2, 6]), "addr": self.rbytes(rng, rng.choice([4, 6, 16])).hex(), "ins": rng.randint(1, 3), "ifn": self.val(rng, 32),
                                        "oid": self.rbytes(rng, rng.choice([0, 3])).hex()})
                else: tl.append({"t": 127, "oui": self.rbytes(rng, 3).hex(), "subtype": self.val(rng, 8), "payload": self.rbytes(rng, rng.choice([0, 4, 100])).hex()})
            tl.append({"t": 0})
            return self._stack([E("lldp"), {"k": "lldp", "tlvs": tl}, {"k": "none"}])
        if c == "eapol":
            t = rng.choice([0, 0, 1, 2])
            if t == 0:
                code = rng.choice([1, 2, 3, 4])
                pl = self.rbytes(rng, rng.choice([1, 5])) if code in (1, 2) else b""
                return self._stack([E("eapol"), {"k": "eapol", "version": rng.choice([1, 2]), "type": 0, "bodylen": 4 + len(pl)},
                                    {"k": "eap", "code": code, "id": self.val(rng, 8), "length": 4 + len(pl)}] + ([{"k": "bytes", "data": pl.hex()}] if pl else [{"k": "none"}]))
            return self._stack([E("eapol"), {"k": "eapol", "version": rng.choice([1, 2]), "type": t, "bodylen": 0}, {"k": "none"}])
        if c in ("ipv6", "icmpv6"):
            v6 = {"k": "ipv6", "tc": self.val(rng, 8), "flow": self.val(rng, 20), "hop_limit": self.val(rng, 8), "nh": 59, "srcip": self.rbytes(rng, 16).hex(),
                  "dstip": self.rbytes(rng, 16).hex(), "ext": []}
            if c == "ipv6":
                w = rng.choice(["raw", "udp", "tcp", "ext"])
                if w == "raw":
                    v6["nh"] = rng.choice([99, 253, 41]); return self._stack([E("ipv6"), v6, self.bytes_layer(rng, hi=1400)])
                if w == "udp":
                    v6["nh"] = 17
                    return self._stack([E("ipv6"), v6, {"k": "udp", "srcport": self.g_port(rng), "dstport": self.g_port(rng), "len": 8, "csum": 0}, self.bytes_layer(rng, hi=1400)])
                if w == "tcp":
                    v6["nh"] = 6; return self._stack([E("ipv6"), v6, self.g_tcp(rng), self.bytes_layer(rng, hi=1300)])
                # one to three extension headers in front of a raw payload or of a transport header (whose pseudo header names the
                # upper-layer protocol, RFC 8200 8.1)
                ts = [rng.choice([0, 43, 60, 44]) for _ in range(rng.choice([1, 1, 2, 3]))]
                up = rng.choice([99, 17, 6, 58])
                v6["nh"] = ts[0]
                v6["ext"] = [{"t": t, "nh": (ts[n + 1] if n + 1 < len(ts) else up), "body": self.rbytes(rng, 7 if t == 44 else rng.choice([6, 14])).hex()} for n, t in enumerate(ts)]
                if up == 17: return self._stack([E("ipv6"), v6, {"k": "udp", "srcport": self.g_port(rng), "dstport": self.g_port(rng), "len": 8, "csum": 0}, self.bytes_layer(rng, hi=300)])
                if up == 6: return self._stack([E("ipv6"), v6, self.g_tcp(rng), self.bytes_layer(rng, hi=300)])
                if up == 58: return self._stack([E("ipv6"), v6, {"k": "icmpv6", "type": rng.choice([128, 129]), "code": 0}, {"k": "echo6", "id": self.val(rng, 16), "seq": self.val(rng, 16)}, self.bytes_layer(rng, hi=300)])
                return self._stack([E("ipv6"), v6, self.bytes_layer(rng, hi=100)])
            v6["nh"] = 58
            w = rng.choice(["echo", "echo", "unk", "ns", "na", "rs", "ra", "toobig", "timeex", "unreach"])
            ic = lambda t: {"k": "icmpv6", "type": t, "code": self.val(rng, 8) if w in ("echo", "unk") else 0}
            opts = lambda: [rng.choice([{"t": 1, "addr": self.rbytes(rng, 6).hex()}, {"t": 2, "addr": self.rbytes(rng, 6).hex()}, {"t": 5, "mtu": self.val(rng, 32)},
                                        {"t": rng.choice([14, 200]), "raw": self.rbytes(rng, rng.choice([6, 14])).hex()},
                                        {"t": 3, "plen": self.val(rng, 8), "onlink": rng.random() < .5, "auto": rng.random() < .5, "valid": self.val(rng, 32),
                                         "pref": self.val(rng, 32), "prefix": self.rbytes(rng, 16).hex()}])
                            for _ in range(rng.choice([0, 1, 2]))]
            if w == "echo": return self._stack([E("ipv6"), v6, ic(rng.choice([128, 129])), {"k": "echo6", "id": self.val(rng, 16), "seq": self.val(rng, 16)}, self.bytes_layer(rng, hi=1300)])
            if w == "unk": return self._stack([E("ipv6"), v6, ic(rng.choice([200, 130, 4])), self.bytes_layer(rng, hi=300)])
            if w == "ns": return self._stack([E("ipv6"), v6, ic(135), {"k": "nd_ns", "target": self.rbytes(rng, 16).hex(), "opts": opts()}, {"k": "none"}])
            if w == "na": return self._stack([E("ipv6"), v6, ic(136), {"k": "nd_na", "target": self.rbytes(rng, 16).hex(), "opts": opts(), "router": rng.random() < .5,
                                                                      "solicited": rng.random() < .5, "override": rng.random() < .5}, {"k": "none"}])
            if w == "rs": return self._stack([E("ipv6"), v6, ic(133), {"k": "nd_rs", "opts": opts()}, {"k": "none"}])
            if w == "ra": return self._stack([E("ipv6"), v6, ic(134), {"k": "nd_ra", "hop_limit": self.val(rng, 8), "managed": rng.random() < .5, "other": rng.random() < .5,
                                                                      "lifetime": self.val(rng, 16), "reachable": self.val(rng, 32), "retrans": self.val(rng, 32), "opts": opts()}, {"k": "none"}])
            if w == "toobig": return self._stack([E("ipv6"), v6, ic(2), {"k": "toobig6", "mtu": self.val(rng, 32)}, self.bytes_layer(rng, hi=100)])
            if w == "timeex": return self._stack([E("ipv6"), v6, ic(3), {"k": "timeex6"}, self.bytes_layer(rng, hi=100)])
            # an ICMPv6 error quotes the offending datagram: >= 44 quoted bytes are parsed as IPv6 (icmpv6.py unreach.parse), so an
            # opaque quote stays below that and a long one is a real IPv6 datagram
            if rng.random() < 0.5:
                return self._stack([E("ipv6"), v6, ic(1), {"k": "unreach6", "unused": self.val(rng, 32)}, self.bytes_layer(rng, hi=43)])
            inner = dict(v6, nh=rng.choice([99, 253]), srcip=self.rbytes(rng, 16).hex(), tc=self.val(rng, 8))
            return self._stack([E("ipv6"), v6, ic(1), {"k": "unreach6", "unused": self.val(rng, 32)}, inner, self.bytes_layer(rng, n=rng.choice([4, 8, 60]))])
        if c == "igmp":
            if rng.random() < 0.4:
                gs = [{"type": rng.randint(1, 6), "addr": self.val(rng, 32), "srcs": [self.val(rng, 32) for _ in range(rng.choice([0, 1, 3]))], "aux": self.rbytes(rng, rng.choice([0, 0, 4])).hex()}
                      for _ in range(rng.choice([0, 1, 2]))]
                return self._stack([E("ipv4"), ip("igmp"), {"k": "igmp", "vt": 0x22, "groups": gs, "extra": ""}, {"k": "none"}])
            return self._stack([E("ipv4"), ip("igmp"), {"k": "igmp", "vt": rng.choice([0x11, 0x12, 0x16, 0x17]), "mrt": self.val(rng, 8), "addr": self.val(rng, 32),
                                                         "extra": self.rbytes(rng, rng.choice([0, 0, 4, 3])).hex()}, {"k": "none"}])
        if c == "gre":
            g = {"k": "gre", "type": 0, "key": rng.choice([None, self.val(rng, 32)]), "seq": rng.choice([None, self.val(rng, 32)]), "csum": rng.random() < 0.5, "ssr": rng.random() < 0.2}
            if rng.random() < 0.3:          # RFC 1701 source route entries (not modelled: differential + wire walk)
                g["routing"] = [{"af": rng.choice([0x0800, 1, 0xffff]), "so": self.val(rng, 8), "data": self.rbytes(rng, rng.choice([4, 8, 1, 255])).hex()} for _ in range(rng.choice([0, 1, 1, 3]))]
                if not self.gre_route_nocsum: g["csum"] = True
            w = rng.choice(["ip", "eth", "raw"])
            if w == "ip":
                g["type"] = 0x0800; return self._stack([E("ipv4"), ip("gre"), g, ip(None), self.bytes_layer(rng, hi=1300)])
            if w == "eth":
                g["type"] = 0x6558; return self._stack([E("ipv4"), ip("gre"), g, E(None), self.bytes_layer(rng, hi=1300)])
            g["type"] = rng.choice([0x1234, 0x86dd, 0xffff]); return self._stack([E("ipv4"), ip("gre"), g, self.bytes_layer(rng, hi=1300)])
        udp = lambda s, d: {"k": "udp", "srcport": s, "dstport": d, "len": 8, "csum": 0}
        if c == "vxlan":
            return self._stack([E("ipv4"), ip("udp"), udp(self.g_port(rng), 4789), {"k": "vxlan", "vni": rng.choice([None, self.val(rng, 24)])}, E(None), self.bytes_layer(rng, hi=1300)])
        if c == "rip":
            es = [{"af": rng.choice([2, 0, 0xffff]), "tag": self.val(rng, 16), "ip": self.val(rng, 32), "mask": self.val(rng, 32), "nh": self.val(rng, 32),
                   "metric": rng.choice([0, 1, 16, 0x7fffffff, 0x80000000, 0xffffffff, rng.randint(0, 16)])} for _ in range(rng.choice([1, 1, 2, 25]))]
            return self._stack([E("ipv4"), ip("udp"), udp(520, 520), {"k": "rip", "command": rng.choice([1, 2]), "version": rng.choice([1, 2]), "entries": es}, {"k": "none"}])
        if c == "dhcp":
            hlen = rng.choice([6, 6, 16, 0])
            opts = []
            for _ in range(rng.choice([0, 0, 1, 2, 4])):
                oc = rng.choice([53, 1, 3, 6, 51, 55, 12, 61])
                if any(o["c"] == oc for o in opts): continue
                if oc == 53: opts.append({"c": 53, "v": rng.randint(1, 8)})
                elif oc == 1: opts.append({"c": 1, "v": self.val(rng, 32)})
                elif oc in (3, 6): opts.append({"c": oc, "v": [self.val(rng, 32) for _ in range(rng.randint(1, 3))]})
                elif oc == 51: opts.append({"c": 51, "v": self.val(rng, 32)})
                elif oc == 55: opts.append({"c": 55, "v": [rng.randint(1, 254) for _ in range(rng.randint(1, 5))]})
                else: opts.append({"c": oc, "v": self.rbytes(rng, rng.choice([1, 7, 300, 254, 255, 256, 510, 511])).hex()})
            fill = lambda n: (b"" if rng.random() < 0.6 else self.rbytes(rng, n)).hex()
            d = {"k": "dhcp", "op": rng.choice([1, 2]), "htype": 1, "hlen": hlen, "hops": self.val(rng, 8), "xid": self.val(rng, 32), "secs": self.val(rng, 16), "flags": rng.choice([0, 0x8000]),
                 "ciaddr": self.val(rng, 32), "yiaddr": self.val(rng, 32), "siaddr": self.val(rng, 32), "giaddr": self.val(rng, 32), "chaddr": self.rbytes(rng, 16).hex() if hlen != 6 else (self.rbytes(rng, 6) + bytes(10)).hex(),
                 "sname": fill(64), "file": fill(128), "options": opts}
            s, dd = rng.choice([(68, 67), (67, 68)])
            return self._stack([E("ipv4"), ip("udp"), udp(s, dd), d, {"k": "none"}])
        # dns
        name = lambda: rng.choice(["example.com", "a.b.example.com", "x", "www.example.org"])
        def rr():
            t = rng.choice([1, 28, 5, 2, 16])
            dat = self.val(rng, 32) if t == 1 else self.rbytes(rng, 16).hex() if t == 28 else name() if t in (2, 5) else self.rbytes(rng, rng.choice([1, 20])).hex()
            return {"name": name(), "qtype": t, "qclass": 1, "ttl": self.val(rng, 32), "data": dat}
        B = lambda: rng.random() < 0.5
        d = {"k": "dns", "id": self.val(rng, 16), "qr": B(), "opcode": self.val(rng, 3), "aa": B(), "tc": B(), "rd": B(), "ra": B(), "z": B(), "ad": B(), "cd": B(), "rcode": self.val(rng, 4),
             "questions": [{"name": name(), "qtype": rng.choice([1, 28, 255]), "qclass": 1} for _ in range(rng.choice([0, 1, 1, 2]))],
             "answers": [rr() for _ in range(rng.choice([0, 0, 1, 2]))], "authorities": [rr() for _ in range(rng.choice([0, 0, 1]))], "additional": [rr() for _ in range(rng.choice([0, 0, 1]))]}
        s, dd = rng.choice([(self.g_port(rng), 53), (53, self.g_port(rng)), (5353, 5353)])
        return self._stack([E("ipv4"), ip("udp"), udp(s, dd), d, {"k": "none"}])

    def _stack(self, layers):
        return {"kind": "stack", "top": "ethernet", "layers": self.fixup(layers)}

    @staticmethod
    def fixup(layers):
        """derived helper annotations (not sent to the model): the TCP header length the options need"""
        out = []
        for L in layers:
            if L["k"] == "tcp":
                n = 0
                for o in L["options"]:
                    t = o["t"]
                    n += 1 if t in (0, 1) else 4 if t == 2 else 3 if t == 3 else 2 if t == 4 else 2 + 8 * len(o["v"]) if t == 5 else 10 if t == 8 else 2 + len(o["v"]) // 2
                L = dict(L, _hdrlen=20 + (n + 3) // 4 * 4)
            out.append(L)
        return out

    def g_mut(self, rng):
        """a valid modelled stack whose packed bytes are truncated and/or overwritten at header offsets"""
        base = self.g_modelled(rng)
        if rng.random() < 0.4:
            for _ in range(20):
                b2 = self.g_other(rng)
                if self.modelled(b2): base = b2; break
        t = base["layers"][-1]
        if t["k"] == "bytes" and len(t["data"]) > 128: base["layers"][-1] = dict(t, data=t["data"][:2 * rng.randint(0, 64)])
        hdr = 14 + 4 * sum(1 for L in base["layers"] if L["k"] == "vlan")
        muts = []
        for _ in range(rng.choice([1, 1, 2, 3])):
            if rng.random() < 0.45:
                muts.append({"m": "trunc", "n": rng.choice([rng.randint(0, hdr + 70), 14 + rng.randint(0, 8), hdr + rng.choice([0, 1, 4, 8, 19, 20, 21, 24, 27, 28, 39, 40, 41, 42, 44, 47, 48])])})
            else:
                muts.append({"m": "set", "i": rng.choice([rng.randint(0, hdr + 64), hdr + rng.randint(0, 9), hdr + rng.choice([0, 2, 3, 6, 9, 20, 26, 32, 33, 40, 41, 42, 44])]),
                             "v": rng.choice([0, 1, 2, 3, 4, 5, 6, 8, 10, 30, 0x45, 0x4f, 0x40, 0x50, 0x60, 0xf0, 0xff, rng.randint(0, 255)])})
        return {"kind": "mutparse", "top": "ethernet", "layers": base["layers"], "mut": muts}

    # ---- call histories (HARDENING 1, 2, 4)
    def g_delta(self, rng, layers, n=None):
        """field changes applied to the built chain after its first pack()"""
        cands = []
        special = any(L["k"] == "udp" and (L["srcport"] in UDP_SPECIAL or L["dstport"] in UDP_SPECIAL) for L in layers)
        for i, L in enumerate(layers):
            for f, how in self.SETTABLE.get(L["k"], {}).items():
                if L["k"] == "udp" and special: continue
                if how[0] == "payload" and (i == 0 or layers[i - 1]["k"] in ("eap",)): continue
                cands.append((i, f, how))
        out = []
        for i, f, how in rng.sample(cands, min(len(cands), rng.choice([0, 1, 1, 2, 3]) if n is None else n)):
            L = layers[i]
            if how[0] == "int":
                v = self.g_port(rng) if L["k"] == "udp" else self.val(rng, how[1])
            elif how[0] == "mac": v = self.rbytes(rng, 6).hex()
            elif how[0] == "ip4": v = self.val(rng, 32)
            elif how[0] == "ip6": v = self.rbytes(rng, 16).hex()
            elif how[0] == "tcpopts": v = self.g_tcpopts(rng)
            else:
                d = bytes.fromhex(L["data"]); c = rng.randrange(6)
                if c == 0 and d: d = d[:-1] + bytes([d[-1] ^ rng.choice([1, 0x80, 0xff])])      # same length, last byte changed
                elif c == 1: d = d + self.rbytes(rng, 1)
                elif c == 2: d = d[:-1]
                elif c == 3: d = b""
                elif c == 4: d = self.rbytes(rng, (len(d) // 8 + 1) * 8)
                else: d = self.rbytes(rng, len(d))
                # icmpv6 unreach parses a quote of >= 44 bytes as IPv6 and keeps a shorter one opaque: stay on the side the case is on
                if layers[i - 1]["k"] == "unreach6" and len(d) >= 44: d = d[:43]
                if i >= 2 and layers[i - 1]["k"] == "ipv6" and layers[i - 2]["k"] == "unreach6" and len(d) < 4: d = d + b"quot"
                # the ICMP error classes do the same at 24 quoted bytes
                if layers[i - 1]["k"] in ("unreach", "time_exceeded") and len(d) >= 24: d = d[:23]
                if i >= 2 and layers[i - 1]["k"] == "ipv4" and layers[i - 2]["k"] in ("unreach", "time_exceeded") and len(d) < 4: d = d + b"quot"
                v = d.hex()
            out.append({"i": i, "f": f, "v": v})
        return out

    def twin(self, rng, layers):
        """the same classes with every list-valued part empty and left to the constructor's default: what the first object holds must not show up here"""
        out = []
        for L in layers:
            L = dict(L); k = L["k"]
            if k == "tcp": L["options"] = []; L["_defopts"] = True; L["seq"] = self.val(rng, 32)
            elif k == "ipv4": L["raw_options"] = ""; L["hl"] = 5; L["id"] = self.val(rng, 16)
            elif k == "lldp": L["tlvs"] = [t for t in L["tlvs"] if t["t"] in (0, 1, 2, 3)]
            elif k == "ipv6":
                # the twin has no extension headers, so its next-header field names the payload's protocol (what the last extension header
                # of the first object names): an object that announces an extension header it does not carry is not well-formed
                if L.get("ext"): L["nh"] = L["ext"][-1]["nh"]
                L["ext"] = []; L["flow"] = self.val(rng, 20)
            elif k == "dhcp": L["options"] = []; L["xid"] = self.val(rng, 32)
            elif k in ("nd_ns", "nd_na", "nd_rs", "nd_ra"): L["opts"] = []
            elif k == "igmp" and L["vt"] == 0x22: L["groups"] = []
            elif k == "rip": L["entries"] = L["entries"][:1]
            elif k == "dns": L["questions"] = []; L["answers"] = []; L["authorities"] = []; L["additional"] = []
            out.append(L)
        return self.fixup(out)

    # ---- header objects moved / shared between containers
    MOVABLE = {"udp", "tcp", "icmp", "icmpv6", "ipv4", "ipv6", "vlan", "echo", "echo6", "ethernet", "mpls", "arp", "gre", "vxlan", "igmp", "llc", "eapol"}
    BYTES_OK = {"udp", "tcp", "icmp", "ipv4", "ipv6", "vlan", "echo", "echo6", "arp"}          # a 0..3-byte payload in their place stays opaque on re-parse

    def variant_stack(self, rng, layers):
        """a second stack of the same shape with other addresses / identifiers and its own payload"""
        out = []
        for L in layers:
            L = dict(L); k = L["k"]
            if k == "ethernet": L["src"] = self.rbytes(rng, 6).hex(); L["dst"] = self.rbytes(rng, 6).hex()
            elif k == "ipv4": L["srcip"] = self.val(rng, 32); L["dstip"] = self.val(rng, 32); L["id"] = self.val(rng, 16); L["ttl"] = self.val(rng, 8)
            elif k == "ipv6": L["srcip"] = self.rbytes(rng, 16).hex(); L["dstip"] = self.rbytes(rng, 16).hex(); L["flow"] = self.val(rng, 20)
            elif k == "vlan": L["id"] = self.val(rng, 12)
            elif k == "tcp": L["seq"] = self.val(rng, 32); L["win"] = self.val(rng, 16)
            elif k in ("echo", "echo6"): L["seq"] = self.val(rng, 16)
            elif k == "udp" and L["srcport"] not in UDP_SPECIAL and L["dstport"] not in UDP_SPECIAL: L["srcport"] = self.g_port(rng)
            elif k == "bytes" and len(L["data"]) <= 86: L["data"] = self.rbytes(rng, len(L["data"]) // 2).hex()          # (quoted datagrams keep their length class)
            out.append(L)
        return self.fixup(out)

    def g_hist(self, rng, template=None):
        for _ in range(30):
            base = self.g_modelled(rng) if rng.random() < 0.6 else self.g_other(rng)
            A = base["layers"]
            hs = [i for i, L in enumerate(A) if L["k"] not in TERMINAL]
            # (not inside a datagram quoted by an ICMP error: whether the quote is parsed depends on its length)
            cuts = [i for i in hs if i >= 1 and A[i]["k"] in self.MOVABLE and not any(A[j]["k"] in ("unreach", "time_exceeded", "unreach6", "toobig6", "timeex6") for j in range(i))
                    and not any(L["k"] in ("dns", "lldp") or L.get("ext") for L in A)]
            if A[0]["k"] != "ethernet" or not cuts: continue
            t = A[-1]
            if t["k"] == "bytes" and len(t["data"]) > 400: A = self.fixup(A[:-1] + [dict(t, data=t["data"][:2 * rng.randint(0, 64)])])
            c = rng.choice(cuts); p = c - 1
            B = self.variant_stack(rng, A)
            small = self.rbytes(rng, rng.randint(0, 3)).hex()
            byt = A[c]["k"] in self.BYTES_OK
            repl = (lambda pid: {"op": "attach", "p": pid, "bytes": small}) if byt else None
            # a gre header that came off the wire carries its checksum as a number, which is emitted as it stands (class docstring)
            wire_gre = any(L["k"] == "gre" and L["csum"] for L in A[:c])
            tpl = template or rng.choice(["move-replace", "move-replace", "alternate", "replace-reattach", "reparse-reuse", "swap", "random"])
            ops = None
            P = lambda sidx, i: "%d.%d" % (sidx, i)
            if tpl == "move-replace":          # set as payload of A, then of B, then A is given something else
                third = repl(P(0, p)) if (byt and rng.random() < 0.6) else {"op": "attach", "p": P(0, p), "c": P(1, c)}
                ops = [{"op": "attach", "p": P(1, p), "c": P(0, c)}, third, {"op": "pack", "o": P(1, 0)}, {"op": "pack", "o": P(0, 0)}]
            elif tpl == "alternate":           # the same object under two containers, packed alternately
                ops = [{"op": "attach", "p": P(1, p), "c": P(0, c)}, {"op": "pack", "o": P(1, 0)}, {"op": "pack", "o": P(0, 0)}, {"op": "pack", "o": P(1, 0)}]
            elif tpl == "replace-reattach" and byt:   # payload replaced, packed, the original re-attached
                ops = [repl(P(0, p)), {"op": "pack", "o": P(0, 0)}, {"op": "attach", "p": P(0, p), "c": P(0, c)}, {"op": "pack", "o": P(0, 0)}]
            elif tpl == "reparse-reuse" and not wire_gre:       # a header parsed off the wire re-used as the payload of a built header
                ops = [{"op": "reparse", "o": P(0, 0), "as": 2}, {"op": "attach", "p": P(1, p), "c": P(2, c)}]
                ops += [repl(P(2, p))] if byt else [{"op": "attach", "p": P(2, p), "c": P(1, c)}]
                ops += [{"op": "pack", "o": P(1, 0)}, {"op": "pack", "o": P(2, 0)}]
            elif tpl == "swap":
                ops = [{"op": "attach", "p": P(0, p), "c": P(1, c)}, {"op": "attach", "p": P(1, p), "c": P(0, c)}, {"op": "pack", "o": P(0, 0)}, {"op": "pack", "o": P(1, 0)}]
            elif tpl == "random":
                ops = []
                for _ in range(rng.randint(2, 5)):
                    sp, sc = rng.randrange(2), rng.randrange(2)
                    ops.append(repl(P(sp, p)) if (byt and rng.random() < 0.25) else {"op": "attach", "p": P(sp, p), "c": P(sc, c)})
                    if rng.random() < 0.4: ops.append({"op": "pack", "o": P(rng.randrange(2), 0)})
                ops += [{"op": "pack", "o": P(0, 0)}, {"op": "pack", "o": P(1, 0)}]
            if ops is None: continue
            case = {"kind": "hist", "top": "ethernet", "stacks": [A, B], "ops": ops}
            if not self.shared_ok:
                # drop the packs that go through a container whose payload object was moved elsewhere in the meantime (probe_shared)
                sim = self.hist_sim(case)
                case["ops"] = [op for op, ex in zip(ops, sim) if not (ex is not None and ex.get("stale"))]
                if not any(op["op"] == "pack" for op in case["ops"]): continue
                if any(ex is not None and ex.get("stale") for ex in self.hist_sim(case)): continue
            return case
        return self.g_seq(rng)

    def g_seq(self, rng):
        base = self.g_modelled(rng) if rng.random() < 0.55 else self.g_other(rng)
        LA = base["layers"]
        case = {"kind": "seq", "top": "ethernet", "layers": LA, "delta": self.g_delta(rng, LA)}
        r = rng.random()
        if r < 0.35:
            case["other"] = self.twin(rng, LA); case["bfirst"] = rng.random() < 0.5
        elif r < 0.55:
            case["other"] = (self.g_modelled(rng) if rng.random() < 0.5 else self.g_other(rng))["layers"]; case["bfirst"] = rng.random() < 0.5
        if rng.random() < 0.15:
            case["layers"] = [dict(L, _noid=True) if L["k"] == "ipv4" else L for L in LA]
        return case

    # ---- failed pack, repair, pack again
    def _vary_elem(self, rng, k, key, e, long=False):
        """another value for the nested element `e` (same type, same length class); `long`: a DHCP value of more than 255 bytes"""
        e = dict(e); rb = lambda hx, n=None: self.rbytes(rng, len(hx) // 2 if n is None else n).hex()
        if k == "dhcp":
            if "raw" in e: e["raw"] = rb(e["raw"], rng.choice([256, 300, 511]) if long else None)
            elif e["c"] == 53: e["v"] = rng.randint(1, 8)
            elif e["c"] in (1, 28, 50, 54, 51, 58, 59): e["v"] = self.val(rng, 32)
            elif e["c"] in (3, 4, 6): e["v"] = [self.val(rng, 32) for _ in e["v"]]
            elif e["c"] == 55: e["v"] = [rng.randint(1, 254) for _ in e["v"]]
            else: e["v"] = rb(e["v"], rng.choice([256, 300, 511]) if long else None)
        elif k == "tcp":
            t = e["t"]
            if t == 2: e["v"] = self.val(rng, 16)
            elif t == 3: e["v"] = self.val(rng, 8)
            elif t == 5: e["v"] = [[self.val(rng, 32), self.val(rng, 32)] for _ in e["v"]]
            elif t == 8: e["v"] = [self.val(rng, 32), self.val(rng, 32)]
            else: e["v"] = rb(e["v"])
        elif k == "lldp":
            t = e["t"]
            if t in (1, 2): e["id"] = rb(e["id"])
            elif t == 3: e["ttl"] = self.val(rng, 16)
            elif t == 7: e["caps"] = self.val(rng, 16)
            elif t == 8: e["addr"] = rb(e["addr"])
            else: e["payload"] = rb(e["payload"])
        elif k == "rip": e["metric"] = rng.randint(0, 16)
        elif k.startswith("nd_"):
            t = e["t"]
            if t in (1, 2): e["addr"] = rb(e["addr"])
            elif t == 5: e["mtu"] = self.val(rng, 32)
            elif t == 3: e["valid"] = self.val(rng, 32)
            else: e["raw"] = rb(e["raw"])
        elif k == "dns":
            if key == "questions": e["qtype"] = rng.choice([1, 28, 255, 16])
            else: e["ttl"] = rng.randint(0, 0x7fffffff)
        elif k == "igmp": e["addr"] = self.val(rng, 32)
        return e

    def mk_fault(self, rng, layers, site, **kw):
        """a fault case at `site` of `layers`; parameters not given are drawn"""
        L = layers[site["i"]]; k = L["k"]
        pick = lambda name, choices: kw[name] if name in kw else rng.choice(choices)
        case = {"kind": "fault", "top": "ethernet", "layers": layers, "site": site}
        if "f" in site:
            spec = self.SETTABLE[k][site["f"]]
            for _ in range(8):
                v = (self.g_port(rng) if k == "udp" else self.val(rng, spec[1])) if spec[0] == "int" else self.rbytes(rng, 6).hex() if spec[0] == "mac" else self.val(rng, 32) if spec[0] == "ip4" \
                    else self.rbytes(rng, 16).hex()
                if v != L[site["f"]]: break
            case.update(new=v, how=pick("how", ["none", "none", "range", "type"] if spec[0] == "int" else ["none", "type"]), brk="attr", fix="field")
        else:
            e = L[site["list"]][site["j"]]
            byt = k == "dhcp" and self._nested_attr(k, site["list"], e) in ("data", "<value>")
            how = pick("how", ["none", "none", "type", "range"] + (["bytearray"] * 4 if byt else []))
            if how == "bytearray" and not byt: how = "none"
            for _ in range(8):
                new = self._vary_elem(rng, k, site["list"], e, long=(how == "bytearray"))
                if new != e or k == "ipv6": break
            case.update(new=new, how=how, brk=pick("brk", ["attr", "replace"]), fix=pick("fix", ["attr", "attr", "replace", "equal"]))
        case.update(prepack=pick("prepack", [False, True]), via=pick("via", ["top", "top", "self"]), times=pick("times", [1, 1, 1, 2]))
        if k == "dhcp" and "list" in site:
            # the DHCP option dictionary notices assignments only (util.DirtyDict is shallow by its own description): once the message has been
            # packed, a change that nothing announces is legitimately not seen.  So after a successful pack the fault arrives by assignment, and
            # only in the ways that make packOptions raise (a pack that succeeds marks the block clean again).
            if case["prepack"]:
                case["brk"] = "replace"
                if case["how"] == "range": case["how"] = "none"
        return case

    def g_fault(self, rng):
        for _ in range(30):
            base = self.g_modelled(rng) if rng.random() < 0.4 else self.g_other(rng)
            Ls = base["layers"]; t = Ls[-1]
            if t["k"] == "bytes" and len(t["data"]) > 256: Ls = self.fixup(Ls[:-1] + [dict(t, data=t["data"][:2 * rng.randint(0, 128)])])
            if any(L.get("_noid") for L in Ls): continue
            sites = self.fault_sites(Ls)
            nested = [x for x in sites if "list" in x]
            if not sites: continue
            site = rng.choice(nested) if nested and rng.random() < 0.7 else rng.choice(sites)
            return self.mk_fault(rng, Ls, site)
        return self.g_seq(rng)

    def fault_corpus(self):
        """every fault site of a fixed set of frames x way of breaking x way of repairing x packed before or not x where pack() is called"""
        import random
        rng = random.Random(141); cases = []
        E, E6, I, I6, U, T = self.FE, dict(self.FE, type=0x86dd), self.FI, self.FI6, self.FU, self.FT
        B = lambda b: {"k": "bytes", "data": bytes(b).hex()}
        dh = lambda opts: {"k": "dhcp", "op": 2, "htype": 1, "hlen": 6, "hops": 0, "xid": 0x3903f326, "secs": 0, "flags": 0, "ciaddr": 0, "yiaddr": 0xc0a8000a, "siaddr": 0xc0a80001, "giaddr": 0,
                           "chaddr": "000b8201fc42" + "00" * 10, "sname": "", "file": "", "options": opts}
        long = bytes(range(256)).hex() + "76656e646f72"
        rr = lambda name, t, data: {"name": name, "qtype": t, "qclass": 1, "ttl": 300, "data": data}
        frames = self.l4_frames(B(b"abc")) + [
            [E, I(17), dict(U, srcport=67, dstport=68), dh([{"c": 53, "v": 5}, {"c": 51, "v": 86400}, {"c": 54, "v": 0xc0a80001}]), {"k": "none"}],
            [E, I(17), dict(U, srcport=67, dstport=68), dh([{"c": 53, "v": 2}, {"c": 43, "v": long, "plain": True}]), {"k": "none"}],
            [E, I(17), dict(U, srcport=67, dstport=68), dh([{"c": 1, "v": 0xffffff00}, {"c": 6, "v": [0x08080808, 0x08080404]}, {"c": 55, "v": [1, 3, 6]}, {"c": 12, "v": "686f7374"},
                                                            {"c": 43, "v": long}, {"c": 60, "raw": "4d53"}]), {"k": "none"}],
            [E, I(6, hl=6, raw_options="01010100"), T([{"t": 2, "v": 1460}, {"t": 1}, {"t": 3, "v": 7}, {"t": 8, "v": [1, 2]}, {"t": 5, "v": [[1, 2]]}, {"t": 77, "v": "7879"}]), B(b"ab")],
            [E6, dict(I6, nh=6), T([{"t": 2, "v": 1440}]), B(b"abc")],
            [dict(E, type=0x88cc), {"k": "lldp", "tlvs": [{"t": 1, "subtype": 4, "id": "000102030405"}, {"t": 2, "subtype": 2, "id": "31"}, {"t": 3, "ttl": 120}, {"t": 5, "payload": "7377"},
                                                         {"t": 7, "caps": 0x14, "en": 4}, {"t": 8, "ast": 1, "addr": "0a000001", "ins": 2, "ifn": 3, "oid": "2b06"},
                                                         {"t": 127, "oui": "0026e1", "subtype": 0, "payload": "6470"}, {"t": 0}]}, {"k": "none"}],
            [E6, I6, {"k": "icmpv6", "type": 134, "code": 0}, {"k": "nd_ra", "hop_limit": 64, "managed": True, "other": False, "lifetime": 1800, "reachable": 0, "retrans": 1000,
                                                               "opts": [{"t": 1, "addr": "001122334455"}, {"t": 5, "mtu": 1500},
                                                                        {"t": 3, "plen": 64, "onlink": True, "auto": True, "valid": 86400, "pref": 14400, "prefix": "20010db8" + "00" * 12},
                                                                        {"t": 14, "raw": "010203040506"}]}, {"k": "none"}],
            [E6, I6, {"k": "icmpv6", "type": 135, "code": 0}, {"k": "nd_ns", "target": "fe80" + "00" * 13 + "05", "opts": [{"t": 1, "addr": "001122334455"}]}, {"k": "none"}],
            [E, I(17), dict(U, srcport=520, dstport=520), {"k": "rip", "command": 2, "version": 2, "entries": [{"af": 2, "tag": 0, "ip": 0x0a000000, "mask": 0xff000000, "nh": 0, "metric": 3},
                                                                                                          {"af": 2, "tag": 7, "ip": 0x0a010000, "mask": 0xffff0000, "nh": 1, "metric": 16}]}, {"k": "none"}],
            [E, I(17), dict(U, srcport=53, dstport=40000), {"k": "dns", "id": 7, "qr": True, "opcode": 0, "aa": False, "tc": False, "rd": True, "ra": True, "z": False, "ad": False, "cd": False, "rcode": 0,
                                                            "questions": [{"name": "www.example.org", "qtype": 1, "qclass": 1}], "answers": [rr("www.example.org", 5, "example.org"), rr("example.org", 1, 0x0a000001)],
                                                            "authorities": [rr("example.org", 2, "ns.example.org")], "additional": [rr("ns.example.org", 16, "616263")]}, {"k": "none"}],
            [E, I(2), {"k": "igmp", "vt": 0x22, "groups": [{"type": 1, "addr": 0xe0000116, "srcs": [0x0a000001], "aux": ""}, {"type": 4, "addr": 0xe0000109, "srcs": [], "aux": ""}], "extra": ""}, {"k": "none"}],
            [E6, dict(I6, nh=0, ext=[{"t": 0, "nh": 60, "body": "010400000000"}, {"t": 60, "nh": 17, "body": "01" * 14}]), U, B(b"abcde")],
            [dict(E, type=0x8100), {"k": "vlan", "pcp": 5, "cfi": 0, "id": 0xabc, "eth_type": 0x0800}, I(1), {"k": "icmp", "type": 3, "code": 1, "csum": 0}, {"k": "unreach", "unused": 0, "next_mtu": 1400},
             I(17), U, B(b"12345678")],
            [E, I(17), dict(U, dstport=4789), {"k": "vxlan", "vni": 0xabcdef}, dict(E, type=0x8847), {"k": "mpls", "label": 5, "tc": 1, "s": 1, "ttl": 9}, B(b"abcd")]]
        for fr in frames:
            fr = self.fixup(fr)
            for site in self.fault_sites(fr):
                if "f" in site:
                    for how in ("none", "range"):
                        for pre in (False, True):
                            cases.append(self.mk_fault(rng, fr, site, how=how, prepack=pre, via=("top" if pre else "self"), times=1))
                    continue
                byt = fr[site["i"]]["k"] == "dhcp" and self._nested_attr("dhcp", site["list"], fr[site["i"]][site["list"]][site["j"]]) in ("data", "<value>")
                for how in (("none", "bytearray") if byt else ("none",)):
                    for brk in ("attr", "replace"):
                        for fix in ("attr", "replace", "equal"):
                            for pre in (False, True):
                                cases.append(self.mk_fault(rng, fr, site, how=how, brk=brk, fix=fix, prepack=pre, via=rng.choice(["top", "self"]), times=rng.choice([1, 1, 2])))
        return cases

    # ---- fixed frames the corpus families below are built from
    FE = {"k": "ethernet", "dst": "66778899aabb", "src": "001122334455", "type": 0x0800}
    FU = {"k": "udp", "srcport": 1000, "dstport": 2000, "len": 8, "csum": 0}
    FI6 = {"k": "ipv6", "tc": 0xb8, "flow": 0x12345, "hop_limit": 64, "nh": 58, "srcip": "fe80" + "00" * 13 + "01", "dstip": "ff02" + "00" * 13 + "02", "ext": []}
    @staticmethod
    def FI(p, **kw):
        return dict({"k": "ipv4", "v": 4, "hl": 5, "tos": 0, "iplen": 20, "id": 0x1234, "flags": 2, "frag": 0, "ttl": 64, "protocol": p, "csum": 0,
                     "srcip": 0x0a010203, "dstip": 0xc0a80001, "raw_options": ""}, **kw)
    @staticmethod
    def FT(opts=()):
        return {"k": "tcp", "srcport": 1000, "dstport": 80, "seq": 0x01020304, "ack": 0xfffefdfc, "off": 0, "res": 0, "flags": 0x18, "win": 8192, "csum": 0, "urg": 0, "options": list(opts)}

    def l4_frames(self, pl):
        """the six checksummed transports over both IP versions, ending in the payload layer `pl`"""
        E, E6, I, I6, U, T = self.FE, dict(self.FE, type=0x86dd), self.FI, self.FI6, self.FU, self.FT
        return [[E, I(17), U, pl], [E, I(6), T(), pl], [E, I(1), {"k": "icmp", "type": 8, "code": 0, "csum": 0}, {"k": "echo", "id": 7, "seq": 9}, pl],
                [E6, dict(I6, nh=17), U, pl], [E6, dict(I6, nh=6), T(), pl], [E6, I6, {"k": "icmpv6", "type": 128, "code": 0}, {"k": "echo6", "id": 7, "seq": 9}, pl]]

    CK_POS = {"udp": 6, "tcp": 16, "icmp": 2, "icmpv6": 2}

    def tune_checksum(self, layers, target):
        """The same stack with the first 16-bit word of its payload chosen so that the CORRECT checksum of the innermost checksummed
        transport header is exactly `target` (computed from this file's reference encoder and RFC 1071, no library code); None when the
        stack is outside the encoder, has no 2-byte payload, or the value cannot occur (an all-zero sum needs all-zero words)."""
        t = layers[-1]
        if t["k"] != "bytes" or len(t["data"]) < 4: return None
        Ls = self.fixup(layers[:-1] + [dict(t, data="0000" + t["data"][4:])])
        try:
            ref, marks = ref_encode(Ls)
        except Exception:
            return None
        if ref is None: return None
        inner = [(o, k) for o, k in marks if k in self.CK_POS]
        if not inner: return None
        off, kind = inner[-1]
        ipm = [(o, k) for o, k in marks if k in ("ipv4", "ipv6") and o < off]
        seg = ref[off:]
        cp = self.CK_POS[kind]
        if kind in ("udp", "tcp", "icmpv6"):
            if not ipm: return None
            io, ik = ipm[-1]
            if ik == "ipv4": ph = ref[io + 12:io + 20] + bytes([0, ref[io + 9]]) + struct.pack("!H", len(seg))
            else: ph = ref[io + 8:io + 40] + struct.pack("!IHBB", len(seg), 0, 0, {"udp": 17, "tcp": 6, "icmpv6": 58}[kind])
        else: ph = b""
        wpos = len(ref) - len(bytes.fromhex(t["data"])) - off          # the tunable word inside the segment
        if wpos % 2: return None
        region = ph + seg[:cp] + b"\0\0" + seg[cp + 2:]
        base = (~rfc1071(region)) & 0xffff                           # folded sum with the tunable word = 0
        want = (~target) & 0xffff                                    # folded sum that gives `target`
        for x in ((want - base) % 0xffff, 0xffff if want == base else None):
            if x is None: continue
            r2 = region[:len(ph) + wpos] + struct.pack("!H", x) + region[len(ph) + wpos + 2:]
            if rfc1071(r2) == target:
                return self.fixup(layers[:-1] + [dict(t, data="%04x" % x + t["data"][4:])])
        return None

    def g_cktarget(self, rng):
        """a random stack whose correct transport checksum is one of the values where special rules live (HARDENING 3):
        0x0000 (UDP sends 0xffff instead, nobody else may), 0xffff, 0x0001, 0xfffe, 0x8000, 0x00ff, 0xff00"""
        for _ in range(20):
            c = self.g_modelled(rng) if rng.random() < 0.6 else self.g_other(rng)
            L = self.tune_checksum(c["layers"], rng.choice([0, 0, 0, 0xffff, 1, 0xfffe, 0x8000, 0x00ff, 0xff00]))
            if L is not None: return self._stack(L)
        return self.g_modelled(rng)

    def g_big(self, rng):
        """datagrams at and around the 15/16-bit length boundaries (HARDENING 3)"""
        which = rng.randrange(6)
        over = [28, 40, 28, 48, 60, 48][which]            # header bytes between the start of the IP header and the payload
        total = rng.choice([32767, 32768, 32769, 65534, 65535, rng.randint(20000, 65535)])
        if which >= 3: total += 40                           # the IPv6 payload-length field does not count the fixed header
        n = total - over
        return self._stack(self.l4_frames({"k": "bytes", "data": self.rbytes(rng, n).hex()})[which])

    def corpus_hardening(self):
        """corpus families added after HARDENING.md (item numbers in the comments)"""
        cases = []
        E, E6, I, I6, U, T = self.FE, dict(self.FE, type=0x86dd), self.FI, self.FI6, self.FU, self.FT
        B = lambda b: {"k": "bytes", "data": bytes(b).hex()}
        S = self._stack
        MP = lambda layers: {"kind": "mutparse", "top": "ethernet", "layers": self.fixup(layers), "mut": []}
        # --- 3: odd lengths x value of the last byte (sign bit, all ones, zero), every transport, both IP versions; every length 0..33 over IPv6
        for fr_i in range(6):
            for n in (1, 3, 5, 33):
                for last in (0x00, 0x80, 0xff):
                    cases.append(S(self.l4_frames(B([0x41] * (n - 1) + [last]))[fr_i]))
            if fr_i >= 3:
                for n in range(0, 34): cases.append(S(self.l4_frames(B(range(n)))[fr_i]))
            # --- 3: payload lengths that are exact multiples of the word / block sizes, and one off
            for n in (8, 16, 24, 32, 64, 128, 256, 512, 1024, 1448, 1456, 1464, 2048, 4096, 8192):
                for d in (0, -1):
                    cases.append(S(self.l4_frames(B((i * 7 + 3) & 255 for i in range(n + d)))[fr_i]))
            # --- 3: ... and payloads that make the CHECKSUMMED region (pseudo header + header + data) such a multiple
            reg = [20, 32, 8, 48, 60, 48][fr_i]
            for k in range(6, 14):
                for d in (0, -1, 1):
                    cases.append(S(self.l4_frames(B((i * 11 + 1) & 255 for i in range((1 << k) - reg + d)))[fr_i]))
            # --- 3: the largest datagrams the length fields can express, and the 15-bit boundary
            over = [28, 40, 28, 48, 60, 48][fr_i]
            for total in (32767, 32768, 65535):
                n = total + (40 if fr_i >= 3 else 0) - over
                cases.append(S(self.l4_frames(B((i * 13 + 5) & 255 for i in range(n)))[fr_i]))
        # --- 15: DNS messages longer than 1 KiB / 16 KiB: a name first written at a chosen offset and then REPEATED, so that the compression
        #     pointer (14 bits, RFC 1035 4.1.4) points at 1023 / 1024 / 1025, 4095 / 4096, 16383, and at the first offsets a pointer cannot hold
        for at in (300, 1023, 1024, 1025, 2047, 2048, 4095, 4096, 8192, 16382, 16383, 16384, 16385, 20000):
            for how in ("rr-name", "ns-data", "question-first"):
                fill = at - 5 - 29                       # header 12 + "f.org" 7 + fixed RR part 10 + filler rdata, then "\x04late" (5) in front of the zone
                rr = lambda name, t=16, data="616263": {"name": name, "qtype": t, "qclass": 1, "ttl": 5, "data": data}
                D = {"k": "dns", "id": 7, "qr": True, "opcode": 0, "aa": False, "tc": False, "rd": True, "ra": True, "z": False, "ad": False, "cd": False, "rcode": 0,
                     "questions": [], "answers": [rr("f.org", 16, "74" * fill), rr("late.unique-zone.net")], "authorities": [], "additional": []}
                if how == "rr-name": D["answers"].append(rr("again.unique-zone.net"))
                elif how == "ns-data": D["authorities"].append(rr("f.org", 2, "ns1.unique-zone.net"))
                else: D["additional"] += [rr("unique-zone.net", 5, "late.unique-zone.net"), rr("x.late.unique-zone.net", 1, 0x0a000001)]
                cases.append(S([E, I(17), dict(U, srcport=53, dstport=40000), D, {"k": "none"}]))
        cases.append(S([E, I(253), B(b"\xa5" * 65515)]))
        cases.append(S([E, I(253, hl=15, raw_options="01" * 40), B(b"\xa5" * 65475)]))
        cases.append(S([E, I(6), T([{"t": 1}] * 40), B(b"\x5a" * 65455)]))
        # --- 3: option areas of every size up to the one that fills the header exactly
        for nopt in range(0, 11):
            for pl in ("", "61", "6162"):
                cases.append(S([E, I(17, hl=5 + nopt, raw_options=("01" * (4 * nopt - 1) + "00") if nopt else ""), U, {"k": "bytes", "data": pl}]))
        for n in range(0, 41):
            cases.append(S([E, I(6), T([{"t": 1}] * n), B(b"a")]))
            # ... ending in End of Option List (the parser stops there and does not list it: parse/re-pack compared with the model only)
            if n: cases.append(MP([E, I(6), T([{"t": 1}] * (n - 1) + [{"t": 0}]), B(b"ab")]))
        ts = {"t": 8, "v": [0xffffffff, 0]}
        for opts in ([ts] * 4, [{"t": 5, "v": [[1, 2], [3, 4], [5, 6], [7, 8]]}, {"t": 2, "v": 1460}, {"t": 1}, {"t": 1}], [{"t": 77, "v": "ab" * 38}], [{"t": 77, "v": "ab" * 37}],
                     [{"t": 5, "v": [[1, 2], [3, 4], [5, 6], [7, 8]]}, {"t": 3, "v": 14}, {"t": 4}], [{"t": 2, "v": 0}, {"t": 3, "v": 0}, {"t": 4}, ts, {"t": 254, "v": "00" * 17}]):
            for fr in ([E, I(6)], [E6, dict(I6, nh=6)]):
                cases.append(S(fr + [T(opts), B(b"abc")]))
        # --- 3: zero / falsy values at every position; payload absent rather than empty
        Z4 = dict(I(17), tos=0, id=0, flags=0, ttl=0, srcip=0, dstip=0)
        ZE = {"k": "ethernet", "dst": "00" * 6, "src": "00" * 6, "type": 0x0800}
        Z6 = dict(I6, tc=0, flow=0, hop_limit=0, srcip="00" * 16, dstip="00" * 16)
        ZT = dict(T(), srcport=0, dstport=0, seq=0, ack=0, flags=0, win=0)
        for term in ({"k": "none"}, {"k": "bytes", "data": ""}, {"k": "bytes", "data": "00"}):
            zs = [S([ZE, Z4, dict(U, srcport=0, dstport=0), term]), S([ZE, dict(Z4, protocol=6), ZT, term]),
                      S([ZE, dict(Z4, protocol=1), {"k": "icmp", "type": 0, "code": 0, "csum": 0}, {"k": "echo", "id": 0, "seq": 0}, term]),
                      S([ZE, dict(Z4, protocol=1), {"k": "icmp", "type": 13, "code": 0, "csum": 0}, term]), S([ZE, dict(Z4, protocol=0), term]),
                      S([dict(ZE, type=0x8100), {"k": "vlan", "pcp": 0, "cfi": 0, "id": 0, "eth_type": 0x0800}, Z4, dict(U, srcport=0, dstport=0), term]),
                      S([dict(ZE, type=0x86dd), dict(Z6, nh=17), dict(U, srcport=0, dstport=0), term]), S([dict(ZE, type=0x86dd), dict(Z6, nh=6), ZT, term]),
                      S([dict(ZE, type=0x86dd), Z6, {"k": "icmpv6", "type": 128, "code": 0}, {"k": "echo6", "id": 0, "seq": 0}, term]),
                      S([dict(ZE, type=0x8847), {"k": "mpls", "label": 0, "tc": 0, "s": 1, "ttl": 0}, term]),
                      S([ZE, Z4, dict(U, srcport=0, dstport=4789), {"k": "vxlan", "vni": 0}, dict(ZE, type=0xffff), term]),
                      S([ZE, Z4, dict(U, srcport=0, dstport=4789), {"k": "vxlan", "vni": None}, dict(ZE, type=0xffff), term])]
            # ethernet, ipv4 and tcp objects start with next = b'' (not None): "no payload" and "empty payload" are the same object state there
            cases += [c for c in zs if not (term["k"] == "none" and c["layers"][-2]["k"] in ("ipv4", "tcp", "ethernet"))]
        for key, seq, cs in ((0, 0, True), (0, None, False), (None, 0, True), (0, 0, False)):
            cases.append(S([E, I(47), {"k": "gre", "type": 0x0800, "key": key, "seq": seq, "csum": cs, "ssr": False}, I(253, id=0), B(b"ab")]))
        cases.append(S([E6, I6, {"k": "icmpv6", "type": 134, "code": 0}, {"k": "nd_ra", "hop_limit": 0, "managed": False, "other": False, "lifetime": 0, "reachable": 0, "retrans": 0,
                                                                      "opts": [{"t": 5, "mtu": 0}, {"t": 3, "plen": 0, "onlink": False, "auto": False, "valid": 0, "pref": 0, "prefix": "00" * 16}]}, {"k": "none"}]))
        cases.append(S([E6, I6, {"k": "icmpv6", "type": 2, "code": 0}, {"k": "toobig6", "mtu": 0}, B(b"")]))
        # --- 3: checksum VALUES where special rules live: for every checksummed transport over both IP versions (TCP also with options, odd and
        #     even payloads) the payload word is solved so that the correct checksum is exactly 0x0000 / 0xffff / 0x0001 / 0xfffe / ...
        for fr_i in range(6):
            for tail in (b"", b"x", b"xy", b"xyz" * 11):
                frs = [self.l4_frames(B(b"\0\0" + tail))[fr_i]]
                if fr_i in (1, 4):
                    f0 = frs[0]; frs.append(f0[:2] + [T([{"t": 2, "v": 1460}, {"t": 1}, {"t": 3, "v": 7}, {"t": 99, "v": "0102"}])] + f0[3:])
                for fr in frs:
                    for target in (0x0000, 0xffff, 0x0001, 0xfffe, 0x8000, 0x7fff, 0x00ff, 0xff00):
                        L = self.tune_checksum(fr, target)
                        if L is not None: cases.append(S(L))
        # --- 3: LLC control fields: two-octet forms whose second octet is zero / all ones, with and without SNAP, with and without payload
        for ctrl in (0x0000, 0x0002, 0x0001, 0x0100, 0xff00, 0xff02, 0x0003, 0x00af, 0x0005, 0xff05):
            two = (ctrl & 1) == 0 or (ctrl & 3) == 2
            if not two: ctrl &= 0xff
            for snap in (False, True):
                for pl in (b"", b"a", b"abc"):
                    L = {"k": "llc", "dsap": 0xaa if snap else 0x42, "ssap": 0xaa if snap else 0x42, "control": ctrl, "length": (4 if two else 3) + (5 if snap else 0),
                         "oui": "00000c" if snap else None, "eth_type": 0x2000 if snap else None}
                    cases.append(S([dict(E, type=L["length"] + len(pl)), L, B(pl)]))
        # --- GRE source route entries (RFC 1701), every combination of the optional fields around them
        for key, seq, ssr in ((None, None, False), (7, None, True), (None, 9, False), (0xdeadbeef, 0xffffffff, True)):
            for rt in ([], [{"af": 0x0800, "so": 0, "data": "0a000001"}], [{"af": 1, "so": 4, "data": "0a0000010a000002"}, {"af": 0xffff, "so": 255, "data": "ab"}]):
                for cs in ((True, False) if self.gre_route_nocsum else (True,)):
                    cases.append(S([E, I(47), {"k": "gre", "type": 0x0800, "key": key, "seq": seq, "csum": cs, "ssr": ssr, "routing": rt}, I(253), B(b"abc")]))
        # --- 3: the Ethernet type / length boundary
        for t in (1500, 1535):
            cases.append(S([dict(E, type=t), {"k": "llc", "dsap": 0x42, "ssap": 0x42, "control": 3, "length": 3, "oui": None, "eth_type": None}, B(b"abc")]))
        for t in (1536, 1537, 0xffff):
            cases.append(S([dict(E, type=t), B(b"abc")]))
        # --- 3: DHCP option values at and around the 255-byte part size
        dh = lambda opts: {"k": "dhcp", "op": 1, "htype": 1, "hlen": 6, "hops": 0, "xid": 0, "secs": 0, "flags": 0, "ciaddr": 0, "yiaddr": 0, "siaddr": 0, "giaddr": 0,
                           "chaddr": "001122334455" + "00" * 10, "sname": "", "file": "", "options": opts}
        for n in (0, 1, 2, 253, 254, 255, 256, 257, 509, 510, 511, 765, 766):
            cases.append(S([E, I(17), dict(U, srcport=68, dstport=67), dh([{"c": 53, "v": 1}, {"c": 43, "v": ("%02x" % (n & 255)) * n}, {"c": 12, "v": "68"}]), {"k": "none"}]))
        # --- 6: every value of every selector byte, below headers that compute the checksums themselves (no oracle: model comparison).
        #     The ND / error / DHCP / RIP / VXLAN bodies are raw bytes here, so every prefix and every damaged selector still arrives
        #     behind a valid checksum (HARDENING 6, 7)
        na = bytes([0xa0, 0, 0, 0]) + bytes.fromhex("fe80" + "00" * 13 + "05") + bytes([2, 1, 0, 0x11, 0x22, 0x33, 0x44, 0x55]) + bytes([14, 1, 1, 2, 3, 4, 5, 6])
        ra = bytes([64, 0x80, 7, 8, 0, 0, 0, 1, 0, 0, 0, 2]) + bytes([1, 1, 0, 0x11, 0x22, 0x33, 0x44, 0x55]) + bytes([5, 1, 0, 0, 0, 0, 5, 0xdc]) + \
             bytes([3, 4, 64, 0xc0, 0, 1, 0x51, 0x80, 0, 0, 0x38, 0x40, 0, 0, 0, 0]) + bytes.fromhex("20010db8" + "00" * 12)
        q6 = bytes.fromhex("6000000000083b40") + bytes(range(32)) + b"12345678"
        bodies6 = [b"", b"\0\0\0\0", na, ra, b"\0\0\5\0" + q6]
        for t in range(256):
            for body in bodies6:
                cases.append(MP([E6, I6, {"k": "icmpv6", "type": t, "code": 0}, B(body)]))
        for body, t in ((na, 136), (ra, 134), (bytes(4) + na[4:], 135), (bytes(4) + ra[12:], 133), (b"\0\0\5\0" + q6, 2), (bytes(4) + q6, 1), (bytes(4) + q6, 3)):
            for k in range(len(body)):
                cases.append(MP([E6, I6, {"k": "icmpv6", "type": t, "code": 0}, B(body[:k])]))
        for pos in (20, 21, 28, 29):              # option type and option length octets of the neighbor advertisement
            for v in range(256):
                cases.append(MP([E6, I6, {"k": "icmpv6", "type": 136, "code": 0}, B(na[:pos] + bytes([v]) + na[pos + 1:])]))
        for pos in (12, 13, 20, 21, 28, 29, 30, 31):
            for v in range(0, 256, 1 if pos in (12, 13, 29) else 5):
                cases.append(MP([E6, I6, {"k": "icmpv6", "type": 134, "code": 0}, B(ra[:pos] + bytes([v]) + ra[pos + 1:])]))
        inner = struct.pack("!BBHHHBBHII", 0x45, 0, 28, 1, 0, 64, 17, 0, 0x0a000001, 0x0a000002) + struct.pack("!HHHH", 1, 2, 8, 0)
        for t in range(256):
            for body in (b"", b"\0\1\0\2", bytes(4) + inner, bytes(4) + inner + b"abcdefgh"):
                cases.append(MP([E, I(1), {"k": "icmp", "type": t, "code": 0, "csum": 0}, B(body)]))
            cases.append(MP([E, I(t), B(inner)]))
            # (kind 0 ends the list and is not reported by the parser, kind 30 is MPTCP, which the model declines: model comparison only)
            cases.append((MP if t in (0, 30) else S)([E, I(6), T([{"t": t, "v": "0102"}] if t not in (0, 1, 2, 3, 4, 5, 8) else [{"t": 1}, {"t": t, **({"v": 7} if t in (2, 3) else {"v": [[1, 2]]} if t == 5 else {"v": [1, 2]} if t == 8 else {})}]),
                                                      B(b"ab")]))
            if t not in (1, 2, 3, 5):          # (the typed options are built from their own fields elsewhere)
                cases.append(S([E6, I6, {"k": "icmpv6", "type": 135, "code": 0}, {"k": "nd_ns", "target": "fe80" + "00" * 14, "opts": [{"t": t, "raw": "010203040506"}, {"t": t, "raw": "00" * 14}]}, {"k": "none"}]))
            cases.append((MP if t in (0, 255) else S)([E, I(17), dict(U, srcport=68, dstport=67), dh([{"c": t, "raw": "01"}, {"c": 15 if t == 12 else 12, "v": "6869"}]), {"k": "none"}]))
        # IGMP: the checksum is verified by the parser, so it is computed here
        def igmp_msg(b): return b[:2] + struct.pack("!H", rfc1071(b[:2] + b"\0\0" + b[4:])) + b[4:]
        rep = bytes([0x22, 0, 0, 0, 0, 0, 0, 2]) + bytes([1, 0, 0, 1]) + bytes([224, 0, 0, 22, 10, 0, 0, 1]) + bytes([4, 1, 0, 0]) + bytes([224, 0, 0, 9]) + b"abcd"
        for t in range(256):
            cases.append(MP([E, I(2), B(igmp_msg(bytes([t, 10, 0, 0, 224, 0, 0, 22])))]))
            cases.append(MP([E, I(2), B(igmp_msg(bytes([t]) + rep[1:]))]))
        for k in range(len(rep) + 1): cases.append(MP([E, I(2), B(igmp_msg(rep[:k]) if k >= 4 else rep[:k])]))
        for pos in (7, 8, 9, 11, 20, 21, 23):
            for v in (0, 1, 2, 3, 4, 5, 6, 7, 8, 16, 255): cases.append(MP([E, I(2), B(igmp_msg(rep[:pos] + bytes([v]) + rep[pos + 1:]))]))
        # every prefix of a DHCP / RIP / VXLAN message behind a UDP header with the right length and checksum
        try:
            dmsg = self.build(self.fixup([dh([{"c": 53, "v": 1}, {"c": 55, "v": [1, 3, 6]}, {"c": 12, "v": "686f7374"}, {"c": 43, "v": "07" * 300}])])).pack()
        except Exception:
            dmsg = b""
        for k in list(range(0, 48)) + list(range(230, len(dmsg) + 1)):
            cases.append(MP([E, I(17), dict(U, srcport=68, dstport=67), B(dmsg[:k])]))
        rmsg = bytes([2, 2, 0, 0]) + struct.pack("!HHIIII", 2, 0, 0x0a000000, 0xff000000, 0, 3) + struct.pack("!HHIIII", 2, 7, 0x0a010000, 0xffff0000, 1, 16)
        for k in range(len(rmsg) + 1): cases.append(MP([E, I(17), dict(U, srcport=520, dstport=520), B(rmsg[:k])]))
        vmsg = bytes([8, 0, 0, 0, 0xab, 0xcd, 0xef, 0]) + bytes.fromhex("66778899aabb0011223344559999") + b"ab"
        for k in range(len(vmsg) + 1): cases.append(MP([E, I(17), dict(U, dstport=4789), B(vmsg[:k])]))
        for v in range(256): cases.append(MP([E, I(17), dict(U, dstport=4789), B(bytes([v]) + vmsg[1:])]))
        # --- every extension header type (and every ordered pair) in front of every checksummed transport: the pseudo header names the
        #     upper-layer protocol (RFC 8200 8.1), not the type of the first extension header
        XH = lambda t, nh: {"t": t, "nh": nh, "body": ("%02x" % t) * (7 if t == 44 else 6)}
        for up, l4 in ((17, [U]), (6, [T()]), (6, [T([{"t": 2, "v": 1440}])]), (58, [{"k": "icmpv6", "type": 128, "code": 0}, {"k": "echo6", "id": 7, "seq": 9}])):
            for pl in (b"", b"a", b"abcd"):
                for t1 in (0, 43, 44, 60):
                    cases.append(S([E6, dict(I6, nh=t1, ext=[XH(t1, up)])] + l4 + [B(pl)]))
                    for t2 in (0, 43, 44, 60):
                        if pl == b"a": cases.append(S([E6, dict(I6, nh=t1, ext=[XH(t1, t2), XH(t2, up)])] + l4 + [B(pl)]))
        # --- 1, 2, 4: call histories on the same objects
        V = {"k": "vlan", "pcp": 5, "cfi": 0, "id": 0xabc, "eth_type": 0x0800}
        nd = {"k": "nd_na", "target": "fe80" + "00" * 13 + "05", "opts": [{"t": 2, "addr": "001122334455"}, {"t": 14, "raw": "010203040506"}], "router": True, "solicited": False, "override": True}
        frames = self.l4_frames(B(b"abc")) + [
            [dict(E, type=0x8100), V, I(17), U, B(b"abcd")], [E, I(6, hl=7, raw_options="0101010144040500"), T([{"t": 2, "v": 1460}, {"t": 1}, {"t": 3, "v": 7}]), B(b"ab")],
            [E, I(1), {"k": "icmp", "type": 3, "code": 1, "csum": 0}, {"k": "unreach", "unused": 0, "next_mtu": 1400}, I(17), U, B(b"12345678")],
            [E6, I6, {"k": "icmpv6", "type": 136, "code": 0}, nd, {"k": "none"}],
            [E6, I6, {"k": "icmpv6", "type": 134, "code": 0}, {"k": "nd_ra", "hop_limit": 64, "managed": True, "other": False, "lifetime": 1800, "reachable": 0, "retrans": 1000,
                                                               "opts": [{"t": 1, "addr": "001122334455"}, {"t": 5, "mtu": 1500}]}, {"k": "none"}],
            [E, I(17), dict(U, dstport=4789), {"k": "vxlan", "vni": 0xabcdef}, dict(E, type=0x9999), B(b"ab")],
            [dict(E, type=0x8847), {"k": "mpls", "label": 5, "tc": 1, "s": 1, "ttl": 9}, B(b"abcd")],
            [dict(E, type=0x88cc), {"k": "lldp", "tlvs": [{"t": 1, "subtype": 4, "id": "000102030405"}, {"t": 2, "subtype": 2, "id": "31"}, {"t": 3, "ttl": 120}, {"t": 5, "payload": "7377"}, {"t": 0}]}, {"k": "none"}],
            [E, I(17), dict(U, srcport=68, dstport=67), dh([{"c": 53, "v": 1}, {"c": 12, "v": "686f7374"}]), {"k": "none"}],
            [E, I(2), {"k": "igmp", "vt": 0x22, "groups": [{"type": 1, "addr": 0xe0000116, "srcs": [0x0a000001], "aux": ""}], "extra": ""}, {"k": "none"}]]
        alt = lambda how, old: (old ^ 1 if isinstance(old, int) else 1) if how[0] == "int" else "0e" * 6 if how[0] == "mac" else 0x7f000001 if how[0] == "ip4" else "20" + "01" * 15
        for fr in frames:
            fr = self.fixup(fr)
            Q = lambda **kw: dict({"kind": "seq", "top": "ethernet", "layers": fr, "delta": []}, **kw)
            cases.append(Q())
            cases.append(Q(layers=[dict(L, _noid=True) if L["k"] == "ipv4" else L for L in fr]))
            for bf in (False, True):
                cases.append(Q(other=self.twin(__import__("random").Random(3), fr), bfirst=bf))
            for i, L in enumerate(fr):
                for f, how in self.SETTABLE.get(L["k"], {}).items():
                    if L["k"] == "udp" and (L["srcport"] in UDP_SPECIAL or L["dstport"] in UDP_SPECIAL): continue
                    if how[0] == "tcpopts":
                        for v in ([], [{"t": 2, "v": 536}], [{"t": 1}] * 40, [{"t": 8, "v": [1, 2]}, {"t": 1}, {"t": 1}]): cases.append(Q(delta=[{"i": i, "f": f, "v": v}]))
                    elif how[0] == "payload":
                        d = bytes.fromhex(L["data"])
                        for v in (d[:-1] + bytes([d[-1] ^ 0x80]), d + b"x", d[:-1], b"", d * 8): cases.append(Q(delta=[{"i": i, "f": f, "v": v.hex()}]))
                    else:
                        cases.append(Q(delta=[{"i": i, "f": f, "v": alt(how, L[f])}]))
            both = [{"i": i, "f": f, "v": alt(how, L[f])} for i, L in enumerate(fr) for f, how in self.SETTABLE.get(L["k"], {}).items()
                    if how[0] in ("int", "ip4", "ip6", "mac") and not (L["k"] == "udp" and (L["srcport"] in UDP_SPECIAL or L["dstport"] in UDP_SPECIAL))]
            cases.append(Q(delta=both))
        # --- 1 + 2: the same header objects moved / shared between containers, every template on every fixed frame
        hr = __import__("random").Random(5)
        # (g_hist draws its base stack from the generators: they are pointed at the fixed frames here)
        for fr in frames + [[E, I(17), U, B(b"")], [E6, dict(I6, nh=17), U, B(b"abcde")], [E6, dict(I6, nh=6), T([{"t": 2, "v": 1460}]), B(b"ab")]]:
            fr = self.fixup(fr)
            if any(L["k"] in ("lldp", "dhcp") for L in fr): continue
            save = (self.g_modelled, self.g_other)
            self.g_modelled = self.g_other = (lambda rng, fr=fr: {"layers": fr})
            try:
                for tpl in ("move-replace", "alternate", "replace-reattach", "reparse-reuse", "swap", "random", "random"):
                    for _ in range(3):
                        c = self.g_hist(hr, tpl)
                        if c.get("kind") == "hist": cases.append(c)
            finally:
                self.g_modelled, self.g_other = save
        return cases

    def g_cksum(self, rng):
        c = rng.randrange(10)
        n = rng.choice([0, 1, 2, 3, 4, 5, 19, 20, 21, rng.randint(0, 64), rng.randint(0, 1600), rng.randint(0, 1600)])
        if c == 0: d = b"\xff" * n
        elif c == 1: d = bytes(n)
        else: d = self.rbytes(rng, n)
        skip = None if rng.random() < 0.5 else rng.choice([0, 1, 5, 9, 14, n // 2, max(0, n // 2 - 1), rng.randint(0, max(1, n))])
        start = 0 if rng.random() < 0.85 else rng.choice([1, 0xffff, 0x10000, rng.randint(0, 1 << 20)])
        return {"kind": "cksum", "data": d.hex(), "start": start, "skip": skip}

    def corpus(self):
        import random
        rng = random.Random(14)
        cases = []
        # --- checksum(): every length 0..40 x three fillings x skip in {None, 0, 5}; the RFC 1071 §3 example
        for n in range(0, 41):
            for fill in (bytes(range(1, n + 1)), b"\xff" * n, bytes((37 * i + 11) & 255 for i in range(n))):
                for skip in (None, 0, 5):
                    cases.append({"kind": "cksum", "data": fill.hex(), "start": 0, "skip": skip})
        cases.append({"kind": "cksum", "data": "0001f203f4f5f6f7", "start": 0, "skip": None})
        for d in ("ffffffff0100", "ffffffff0001", "ffffffffffff0200", "01ffffffff", "ffff" * 300 + "0100"):      # first fold carries
            cases.append({"kind": "cksum", "data": d, "start": 0, "skip": None})
        cases.append({"kind": "cksum", "data": "ff" * 1501, "start": 0, "skip": None})
        # --- IPv4/UDP, IPv4/TCP, IPv4/ICMP echo with every payload length 0..33 (odd and even), fixed fields
        E = {"k": "ethernet", "dst": "66778899aabb", "src": "001122334455", "type": 0x0800}
        I = lambda p, **kw: dict({"k": "ipv4", "v": 4, "hl": 5, "tos": 0, "iplen": 20, "id": 0x1234, "flags": 2, "frag": 0, "ttl": 64, "protocol": p, "csum": 0,
                                  "srcip": 0x0a010203, "dstip": 0xc0a80001, "raw_options": ""}, **kw)
        U = {"k": "udp", "srcport": 1000, "dstport": 2000, "len": 8, "csum": 0}
        T = lambda opts=(): {"k": "tcp", "srcport": 1000, "dstport": 80, "seq": 0x01020304, "ack": 0xfffefdfc, "off": 0, "res": 0, "flags": 0x18, "win": 8192, "csum": 0, "urg": 0,
                             "options": list(opts)}
        for n in range(0, 34):
            pl = {"k": "bytes", "data": bytes(range(n)).hex()}
            cases.append(self._stack([E, I(17), U, pl]))
            cases.append(self._stack([E, I(6), T(), pl]))
            cases.append(self._stack([E, I(1), {"k": "icmp", "type": 8, "code": 0, "csum": 0}, {"k": "echo", "id": 7, "seq": 9}, pl]))
            cases.append(self._stack([E, I(253), pl]))
        for n in (1471, 1472, 1473, 1480):
            cases.append(self._stack([E, I(17), U, {"k": "bytes", "data": (b"\xa5" * n).hex()}]))
        # UDP checksum that comes out as 0 -> transmitted as 0xffff (payload chosen so that the sum is 0xffff)
        cases.append(self._stack([E, I(17, srcip=0, dstip=0), dict(U, srcport=0, dstport=0), {"k": "bytes", "data": "ffda"}]))
        # --- double carry: the 16-bit word sum of the checksummed region is k*2^16 + 0xffff (k >= 1), so the first end-around fold
        #     overflows again and a single-fold re-implementation (of the generic routine OR of one protocol's own checksum) is
        #     wrong.  One case per protocol region and per byte order of summation (the code sums host-order words, the RFC
        #     big-endian ones).  The tunable word is computed here from the formats, not from the library.
        def swap(w): return ((w & 0xff) << 8) | (w >> 8)
        def tune(region, order):
            """16-bit value to put into an aligned zero word of `region` so that the word sum in `order` carries twice"""
            r = region + (b"\0" if len(region) % 2 else b"")
            ws = [(r[i] << 8) | r[i + 1] for i in range(0, len(r), 2)]
            base = sum(ws) if order == "be" else sum(swap(w) for w in ws)
            x = (0xffff - base) & 0xffff
            tot = base + x
            assert tot >= 0x10000 and (tot >> 16) + (tot & 0xffff) >= 0x10000
            return x if order == "be" else swap(x)
        FF = 0xffffffff
        for order in ("be", "le"):
            for opts, pl in (("", "616263"), ("0101010144040500", "61626364"), ("", "")):
                hl = 5 + len(opts) // 8
                n = len(pl) // 2
                # IPv4 header (id is the tunable word)
                hdr0 = struct.pack("!BBHHHBBHII", 0x40 + hl, 0xfe, 4 * hl + n, 0, 0x5fff, 0xff, 253, 0, FF, 0xfffffffe) + bytes.fromhex(opts)
                cases.append(self._stack([E, I(253, hl=hl, tos=0xfe, id=tune(hdr0, order), flags=2, frag=0x1fff, ttl=0xff, srcip=FF, dstip=0xfffffffe, raw_options=opts),
                                          {"k": "bytes", "data": pl}]))
            for pl in ("ffffffff", "ffffffffff", ""):
                body = bytes.fromhex(pl)
                # ICMP echo (identifier is the tunable word; the sequence number keeps the sum above 2^16)
                reg = struct.pack("!BBHHH", 8, 0xff, 0, 0, 0xfffe) + body
                cases.append(self._stack([E, I(1), {"k": "icmp", "type": 8, "code": 0xff, "csum": 0}, {"k": "echo", "id": tune(reg, order), "seq": 0xfffe},
                                          {"k": "bytes", "data": pl}]))
                # ICMP with an opaque body (the first body word is the tunable one)
                reg = struct.pack("!BBH", 13, 0xff, 0) + b"\0\0" + b"\xff\xfe\xff\xfd" + body
                cases.append(self._stack([E, I(1), {"k": "icmp", "type": 13, "code": 0xff, "csum": 0},
                                          {"k": "bytes", "data": (struct.pack("!H", tune(reg, order)) + b"\xff\xfe\xff\xfd" + body).hex()}]))
                # UDP over IPv4: pseudo header + header + data (source port is the tunable word)
                ph = struct.pack("!IIBBH", FF, 0xfffffffe, 0, 17, 8 + len(body))
                reg = ph + struct.pack("!HHHH", 0, 0xfffd, 8 + len(body), 0) + body
                cases.append(self._stack([E, I(17, srcip=FF, dstip=0xfffffffe), dict(U, srcport=tune(reg, order), dstport=0xfffd), {"k": "bytes", "data": pl}]))
                # TCP over IPv4 (window is the tunable word), without and with options
                for topts, ob in (([], b""), ([{"t": 2, "v": 0xffff}, {"t": 1}, {"t": 3, "v": 0xff}], bytes.fromhex("0204ffff010303ff"))):
                    thl = 20 + len(ob)
                    ph = struct.pack("!IIBBH", FF, 0xfffffffe, 0, 6, thl + len(body))
                    reg = ph + struct.pack("!HHIIBBHHH", 0xffff, 0xfffe, FF, 0xfffffffd, (thl // 4) << 4, 0xff, 0, 0, 0xfffc) + ob + body
                    cases.append(self._stack([E, I(6, srcip=FF, dstip=0xfffffffe), dict(T(topts), srcport=0xffff, dstport=0xfffe, seq=FF, ack=0xfffffffd, flags=0xff,
                                                                                         win=tune(reg, order), urg=0xfffc), {"k": "bytes", "data": pl}]))
        # --- options / VLAN / ARP / ICMP errors, one of each
        cases.append(self._stack([E, I(253, hl=7, raw_options="0101010144040500"), {"k": "bytes", "data": "616263"}]))
        for opts in ([{"t": 2, "v": 1460}], [{"t": 1}, {"t": 1}, {"t": 4}, {"t": 8, "v": [1, 2]}], [{"t": 3, "v": 7}], [{"t": 5, "v": [[1, 2]]}],
                     [{"t": 1}, {"t": 1}, {"t": 5, "v": [[1, 2], [3, 4]]}, {"t": 1}], [{"t": 77, "v": "78797a"}], [{"t": 254, "v": ""}, {"t": 2, "v": 0xffff}]):
            cases.append(self._stack([E, I(6), T(opts), {"k": "bytes", "data": "6162"}]))
        V = lambda cfi, et: {"k": "vlan", "pcp": 5, "cfi": cfi, "id": 0xabc, "eth_type": et}
        for cfi in (0, 1):
            cases.append(self._stack([dict(E, type=0x8100), V(cfi, 0x0800), I(17), U, {"k": "bytes", "data": "616263"}]))
            cases.append(self._stack([dict(E, type=0x8100), V(cfi, 0x8100), V(1 - cfi, 0x9999), {"k": "bytes", "data": "61"}]))
        A = {"k": "arp", "hwtype": 1, "prototype": 0x0800, "hwlen": 6, "protolen": 4, "opcode": 1, "hwsrc": "001122334455", "protosrc": 0x0a000001, "hwdst": "000000000000", "protodst": 0x0a000002}
        cases.append(self._stack([dict(E, type=0x0806), A, {"k": "bytes", "data": ""}]))
        cases.append(self._stack([dict(E, type=0x8035), dict(A, opcode=3), {"k": "bytes", "data": "00" * 18}]))
        inner = [I(17), U, {"k": "bytes", "data": "0102030405060708"}]
        cases.append(self._stack([E, I(1), {"k": "icmp", "type": 3, "code": 1, "csum": 0}, {"k": "unreach", "unused": 0, "next_mtu": 1400}] + inner))
        cases.append(self._stack([E, I(1), {"k": "icmp", "type": 11, "code": 0, "csum": 0}, {"k": "time_exceeded", "unused": 0}] + inner))
        cases.append(self._stack([E, I(1), {"k": "icmp", "type": 3, "code": 3, "csum": 0}, {"k": "unreach", "unused": 0, "next_mtu": 0}, {"k": "bytes", "data": "01020304"}]))
        cases.append(self._stack([E, I(1), {"k": "icmp", "type": 13, "code": 0, "csum": 0}, {"k": "bytes", "data": "0102030405"}]))
        # --- malformed-input stream for the model's parsers: every truncation and a value sweep over every header byte of four frames
        bases = [[E, I(6), T([{"t": 2, "v": 1460}, {"t": 1}, {"t": 3, "v": 7}, {"t": 4}, {"t": 5, "v": [[1, 2]]}, {"t": 8, "v": [3, 4]}, {"t": 77, "v": "7879"}]), {"k": "bytes", "data": "61626364"}],
                 [dict(E, type=0x8100), V(1, 0x0806), A, {"k": "bytes", "data": "0000"}],
                 [E, I(17, hl=6, raw_options="01010100"), U, {"k": "bytes", "data": "6162636465"}],
                 [E, I(1), {"k": "icmp", "type": 3, "code": 1, "csum": 0}, {"k": "unreach", "unused": 0, "next_mtu": 1400}] + inner]
        for base in bases:
            L = self.fixup(base)
            n = sum(len(bytes.fromhex(x["data"])) for x in L if x["k"] == "bytes") + 14 + sum({"vlan": 4, "arp": 28, "ipv4": 4 * x.get("hl", 5), "udp": 8, "tcp": x.get("_hdrlen", 20),
                                                                                                   "icmp": 4, "unreach": 4}.get(x["k"], 0) for x in L)
            for k in range(0, n + 1):
                cases.append({"kind": "mutparse", "top": "ethernet", "layers": L, "mut": [{"m": "trunc", "n": k}]})
            for i in range(12, min(n, 90)):
                for v in (0, 1, 2, 3, 4, 5, 6, 8, 0x0f, 0x40, 0x46, 0x50, 0x60, 0xf0, 0xff):
                    cases.append({"kind": "mutparse", "top": "ethernet", "layers": L, "mut": [{"m": "set", "i": i, "v": v}]})
        # --- the same for the phase-2 classes (the sweep range is the frame's own length; a frame the library cannot pack is skipped)
        I6 = {"k": "ipv6", "tc": 0xb8, "flow": 0x12345, "hop_limit": 64, "nh": 58, "srcip": "fe80" + "00" * 13 + "01", "dstip": "ff02" + "00" * 13 + "02", "ext": []}
        xbases = [[dict(E, type=30), {"k": "llc", "dsap": 0xaa, "ssap": 0xaa, "control": 3, "length": 8, "oui": "000000", "eth_type": 0x0800}, I(253), {"k": "bytes", "data": "6162"}],
                  [dict(E, type=8), {"k": "llc", "dsap": 0x42, "ssap": 0x42, "control": 0x1234 * 2, "length": 4, "oui": None, "eth_type": None}, {"k": "bytes", "data": "616263"}],
                  [dict(E, type=0x88cc), {"k": "lldp", "tlvs": [{"t": 1, "subtype": 4, "id": "000102030405"}, {"t": 2, "subtype": 2, "id": "31"}, {"t": 3, "ttl": 120},
                                                                 {"t": 5, "payload": "7377"}, {"t": 7, "caps": 0x14, "en": 4},
                                                                 {"t": 8, "ast": 1, "addr": "0a000001", "ins": 2, "ifn": 3, "oid": "2b06"},
                                                                 {"t": 127, "oui": "0026e1", "subtype": 0, "payload": "6470"}, {"t": 0}]}, {"k": "none"}],
                  [dict(E, type=0x86dd), I6, {"k": "icmpv6", "type": 128, "code": 0}, {"k": "echo6", "id": 7, "seq": 9}, {"k": "bytes", "data": "616263"}],
                  [dict(E, type=0x86dd), dict(I6, nh=17), U, {"k": "bytes", "data": "616263"}],
                  [E, I(47), {"k": "gre", "type": 0x0800, "key": 0xdeadbeef, "seq": 7, "csum": True, "ssr": False}, I(253), {"k": "bytes", "data": "6162"}],
                  [E, I(17), dict(U, dstport=4789), {"k": "vxlan", "vni": 0xabcdef}, dict(E, type=0x9999), {"k": "bytes", "data": "6162"}],
                  [E, I(2), {"k": "igmp", "vt": 0x22, "groups": [{"type": 1, "addr": 0xe0000116, "srcs": [0x0a000001], "aux": ""}], "extra": ""}, {"k": "none"}],
                  [E, I(2), {"k": "igmp", "vt": 0x16, "mrt": 10, "addr": 0xe0000116, "extra": ""}, {"k": "none"}],
                  [E, I(17), dict(U, srcport=520, dstport=520), {"k": "rip", "command": 2, "version": 2,
                                                                 "entries": [{"af": 2, "tag": 0, "ip": 0x0a000000, "mask": 0xff000000, "nh": 0, "metric": 3}]}, {"k": "none"}],
                  [dict(E, type=0x8847), {"k": "mpls", "label": 5, "tc": 1, "s": 0, "ttl": 9}, {"k": "mpls", "label": 0xfffff, "tc": 7, "s": 1, "ttl": 255}, {"k": "bytes", "data": "61626364"}],
                  [dict(E, type=0x888e), {"k": "eapol", "version": 1, "type": 0, "bodylen": 4}, {"k": "eap", "code": 3, "id": 7, "length": 4}, {"k": "none"}],
                  [dict(E, type=0x86dd), I6, {"k": "icmpv6", "type": 134, "code": 0},
                   {"k": "nd_ra", "hop_limit": 64, "managed": True, "other": False, "lifetime": 1800, "reachable": 0, "retrans": 1000,
                    "opts": [{"t": 1, "addr": "001122334455"}, {"t": 5, "mtu": 1500},
                             {"t": 3, "plen": 64, "onlink": True, "auto": True, "valid": 86400, "pref": 14400, "prefix": "20010db8" + "00" * 12}]}, {"k": "none"}],
                  [dict(E, type=0x86dd), I6, {"k": "icmpv6", "type": 136, "code": 0},
                   {"k": "nd_na", "target": "fe80" + "00" * 13 + "05", "opts": [{"t": 2, "addr": "001122334455"}, {"t": 14, "raw": "010203040506"}],
                    "router": True, "solicited": False, "override": True}, {"k": "none"}],
                  [dict(E, type=0x86dd), I6, {"k": "icmpv6", "type": 2, "code": 0}, {"k": "toobig6", "mtu": 1280}, {"k": "bytes", "data": "60000000"}],
                  [E, I(17), dict(U, srcport=68, dstport=67),
                   {"k": "dhcp", "op": 1, "htype": 1, "hlen": 6, "hops": 0, "xid": 0x12345678, "secs": 0, "flags": 0x8000, "ciaddr": 0, "yiaddr": 0, "siaddr": 0,
                    "giaddr": 0, "chaddr": "001122334455" + "00" * 10, "sname": "", "file": "",
                    "options": [{"c": 53, "v": 1}, {"c": 55, "v": [1, 3, 6]}, {"c": 12, "v": "686f7374"}, {"c": 51, "v": 3600}]}, {"k": "none"}]]
        for base in xbases:
            L = self.fixup(base)
            try:
                n = len(self.build(L).pack())
            except Exception:
                continue
            for k in range(0, n + 1):
                cases.append({"kind": "mutparse", "top": "ethernet", "layers": L, "mut": [{"m": "trunc", "n": k}]})
            for i in list(range(12, min(n, 100))) + list(range(max(100, n - 40), n)):
                for v in (0, 1, 2, 3, 6, 8, 0x0f, 0x11, 0x22, 0x3a, 0x3b, 0x40, 0x60, 0x80, 0xaa, 0xff):
                    cases.append({"kind": "mutparse", "top": "ethernet", "layers": L, "mut": [{"m": "set", "i": i, "v": v}]})
        # --- one of every un-modelled module (fixed seed)
        for _ in range(120):
            cases.append(self.g_other(rng))
        cases += self.corpus_hardening()
        # --- checksum(): buffer lengths that are exact multiples of every power-of-two block size, and one / two off (HARDENING 3)
        for k in range(3, 17):
            for d in (-2, -1, 0, 1, 2):
                n = (1 << k) + d
                cases.append({"kind": "cksum", "data": bytes((i * 29 + 7) & 255 for i in range(n)).hex(), "start": 0, "skip": None})
                cases.append({"kind": "cksum", "data": bytes((i * 31 + 1) & 255 for i in range(n)).hex(), "start": 0, "skip": rng.choice([0, 5, n // 2 - 1, n // 4])})
        for n in (1500, 3000, 6144, 10240, 12288):
            cases.append({"kind": "cksum", "data": bytes((i * 29 + 7) & 255 for i in range(n)).hex(), "start": 0, "skip": None})
        # --- checksum(): buffers at the 64 KiB / 128 KiB marks (every word 0xffff: the largest sums the model's bound allows)
        for n in (65534, 65535, 65536, 65537, 131071, 131072):
            for fill in (b"\xff", b"\x80", b"\x01"):
                cases.append({"kind": "cksum", "data": (fill * n).hex(), "start": 0, "skip": None})
        cases += self.v6ext_corpus()
        cases += self.fault_corpus()
        return cases

    def generate(self, rng, tier):
        n = 12000 if tier == "quick" else 400000
        for i in range(n):
            r = rng.random()
            if r < 0.10: yield self.g_cksum(rng)
            elif r < 0.50: yield self.g_modelled(rng)
            elif r < 0.63: yield self.g_mut(rng)
            elif r < 0.69: yield self.g_seq(rng)
            elif r < 0.72: yield self.g_fault(rng)
            elif r < 0.75: yield self.g_hist(rng)
            elif r < 0.753: yield self.g_big(rng)
            elif r < 0.783: yield self.g_cktarget(rng)
            elif r < 0.813: yield self.g_v6ext(rng)
            else: yield self.g_other(rng)

    def search_cases(self, rng, tier):
        for c in self.corpus(): yield c
        for c in self.generate(rng, "thorough"): yield c

    def extra_evidence(self):
        return {"malformed_stream_cases_outside_model": self.declined, "code_variant": self.variant, "code_variant_crosscheck": getattr(self, "variant_crosscheck", None), "shared_component_histories": self.shared_ok, "gre_routing_without_checksum_cases": self.gre_route_nocsum, "technique": self.technique, "level_text": self.level_text, "level_note": self.level_note, "design_ref": self.design_ref}


C14.theorems = ["Pox.C14." + t for t in (
    "checksum_rfc1071", "checksum_skip_rfc1071", "checksum_start", "rfc1071_fold_spec", "checksum_verifies", "checksum_d12_witness",
    "struct_roundtrip", "ipv4_hdr", "ipv4_roundtrip", "udp_hdr", "udp_roundtrip", "tcp_hdr", "icmp_hdr", "icmp_roundtrip",
    "eth_roundtrip", "vlan_roundtrip", "vlan_cfi_d13_witness", "arp_roundtrip", "echo_roundtrip", "unreach_roundtrip",
    "time_exceeded_roundtrip", "tcp_roundtrip", "roundtrip", "repack_id",
    # phase 2 (Model/PacketExt.lean); RIP and EAP are the theorems of the code as committed (repairs D50, D49)
    "llc_roundtrip", "mpls_roundtrip", "lldp_roundtrip", "lldp_tlv_length", "eapol_roundtrip", "eap_roundtrip_body", "ipv6_hdr", "ipv6_ext_roundtrip", "udp6_hdr", "tcp6_hdr",
    "icmp6_hdr", "icmp6_roundtrip", "echo6_roundtrip", "gre_hdr", "gre_roundtrip", "vxlan_roundtrip", "igmp_v2", "igmp_v3", "rip_roundtrip_unsigned",
    "xparse_eth_dispatch", "xparse_ipv4_dispatch", "xparse_udp_dispatch", "lldp_frame_roundtrip", "variant_repo",
    # reverted tree: regression witnesses (the variant without repairs D50 / D49, XCfg.head)
    "rip_roundtrip", "eap_roundtrip", "variant_head",
    # phase 4: validity of packed chains with the pseudo header taken from the emitted enclosing header; NDP, ICMPv6 errors, DHCP
    "chain_valid", "xpack_ipv6_udp_valid", "xpack_ipv6_tcp_valid", "xpack_ipv6_icmp6_valid", "vxlan_arp_frame",
    "icmp6_dispatch", "nd_option_length", "nd_options_roundtrip", "ndp_roundtrip", "icmp6_errors_roundtrip",
    "dhcp_options_roundtrip", "dhcp_roundtrip")]
C14.level_text = (
    "Proved in Lean for all inputs: packet_utils.checksum (incl. start / skip_word, odd lengths) = RFC 1071 for data <= 128 KiB; generic struct pack/unpack round trip. "
    "Per class, hdr/parse round trip (and hdr of the parsed object = the same bytes) + every length field + every Internet checksum = RFC 1071 (and verifies at a receiver): "
    "Ethernet, 802.1Q, ARP, IPv4 (+options), UDP and TCP (+option lists) over IPv4 and over IPv6 pseudo headers, ICMP (echo/unreachable/time-exceeded/other), "
    "LLC (1/2 control octets, SNAP), MPLS, LLDP (whole PDU: chassis/port/TTL + description/name/capabilities/management-address/org-specific/unknown TLVs + END, TLV lengths exact), "
    "EAPOL, EAP (all four codes; request/response keep their type data), IPv6 fixed header (payload length) and extension-header chains (any number and mix of Hop-by-Hop / Routing / Destination-Options / Fragment headers: emitted layout, whole 8-octet units, the parse loop returns chain, payload protocol and payload: ipv6_ext_roundtrip), ICMPv6 (every type: checksum verification accepts what hdr emits, dispatch to the message class; echo; "
    "NDP router/neighbor solicitation/advertisement with link-layer-address / prefix-information / MTU / unknown options, option lengths exact; packet-too-big, time-exceeded, unreachable), "
    "GRE (flags/key/seq/checksum), VXLAN, IGMP v1/v2 messages and v3 reports with group records (checksum verified by parse), RIP (entries, unsigned 32-bit metric), "
    "DHCP (fixed header, chaddr/sname/file/cookie, option TLVs with PAD/END, RFC 3396 split of values > 255 bytes and their re-assembly). "
    "Whole-chain theorems for the ten original classes (any nesting): parse(pack p) = p with the computed fields filled in, pack(parse(pack p)) = pack p, and chain_valid: in the packed "
    "bytes every IPv4 total length / IHL / header checksum, UDP length, and UDP/TCP/ICMP checksum is right, the UDP/TCP pseudo header being read from the emitted enclosing IPv4 header "
    "(not assumed); the same for eth/ipv6/{udp,tcp,icmpv6}. Composed frames through the phase-2 parsers: Ethernet+LLDP and eth/ipv4/udp/vxlan/eth/arp. "
    "Every run re-checks the models against the real classes (pack bytes, attributes of the built and re-parsed chains, re-pack) for all of the above, and evaluates the independent "
    "round-trip / RFC 1071 / reference-encoding oracle on all 21 modules, on single build->parse runs and on call histories over the same objects (the models are pure functions, so every call "
    "of a history is compared with the model's answer for that call alone).")
C14.level_note = (
    "The theorems are about hand-written models (Model/Checksum.lean, PacketLayout.lean, PacketHdr.lean, PacketExt.lean) of the code as committed (repairs D12, D13, D40-D51, D22 are in); "
    "they are tied to the code only by the differential run. PROVED per class (62 theorems): ethernet, vlan, arp, ipv4, udp, tcp, icmp(+echo, unreach, time_exceeded), llc, mpls, lldp, eapol, "
    "eap, ipv6(fixed header; extension-header chains as a separate model Model/IPv6Ext.lean, compared with the real ipv6.hdr / ipv6.parse on well-formed and malformed chains, with and without bytes behind the datagram), icmpv6(+echo, NDP messages and options, packet-too-big, time-exceeded, unreachable), gre, vxlan, igmp, rip, dhcp(+options). RIP and EAP exist in two code variants "
    "(with / without repairs D50, D49): the harness finds the variant of the tree under test by probing the classes and the model is evaluated at that variant; the headline theorems "
    "(rip_roundtrip_unsigned, eap_roundtrip_body, variant_repo) are those of /repo as committed, the theorems of the old code (rip_roundtrip, eap_roundtrip, variant_head) are kept as "
    "regression witnesses for a reverted tree. "
    "The chain-level theorems (roundtrip/repack_id/chain_valid) cover stacks of the ten original classes only; for stacks containing the other classes the hand-over from Ethernet/IPv4/UDP/ICMPv6 "
    "is proved (xparse_*_dispatch, icmp6_dispatch), eth/ipv6/{udp,tcp,icmpv6} validity is proved, and two whole frames are proved (lldp_frame_roundtrip, vxlan_arp_frame); other compositions "
    "are checked by the differential run, not proved. DHCP options are modelled at the byte level (code, value): the typed option classes (DHCPMsgTypeOption, DHCPIPOptionBase, ...) are "
    "compared through their pack() bytes by the differential run only. The DHCP overload option (52) is never honoured by the code (bytes compared with an int) and the model says the same. "
    "STILL DIFFERENTIAL ONLY (real build->bytes->parse->re-pack + independent recomputation in the harness, no theorem; the code is repaired, the classes are not modelled): DNS (D46), "
    "GRE routing, MPTCP TCP options; IPv6 extension headers INSIDE a whole stack (the chain model is standalone: stacks containing an ipv6 layer with extension headers are judged by the oracle). "
    "DESIGN §5 announced translator-derived obligations c14_<proto>_layout_partial; there is no translator and no *_partial obligation: every module listed above has a hand-written behaviour "
    "model with full (not layout-only) theorems plus model comparison, and the remainder is differential only as listed. "
    "Trusted: Lean kernel, propext/Classical.choice/Quot.sound, the RFC 1071 transcriptions, the harness's wire walker, little-endian host.")

CHECK = C14
