"""Forced thread scheduler (DESIGN.md Appendix B): run real multi-threaded code under a schedule chosen from outside.

* Every managed thread is a real OS thread that runs only while it holds the *baton*: one semaphore per thread, the
  controller releases exactly one and waits for it to come back.  Between two yield points a thread runs alone, so an
  execution is a function of the schedule (the sequence of choices made by the `chooser`).
* Yield points: (a) `sys.settrace` line events at the (file, line) pairs given in `yield_lines`, inside the functions
  whose (file, first line) is in `trace_funcs`; (b) every operation of the replaced primitives below (`Lock`,
  `Event`, `Queue`, `Pinger`, `select`, `Thread.join`); (c) explicit `ctl.yield_point(key)` calls of harness code.
  An operation's effect happens right after the thread is resumed at the yield point, with no other thread in
  between: "resumed at key k" = "the operation k happens now".  That is when the trace entry is written.
* Blocking is virtual: a blocking primitive gives the controller a predicate; the thread is *disabled* until it holds.
  A time-out (of `Event.wait(t)`, `select(..., t)`) fires only when no thread at all is enabled; it is recorded in
  the trace entry (`timed_out=True`) and counted in `ctl.timeouts`.
* Nothing of the code under test is edited: the harness installs these classes as attributes of the module under test
  (`recoco.threading = FThreading(ctl)` …).

The module has no global state: everything hangs off a `Controller`.
"""
import sys, threading as _rt, collections

try:
    _rt.stack_size(512 * 1024)
except (ValueError, RuntimeError):
    pass


class Kill(BaseException):
    """raised inside managed threads at every yield point once the run is over, to unwind them"""


class MT:
    __slots__ = ("name", "sem", "blocked", "timeout", "done", "timed_out", "real", "key", "obj", "error", "started", "origin", "quiet")
    def __init__(self, name):
        self.name = name; self.sem = _rt.Semaphore(0); self.blocked = None; self.timeout = False
        self.done = False; self.timed_out = False; self.real = None; self.key = ("boot",); self.obj = None
        self.error = None; self.started = False; self.origin = None; self.quiet = 0


class Controller:
    def __init__(self, chooser, trace_funcs=(), yield_lines=(), max_steps=20000, frame_files=(), cover=None):
        self.chooser = chooser
        self.trace_funcs = trace_funcs           # container of (filename, first line of the function)
        self.yield_lines = set(yield_lines)      # {(filename, lineno)}
        self.frame_files = tuple(frame_files)    # files whose frames identify where a primitive was called from
        self.cover = cover                       # optional set collecting (filename, lineno) of executed lines
        self.max_steps = max_steps
        self.threads = []
        self.by_ident = {}
        self.ctl = _rt.Semaphore(0)
        self.trace = []                          # (thread name, key, timed_out)
        self.steps = 0
        self.timeouts = []                       # (step, thread name, key)
        self.killing = False
        self.current = None
        self.choices = []                        # (enabled names, chosen name) per step
        self.on_step = None                      # harness hook called by the controller between steps
        self.roles = None                        # optional {id(shared object) | ("pipe", id): role}: primitive events carry roles
        self.pipe_role = None                    # optional callable -> role of a virtual pipe being created
        self.real_identity = False               # threading.current_thread() of the REAL module = the replaced Thread object

    # ------------------------------------------------------------------ thread side
    def me(self):
        return self.by_ident.get(_rt.get_ident())

    def spawn(self, name, fn, obj=None):
        t = MT(name); t.obj = obj
        self.threads.append(t)
        def boot():
            self.by_ident[_rt.get_ident()] = t
            # code under test outside the instrumented module may ask the REAL threading module who it is (`import threading;
            # threading.current_thread() is scheduler._thread`): inside a managed thread that started as a replaced Thread object
            # the real module answers with that same object
            ident, real_self = _rt.get_ident(), None
            if obj is not None and getattr(self, "real_identity", False):
                try:
                    real_self = _rt._active.get(ident)
                    if real_self is not None: _rt._active[ident] = obj
                except Exception:
                    real_self = None
            t.sem.acquire()
            try:
                if self.killing: raise Kill()
                t.started = True
                sys.settrace(self._gtrace)
                fn()
            except Kill:
                pass
            except BaseException as e:            # an exception that leaves the thread's function is an observable
                t.error = "%s: %s" % (type(e).__name__, e)
                tb = e.__traceback__
                while tb is not None and tb.tb_next is not None: tb = tb.tb_next
                t.origin = "%s:%d" % (tb.tb_frame.f_code.co_filename, tb.tb_lineno) if tb is not None else None
            finally:
                sys.settrace(None)
                if real_self is not None: _rt._active[ident] = real_self
                t.done = True
                self.ctl.release()
        t.real = _rt.Thread(target=boot, daemon=True)
        t.real.start()
        return t

    def _gtrace(self, frame, event, arg):
        co = frame.f_code
        if (co.co_filename, co.co_firstlineno) in self.trace_funcs:
            return self._ltrace
        return None

    def _ltrace(self, frame, event, arg):
        if event == "line":
            k = (frame.f_code.co_filename, frame.f_lineno)
            if self.cover is not None: self.cover.add(k)
            if k in self.yield_lines:
                self.yield_point(("L", frame.f_code.co_qualname, frame.f_lineno))
        return self._ltrace

    def where(self):
        """(qualname, lineno) of the innermost frame that belongs to one of `frame_files` (the code under test)"""
        f = sys._getframe(2)
        while f is not None:
            if f.f_code.co_filename in self.frame_files:
                return (f.f_code.co_qualname, f.f_lineno)
            f = f.f_back
        return ("?", 0)

    def yield_point(self, key, blocked=None, timeout=False):
        """Give the baton back; returns True iff the thread was resumed by a time-out.  Called from an unmanaged
        thread (harness set-up code) it returns at once if the operation would not block."""
        t = self.me()
        if t is None:
            if blocked is not None and not blocked():
                raise RuntimeError("unmanaged thread would block at %r" % (key,))
            return False
        if self.killing:
            raise Kill()
        if t.quiet:                               # set-up of an object no other thread can see yet: not an event, never blocks
            return False
        t.key = key; t.blocked = blocked; t.timeout = timeout; t.timed_out = False
        self.ctl.release()
        t.sem.acquire()
        if self.killing:
            raise Kill()
        t.blocked = None; t.timeout = False
        self.trace.append((t.name, key, t.timed_out))
        return t.timed_out

    # ------------------------------------------------------------------ controller side
    def enabled(self):
        return [t for t in self.threads if not t.done and (t.blocked is None or t.blocked())]

    def run(self, policy):
        """policy(ctl, enabled) -> one of: an MT to run next, ('timeout', MT), or ('stop', reason).
        Returns the stop reason ('budget' and 'alldone' are produced here)."""
        while True:
            if self.on_step is not None: self.on_step(self)
            live = [t for t in self.threads if not t.done]
            if not live: return "alldone"
            if self.steps >= self.max_steps: return "budget"
            en = [t for t in live if t.blocked is None or t.blocked()]
            d = policy(self, en)
            if isinstance(d, tuple) and d[0] == "stop":
                return d[1]
            if isinstance(d, tuple) and d[0] == "timeout":
                t = d[1]; t.timed_out = True
                self.timeouts.append((self.steps, t.name, t.key))
            else:
                t = d
            self.choices.append(([x.name for x in en], t.name))
            self.steps += 1
            self.current = t
            t.sem.release()
            self.ctl.acquire()

    def teardown(self, wall_timeout=5.0):
        """unwind every managed thread (Kill is raised at each further yield point); returns the leaked thread names"""
        self.killing = True
        for t in self.threads:
            if not t.done:
                t.sem.release()
        leaked = []
        for t in self.threads:
            t.real.join(wall_timeout)
            if t.real.is_alive(): leaked.append(t.name)
        return leaked


# ---------------------------------------------------------------------- replaced primitives

def make_primitives(ctl, thread_namer=None):
    """-> namespace object with Lock, RLock, Event, Thread, Queue, Pinger, select, threading (module stand-in)"""

    def P(op, extra=None, obj=None):
        """the event of a primitive operation.  Default: ("P", op, function, line) — identified by the statement that performs
        it.  With `ctl.roles` (a dict object -> role filled by the harness): ("R", op, role, function, line) — identified by the
        shared OBJECT it operates on, independent of the layout of the code (function and line are diagnostics only)."""
        q, l = ctl.where()
        roles = getattr(ctl, "roles", None)
        if roles is not None:
            return ("R", op, roles.get(obj if isinstance(obj, tuple) else id(obj), "?"), q, l)
        return ("P", op, q, l) if extra is None else ("P", op, q, l, extra)

    import collections as _collections
    class FDeque(_collections.deque):
        """collections.deque whose operations are events (and pre-emption points) of the forced scheduler; the harness reads
        it through peek() / size() without events"""
        _D = _collections.deque
        def peek(self): return list(self._D.__iter__(self))
        def size(self): return self._D.__len__(self)
        def append(self, x): ctl.yield_point(P("deque.append", obj=self)); self._D.append(self, x)
        def appendleft(self, x): ctl.yield_point(P("deque.appendleft", obj=self)); self._D.appendleft(self, x)
        def popleft(self): ctl.yield_point(P("deque.popleft", obj=self)); return self._D.popleft(self)
        def pop(self): ctl.yield_point(P("deque.pop", obj=self)); return self._D.pop(self)
        def __contains__(self, x):
            ctl.yield_point(P("deque.contains", obj=self))
            return self._D.__contains__(self, x)
        def __len__(self):
            if ctl.me() is not None:
                ctl.yield_point(P("deque.len", obj=self))
                n = self._D.__len__(self)
                # an emptiness test that FINDS the deque empty is its own kind of event ("deque.len0"): for a consumer it is the same
                # observation as a popleft() that raises IndexError (recorded when the operation executes: the baton is held)
                if n == 0 and ctl.trace:
                    name, key, to = ctl.trace[-1]
                    if isinstance(key, tuple) and len(key) > 1 and key[1] == "deque.len":
                        ctl.trace[-1] = (name, (key[0], "deque.len0") + tuple(key[2:]), to)
                return n
            return self._D.__len__(self)
        def __iter__(self): ctl.yield_point(P("deque.iter", obj=self)); return self._D.__iter__(self)
        def __getitem__(self, i): ctl.yield_point(P("deque.getitem", obj=self)); return self._D.__getitem__(self, i)
        def __setitem__(self, i, v): ctl.yield_point(P("deque.setitem", obj=self)); return self._D.__setitem__(self, i, v)
        def __delitem__(self, i): ctl.yield_point(P("deque.delitem", obj=self)); return self._D.__delitem__(self, i)
        def remove(self, x): ctl.yield_point(P("deque.remove", obj=self)); return self._D.remove(self, x)
        def clear(self): ctl.yield_point(P("deque.clear", obj=self)); return self._D.clear(self)
        def extend(self, it): ctl.yield_point(P("deque.extend", obj=self)); return self._D.extend(self, it)
        def extendleft(self, it): ctl.yield_point(P("deque.extendleft", obj=self)); return self._D.extendleft(self, it)
        def insert(self, i, x): ctl.yield_point(P("deque.insert", obj=self)); return self._D.insert(self, i, x)
        def rotate(self, n=1): ctl.yield_point(P("deque.rotate", obj=self)); return self._D.rotate(self, n)
        def index(self, *a): ctl.yield_point(P("deque.index", obj=self)); return self._D.index(self, *a)
        def count(self, x): ctl.yield_point(P("deque.count", obj=self)); return self._D.count(self, x)
        def copy(self): ctl.yield_point(P("deque.iter", obj=self)); return _collections.deque(self._D.__iter__(self))

    class FLock:
        def __init__(self):
            self._locked = False; self.owner = None
        def acquire(self, blocking=True, timeout=-1):
            to = ctl.yield_point(P("Lock.acquire", obj=self), blocked=(lambda: not self._locked) if blocking else None,
                                 timeout=blocking and timeout is not None and timeout >= 0)
            if to or self._locked: return False
            self._locked = True; self.owner = ctl.me()
            return True
        def release(self):
            ctl.yield_point(P("Lock.release", obj=self))
            if not self._locked: raise RuntimeError("release unlocked lock")
            self._locked = False; self.owner = None
        def locked(self): return self._locked
        def __enter__(self): self.acquire(); return self
        def __exit__(self, *a): self.release()

    class FRLock:
        """re-entrant lock (threading.RLock): owner + count; only the first acquire / last release are yield points"""
        def __init__(self):
            self._owner = None; self._count = 0
        def _me(self):
            return ctl.me() or "main"
        def acquire(self, blocking=True, timeout=-1):
            me = self._me()
            if self._owner is me:
                self._count += 1; return True
            to = ctl.yield_point(P("Lock.acquire", obj=self), blocked=(lambda: self._owner is None) if blocking else None,
                                 timeout=blocking and timeout is not None and timeout >= 0)
            if to or self._owner is not None: return False
            self._owner = me; self._count = 1
            return True
        def release(self):
            if self._owner is not self._me(): raise RuntimeError("cannot release un-acquired lock")
            if self._count > 1:
                self._count -= 1; return
            ctl.yield_point(P("Lock.release", obj=self))
            self._owner = None; self._count = 0
        def locked(self): return self._owner is not None
        def __enter__(self): self.acquire(); return self
        def __exit__(self, *a): self.release()

    class FEvent:
        def __init__(self): self._flag = False
        def set(self):
            ctl.yield_point(P("Event.set", obj=self)); self._flag = True
        def clear(self):
            ctl.yield_point(P("Event.clear", obj=self)); self._flag = False
        def is_set(self): return self._flag
        isSet = is_set
        def wait(self, timeout=None):
            ctl.yield_point(P("Event.wait", obj=self), blocked=lambda: self._flag, timeout=timeout is not None)
            return self._flag

    class FQueue:
        def __init__(self, maxsize=0): self._q = collections.deque()
        def put(self, item, block=True, timeout=None):
            ctl.yield_point(P("Queue.put", obj=self)); self._q.append(item)
        def get(self, block=True, timeout=None):
            ctl.yield_point(P("Queue.get", obj=self), blocked=(lambda: bool(self._q)) if block else None,
                            timeout=block and timeout is not None)
            if not self._q:
                import queue
                raise queue.Empty()
            return self._q.popleft()
        def empty(self):
            ctl.yield_point(P("Queue.empty", obj=self)); return not self._q
        def qsize(self): return len(self._q)
        def task_done(self): pass
        def snapshot(self): return list(self._q)

    class FPinger:
        """stand-in for pox.lib.util.PipePinger: `count` = bytes in the pipe"""
        def __init__(self): self.count = 0
        def ping(self):
            ctl.yield_point(P("ping")); self.count += 1
        def pongAll(self): return self.pong_all()
        def pong_all(self):
            ctl.yield_point(P("pongAll"), blocked=lambda: self.count > 0)     # os.read on an empty blocking pipe blocks
            self.count = max(0, self.count - 1024)
        def pong(self):
            ctl.yield_point(P("pong"), blocked=lambda: self.count > 0); self.count -= 1
        def fileno(self): raise RuntimeError("FPinger has no descriptor; use the replaced select")
        def __repr__(self): return "<FPinger %d>" % self.count

    def _ready(o, attr):
        """pingers are readable when their pipe is not empty; any other object says so itself through a harness-set
        attribute `fsel_readable` / `fsel_writable` / `fsel_error` (a callable)"""
        if isinstance(o, FPinger): return attr == "fsel_readable" and o.count > 0
        f = getattr(o, attr, None)
        if f is None:
            if attr == "fsel_error": return False
            raise RuntimeError("replaced select does not know %r" % (o,))
        return bool(f())

    def fselect(r, w, x, timeout=None):
        r, w, x = list(r), list(w), list(x)
        def result():
            return ([o for o in r if _ready(o, "fsel_readable")], [o for o in w if _ready(o, "fsel_writable")],
                    [o for o in x if _ready(o, "fsel_error")])
        to = ctl.yield_point(P("select"), blocked=lambda: any(result()), timeout=timeout is not None)
        if to: return [], [], []
        return result()

    class VirtualOS:
        """stand-in for the `os` module of a module under test, as far as pipes go: `pipe()` hands out virtual descriptors,
        `write`/`read` on them are yield points (`read` on an empty pipe blocks virtually, like a blocking pipe), everything
        else is the real `os`.  Lets the REAL pox.lib.util.PipePinger run under the forced scheduler."""
        def __init__(self):
            import os as _os
            self._os = _os; self._pipes = {}; self._next = 10 ** 6
        def __getattr__(self, name): return getattr(self._os, name)
        def pipe(self):
            r, w = self._next, self._next + 1; self._next += 2
            buf = [0]
            self._pipes[r] = buf; self._pipes[w] = buf
            roles = getattr(ctl, "roles", None)
            if roles is not None and getattr(ctl, "pipe_role", None) is not None:
                roles[("pipe", id(buf))] = ctl.pipe_role()
            return r, w
        def pending(self, fd): return self._pipes[fd][0]
        def write(self, fd, data):
            if fd not in self._pipes: return self._os.write(fd, data)
            ctl.yield_point(P("ping", obj=("pipe", id(self._pipes[fd]))))
            self._pipes[fd][0] += len(data)
            return len(data)
        def read(self, fd, n):
            if fd not in self._pipes: return self._os.read(fd, n)
            buf = self._pipes[fd]
            ctl.yield_point(P("pongAll", obj=("pipe", id(buf))), blocked=lambda: buf[0] > 0)        # a blocking pipe: read waits for data
            k = min(n, buf[0]); buf[0] -= k
            return b" " * k
        def close(self, fd):
            if fd in self._pipes: return
            return self._os.close(fd)

    class FThread:
        def __init__(self, group=None, target=None, name=None, args=(), kwargs=None, daemon=None):
            self._target, self._args, self._kwargs = target, args, kwargs or {}
            self.name = name; self.daemon = bool(daemon); self.mt = None
        def run(self):
            if self._target is not None: self._target(*self._args, **self._kwargs)
        def start(self):
            name = thread_namer(self) if thread_namer else None
            self.mt = ctl.spawn(name or "T%d" % len(ctl.threads), self.run, obj=self)
        def join(self, timeout=None):
            ctl.yield_point(P("Thread.join"), blocked=lambda: self.mt.done, timeout=timeout is not None)
        def is_alive(self): return self.mt is not None and not self.mt.done
        isAlive = is_alive

    class MainThread:
        name = "MainThread"
    main_thread = MainThread()

    class FThreading:
        """stand-in for the `threading` module as far as the code under test uses it"""
        Lock = FLock; RLock = FRLock; Event = FEvent; Thread = FThread; local = _rt.local
        @staticmethod
        def current_thread():
            t = ctl.me()
            return t.obj if t is not None and t.obj is not None else (t if t is not None else main_thread)
        currentThread = current_thread

    class FSelectModule:
        select = staticmethod(fselect)
        error = OSError

    class NS: pass
    ns = NS()
    ns.Lock, ns.Event, ns.Queue, ns.Pinger, ns.select, ns.Thread = FLock, FEvent, FQueue, FPinger, fselect, FThread
    ns.RLock, ns.P, ns.VirtualOS, ns.Deque = FRLock, P, VirtualOS, FDeque
    ns.threading, ns.select_module = FThreading, FSelectModule
    return ns


# ---------------------------------------------------------------------- schedule policies

class Chooser:
    """Base of the schedule policies.  `pick(ctl, enabled)` returns the MT to run.  Time-outs and stopping are decided
    by the harness-specific wrapper (see harness/c07.py)."""
    def pick(self, ctl, enabled):
        raise NotImplementedError


class RandomChooser(Chooser):
    def __init__(self, rng): self.rng = rng
    def pick(self, ctl, enabled):
        return enabled[self.rng.randrange(len(enabled))]


class PCTChooser(Chooser):
    """PCT (Burckhardt et al.): random distinct priorities per thread, run the highest-priority enabled thread; at `d`
    random change points (step indices below `k`) the running thread drops below everybody else."""
    def __init__(self, rng, d, k):
        self.rng = rng; self.prio = {}; self.low = 0
        self.change = set(rng.randrange(max(1, k)) for _ in range(d))
    def pick(self, ctl, enabled):
        for t in enabled:
            if t.name not in self.prio:
                self.prio[t.name] = 1000 + self.rng.random()
        best = max(enabled, key=lambda t: (self.prio[t.name], t.name))
        if ctl.steps in self.change:
            self.low -= 1
            self.prio[best.name] = self.low
            best = max(enabled, key=lambda t: (self.prio[t.name], t.name))
        return best


class PreemptChooser(Chooser):
    """Non-preemptive baseline (keep running the current thread while it is enabled, otherwise the first enabled
    thread in `order`) plus explicit pre-emptions {step index: thread name}.  Used for the bounded exhaustive search."""
    def __init__(self, order, preempt):
        self.order = list(order); self.preempt = dict(preempt); self.cur = None
    def pick(self, ctl, enabled):
        names = [t.name for t in enabled]
        want = self.preempt.get(ctl.steps)
        if want is not None and want in names:
            self.cur = want
        elif self.cur not in names:
            self.cur = next((n for n in self.order if n in names), names[0])
        return enabled[names.index(self.cur)]
