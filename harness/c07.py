"""C07 — hand-off between threads and the scheduler is race-free; locks exclude (DESIGN §5 C07, Appendix B).

Three kinds of cases:
  * "threads": the real `recoco.Scheduler` (+ SelectHub, CallLaterTask, ScheduleTask, Synchronizer/SyncTask) runs under
    the forced thread scheduler (harness/forcedthreads.py) with a scheduler thread, the hub thread (threaded mode) and
    n foreign threads executing programs over {callLater, schedule(user task), synchronized enter/exit}.  The executed
    (thread, site) trace is replayed through the Lean transition system's `step` (drv_c07): the model must accept every
    entry and end in the same observables.  Independently the property oracle is evaluated on the real observables.
  * "lock": the cooperative `Lock` driven through a real Scheduler's `cycle()` (inline hub), all acquire/release
    programs of 2–4 tasks on 1–2 locks; compared operation by operation with Model/CoopLock.lean.
  * "pinger": the real PipePinger against the byte-counter semantics the model and the forced scheduler assume.
"""
import os, sys, json, itertools, functools, select as _select, collections
import common
from common import Check
import forcedthreads as ft
sys.path.insert(0, os.path.join(os.path.dirname(os.path.abspath(__file__)), "translate"))
import sites as sites_tr

# event kind of each model site: 'L' = a line event of the statement, otherwise the primitive operation performed there
SITE_KIND = {
    "cl_lock": "Lock.acquire", "cl_isNone": "L", "cl_create": "L", "cl_unlock": "Lock.release",
    "clt_append": "L", "clt_ping": "ping", "sch_spawn": "L", "fs_assert": "L", "fs_append": "L", "fs_appendleft": "L",
    "bi_set": "Event.set", "cy_ping": "ping", "se_create": "L", "se_acqIn": "Lock.acquire", "sx_relOut": "Lock.release",
    "run_len": "L", "idle_wait": "Event.wait", "idle_clear": "Event.clear", "cyc_pop": "L", "cyc_append": "L",
    "st_contains": "L", "sch_contains": "L", "sy_relIn": "Lock.release", "sy_acqOut": "Lock.acquire", "rs_put": "Queue.put",
    "clt_pong": "pongAll", "clt_pop": "L", "clt_call": "cb", "sel_select": "select", "sel_pong": "pongAll",
    "sel_empty": "Queue.empty", "sel_get": "Queue.get",
}
# operation on a shared object (by ROLE) -> the model actions it can be; the driver takes the one the model has next for that thread
SITE_CLASS = {
    "Lock.acquire@cl": ["cl_lock"], "Lock.release@cl": ["cl_unlock"],
    "Lock.acquire@sync.in": ["se_acqIn"], "Lock.release@sync.in": ["sy_relIn"],
    "Lock.acquire@sync.out": ["sy_acqOut"], "Lock.release@sync.out": ["sx_relOut"],
    "Event.set@hub.event": ["bi_set"], "Event.wait@hub.event": ["idle_wait"], "Event.clear@hub.event": ["idle_clear"],
    "ping@clt": ["clt_ping"], "ping@hub": ["cy_ping"], "pongAll@clt": ["clt_pong"], "pongAll@hub": ["sel_pong"],
    "Queue.put@hub.incoming": ["rs_put"], "Queue.empty@hub.incoming": ["sel_empty"], "Queue.get@hub.incoming": ["sel_get"],
    "select@?": ["sel_select"],
    "deque.contains@ready": ["fs_assert", "st_contains", "sch_contains"], "deque.append@ready": ["fs_append", "cyc_append"],
    "deque.appendleft@ready": ["fs_appendleft"], "deque.popleft@ready": ["cyc_pop"], "deque.len@ready": ["run_len"],
    "deque.append@calls": ["clt_append"], "deque.popleft@calls": ["clt_pop"],
    # finding a queue EMPTY by an emptiness test is the modelled step "the consumer finds the queue empty" (in the code as it stands: a
    # popleft() that raises IndexError / the len() test of run()); finding it non-empty changes nothing and has no step of its own
    "deque.len0@calls": ["clt_pop"], "deque.len0@ready": ["run_len", "cyc_pop"],
    "new@clt": ["cl_create"], "new@st": ["sch_spawn"], "new@sync": ["se_create"],
}
SILENT = ["cl_isNone"]       # reads `_callLaterTask` under the scheduler's lock (every write is under that lock): no event of its own
REPAIRED = {"if self._locked is None or self._locked is False:": "if not self._locked:"}      # = HandoffSites.repaired
FALSY_KEY = "lock:falsy-task:lock granted while another holder has not released"
HUBRACE_KEY = "hubrace:a task parked in the threaded hub is queued twice (hub thread's _return vs schedule())"
TWOSCHED_KEY = "twosched:a hand-over to one scheduler put a task into another scheduler's ready queue"
TIMEOUT_LIMIT = 8
MAX_STEPS = 2500          # the longest legitimate run of a case without an explicit budget takes < 400 steps


class Infra(Exception):
    pass


def tid_of(name):
    return 0 if name == "S" else 1 if name == "H" else 2 + int(name[1:])


class C07(Check):
    id = "C07"
    title = "Hand-off between threads and the scheduler is race-free; locks exclude"
    prop_module = "PoxModel.Properties.C07"
    lean_targets = ["drv_c07"]
    driver = "drv_c07"
    theorems = ["Pox.C07.ops_cover", "Pox.C07.ops_accounted", "Pox.C07.sites_anchored", "Pox.C07.calllater_once", "Pox.C07.calllater_order",
                "Pox.C07.sync_excludes", "Pox.C07.sync_mutual", "Pox.C07.schedule_atmost1_partial", "Pox.C07.schedule_self_twice", "Pox.C07.schedule_hub_race_defect", "Pox.C07.schedule_wake_kept",
                "Pox.C07.schedule_st_never_lost", "Pox.C07.schedule_direct_kept", "Pox.C07.wake_never_lost", "Pox.C07.no_crash",
                "Pox.C07.clt_alive", "Pox.C07.incoming_noticed_strict",
                "Pox.C07.wake_noticed", "Pox.C07.incoming_noticed", "Pox.C07.hub_mode", "Pox.C07.lock_excl", "Pox.C07.lock_excl_multi", "Pox.C07.lock_handoff", "Pox.C07.lock_trylock", "Pox.C07.lock_waiters_exact",
                "Pox.C07.lock_excl_needs_discipline"]
    anchors = []             # computed in setup(): the bodies of the functions listed in harness/translate/sites.py
    design_ref = "DESIGN.md §5 C07, Appendix B"
    coverage_cases = 10 ** 9          # every case contributes to the anchored-line coverage (managed threads report it)
    search_budget = {"quick": 500, "thorough": 5000}

    # ------------------------------------------------------------------ setup / translate
    def setup(self):
        import logging
        logging.disable(logging.CRITICAL)
        import pox.lib.recoco.recoco as recoco
        import pox.lib.util as util
        import pox.core as pcore
        self.recoco, self.util, self.pcore = recoco, util, pcore
        self.rfile = recoco.__file__
        self._table = None
        self._own_driver = None
        self.stats = collections.Counter()
        self._load_lines()

    def _load_lines(self):
        """line numbers of the listed statements (from the ast translator; no Lean involved)"""
        self.extract = sites_tr.extract(common.REPO)
        self.trace_funcs, self.yield_lines = set(), set()
        # anchors are found by name (function bodies located by the ast translator), never by hard-coded line numbers
        self.anchors = [(rel, span[2], span[1]) for rel, qual, sts, span in self.extract if span is not None]
        for rel, qual, sts, span in self.extract:
            if span is None or not rel.endswith("recoco.py"): continue
            if qual.startswith("Lock.") or qual.startswith("_Lock"): continue        # sequential part: not traced
            self.trace_funcs.add((self.rfile, span[0]))
            for text, ln in sts:
                self.yield_lines.add((self.rfile, ln))

    def min_yield_lines(self):
        """Pre-emption points among the listed statements: only those the model tags as an action performed by the
        statement itself (kind 'L'), plus every listed statement the model's table does not know (a changed tree).
        Statements tagged call / thread-local / not-modelled have no effect visible to another thread, so pre-empting
        right before them is equivalent to pre-empting before the next action.  Without the driver: all listed lines."""
        if getattr(self, "_min_yield", None) is None:
            try:
                tab = self.table()
            except Exception:
                return self.yield_lines
            keep = set()
            for rel, qual, sts, span in self.extract:
                if span is None or not rel.endswith("recoco.py"): continue
                if qual.startswith("Lock.") or qual.startswith("_Lock"): continue
                for text, ln in sts:
                    ent = tab.get((qual, ln))
                    if ent is None or "L" in ent["acts"] or "?" in ent["tags"]:
                        keep.add((self.rfile, ln))
            self._min_yield = keep
        return self._min_yield

    TIE_MODULE = "PoxModel.Properties.C07Tie"
    extra_modules = []

    def translate(self):
        """regenerate Generated/Sites.lean and try the STATIC tie (Properties/C07Tie.lean: `ops_agree` by decide — the only C07
        module that depends on the working tree).  Established: it is one of the audited obligations.  Not established (the
        summary changed: a real change of the shared operations, or a refactoring it does not see through): reported in the
        evidence, the dynamic validation is widened (`generate`), and the verdict rests on it — every disagreement between an
        executed trace and the model is a violation as before."""
        text, ex = sites_tr.render(common.REPO)
        path = os.path.join(common.LEAN, "PoxModel", "Generated", "Sites.lean")
        out = [(path, common.write_if_changed(path, text))]
        cls = type(self)
        self.static_tie = {"established": None}
        try:
            ok, log_ = common.lake_build([self.TIE_MODULE])
        except Exception as e:
            ok, log_ = False, "%s: %s" % (type(e).__name__, e)
        base = [t for t in cls.theorems if t != "Pox.C07.ops_agree"]
        if ok:
            self.theorems, self.extra_modules = ["Pox.C07.ops_agree"] + base, [self.TIE_MODULE]
            self.static_tie = {"established": True}
        else:
            self.theorems, self.extra_modules = base, []
            import re as _re
            first = _re.search(r"error: ([^\n]*)", log_ or "")
            self.static_tie = {"established": False, "build": (first.group(0) if first else (log_ or "")[-300:])[:300],
                               "tree": {k: els for k, els in sites_tr.ops(common.REPO)}}
            common.log("C07 note: STATIC TIE NOT ESTABLISHED on this tree (ops_agree does not hold: the sets of operations on shared state "
                       "differ from the model's table); the trace validation is widened and the verdict rests on it")
        return out

    def static_tie_report(self):
        st = dict(getattr(self, "static_tie", {"established": None}))
        tree = st.pop("tree", None)
        if st.get("established") is False and tree is not None:
            try:
                d = common.Driver(self.driver); model = {r["fn"]: r["els"] for r in d.ask({"op": "ops"})["ops"]}; d.close()
                st["differences"] = [{"fn": k, "only_in_tree": sorted(set(tree.get(k, [])) - set(model.get(k, []))),
                                      "only_in_model": sorted(set(model.get(k, [])) - set(tree.get(k, [])))}
                                     for k in sorted(set(tree) | set(model)) if set(tree.get(k, [])) != set(model.get(k, []))][:12]
            except Exception as e:
                st["differences"] = "unavailable: %s" % e
            st["consequence"] = ("the verdict rests on the dynamic trace validation: valid only with coverage.model_disagreements = 0 over "
                                 "coverage.traces_validated_against_impl runs (any disagreement is reported as a violation)")
        return st

    def table(self):
        """(qualname, lineno) -> {event kind: site} for the statements the model tags as actions; needs the driver"""
        if self._table is None:
            d = common.Driver(self.driver)
            resp = d.ask({"op": "table"}); d.close()
            rows = {}
            self._table_raw = resp["table"]
            model = {r["fn"]: r["items"] for r in resp["table"]}
            for rel, qual, sts, span in self.extract:
                items = model.get(sites_tr.key(rel, qual))
                if items is None or len(items) != len(sts):
                    for text, ln in sts: rows.setdefault((qual, ln), {"acts": {}, "tags": set()})["tags"].add("?")
                    continue
                for (text, ln), it in zip(sts, items):
                    if it["text"] != text and REPAIRED.get(text) != it["text"]:
                        rows.setdefault((qual, ln), {"acts": {}, "tags": set()})["tags"].add("?"); continue
                    ent = rows.setdefault((qual, ln), {"acts": {}, "tags": set()})
                    ent["tags"].add(it["tag"])
                    if it["tag"] == "act":
                        ent["acts"][SITE_KIND[it["site"]]] = it["site"]
            self._table = rows
        return self._table

    # ------------------------------------------------------------------ generators
    def corpus(self):
        cases = []
        CL, SE, SX = {"o": "callLater"}, {"o": "syncEnter"}, {"o": "syncExit"}
        SXE = {"o": "syncExitExc"}
        S0 = {"o": "schedule", "t": 0}
        for threaded in (False, True):
            base = [
                {"users": [], "progs": [[CL, CL], [CL, CL]]},
                {"users": [[0]], "progs": [[S0, S0], [S0]]},
                {"users": [[1, 0]], "progs": [[SE, CL, SX], [S0, CL]]},
                {"users": [[0], [1]], "progs": [[SE, SE, SX, SX, SE, SX], [S0, {"o": "schedule", "t": 1}], [CL]]},
                {"users": [[4, 1, 4, 0], [3, 0]], "progs": [[S0], [{"o": "schedule", "t": 1}, S0]]},     # tasks waking each other from their slices
                {"users": [[2, 1, 2, 0]], "progs": [[S0, CL], [S0]]},
                {"users": [[1, 1, 0]], "progs": [[SE, SE, SXE, S0, CL, SX], [S0, CL, S0]]},                 # inner level left by a caught exception
                {"users": [[1, 0]], "progs": [[SE, SE, SE, SXE, CL, SXE, S0, SX], [CL, S0]]},               # depth 3, two inner levels by exception
                {"users": [[1, 0]], "progs": [[SE, SE, SX, S0, SE, SXE, CL, SX], [S0, CL]]},                # inner left normally, then re-entered                                     # callLater from cooperative code and from threads
            ]
            for b in base[1:6]:
                cases.append({"kind": "threads", "threaded": threaded, "users": b["users"], "progs": b["progs"], "falsy_task": 1,
                              "sched": {"type": "pct", "seed": 1, "d": 2, "k": 150}})
            for j, b in enumerate(base[1:]):                 # other calling conventions of schedule() / Synchronizer
                progs = [[dict(op, f=(k + j) % 4) if op["o"] == "schedule" else op for k, op in enumerate(p)] for p in b["progs"]]
                cases.append({"kind": "threads", "threaded": threaded, "users": b["users"], "progs": progs, "syncform": 1 + j % 2,
                              "sched": {"type": "pct", "seed": 2, "d": 2, "k": 150}})
            for b in base:
                for seed in range(3):
                    cases.append({"kind": "threads", "threaded": threaded, "users": b["users"], "progs": b["progs"],
                                  "sched": {"type": "pct", "seed": seed, "d": 2, "k": 150}})
                cases.append({"kind": "threads", "threaded": threaded, "users": b["users"], "progs": b["progs"],
                              "sched": {"type": "preempt", "points": []}})
        cases += self.burst_cases([1, 2, 1023, 1024, 1025])
        cases += self.batch_cases()
        cases += self.prio_cases()
        cases += self.sweep_cases()
        # task objects that are falsy (a Task subclass with __len__/__bool__): `if not self._locked` takes a lock held by such a
        # task for free.  Exercised when the code carries the repair (fixes/C07-2_lock_falsy_holder.diff) or the finding is listed.
        fixed = any(t in REPAIRED for rel, qual, sts, span in self.extract for t, ln in sts)
        if fixed or _listed(self.id, "lock:falsy-task:"):
            hold = [["acq", 0, 1], ["yield"], ["rel", 0]]
            cases += [{"kind": "lock", "init": [0, 0], "progs": [hold, hold], "extrel": 0, "falsy": 1},
                      {"kind": "lock", "init": [0, 0], "progs": [hold, [["acq", 0, 0], ["yield"]], hold], "extrel": 0, "falsy": 1}]
        if common.Findings().match(self.id, HUBRACE_KEY):
            # the reproduction of schedule_hub_race_defect on the real classes; exercised (and reported as KNOWN-FINDING) once the
            # finding is listed in known_findings.json — until then it is available through `--replay corpus/C07/hubrace.json`
            cases.append({"kind": "hubrace", "seed": 13})
        # two scheduler instances must not share state: a hand-over to a scheduler that is not the default one stays with that
        # scheduler (fix C07-3, b1a8641: helper tasks are started on `self`); replay: corpus/C07/twosched.json
        cases.append({"kind": "twosched"})
        cases += self.lock_corpus()
        cases += [{"kind": "pinger", "ops": ops} for ops in ([0, 1], [0, 0, 0, 1, 0, 1], [0] * 5 + [1, 0, 1, 0, 0, 1])]
        cases += [{"kind": "pinger", "ops": [0] * n + [1, 0, 1]} for n in (1, 2, 1023, 1024, 1025, 2048, 2049)]     # around the read size
        return cases

    EXCS = ["IndexError", "KeyError", "ValueError", "RuntimeError", "StopIteration", "GeneratorExit", "BaseExc"]

    def batch_cases(self):
        """hand-over batches (the whole batch is queued before the scheduler thread drains) in which the function at EVERY position
        raises, for every exception class (IndexError = the drain loop's own "queue empty" signal; a BaseException that is not an
        Exception); every way of handing over (positional / keyword / no arguments, Scheduler / core entry points); the SAME callable
        with the SAME arguments queued several times; callables that are falsy.  Every function must run exactly once, in order,
        with the arguments it was handed over with, with no further hand-over and no polling time-out."""
        out = []
        first = {"type": "preempt", "points": [], "order": ["F0", "F1", "S", "H"]}
        def case(threaded, progs, sched=first, **kw):
            c = {"kind": "threads", "threaded": threaded, "users": [], "progs": progs, "sched": sched}
            c.update(kw); return c
        for threaded in (False, True):
            for x in self.EXCS:
                for n in (2, 3):
                    for pos in range(n):
                        out.append(case(threaded, [[dict(o="callLater", x=x) if i == pos else dict(o="callLater") for i in range(n)]]))
            out.append(case(threaded, [[dict(o="callLater", x=x) for x in self.EXCS] + [dict(o="callLater")]]))
            # a raising function while another thread keeps handing over (the drain and the appends interleave)
            for seed in range(3):
                out.append(case(threaded, [[dict(o="callLater", x="IndexError"), dict(o="callLater"), dict(o="callLater", x="BaseExc"), dict(o="callLater")],
                                           [dict(o="callLater", x="KeyError"), dict(o="callLater")]],
                                sched={"type": "pct", "seed": seed, "d": 2, "k": 150}))
            # every calling convention, and identical queue entries
            out.append(case(threaded, [[dict(o="callLater", f=f) for f in range(6)]]))
            out.append(case(threaded, [[dict(o="callLater", f=5)] * 3, [dict(o="callLater", f=5)] * 2]))
            out.append(case(threaded, [[dict(o="callLater", f=5), dict(o="callLater", f=5, x="IndexError"), dict(o="callLater", f=5)]]))
            out.append(case(threaded, [[dict(o="callLater", f=f) for f in (5, 1, 5, 3, 5)], [dict(o="callLater", f=f) for f in (4, 5)]],
                            sched={"type": "pct", "seed": 1, "d": 2, "k": 150}))
            out.append(case(threaded, [[dict(o="callLater", f=f) for f in range(6)]], falsy_cb=1))
            # ONE submitter mixing all entry points (Scheduler.callLater, core.callLater / call_later / raiseLater, with and without
            # arguments): a cooperative task on the scheduler thread, alone and next to a foreign thread doing the same
            for sf in ([4, 2, 4, 3], [2, 4, 0, 2], [0, 3, 5, 4, 1, 2], [3, 0, 2, 5]):
                c = case(threaded, [[]], sf=sf); c["users"] = [[2] * len(sf) + [0]]
                out.append(c)
                c = case(threaded, [[dict(o="callLater", f=f) for f in sf]], sf=sf, sched={"type": "pct", "seed": 3, "d": 2, "k": 150})
                c["users"] = [[2, 2, 1] + [2] * (len(sf) - 2) + [0]]
                out.append(c)
            # hand-overs from cooperative code (a task's slice), one of them raising
            for sx in (["IndexError", None, None], [None, "BaseExc", None], [None, None, "KeyError"]):
                c = case(threaded, [[dict(o="callLater")]], sx=sx); c["users"] = [[2, 2, 2, 0]]
                out.append(c)
        return out

    def prio_cases(self):
        """tasks with priority < 1 (0.5, 0): the scheduler's priority rotation pops such a task, draws, and puts it back behind
        the others when it loses — with the draw pinned both ways (Scheduler._random).  The task is woken from foreign threads
        and from the scheduler thread (another task's slice) while it sits in the ready queue, before and after a lost draw:
        it must be queued at most once and run one slice per coalesced wake-up.  Oracle only (the rotation is not in the model)."""
        out = []
        S0, S1 = {"o": "schedule", "t": 0}, {"o": "schedule", "t": 1}
        spin = [1, 1, 1, 1, 0]
        scen = [
            ([[0], spin], [[S1, S0, S0], [S0]]),                       # sleeper 0 woken by threads while a spinner keeps the queue non-empty
            ([[0], [1, 3, 1, 3, 1, 0]], [[S1, S0]]),                   # ... and by the spinner itself (scheduler thread)
            ([[1, 0], [1, 3, 1, 3, 0], spin], [[S1, {"o": "schedule", "t": 2}, S0], [S0, S0]]),
            ([[0], [0]], [[S0, S1, S0, S1], [S1, S0]]),                 # two low-priority sleepers
        ]
        for users, progs in scen:
            for prio in ([0.5, 1, 1], [0, 1, 1], [0.5, 0.5, 1], [0.5, 0, 0.5]):
                for draws in ([0.9, 0.9, 0.0], [0.0], [0.9, 0.0], [0.6, 0.4, 0.0]):
                    for threaded in (False, True):
                        for seed in ((0,) if threaded else (1,)):
                            out.append({"kind": "threads", "threaded": threaded, "users": users, "progs": progs, "prio": prio[:len(users)],
                                        "draws": draws, "sched": {"type": "pct", "seed": seed, "d": 2, "k": 150}})
        return out

    def sweep_cases(self):
        """'late thread' sweeps: small scenarios under a priority order in which one foreign thread runs only when nothing else can
        — plus EVERY single pre-emption on top of it (the held-back thread, or any other, is let in between any two operations of
        the scheduler / hub thread: e.g. between the last popleft of a drain and what follows it)"""
        CL, SE, SX = {"o": "callLater"}, {"o": "syncEnter"}, {"o": "syncExit"}
        S0 = {"o": "schedule", "t": 0}
        out = []
        late, early = ["F0", "S", "H", "F1"], ["S", "H", "F0", "F1"]
        for users, progs, orders in (([], [[CL], [CL]], (late, early)), ([[0]], [[S0], [S0]], (late,)), ([[0]], [[CL], [S0]], (late,)),
                                     ([], [[CL], [SE, SX]], (late, early))):
            for threaded in (False, True):
                for order in orders:
                    base = {"kind": "threads", "threaded": threaded, "users": users, "progs": progs}
                    try:
                        info = self.run_threads(dict(base, sched={"type": "preempt", "points": [], "order": order}), want_choices=True)
                    except Exception:
                        continue                     # the scenario itself is in the corpus: a tree that cannot run it is reported there
                    if len(info["choices"]) > 250 or info.get("thread_errors"):
                        continue                     # not the protocol any more (on the unchanged tree: < 90 steps); no sweep
                    for step, (names, chosen, at_action) in enumerate(info["choices"]):
                        if not at_action or info["prev"][step] not in names: continue
                        for n in names:
                            if n != chosen:
                                out.append(dict(base, sched={"type": "preempt", "points": [[step, n]], "order": order}))
        return out

    def burst_cases(self, sizes):
        """a foreign thread hands over N calls in one go, before the scheduler thread gets to drain (the thread runs first and
        uninterrupted), N around the pinger's read size: all N must run and nothing may block"""
        out = []
        for n in sizes:
            for threaded in (False, True):
                out.append({"kind": "threads", "threaded": threaded, "users": [], "progs": [[{"o": "callLater"}] * n],
                            "budget": 40 * n + 4000,
                            "sched": {"type": "preempt", "points": [], "order": ["F0", "S", "H"]}})
        return out

    def gen_threads_case(self, rng, big=False):
        nf = rng.choice([1, 2, 2, 3]) if not big else rng.choice([3, 4, 5])
        nu = rng.choice([0, 1, 1, 2])
        users = []
        for u in range(nu):
            prog = []
            for _ in range(rng.randrange(4)):
                r = rng.random()
                if nu > 1 and r < 0.3:
                    prog.append(3 + rng.choice([v for v in range(nu) if v != u]))      # schedule(another user task) inside the slice
                elif r < 0.5:
                    prog.append(2)                                                     # callLater(f) inside the slice
                else:
                    prog.append(rng.randrange(2))
            users.append(prog)
        progs = []
        for _ in range(nf):
            p, depth = [], 0
            for _ in range(rng.choice([1, 2, 2, 3]) if not big else rng.randrange(2, 6)):
                c = rng.random()
                if c < 0.4:
                    op = {"o": "callLater"}
                    if rng.random() < 0.2: op["x"] = rng.choice(self.EXCS)
                    if rng.random() < 0.5: op["f"] = rng.randrange(6)
                    p.append(op)
                elif c < 0.65 and nu:
                    p.append({"o": "schedule", "t": rng.randrange(nu)})
                    if rng.random() < 0.3: p[-1]["f"] = rng.randrange(4)
                elif c < 0.85 and depth < 3: p.append({"o": "syncEnter"}); depth += 1
                elif depth: p.append({"o": rng.choice(["syncExit", "syncExitExc"])}); depth -= 1
                else: p.append({"o": "callLater"})
            p += [{"o": rng.choice(["syncExit", "syncExit", "syncExitExc"])} for _ in range(depth)]
            progs.append(p)
        typ = rng.random()
        if typ < 0.75:
            sched = {"type": "pct", "seed": rng.randrange(1 << 30), "d": rng.choice([1, 2, 3]), "k": rng.choice([60, 150, 300])}
        else:
            sched = {"type": "random", "seed": rng.randrange(1 << 30)}
        case = {"kind": "threads", "threaded": rng.random() < 0.5, "users": users, "progs": progs, "sched": sched}
        if rng.random() < 0.1: case["falsy_cb"] = 1
        if nu and rng.random() < 0.15: case["falsy_task"] = 1
        if rng.random() < 0.15: case["syncform"] = rng.choice([1, 2])
        if rng.random() < 0.15: case["sx"] = [rng.choice(self.EXCS + [None, None]) for _ in range(3)]
        if rng.random() < 0.4: case["sf"] = [rng.randrange(6) for _ in range(4)]
        if nu and rng.random() < 0.15:
            case["prio"] = [rng.choice([0.5, 0, 0.99, 1]) for _ in range(nu)]
            case["draws"] = [rng.choice([0.0, 0.3, 0.6, 0.9]) for _ in range(rng.randrange(1, 4))] + [0.0]
        if rng.random() < 0.15: case["sched"] = {"type": "preempt", "points": [], "order": ["F%d" % i for i in range(nf)] + ["S", "H"]}
        return case

    def generate(self, rng, tier):
        n = 600 if tier == "quick" else 3000
        if getattr(self, "static_tie", {}).get("established") is False:
            n += 600 if tier == "quick" else 3000            # no static tie: the verdict rests on the trace validation; make it wider
        for i in range(n):
            yield self.gen_threads_case(rng, big=(i % 10 == 9))
        if tier == "thorough":
            for c in self.burst_cases([2047, 2048, 2049]):
                yield c
            for c in self.exhaustive_cases(rng):
                yield c
        for c in self.gen_lock_cases(rng, 60 if tier == "quick" else 600):
            yield c
        for _ in range(5 if tier == "quick" else 40):
            yield {"kind": "pinger", "ops": [rng.choice([0, 0, 1]) for _ in range(rng.randrange(1, 14))]}

    def search_cases(self, rng, tier):
        locks = self.gen_lock_cases(rng, 10 ** 9)
        i = 0
        while True:
            i += 1
            if i % 3 == 0: yield next(locks)
            else: yield self.gen_threads_case(rng, big=rng.random() < 0.2)

    # ------------------------------------------------------------------ bounded exhaustive schedules (thorough)
    def exhaustive_cases(self, rng):
        """every schedule with at most 2 pre-emptions (pre-emption = switching away from a thread that could go on) on
        top of the non-preemptive round-robin baseline, for small scenarios (1–2 foreign threads x 1–3 operations, both
        hub modes).  Bound 1 is always complete; bound 2 is enumerated in a fixed order up to a per-scenario cap (the
        evidence says which scenarios were completed)."""
        CL, SE, SX = {"o": "callLater"}, {"o": "syncEnter"}, {"o": "syncExit"}
        S0 = {"o": "schedule", "t": 0}
        U01 = [[4, 0], []]                       # user task 0 wakes user task 1 from inside its slice (direct branch)
        bases = [
            ([], [[CL], [CL]]),
            ([[0]], [[S0], [S0]]),
            ([[1]], [[S0, S0]]),
            ([[0]], [[SE, SX], [S0]]),
            ([[0]], [[SE, CL, SX]]),
            ([], [[CL, CL]]),
            ([], [[CL], [SE, SX]]),
            (U01, [[S0], [{"o": "schedule", "t": 1}]]),
            ([[2, 0]], [[S0], [CL]]),           # callLater from a cooperative task racing with callLater from a thread
            ([[0]], [[CL], [S0], [SE, SX]]),
        ]
        scen = [(threaded, users, progs) for users, progs in bases for threaded in (False, True)]
        cap2 = 2200
        self.exhaustive_report = []
        for threaded, users, progs in scen:
            base = {"kind": "threads", "threaded": threaded, "users": users, "progs": progs}
            rep = {"threaded": threaded, "users": users, "progs": progs, "bound1": 0, "bound2": 0, "bound2_complete": True}
            level1 = self.extensions(base, [])
            rep["bound1"] = len(level1)
            for pts in [[]] + level1:
                c = dict(base); c["sched"] = {"type": "preempt", "points": pts}
                yield c
            for pts in level1:
                if rep["bound2"] >= cap2:
                    rep["bound2_complete"] = False; break
                for pts2 in self.extensions(base, pts):
                    rep["bound2"] += 1
                    c = dict(base); c["sched"] = {"type": "preempt", "points": pts2}
                    yield c
            self.exhaustive_report.append(rep)

    def extensions(self, base, pts):
        """all schedules that add one pre-emption after the last one of `pts` (looked up in an actual run)"""
        c = dict(base); c["sched"] = {"type": "preempt", "points": pts}
        try:
            info = self.run_threads(c, want_choices=True)
        except Infra:
            return []
        start = (pts[-1][0] + 1) if pts else 0
        ext = []
        for step, (names, chosen, at_action) in enumerate(info["choices"]):
            if step < start or not at_action: continue
            if info["prev"][step] not in names: continue          # the running thread blocked or ended: a free switch
            for n in names:
                if n != chosen:
                    ext.append(pts + [[step, n]])
        return ext

    # ------------------------------------------------------------------ implementation: threads
    def chooser_of(self, sched):
        import random
        t = sched["type"]
        if t == "pct": return ft.PCTChooser(random.Random(sched["seed"]), sched["d"], sched["k"])
        if t == "random": return ft.RandomChooser(random.Random(sched["seed"]))
        if t == "preempt": return ft.PreemptChooser(sched.get("order") or (["S", "H"] + ["F%d" % i for i in range(64)]),
                                                    {int(s): n for s, n in sched["points"]})
        raise ValueError(t)

    def run_threads(self, case, want_choices=False):
        recoco, util, pcore = self.recoco, self.util, self.pcore
        chooser = self.chooser_of(case["sched"])
        cover = None
        tr = sys.gettrace()                                   # run_check's AnchorCoverage tracer, if it is active
        covobj = getattr(tr, "__self__", None)
        if isinstance(covobj, common.AnchorCoverage): cover = covobj.hit
        trace_funcs, yield_lines = self.trace_funcs, self.min_yield_lines()
        if cover is not None:                                 # coverage wants every line of the anchored files
            trace_funcs = _AllOf({self.rfile, self.pcore.__file__, self.util.__file__})
        # pre-emption points and events are the operations on the SHARED OBJECTS (ready queue, call queue, locks, event, pipes,
        # the hub's queue; creation of the helper tasks), identified by the object's role — not by function name or line: moving a
        # statement into a helper or renaming a local changes neither the events nor their order.  Lines are traced for coverage only.
        ctl = ft.Controller(chooser, trace_funcs=trace_funcs, yield_lines=(), max_steps=case.get("budget", MAX_STEPS),
                            frame_files=(self.rfile,), cover=cover)
        ctl.roles, keep, creating, made = {}, [], [], {"clt": [], "st": [], "sync": []}
        ctl.real_identity = True         # pox.core & co. may ask the real `threading` module whether they are on the scheduler thread
        def role(obj, r): ctl.roles[id(obj)] = r; keep.append(obj)
        ctl.pipe_role = lambda: (creating[-1] if creating else "hub")
        def namer(th):
            n = getattr(th._target, "__name__", "")
            return "H" if n == "_threadProc" else "S" if n == "run" else None
        prim = ft.make_primitives(ctl, namer)
        saved = (recoco.threading, recoco.Thread, recoco.Queue, recoco.select, util.makePinger, recoco.defaultScheduler)
        saved_cls = (recoco.deque, recoco.CallLaterTask, recoco.ScheduleTask, recoco.SyncTask)
        saved_os = util.os
        sys_trace_saved = sys.gettrace()
        sys.settrace(None)
        recoco.threading, recoco.Thread, recoco.Queue, recoco.select = prim.threading, prim.Thread, prim.Queue, prim.select_module
        recoco.deque = prim.Deque
        def built(kind, cls):
            """subclass of a helper-task class: its creation is an event ("new"); what its constructor does happens before any
            other thread can see the object (no events); the shared objects it made get their roles"""
            class Built(cls):
                def __init__(self, *a, **k):
                    ctl.yield_point(("R", "new", kind, "", 0))
                    me = ctl.me()
                    if me is not None: me.quiet += 1
                    creating.append(kind)
                    try:
                        cls.__init__(self, *a, **k)
                    finally:
                        creating.pop()
                        if me is not None: me.quiet -= 1
                    made[kind].append(self)
                    if kind == "clt":
                        for name, v in list(vars(self).items()):
                            if isinstance(v, collections.deque):
                                if not isinstance(v, prim.Deque): v = prim.Deque(v); setattr(self, name, v)
                                role(v, "calls")
                    if kind == "sync":
                        role(self.inlock, "sync.in"); role(self.outlock, "sync.out")
            Built.__name__, Built.__qualname__ = cls.__name__, cls.__qualname__
            return Built
        recoco.CallLaterTask, recoco.ScheduleTask, recoco.SyncTask = (built("clt", recoco.CallLaterTask), built("st", recoco.ScheduleTask),
                                                                      built("sync", recoco.SyncTask))
        # the REAL pinger class (pox.lib.util.make_pinger -> PipePinger) on a virtual pipe: util's `os` is replaced
        vos = prim.VirtualOS()
        util.os = vos
        real_make = util.make_pinger
        def make_tagged():
            p = real_make()
            p.fsel_readable = lambda: vos.pending(p._r) > 0
            return p
        util.makePinger = make_tagged
        st = _RunState()
        try:
            sched = recoco.Scheduler(isDefaultScheduler=True, startInThread=True, daemon=True,
                                     threaded_selecthub=bool(case["threaded"]))
            # roles of the scheduler's shared objects, found by TYPE among its attributes (not by attribute name)
            def attrs(o, typ): return [(n, v) for n, v in sorted(vars(o).items()) if isinstance(v, typ)]
            dq = attrs(sched, collections.deque)
            if len(dq) != 1: raise HarnessError("the scheduler has %d deque attributes, expected the ready queue only" % len(dq))
            if not isinstance(dq[0][1], prim.Deque): setattr(sched, dq[0][0], prim.Deque(dq[0][1]))
            ready_q = getattr(sched, dq[0][0]); role(ready_q, "ready")
            lk = attrs(sched, prim.Lock)
            if len(lk) != 1: raise HarnessError("the scheduler has %d lock attributes, expected one" % len(lk))
            role(lk[0][1], "cl")
            hubs = attrs(sched, recoco.SelectHub)
            if len(hubs) != 1: raise HarnessError("the scheduler has %d select hubs" % len(hubs))
            hub = hubs[0][1]
            for n, v in attrs(hub, prim.Event): role(v, "hub.event")
            for n, v in attrs(hub, prim.Queue): role(v, "hub.incoming")
            incoming = [v for n, v in attrs(hub, prim.Queue)]
            def calls_q():
                """the call queue(s) of the CallLaterTask(s) made so far (found by type, not by attribute name)"""
                out = []
                for c in made["clt"]:
                    d = attrs(c, prim.Deque)
                    if len(d) != 1: raise HarnessError("the CallLaterTask has %d deque attributes" % len(d))
                    out.append(d[0][1])
                return out
            st.sched = sched
            nf = len(case["progs"])
            insec = set()
            syncs = {}

            class UserTask(recoco.BaseTask):
                def __init__(self, idx, prog):
                    self.idx, self.prog = idx, list(prog)
                    recoco.BaseTask.__init__(self)
                    pr = case.get("prio") or []
                    if idx < len(pr) and pr[idx] is not None: self.priority = pr[idx]      # < 1: subject to the priority rotation
                def __len__(self):                       # falsy variant: a task that is also an empty container
                    if case.get("falsy_task"): return 0
                    raise TypeError("object of type 'UserTask' has no len()")
                def __bool__(self):
                    return not case.get("falsy_task")
                def body(self):
                    ctl.yield_point(("user", self.idx))
                    st.slices.append(self.idx)
                    if insec: st.insec_violations.append(["user", self.idx, sorted(insec)])
                    who = ctl.me()
                    if who is None or who.name != "S" or not on_scheduler_thread():
                        st.wrong_thread.append(["user", self.idx, getattr(who, "name", None)])
                    ctl.yield_point(("user_end", self.idx))
                    if insec: st.insec_violations.append(["user", self.idx, sorted(insec)])
                def run(self):
                    # program items: 0 = `yield False`, 1 = `yield 0`, 2 = `scheduler.callLater(f)`,
                    # 3+v = `scheduler.schedule(users[v])` — the last two inside the slice
                    i, prog = 0, self.prog
                    while True:
                        self.body()
                        while i < len(prog) and prog[i] >= 2:
                            it = prog[i]; i += 1
                            if it == 2:
                                n = st.snsub
                                st.submitted.append([0, n]); st.snsub += 1
                                sx, sf = case.get("sx") or [], case.get("sf") or []
                                hand_over(0, n, sx[n] if n < len(sx) else None, sf[n] if n < len(sf) else n % 2)
                            else:
                                v = it - 3
                                st.wake_marks.append([v, len(st.slices)])
                                sched.schedule(users[v])
                        if i < len(prog):
                            y = prog[i]; i += 1
                            if y == 1: st.yield0[self.idx] = st.yield0.get(self.idx, 0) + 1
                            yield (0 if y == 1 else False)
                        else:
                            yield False
            users = [UserTask(i, p) for i, p in enumerate(case["users"])]
            st.users = users
            if case.get("draws"):
                # the draws of the priority rotation (Scheduler._random is the hook the scheduler offers for this), pinned: cycled
                draws = itertools.cycle(case["draws"])
                sched._random = lambda: next(draws)

            import threading as _real_threading
            def on_scheduler_thread():
                # the REAL interpreter thread executing this code is the OS thread the scheduler's run() was started on
                # (Scheduler._thread, created by the real runThreaded()), and recoco's own view agrees
                th = sched._thread
                return (th is not None and th.mt is not None and _real_threading.get_ident() == th.mt.real.ident
                        and recoco.threading.current_thread() is th and _real_threading.current_thread() is th)
            class HandedOverBase(BaseException):
                """a BaseException (not an Exception) raised by a handed-over function"""
            EXC = {"IndexError": IndexError, "KeyError": KeyError, "ValueError": ValueError, "RuntimeError": RuntimeError,
                   "StopIteration": StopIteration, "GeneratorExit": GeneratorExit, "BaseExc": HandedOverBase}
            falsy_cb = bool(case.get("falsy_cb"))
            class Handler:
                """the callable a submitter hands over — ONE object per submitter, reused for all its hand-overs; `same`
                hand-overs pass no arguments at all (identical (func, args, kw) triples in the queue)"""
                def __init__(self, by): self.by = by; self.same = collections.deque()
                def __len__(self): return 0 if falsy_cb else 1           # a callable that is also an empty container
                def __call__(self, *a, **k):
                    if not a and not k:
                        if not self.same: st.bad_args.append([self.by, "same call without a pending hand-over"]); return
                        by, seq, exc = self.same.popleft()
                    else:
                        try:
                            by, seq, exc = (lambda by, seq, exc=None: (by, seq, exc))(*a, **k)
                        except TypeError:
                            st.bad_args.append([self.by, "args=%r kw=%r" % (a, sorted(k))]); return
                        if by != self.by or not isinstance(seq, int): st.bad_args.append([self.by, [by, seq]])
                    ctl.yield_point(("cb", by, seq))
                    who = ctl.me()
                    tid = tid_of(who.name) if who is not None else -1
                    if tid == 0 and not on_scheduler_thread(): tid = -2
                    st.executed.append([by, seq, tid])
                    if insec: st.insec_violations.append(["cb", by, seq, sorted(insec)])
                    if exc: raise EXC[exc]("raised by a handed-over function")
            handlers = {}
            def handler(by):
                if by not in handlers: handlers[by] = Handler(by)
                return handlers[by]
            class Src:
                def __init__(self, f): self.raiseEvent = f
            corestub = _Stub(); corestub.scheduler = sched
            corestub.call_later = functools.partial(pcore.POXCore.call_later, corestub)
            def hand_over(by, seq, exc, form):
                """all the ways of handing a function over: Scheduler.callLater / core.callLater / core.call_later /
                core.raiseLater, arguments positional or by keyword, or no arguments at all"""
                H = handler(by)
                if form == 0: sched.callLater(H, by, seq, exc)
                elif form == 1: sched.callLater(H, by=by, seq=seq, exc=exc)
                elif form == 2: pcore.POXCore.callLater(corestub, H, by, seq, exc)
                elif form == 3: pcore.POXCore.call_later(corestub, H, seq=seq, exc=exc, by=by)
                elif form == 4: pcore.POXCore.raiseLater(corestub, Src(H), by, seq, exc=exc)
                else:
                    H.same.append((by, seq, exc)); sched.callLater(H)

            own_sync = {}
            def synchronizer(tid):
                """the thread's context manager: scheduler.synchronized() (one per thread, kept by the scheduler), or a Synchronizer
                the thread made itself — by keyword, or relying on the default scheduler"""
                f = case.get("syncform", 0)
                if not f: return sched.synchronized()
                if tid not in own_sync:
                    own_sync[tid] = recoco.Synchronizer(scheduler=sched) if f == 1 else recoco.Synchronizer()
                return own_sync[tid]
            def foreign(i, prog):
                tid, nsub, depth = 2 + i, 0, 0
                for op in prog:
                    ctl.yield_point(("begin", i))
                    o = op["o"]
                    if o == "callLater":
                        st.submitted.append([tid, nsub])
                        hand_over(tid, nsub, op.get("x"), op.get("f", (0, 2, 4)[nsub % 3]))
                        nsub += 1
                    elif o == "schedule":
                        st.wake_marks.append([op["t"], len(st.slices)])      # the task must run (again) after this point
                        u, f = users[op["t"]], op.get("f", 0)
                        if f == 0: sched.schedule(u)
                        elif f == 1: sched.schedule(task=u, first=False)
                        elif f == 2: u.start(sched)
                        else: u.start(scheduler=sched, fast=False)
                    elif o == "syncEnter":
                        s = synchronizer(tid); syncs[tid] = s
                        s.__enter__()
                        depth += 1
                        insec.add(tid)
                    elif o in ("syncExit", "syncExitExc"):
                        s = synchronizer(tid)
                        depth -= 1
                        if depth == 0: insec.discard(tid)
                        if o == "syncExit": s.__exit__(None, None, None)
                        else:
                            # this level of `with scheduler.synchronized():` is left by an exception that the enclosing code
                            # catches: the context manager sees the exception and does not suppress it
                            exc = ValueError("left by exception")
                            s.__exit__(ValueError, exc, None)
                st.completed[i] = True
            st.completed = [False] * nf
            fthreads = [ctl.spawn("F%d" % i, functools.partial(foreign, i, p)) for i, p in enumerate(case["progs"])]

            def pending():
                return bool(ready_q.size() or any(q.size() for q in calls_q()) or any(q.qsize() for q in incoming))
            def on_step(c):
                r = ready_q.peek()
                if len(set(map(id, r))) != len(r): st.dup_ready = True
            ctl.on_step = on_step
            choice_info = []
            def policy(c, en):
                if en:
                    t = chooser.pick(c, en)
                    if want_choices:
                        choice_info.append(([x.name for x in en], t.name, self._at_action(t.key)))
                    return t
                fdone = all(t.done for t in fthreads)
                pend = pending()
                if fdone and not pend: return ("stop", "quiescent")
                cands = sorted((t for t in c.threads if not t.done and t.timeout), key=lambda t: t.name)
                if not cands or len(c.timeouts) >= TIMEOUT_LIMIT:
                    return ("stop", "deadlock")
                t = cands[len(c.timeouts) % len(cands)]
                st.timeouts.append([tid_of(t.name), bool(pend)])
                if want_choices: choice_info.append(([], t.name, False))
                return ("timeout", t)
            import io, contextlib
            sink = io.StringIO()                   # Scheduler.cycle print()s when a task raises; keep stdout for the protocol
            self._redir = contextlib.ExitStack()
            self._redir.enter_context(contextlib.redirect_stdout(sink)); self._redir.enter_context(contextlib.redirect_stderr(sink))
            status = ctl.run(policy)
            for t in ctl.threads:
                # an exception raised BY HARNESS CODE (an attribute of the real classes it reads is gone, ...) is a broken tie, not
                # an input on which the property fails; exceptions raised by the code under test (or on purpose by a handed-over
                # function) are observables
                if t.error and t.origin and os.path.basename(t.origin.split(":")[0]) == "c07.py" and "raised by a handed-over function" not in t.error:
                    raise HarnessError("harness code failed in thread %s at %s: %s" % (t.name, t.origin, t.error))
            # ---- observables at the end of the controlled run
            def desc(t, depth=0):
                if isinstance(t, UserTask): return "u%d" % t.idx
                if isinstance(t, recoco.CallLaterTask): return "clt"
                if isinstance(t, recoco.ScheduleTask): return "st(%s)" % (desc(t._task, depth + 1) if depth < 3 else "?")
                if isinstance(t, recoco.SyncTask):
                    for tid, s in sorted(syncs.items()):
                        if s.syncer is t: return "sync%d" % tid
                    return "sync?"
                return type(t).__name__
            def pending_calls():
                out, nth = [], {}
                for f, a, k in [e for q in calls_q() for e in q.peek()]:
                    if len(a) >= 2: out.append([a[0], a[1]])
                    elif k: out.append([k.get("by"), k.get("seq")])
                    else:
                        H = getattr(f, "__self__", f)             # Src(H).raiseEvent is H itself
                        i = nth.get(id(H), 0); nth[id(H)] = i + 1
                        q = list(getattr(H, "same", ()))
                        out.append(list(q[i][:2]) if i < len(q) else ["same", "?"])
                return out
            obs = {
                "status": status, "steps": ctl.steps,
                "raw": [[tid_of(n)] + list(k) + [1 if to else 0] for n, k, to in ctl.trace],
                "executed": st.executed, "submitted": st.submitted,
                "pending": pending_calls(),
                "ready": [desc(t) for t in ready_q.peek()],
                "slices": st.slices, "wake_marks": st.wake_marks,
                "dup_ready": st.dup_ready, "insec_violations": st.insec_violations, "wrong_thread": st.wrong_thread,
                "timeouts": st.timeouts, "bad_args": st.bad_args, "yield0": sorted(st.yield0.items()),
                "completed": st.completed,
                "thread_errors": {t.name: t.error for t in ctl.threads if t.error},
                "blocked_at": {t.name: list(t.key) for t in ctl.threads if not t.done},
            }
            if want_choices:
                prev = [None]
                for names, chosen, _ in choice_info: prev.append(chosen)
                obs["choices"], obs["prev"] = choice_info, prev
        finally:
            leaked = ctl.teardown()
            if getattr(self, "_redir", None) is not None:
                self._redir.close(); self._redir = None
            (recoco.threading, recoco.Thread, recoco.Queue, recoco.select, util.makePinger, recoco.defaultScheduler) = saved
            (recoco.deque, recoco.CallLaterTask, recoco.ScheduleTask, recoco.SyncTask) = saved_cls
            util.os = saved_os
            sys.settrace(sys_trace_saved)
        if leaked:
            common.log("C07: managed threads did not unwind: %s" % leaked)
        self.stats["runs"] += 1; self.stats["steps"] += ctl.steps; self.stats[status] += 1
        if status == "budget":
            # a run that does not end is the harness's fault (exit 2) — unless the model, asked about the same trace, says that
            # the code has left the protocol: then the code keeps taking steps the protocol does not have (a runaway)
            if self.model_request2(case, obs) is None and (case.get("prio") or case.get("draws")):
                # an oracle-only case (priorities < 1 are not in the model): judge the same programs and schedule with ordinary
                # priorities, which the model can be asked about; if that run is fine the overrun cannot be judged (exit 2)
                alt = {k: v for k, v in case.items() if k not in ("prio", "draws")}
                aobs = self.run_threads(alt, want_choices=want_choices)
                if not aobs.get("runaway") and self.oracle_threads(alt, aobs) is None:
                    raise Infra("step budget exceeded (%d steps) in a case the model does not cover" % ctl.steps)
                aobs["substituted"] = "priorities dropped: the run with priorities exceeded the step budget"
                return aobs
            at = self.budget_divergence(case, obs)
            if at is None: raise Infra("step budget exceeded (%d steps)" % ctl.steps)
            obs["runaway"] = at
            obs["raw"] = obs["raw"][:at[0] + 40]
        return obs

    def budget_divergence(self, case, obs):
        try:
            if self._own_driver is None: self._own_driver = common.Driver(self.driver)
            req = self.model_request2(case, obs)
            resp = self._own_driver.ask(req)
        except Exception:
            return None
        if resp.get("ok") or "error" in resp: return None
        n = resp.get("at")
        if not isinstance(n, int) or n > 1000: return None         # only a divergence EARLY in the run explains a runaway
        return [n, str(resp.get("model_site"))[:200]]

    def _at_action(self, key):
        """is a thread parked at `key` about to perform something the model knows as an action?"""
        if key[0] in ("user", "cb", "begin"): return True
        if key[0] == "L": return True
        return key[0] in ("P", "R")

    # ------------------------------------------------------------------ raw trace -> (tid, site, timeout)
    def map_trace(self, raw):
        tab = self.table()
        out = []
        for ev in raw:
            tid, kind, to = ev[0], ev[1], ev[-1]
            if kind == "begin": out.append([tid, "f_begin", 0])
            elif kind == "user": out.append([tid, "user_body", 0])
            elif kind == "cb": out.append([tid, "clt_call", 0])
            elif kind in ("user_end", "boot"): pass
            elif kind == "L":
                ent = tab.get((ev[2], ev[3]))
                if ent and "L" in ent["acts"]: out.append([tid, ent["acts"]["L"], to])
            elif kind == "R":
                cls = "%s@%s" % (ev[2], ev[3])
                sites = SITE_CLASS.get(cls)
                if not sites and ev[2] == "deque.len" and ev[3] == "calls":
                    continue            # the call queue was found NON-empty: no effect, and the popleft that follows is validated
                if ev[2] == "deque.len" and ev[3] == "ready" and sites:
                    sites = sites + ["skip"]      # the ready queue found NON-empty: run()'s loop test where the model has it, else no step
                out.append([tid, "|".join(sites) if sites else "unmapped:%s in %s:%s" % (cls, ev[4], ev[5]), to])
            elif kind == "P":
                op, q, ln = ev[2], ev[3], ev[4]
                ent = tab.get((q, ln))
                if ent is None:
                    out.append([tid, "unmapped:%s@%s:%d" % (op, q, ln), to])      # a shared operation the model does not know
                elif op in ent["acts"]:
                    out.append([tid, ent["acts"][op], to])
                elif ent["tags"] <= {"act"}:
                    out.append([tid, "unmapped:%s@%s:%d" % (op, q, ln), to])      # different primitive than modelled here
                # else: a statement tagged thread-local / not modelled: dropped
        return out

    # ------------------------------------------------------------------ implementation: cooperative Lock
    def lock_corpus(self):
        cases = []
        A = lambda t, l, b=1: ["acq", t, l, b]
        R = lambda t, l: ["rel", t, l]
        Y = lambda t: ["yield", t]
        # all interleavings (as scheduler orders) are produced by the real scheduler; the programs enumerate
        # acquire/release orders of 2..4 tasks on 1..2 locks
        progs2 = [[["acq", 0, 1], ["rel", 0]], [["acq", 0, 1], ["yield"], ["rel", 0]], [["acq", 0, 0], ["rel", 0]],
                  [["acq", 0, 1], ["acq", 1, 1], ["rel", 1], ["rel", 0]], [["acq", 1, 1], ["acq", 0, 1], ["rel", 0], ["rel", 1]],
                  [["rel", 0]], [["acq", 0, 1], ["rel", 0], ["rel", 0]]]
        for nt in (2, 3):
            for combo in itertools.product(range(len(progs2)), repeat=nt):
                if nt == 3 and sum(combo) % 5: continue
                for init in ([0, 0], [1, 0]):
                    if init[0] and sum(combo) % 3: continue
                    cases.append({"kind": "lock", "init": init, "progs": [progs2[i] for i in combo], "extrel": init[0]})
        # try-lock histories: a holder, a task whose non-blocking acquire fails (and that goes on without the lock), later
        # blocking acquirers; on 1 and 2 locks
        hold = [["acq", 0, 1], ["yield"], ["rel", 0]]
        tryl = [["acq", 0, 0], ["yield"], ["yield"]]
        late = [["yield"], ["yield"], ["acq", 0, 1], ["rel", 0]]
        for progs in ([hold, tryl], [hold, tryl, late], [hold, tryl, tryl, late], [tryl, hold, late],
                      [hold, [["acq", 0, 0], ["acq", 1, 1], ["yield"], ["rel", 1]], late, [["acq", 1, 0], ["yield"]]]):
            cases.append({"kind": "lock", "init": [0, 0], "progs": progs, "extrel": 0})
            for aform in range(1, 6):                    # acquire(0) / acquire(1) / acquire(blocking=...) / acquire()
                cases.append({"kind": "lock", "init": [0, 0], "progs": progs, "extrel": 0, "aform": aform})
        for combo in itertools.product([0, 1, 3], repeat=4):
            cases.append({"kind": "lock", "init": [0, 0], "progs": [progs2[i] for i in combo], "extrel": 0})
        return cases

    def gen_lock_cases(self, rng, n):
        for _ in range(n):
            nt, nl = rng.choice([2, 3, 4]), rng.choice([1, 2])
            progs = []
            for _ in range(nt):
                p, held = [], []
                for _ in range(rng.randrange(1, 7)):
                    c = rng.random()
                    if c < 0.45:
                        l = rng.randrange(nl); b = 1 if rng.random() < 0.65 else 0
                        p.append(["acq", l, b])
                        if b: held.append(l)                      # after a try-lock the task does not assume it owns the lock
                    elif c < 0.8 and held: p.append(["rel", held.pop(rng.randrange(len(held)))])
                    elif c < 0.9: p.append(["yield"])
                    else: p.append(["rel", rng.randrange(nl)])
                progs.append(p)
            init = [1 if rng.random() < 0.15 else 0 for _ in range(nl)]
            c = {"kind": "lock", "init": init, "progs": progs, "extrel": 1 if any(init) else 0}
            if rng.random() < 0.4: c["aform"] = rng.randrange(1, 6)
            yield c

    def run_lock(self, case):
        """tasks run their programs of `yield lock.acquire(b)` / `yield lock.release()` / `yield 0` under a real
        Scheduler (inline hub, never started: the harness calls cycle() while something is ready)"""
        recoco = self.recoco
        saved_default = recoco.defaultScheduler
        sched = recoco.Scheduler(isDefaultScheduler=True, startInThread=False, threaded_selecthub=False)
        hub = sched._selectHub
        class CountPinger:
            def __init__(s): s.n = 0
            def ping(s): s.n += 1
        realp = hub._pinger; hub._pinger = CountPinger()
        try:
            locks = [(recoco.Lock(bool(b)) if case.get("aform") else recoco.Lock(locked=bool(b))) if b else
                     (recoco.Lock() if case.get("aform") else recoco.Lock(locked=False)) for b in case["init"]]
            log = []           # operations in execution order with what the real objects show afterwards
            tasks = []
            def state(li):
                l = locks[li]
                h = l._locked
                hd = None if (h is None or h is False) else ("flag" if h is True else h.idx)
                return hd, sorted(t.idx for t in l._waiting)
            falsy = bool(case.get("falsy"))
            aform = int(case.get("aform", 0))
            class T(recoco.BaseTask):
                def __init__(self, idx, prog):
                    self.idx, self.prog = idx, prog
                    recoco.BaseTask.__init__(self)
                def __len__(self):                       # falsy variant: a task that is also an empty container
                    if falsy: return 0
                    raise TypeError("object of type 'T' has no len()")
                def __bool__(self):
                    return not falsy
                def run(self):
                    for op in self.prog:
                        if op[0] == "acq":
                            li = op[1]
                            log.append({"k": "acq", "t": self.idx, "l": li, "b": op[2], "at": len(log)})
                            me = log[-1]
                            b, form = bool(op[2]), (aform + len(log)) % 5 if aform else 0
                            # calling conventions: bool / int, positional / keyword, the default
                            if form == 0: blk = locks[li].acquire(b)
                            elif form == 1: blk = locks[li].acquire(int(b))
                            elif form == 2: blk = locks[li].acquire(blocking=b)
                            elif form == 3: blk = locks[li].acquire(blocking=int(b))
                            else: blk = locks[li].acquire() if b else locks[li].acquire(0)
                            r = yield blk
                            me["rv"] = r; me["resumed_at"] = len(log)
                        elif op[0] == "rel":
                            li = op[1]
                            before = set(t.idx for t in locks[li]._waiting)
                            log.append({"k": "rel", "t": self.idx, "l": li})
                            me = log[-1]
                            try:
                                r = yield locks[li].release()
                                me["rv"] = r
                            finally:
                                pass
                            h = locks[li]._locked
                            me["before"] = sorted(before)
                        else:
                            log.append({"k": "yield", "t": self.idx})
                            yield 0
                    log.append({"k": "end", "t": self.idx})
                    yield False
            tasks = [T(i, p) for i, p in enumerate(case["progs"])]
            # observe the lock right after every _do_acquire/_do_release through thin wrappers (no behaviour change)
            steps = []
            for li, l in enumerate(locks): l_index = {id(l): li for li, l in enumerate(locks)}
            orig_acq, orig_rel = recoco.Lock._do_acquire, recoco.Lock._do_release
            def w_acq(self_, task, scheduler, blocking):
                li = l_index[id(self_)]
                r = orig_acq(self_, task, scheduler, blocking)
                hd, wt = state(li)
                steps.append({"k": "acq", "t": task.idx, "l": li, "b": 1 if blocking else 0,
                              "res": ("true" if task.rv is True else "false") if r is True else "parked", "holder": hd, "waiting": wt})
                return r
            def w_rel(self_, task, scheduler):
                li = l_index[id(self_)]
                before = set(t.idx for t in self_._waiting)
                rbefore = list(scheduler._ready)
                try:
                    r = orig_rel(self_, task, scheduler)
                except RuntimeError:
                    hd, wt = state(li)
                    steps.append({"k": "rel", "t": task.idx, "l": li, "res": "RuntimeError", "holder": hd, "waiting": wt, "choice": 0})
                    raise
                hd, wt = state(li)
                gone = sorted(before - set(wt))
                woken = [t.idx for t in scheduler._ready if t not in rbefore]
                steps.append({"k": "rel", "t": task.idx, "l": li, "res": "released", "holder": hd, "waiting": wt,
                              "woken": gone[0] if len(gone) == 1 else (None if not gone else gone), "choice": gone[0] if gone else 0,
                              "scheduled": woken, "ret": r is True})
                return r
            recoco.Lock._do_acquire, recoco.Lock._do_release = w_acq, w_rel
            try:
                for t in tasks: t.start(scheduler=sched, fast=True)
                n = 0
                import io, contextlib
                sink = io.StringIO()
                with contextlib.redirect_stdout(sink), contextlib.redirect_stderr(sink):
                    while len(sched._ready) and n < 2000:
                        sched.cycle(); n += 1
                    if case.get("extrel"):
                        # the party in charge of a lock created with locked=True releases it from a helper task, then all run on
                        class Rel(recoco.BaseTask):
                            idx = 99
                            def run(self_):
                                for li, b in enumerate(case["init"]):
                                    if b: yield locks[li].release()
                                yield False
                        Rel().start(scheduler=sched, fast=True)
                        while len(sched._ready) and n < 4000:
                            sched.cycle(); n += 1
            finally:
                recoco.Lock._do_acquire, recoco.Lock._do_release = orig_acq, orig_rel
            final = [state(li) for li in range(len(locks))]
            ended = sorted(e["t"] for e in log if e["k"] == "end")
            return {"steps": steps, "final": [[h, w] for h, w in final], "ended": ended, "cycles": n,
                    "rvs": [[e["t"], e["l"], e.get("rv", "never")] for e in log if e["k"] == "acq"]}
        finally:
            hub._pinger = realp
            recoco.defaultScheduler = saved_default

    # ------------------------------------------------------------------ implementation: hub return vs schedule()
    def run_hubrace(self, case):
        """A task parked in the THREADED select hub (`yield Select([p2])`); thread A makes p2 readable (the hub thread will
        `_return` the task: `fast_schedule` on the hub thread), thread B calls `scheduler.schedule(task)` (a ScheduleTask does
        the membership test + `fast_schedule` on the scheduler thread).  Random schedule from `seed`.  Outside the Lean model's
        reachable states (user tasks do not park in the hub there); witness: Pox.C07.schedule_hub_race_defect."""
        import random
        recoco, util = self.recoco, self.util
        rng = random.Random(case["seed"])
        ctl = ft.Controller(ft.RandomChooser(rng), trace_funcs=self.trace_funcs, yield_lines=(),
                            max_steps=MAX_STEPS, frame_files=(self.rfile,))     # pre-emption at the operations on shared objects
        def namer(th):
            n = getattr(th._target, "__name__", "")
            return "H" if n == "_threadProc" else "S" if n == "run" else None
        prim = ft.make_primitives(ctl, namer)
        saved = (recoco.threading, recoco.Thread, recoco.Queue, recoco.select, util.makePinger, recoco.defaultScheduler)
        sys_trace_saved = sys.gettrace(); sys.settrace(None)
        saved_deque = recoco.deque
        recoco.threading, recoco.Thread, recoco.Queue, recoco.select = prim.threading, prim.Thread, prim.Queue, prim.select_module
        recoco.deque = prim.Deque
        util.makePinger = lambda: prim.Pinger()
        import io, contextlib
        sink = io.StringIO()
        redir = contextlib.ExitStack()
        try:
            sched = recoco.Scheduler(isDefaultScheduler=True, startInThread=True, daemon=True, threaded_selecthub=True)
            p2 = prim.Pinger()
            runs, dup = [], []
            class T(recoco.BaseTask):
                def run(self):
                    while True:
                        yield recoco.Select([p2], None, None)
                        runs.append(1)
                        if p2.count: p2.pongAll()
            t = T(); t.start(fast=True)
            ready_q = [v for n, v in sorted(vars(sched).items()) if isinstance(v, prim.Deque)][0]
            def on_step(c):
                r = ready_q.peek()
                if len(set(map(id, r))) != len(r): dup.append(c.steps)
            ctl.on_step = on_step
            parked = lambda: t in sched._selectHub._tasks
            def A():
                ctl.yield_point(("begin", 0), blocked=parked); p2.ping()
            def B():
                ctl.yield_point(("begin", 1), blocked=parked); sched.schedule(t)
            ctl.spawn("F0", A); ctl.spawn("F1", B)
            redir.enter_context(contextlib.redirect_stdout(sink)); redir.enter_context(contextlib.redirect_stderr(sink))
            status = ctl.run(lambda c, en: c.chooser.pick(c, en) if en else ("stop", "quiescent"))
            rel = [[n] + [str(x) for x in k] for n, k, _ in ctl.trace if k[0] == "P" and str(k[1]).startswith("deque.")]
            return {"status": status, "dup_ready_at_steps": dup[:3], "task_slices": len(runs), "steps": ctl.steps,
                    "ready_sites": rel[-14:], "thread_errors": {x.name: x.error for x in ctl.threads if x.error}}
        finally:
            ctl.teardown(); redir.close()
            (recoco.threading, recoco.Thread, recoco.Queue, recoco.select, util.makePinger, recoco.defaultScheduler) = saved
            recoco.deque = saved_deque
            sys.settrace(sys_trace_saved)

    # ------------------------------------------------------------------ implementation: two scheduler instances
    def run_twosched(self, case):
        """a default scheduler and a second one (neither running); a function and a task are handed to the SECOND one from a thread
        that is neither's: nothing may appear in the default scheduler's ready queue, and the second one's must hold the helpers.
        Real primitives: the hand-over runs in a watched thread (a hand-over that blocks for ever is an observable, not a hang)."""
        recoco = self.recoco
        saved = recoco.defaultScheduler
        import threading as _th
        res = {}
        try:
            d = recoco.Scheduler(isDefaultScheduler=True, startInThread=False, threaded_selecthub=False)
            s2 = recoco.Scheduler(isDefaultScheduler=False, startInThread=False, threaded_selecthub=False)
            class T(recoco.BaseTask):
                def run(self): yield False
            ready = lambda s: [v for n, v in sorted(vars(s).items()) if isinstance(v, collections.deque)][0]
            before = (len(ready(d)), len(ready(s2)))
            def hand():
                try:
                    s2.callLater(lambda: None)
                    s2.schedule(T())
                    res["done"] = True
                except BaseException as e:
                    res["error"] = "%s: %s" % (type(e).__name__, e)
            th = _th.Thread(target=hand, daemon=True); th.start(); th.join(10)
            after = (len(ready(d)), len(ready(s2)))
            return {"leaked": after[0] - before[0], "own": after[1] - before[1], "hung": th.is_alive(), "error": res.get("error")}
        finally:
            recoco.defaultScheduler = saved

    # ------------------------------------------------------------------ implementation: pinger
    def run_pinger(self, case):
        """the real PipePinger on a real OS pipe: ops 0 = ping, 1 = pongAll.  `pongAll` is called only when select reports
        the pipe readable (as the scheduler and the hub do); the read end is switched to non-blocking for the call so that a
        pongAll that would block — the thread would hang without any time-out — shows up as BlockingIOError instead."""
        p = self.util.make_pinger()
        out = []
        for o in case["ops"]:
            if o == 0:
                p.ping()
            else:
                r, _, _ = _select.select([p], [], [], 0)
                if not r:
                    return {"blocks": True, "readable": out, "why": "pongAll on an empty pipe"}
                os.set_blocking(p.fileno(), False)
                try:
                    p.pongAll()
                except BlockingIOError:
                    return {"blocks": True, "readable": out, "why": "pongAll blocks although the pipe was readable"}
                finally:
                    os.set_blocking(p.fileno(), True)
            r, _, _ = _select.select([p], [], [], 0)
            out.append(bool(r))
        return {"readable": out}

    # ------------------------------------------------------------------ Check interface
    def impl(self, case):
        k = case["kind"]
        if k == "threads":
            try:
                obs = self.run_threads(case)
            except Infra as e:
                common.log("C07 infrastructure: %s on %s" % (e, json.dumps(case)[:300]))
                raise SystemExit(2)
            if obs["status"] == "deadlock":
                v = self.confirm_deadlock(case, obs)
                obs["deadlock_verdict"] = v
                if v == "harness":
                    common.log("C07 infrastructure: harness deadlock that the model does not share: %s" % json.dumps(case)[:300])
                    raise SystemExit(2)
            return obs
        if k == "lock": return self.run_lock(case)
        if k == "pinger": return self.run_pinger(case)
        if k == "hubrace": return self.run_hubrace(case)
        if k == "twosched": return self.run_twosched(case)
        raise ValueError(k)

    def confirm_deadlock(self, case, obs):
        """The controlled run ended with threads blocked for ever.  Ask the model about the same trace:
        'model-deadlock'  the model accepts the trace and every blocked thread is, in the model, at the same operation
                          and not enabled either: a genuine deadlock of the protocol (a finding);
        'divergence'      a blocked thread waits at an operation the model does not perform there (or the trace is
                          rejected): the code is not the modelled code (reported through the oracle/disagreement);
        'harness'         same operation, but enabled in the model: the forced scheduler is at fault (exit 2);
        'unknown'         the model could not be asked (no driver)."""
        try:
            if self._own_driver is None: self._own_driver = common.Driver(self.driver)
            resp = self._own_driver.ask(self.model_request2(case, obs))
            if "error" in resp or not resp.get("ok"): return "divergence"
            nxt = {t: s for t, s in resp["next"]}
            verdict = "model-deadlock"
            for name, key in sorted(obs["blocked_at"].items()):
                tid = tid_of(name)
                if name in ("S", "H") and tid not in resp["enabled"] and self._polls(key): continue   # parked in its polling wait
                m = self.map_trace([[tid] + list(key) + [0]])
                if not m or nxt.get(tid) not in m[0][1].split("|"): return "divergence"
                if tid in resp["enabled"]: verdict = "harness"
            return verdict
        except Exception:
            return "unknown"

    @staticmethod
    def _polls(key):
        return key[0] in ("P", "R") and key[1] in ("Event.wait", "select")

    def model_request(self, case):
        k = case["kind"]
        if k == "pinger": return {"op": "pinger", "ops": case["ops"]}
        return None

    def model_request2(self, case, obs):
        k = case["kind"]
        if k == "threads":
            if any(p is not None and p < 1 for p in case.get("prio") or []):
                return None          # the priority rotation (priority < 1) is not in the model: these runs are judged by the oracle only
            progs = [[({"o": "syncExit"} if op["o"] == "syncExitExc" else op) for op in p] for p in case["progs"]]
            return {"op": "replay", "threaded": bool(case["threaded"]), "users": case["users"], "progs": progs,
                    "trace": self.map_trace(obs["raw"])}
        if k == "lock":
            ops = []
            for s in obs["steps"]:
                if s["k"] == "acq": ops.append({"k": "acq", "t": s["t"], "l": s["l"], "b": s["b"]})
                else: ops.append({"k": "rel", "l": s["l"], "choice": s["choice"]})
            return {"op": "lock", "init": case["init"], "ops": ops}
        return None

    def impl_view(self, case, obs):
        k = case["kind"]
        if k == "threads":
            return {"ok": True, "executed": obs["executed"], "pending": obs["pending"], "ready": obs["ready"],
                    "slices": obs["slices"],
                    "crashed": sorted(int(n[1:]) for n in obs["thread_errors"] if n.startswith("F")),
                    "other_thread_errors": sorted(n for n in obs["thread_errors"] if not n.startswith("F"))}
        if k == "lock":
            out = []
            for s in obs["steps"]:
                if s["k"] == "acq": out.append({"res": s["res"], "holder": s["holder"], "waiting": s["waiting"]})
                elif s["res"] == "RuntimeError": out.append({"res": "RuntimeError", "holder": s["holder"], "waiting": s["waiting"]})
                else: out.append({"res": "released", "woken": s["woken"], "holder": s["holder"], "waiting": s["waiting"]})
            return {"steps": out}
        if k == "pinger":
            return {"blocks": True} if obs.get("blocks") else {"readable": obs["readable"]}
        return obs

    def model_obs(self, case, resp):
        k = case["kind"]
        if "error" in resp: return resp
        if k == "threads":
            if not resp.get("ok"):
                return {"ok": False, "rejected_at": resp.get("at"), "model_site": resp.get("model_site"),
                        "model_enabled": resp.get("model_enabled")}
            return {"ok": True, "executed": resp["executed"], "pending": resp["pending"], "ready": resp["ready"],
                    "slices": resp["slices"], "crashed": resp["crashed"], "other_thread_errors": []}
        if k == "lock":
            return {"steps": resp["steps"]}
        if k == "pinger":
            if resp.get("blocks"): return {"blocks": True}
            return {"readable": [c > 0 for c in resp["counts"]]}
        return resp

    # ------------------------------------------------------------------ the property on the real observables
    def oracle(self, case, obs):
        k = case["kind"]
        if k == "threads": return self.oracle_threads(case, obs)
        if k == "lock": return self.oracle_lock(case, obs)
        if k == "hubrace":
            if obs["dup_ready_at_steps"]: return HUBRACE_KEY.split(":", 1)[1]
            if obs["thread_errors"]: return "exception left a thread"
        if k == "twosched":
            if obs.get("hung"): return "a hand-over from a foreign thread blocks for ever"
            if obs.get("error"): return "a hand-over from a foreign thread raised " + obs["error"].split(":")[0]
            if obs["leaked"]: return TWOSCHED_KEY.split(":", 1)[1]
            if obs["own"] != 2: return "a hand-over to a scheduler did not reach its ready queue"
        if k == "pinger" and obs.get("blocks") and obs.get("why", "").startswith("pongAll blocks"):
            return "pongAll blocks although the pipe was readable (the caller hangs without a time-out)"
        return None

    def oracle_threads(self, case, obs):
        if obs.get("runaway"):
            return "the run does not end: the code keeps taking steps the hand-off protocol does not have"
        if obs["thread_errors"]:
            n, e = sorted(obs["thread_errors"].items())[0]
            return "exception left thread %s: %s" % (n, e.split(":")[0])
        named = [d for d in obs["ready"] if not d.startswith("st(")]          # ScheduleTasks are anonymous: compare the others
        if obs["dup_ready"] or len(set(named)) != len(named):
            return "a task occurs twice in the ready queue"
        y0 = dict(obs.get("yield0") or [])
        for u in set(obs["slices"]):
            # a user task sleeps until it is woken: each slice is paid for by one of its own `yield 0` or by a wake-up naming it
            # (wake-ups that find it queued already are coalesced, so fewer slices are fine — more are not)
            if obs["slices"].count(u) > y0.get(u, 0) + sum(1 for v, m in obs["wake_marks"] if v == u):
                return "a task ran more slices than its wake-ups and its own re-queues account for"
        if obs["insec_violations"]:
            return "cooperative code ran while a foreign thread was inside synchronized()"
        if obs["wrong_thread"] or any(e[2] != 0 for e in obs["executed"]):
            return "callback or task executed on a thread other than the scheduler thread"
        ex = [tuple(e[:2]) for e in obs["executed"]]
        if len(set(ex)) != len(ex):
            return "a call-later function executed twice"
        if any(tuple(e) not in set(map(tuple, obs["submitted"])) for e in ex):
            return "a call executed that was never submitted"
        for by in set(e[0] for e in ex):
            seqs = [e[1] for e in ex if e[0] == by]
            if seqs != sorted(seqs): return "calls of one submitter executed out of submission order"
        if obs.get("bad_args"):
            return "a handed-over function was called with other arguments than it was handed over with"
        if any(t[1] for t in obs["timeouts"]):
            return "pending work was only noticed by a polling time-out"
        if obs["status"] == "deadlock":
            return "deadlock: threads blocked for ever (%s)" % obs.get("deadlock_verdict")
        if obs["status"] == "quiescent":
            if sorted(ex) != sorted(map(tuple, obs["submitted"])) or obs["pending"]:
                return "a handed-over call was not executed at quiescence: lost or stranded in the queue with no wake-up pending"
            if obs["ready"]:
                return "ready queue not empty at quiescence"
            for u, mark in obs["wake_marks"]:
                if u not in obs["slices"][mark:]:
                    return "a wake-up through schedule() was lost"
        return None

    def oracle_lock(self, case, obs):
        """at most one holder; a release hands the lock to exactly one task that is WAITING for it (parked by a blocking
        acquire and not yet resumed) — a task that is not waiting never becomes owner; nobody waits while the lock is free"""
        nl = len(case["init"])
        owner = [("flag" if b else None) for b in case["init"]]      # who was last told it owns the lock
        parked = [set() for _ in range(nl)]                           # tasks whose blocking acquire parked them, not yet woken
        for s in obs["steps"]:
            li = s["l"]
            if s["k"] == "acq":
                if s["res"] == "true":
                    if owner[li] is not None: return "lock granted while another holder has not released"
                    owner[li] = s["t"]
                elif s["res"] == "parked":
                    if owner[li] is None: return "a task waits although the lock is free"
                    if not s["b"]: return "a non-blocking acquire parked the task"
                    parked[li].add(s["t"])
                else:
                    if s["b"]: return "a blocking acquire came back without the lock"
            else:
                if s["res"] == "RuntimeError":
                    if owner[li] is not None: return "release refused although the lock is held"
                    continue
                if not s.get("ret"): return "release did not keep the releasing task running"
                w = s["woken"]
                if parked[li] and not isinstance(w, int): return "release with waiters handed the lock to %s" % (w,)
                if isinstance(w, int):
                    if w not in parked[li]: return "release handed the lock to a task that is not waiting for it"
                    if s["holder"] != w or s["scheduled"] != [w]: return "woken waiter is not the new holder / not scheduled exactly once"
                    parked[li].discard(w)
                    owner[li] = w
                else:
                    if w is not None: return "release with waiters handed the lock to %s" % (w,)
                    if s["scheduled"]: return "release without waiters scheduled a task"
                    owner[li] = None
            if s["waiting"] != sorted(parked[li]): return "the lock's waiter set is not the set of tasks waiting for it"
            if s["holder"] is None and s["waiting"]: return "waiters remain while the lock is free"
            if s["holder"] != owner[li]: return "lock's holder differs from the task that was told it owns it"
        return None

    def finding_key(self, case, obs, failure):
        if case["kind"] == "hubrace" and obs.get("dup_ready_at_steps"): return HUBRACE_KEY
        if case["kind"] == "twosched" and obs.get("leaked"): return TWOSCHED_KEY
        if case["kind"] == "lock" and case.get("falsy"): return "lock:falsy-task:" + failure.split(":")[0][:70]
        return "%s:%s" % (case["kind"], failure.split(":")[0][:70])

    def nontrivial(self, case, obs):
        if case["kind"] == "threads":
            # a run is non-trivial when the schedule actually interleaved: some thread was pre-empted while enabled
            raw = obs["raw"]
            sw = sum(1 for a, b in zip(raw, raw[1:]) if a[0] != b[0])
            return sw >= 4
        if case["kind"] == "lock":
            return any(s["k"] == "acq" and s["res"] == "parked" for s in obs["steps"])
        return True

    def shrink_candidates(self, case):
        """few candidates per round (every candidate is a full run): single-element removals for short lists, halving for
        long ones (bursts), at most a dozen per round"""
        def cuts(n):
            if n <= 6: return [(j, j + 1) for j in range(n)]
            h = n // 2
            return [(0, h), (h, n), (0, max(1, n // 4)), (n - 1, n)]
        out = []
        if case["kind"] == "threads":
            for i, p in enumerate(case["progs"]):
                for a, b in cuts(len(p)):
                    q = p[:a] + p[b:]
                    d = 0; ok = True
                    for op in q:
                        d += 1 if op["o"] == "syncEnter" else -1 if op["o"] in ("syncExit", "syncExitExc") else 0
                        if d < 0: ok = False
                    if ok and d == 0:
                        c = json.loads(json.dumps(case)); c["progs"][i] = q; out.append(c)
            if case["sched"]["type"] == "preempt":
                for j in range(len(case["sched"]["points"])):
                    c = json.loads(json.dumps(case)); del c["sched"]["points"][j]; out.append(c)
        elif case["kind"] == "lock":
            for i, p in enumerate(case["progs"]):
                for a, b in cuts(len(p)):
                    c = json.loads(json.dumps(case)); del c["progs"][i][a:b]; out.append(c)
        elif case["kind"] == "pinger":
            for a, b in cuts(len(case["ops"])):
                c = json.loads(json.dumps(case)); del c["ops"][a:b]; out.append(c)
        return out[:12]

    def site_report(self):
        """every statement the translator lists, by what it is in the model: the evidence names the unmodelled ones"""
        try:
            self.table()
        except Exception:
            return None
        by, unmodelled, other = {}, [], {"lk": [], "pg": []}
        lines = {(sites_tr.key(rel, qual), i): ln for rel, qual, sts, span in self.extract for i, (t, ln) in enumerate(sts)}
        for r in self._table_raw:
            for i, it in enumerate(r["items"]):
                by[it["tag"]] = by.get(it["tag"], 0) + 1
                where = "%s:%s  %s" % (r["fn"], lines.get((r["fn"], i), "?"), it["text"])
                if it["tag"] == "nm": unmodelled.append(where)
                elif it["tag"] in other: other[it["tag"]].append(where)
        return {"statements_listed": sum(by.values()), "by_tag": by,
                "legend": {"act": "atomic action of Model/Handoff.lean", "call": "control transfer to another listed function / task / callback",
                           "loc": "thread-local, immutable configuration, or object not yet shared", "lk": "cooperative Lock, modelled in Model/CoopLock.lean",
                           "pg": "pipe pinger, modelled as byte counters and compared with the real PipePinger", "nm": "NOT modelled (listed below)"},
                "not_modelled": unmodelled, "modelled_in_CoopLock": other["lk"], "modelled_as_byte_counter": other["pg"]}

    def text_tie(self):
        """EVIDENCE ONLY (not an obligation): do the statement texts of the listed functions still equal the reviewed table the
        model was written against?  They stop doing so with every refactoring (helper extracted, local alias, early return); the
        obligations are ops_agree (bag of shared operations per function, helpers inlined) and the object-level trace validation."""
        try:
            self.table()
        except Exception as e:
            return {"available": False, "why": str(e)[:200]}
        model = {r["fn"]: [it["text"] for it in r["items"]] for r in self._table_raw}
        differ = []
        for rel, qual, sts, span in self.extract:
            k = sites_tr.key(rel, qual)
            if [REPAIRED.get(t, t) for t, ln in sts] != [REPAIRED.get(t, t) for t in model.get(k, [])]: differ.append(k)
        if differ and not getattr(self, "_text_note", False):
            self._text_note = True
            common.log("C07 note: statement texts of %d listed function(s) differ from the reviewed table (%s) — a refactoring; "
                       "the structural tie (ops_agree) and the trace validation decide" % (len(differ), ", ".join(differ)[:200]))
        return {"available": True, "texts_agree": not differ, "functions_with_other_text": differ}

    def extra_evidence(self):
        st = self.static_tie_report()
        note = self.level_note
        if st.get("established") is False:
            note = ("STATIC TIE NOT ESTABLISHED on this tree (ops_agree does not build: see evidence.static_tie.differences); the verdict "
                    "rests on the dynamic trace validation alone — every operation executed on a shared object in every forced-schedule run "
                    "(widened case set) was replayed through the model; this is only a verdict if coverage.model_disagreements = 0, which "
                    "exit 0 implies.  ") + note
        return {"sites": self.site_report(), "text_tie": self.text_tie(), "static_tie": st, "technique": self.technique, "level_text": self.level_text, "level_note": note,
                "bounded_exhaustive": getattr(self, "exhaustive_report", None),
                "forced_scheduler": {"runs": self.stats["runs"], "steps": self.stats["steps"],
                                     "quiescent": self.stats["quiescent"], "deadlock": self.stats["deadlock"]}}

    technique = ("Lean 4 proof of invariants of an interleaving transition system (one atomic action per Python statement that touches "
                 "shared state; any number of foreign threads with arbitrary programs; all interleavings incl. polling time-outs at any "
                 "moment) + structural obligation (ast translator: per hand-off function the bag of operations on shared state, helpers "
                 "inlined = the model's table, by `decide`; the statement texts are evidence only) + trace validation: real executions under "
                 "a forced thread scheduler — every operation on a shared OBJECT (ready queue, call queue, locks, event, pipes, hub queue, "
                 "creation of helper tasks) is an event and a pre-emption point, identified by the object's role, not by function or line — "
                 "are replayed through the model's `step` + independent property oracle; "
                 "cooperative Lock: sequential model, invariant over all operation sequences, op-by-op correspondence")
    level_text = ("PROVED (Lean, no sorry/own axioms), about Model/Handoff.lean, for every reachable state of every interleaving, any number of "
                  "foreign threads, threaded and inline hub: calllater_once/calllater_order (submitted = executed ++ in-flight ++ pending as "
                  "lists, no duplicates, executed only by the scheduler thread, per-submitter order); sync_excludes/sync_mutual (a foreign "
                  "thread inside synchronized() => the scheduler thread is parked in that thread's SyncTask at outlock.acquire(); at most one "
                  "thread inside); schedule_atmost1 (a task woken through schedule() — from foreign threads via ScheduleTasks and from other "
                  "cooperative tasks via the direct branch — occurs at most once in `ready`, never while it runs or is about to be re-queued; "
                  "hypothesis: no task schedules itself, and schedule_self_twice shows that documented exception is real) and "
                  "schedule_wake_kept (when a ScheduleTask ends its target is in `ready`); wake_noticed (parked in "
                  "Event.wait/select with `ready` non-empty => flag set / pipe non-empty or some thread's next action sets/pings it; deque of "
                  "calls non-empty => CallLaterTask's pipe non-empty, or a ping is the next action of some thread, or the task is in its drain "
                  "loop); incoming_noticed (the hub's own _incoming queue non-empty => hub pipe non-empty, or the ping is the scheduler "
                  "thread's next action, or the hub runner is in its drain loop — incoming_noticed_strict, using no_crash); no_crash (no "
                  "thread of any class — scheduler, hub, foreign — dies of an assertion of fast_schedule/_select or of releasing an unlocked "
                  "lock); clt_alive (the CallLaterTask is in exactly one place: ready / _incoming / hub table / being executed / being returned "
                  "by the hub runner / one pending starter); schedule_st_never_lost (a ScheduleTask that has not run is in exactly one place; "
                  "one that has run is nowhere), schedule_direct_kept, wake_never_lost (over histories: from the wake on the task is in ready, "
                  "or its slice is starting, or it has run); these need namesOk (programs only name tasks that exist before the run); hub_mode.  Call-later hand-over is modelled from foreign threads AND from cooperative code on the scheduler thread "
                  "(calllater_once numbers each submitter's calls 0,1,2,… incl. tid 0).  About Model/CoopLock.lean, lock_excl_multi: the same "
                  "for any number of locks and tasks; and for one lock: for every operation sequence of any number of tasks that only release what they "
                  "were handed: lock_excl (believers = the holder, at most one; no waiter while free), lock_handoff (release wakes exactly the "
                  "popped waiter, who becomes holder; none if nobody waits); lock_excl_needs_discipline shows the hypothesis is necessary. "
                  "TIED to the source on every run by (a) ops_agree (Properties/C07Tie.lean, the only module that depends on the working tree): "
                  "per entry point of the hand-off protocol, the SET of operations on shared state `op@role` (deque/set/lock/event/queue/"
                  "pinger operations — called or picked as bound methods —, with, contains, attribute stores, object creation, dynamic "
                  "dispatch, yield/raise/assert; role = the shared object, seen through local aliases and parameters; local objects and "
                  "attributes nothing reads are not shared state), over the transitive closure of the calls inside recoco.py/core.py/"
                  "util.py, regenerated by the ast translator, equals the model's table (an operation on a shared object that appears, "
                  "disappears or moves to another object is seen; split / merged helpers and loops, renames, log and debug bookkeeping, "
                  "reordered branches are not); when it does not hold the evidence says STATIC TIE NOT ESTABLISHED (evidence.static_tie) "
                  "and the verdict rests on (b), run on a widened case set; ops_cover: every action the model anchors in a function is in "
                  "that function's set, sites_anchored: every model action is anchored at exactly "
                  "one statement of the reviewed statement table (whose TEXTS are evidence only: evidence.text_tie); (b) trace validation: in "
                  "each forced-schedule run of the real Scheduler/SelectHub/CallLaterTask/ScheduleTask/Synchronizer every operation on a "
                  "shared object is an event; the run is replayed event by event through `step`: each event must be the model's next action "
                  "of that thread and enabled, and the run must end in the same observables (this ties ORDER and CONDITIONS); the real Lock is compared operation by operation with the model.  TESTED only (oracle on the real "
                  "runs): callbacks run exactly once on the scheduler thread in order, no duplicate in `ready`, no cooperative code inside a "
                  "foreign thread's section, no wake-up noticed only by time-out, quiescence reached without deadlock.")
    level_note = ("HOW THE MODEL IS TIED TO THE CODE, exactly: the transition system of Model/Handoff.lean is tied to recoco.py by the DYNAMIC trace "
                  "validation only — a correspondence on every executed case: each operation on a shared object must be the model's next "
                  "action of that thread and be enabled, and the run must end in the same observables; ORDER, CONDITIONS, MULTIPLICITY and LOCK "
                  "SCOPE of the operations are tied by it and by nothing else.  The static tie (ops_agree) is a coarse, flow-insensitive, "
                  "reorder-insensitive FINGERPRINT — equality of a reviewed table with a regenerated per-entry-point SET of `op@role[locked]` "
                  "elements: it detects operations on shared objects that appear, disappear, move to another object or in/out of a `with` "
                  "body (incl. subscript stores), entry points that vanish, and new functions outside the entry points' call closure that "
                  "touch the protocol's objects (row <unlisted>); it is blind to order, multiplicity, branch conditions and plain reads of "
                  "shared attributes (len(_ready), `_callLaterTask is None`).  ops_cover (model action -> element of its function's set), "
                  "ops_accounted (element -> model action or the commented `ignored` list) and sites_anchored are consistency statements "
                  "about hand-written tables; nothing in Lean relates `siteOp s` to what `step` does at `s` — that relation is what the "
                  "trace validation tests.  When ops_agree does not hold (evidence.static_tie) the verdict rests on the trace validation "
                  "alone, on a widened case set.  "
                  "Partial with respect to the runtime, and stated as such: the theorems are about the hand-written site-level model; that each "
                  "site is atomic rests on the GIL (C-level deque/Lock/Event/pipe operations are not interleaved); trace validation shows that "
                  "the real executions that were run are model executions, never the converse, and the schedules explored are bounded "
                  "(PCT/random for the seeded cases; in the thorough tier every schedule with <= 2 pre-emptions of the listed 1-3-thread "
                  "scenarios, see evidence.bounded_exhaustive, pre-emption points = model actions and primitive operations only — statements "
                  "tagged thread-local are not pre-emption points, which is sound because they commute).  Threads run under a forced scheduler "
                  "(one OS thread at a time, virtual blocking, Lock/Event/Queue/pinger/select replaced by instrumented versions; the pipe "
                  "pinger's byte-counter semantics is checked separately against the real PipePinger); real OS scheduling, real time-outs, epoll "
                  "and free-threaded builds are not exercised.  Not modelled (C06's territory): timers and fd waits of ordinary tasks, "
                  "priorities < 1 (exercised on the real code with pinned draws and judged by the oracle: queued at most once, no more slices "
                  "than wake-ups and own re-queues), quit, CallBlocking, callbacks that hand over further calls; evidence.sites.not_modelled lists every statement "
                  "of the listed functions that is not modelled.  Known defect outside the model (finding C07-1, "
                  "reproduced on the real classes by the case kind `hubrace`, Lean witness schedule_hub_race_defect): schedule(t) for a task t "
                  "that is at the same time parked in the *threaded* hub races with the hub thread's own fast_schedule(t) and t is queued twice; "
                  "nothing in the tree does that.  The liveness reading of 'runs exactly "
                  "once' (eventually executed) is covered by wake_noticed + the quiescence oracle, not by a temporal theorem.")
    rule = ("threads case = (hub mode, user-task yield programs, per-foreign-thread operation lists over {callLater, schedule(u), syncEnter, "
            "syncExit, syncExitExc}, user programs over {yield False, yield 0, callLater, schedule(other user)}, schedule = PCT(seed,d,k) | "
            "random(seed) | priority order + explicit pre-emptions); per callLater: the exception the handed-over function raises (x: "
            "IndexError/KeyError/ValueError/RuntimeError/StopIteration/GeneratorExit/a BaseException subclass) and the calling convention "
            "(f: Scheduler.callLater / core.callLater / core.call_later / core.raiseLater, positional / keyword / no arguments = identical queue "
            "entries; ONE callable object per submitter); per schedule: schedule(t) / schedule(task=t, first=False) / t.start(sched) / "
            "t.start(scheduler=sched, fast=False); per case: falsy callables (falsy_cb), falsy task objects (falsy_task), the thread's own "
            "Synchronizer instead of scheduler.synchronized() (syncform), exceptions raised by hand-overs from cooperative code (sx) and the "
            "entry point each of them uses (sf: the same six forms — a cooperative task mixes Scheduler.callLater with pox.core's callLater / "
            "call_later / raiseLater in one slice), task priorities < 1 with the draws of the priority rotation pinned (prio, draws: oracle "
            "only, the rotation is not in the model); families: "
            "batches with a raising function at every position x every exception class, bursts around the pinger's read size, 'late thread' "
            "sweeps (every single pre-emption on top of two priority orders); lock case = per-task programs over {acquire(l, blocking), "
            "release(l), yield} on 1-2 locks, 2-4 tasks, acquire's calling convention (aform: bool/int, positional/keyword, default); pinger "
            "case = ping/pongAll sequence; distinct = sha1 of the canonical case; non-trivial = the executed trace switches threads at least 4 "
            "times (threads) / some task had to wait (lock)")
    trusted_base = ["Model/Handoff.lean, Model/CoopLock.lean, Model/HandoffSites.lean hand-written from recoco.py; tied to the code by the trace "
                    "validation of every executed case (order, conditions, lock scope); ops_agree is a static drift detector only (set of "
                    "op@role[locked] per entry point), ops_cover/ops_accounted/sites_anchored are table consistency",
                    "harness/translate/sites.py (entry-point list FUNCTIONS, vocabulary SHARED_OPS, PROTOCOL_ROLES, role resolution) and "
                    "harness/forcedthreads.py (forced scheduler, replaced primitives, instrumented deque)",
                    "mapping of operations on shared objects to model actions in harness/c07.py (SITE_CLASS: operation@role -> candidate actions; "
                    "the driver takes the candidate that is the model's next action of that thread; cl_isNone has no event of its own)"]
    assumptions = ["GIL: each modelled site (deque append/popleft/__contains__, attribute read/write, threading.Lock/Event operation, one-byte pipe "
                   "write / read) is atomic with respect to other threads",
                   "select returns every readable descriptor; os.read on the empty blocking pinger pipe blocks; pongAll drains up to 1024 bytes",
                   "tasks handed to schedule() are not simultaneously parked in the select hub; a task does not schedule itself; programs "
                   "only name tasks that exist before the run (namesOk: in the real code task references are objects, not numbers)",
                   "'on the scheduler thread' in calllater_once holds in the model by construction (only the scheduler thread's step appends "
                   "to `executed`); the tie is the trace validation, where every callback and task slice checks on the REAL code that "
                   "threading.current_thread() is the OS thread Scheduler.run() was started on",
                   "cooperative Lock: a task only releases a lock it was handed (same contract as threading.Lock)",
                   "cooperative Lock: task objects are truthy — `if not self._locked` tests the holder task's truthiness; a Task subclass with "
                   "a falsy __len__/__bool__ breaks exclusion on the unrepaired code (checked on the real code; repair fixes/C07-2_lock_falsy_holder.diff)",
                   "cooperative Lock model is sequential and not connected to the scheduler model: the woken waiter's fast_schedule and its "
                   "`rv = True` are checked on the real Scheduler by the lock correspondence (`scheduled == [woken]`), not proved",
                   "assert statements are live (no -O); one scheduler per run in the thread cases (a second, non-default instance is exercised by "
                   "the case kind `twosched` only: helper tasks start on their own scheduler since fix C07-3)"]


def _listed(prop, key_prefix):
    """is a finding of this property whose key starts with the prefix listed in known_findings.json (open or fixed)?"""
    try:
        d = json.load(open(os.path.join(common.VERIF, "known_findings.json")))
    except Exception:
        return False
    for f in d.get("findings", []) + d.get("fixed", []):
        if f.get("property") == prop and (str(f.get("key", "")).startswith(key_prefix) or key_prefix in str(f.get("key_regex", ""))):
            return True
    return False


class HarnessError(Exception):
    """the harness could not drive this tree (reported by run_check as a broken tie, never as a failing input)"""


class _Stub:
    pass


class _RunState:
    def __init__(self):
        self.slices, self.executed, self.submitted, self.wake_marks = [], [], [], []
        self.insec_violations, self.wrong_thread, self.timeouts = [], [], []
        self.bad_args = []
        self.yield0 = {}
        self.dup_ready = False
        self.snsub = 0
        self.completed = []


class _AllOf:
    """`(filename, firstlineno) in x` for every function of the given files"""
    def __init__(self, files): self.files = files
    def __contains__(self, k): return k[0] in self.files


CHECK = C07

if __name__ == "__main__":
    # developer entry: run a few thread cases and replay them through the driver
    import random
    chk = C07(); chk.setup()
    rng = random.Random(int(sys.argv[1]) if len(sys.argv) > 1 else 0)
    n = int(sys.argv[2]) if len(sys.argv) > 2 else 20
    d = common.Driver(chk.driver)
    import time
    t0 = time.time(); bad = 0
    cases = [c for c in chk.corpus() if c["kind"] == "threads"] + [chk.gen_threads_case(rng, big=(i % 10 == 9)) for i in range(n)]
    for c in cases:
        obs = chk.run_threads(c)
        f = chk.oracle(c, obs)
        resp = d.ask(chk.model_request2(c, obs))
        mo, iv = chk.model_obs(c, resp), chk.impl_view(c, obs)
        if f or common.canon(mo) != common.canon(iv):
            bad += 1
            print("CASE", json.dumps({k: v for k, v in c.items()}))
            print(" oracle:", f, "status", obs["status"], "steps", obs["steps"])
            print(" impl :", json.dumps(iv)); print(" model:", json.dumps(mo))
            if not mo.get("ok", True):
                tr = chk.map_trace(obs["raw"])
                at = mo.get("rejected_at", 0)
                print(" trace around:", tr[max(0, at - 12):at + 3])
            if bad > 3: break
    print("cases", len(cases), "bad", bad, "time %.1f" % (time.time() - t0), dict(chk.stats))
