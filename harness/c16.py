"""C16 — address types parse, print, compare and mask as the standards say (DESIGN §5 C16).

Real code: pox.lib.addresses (IPAddr, IPAddr6, EthAddr, parse_cidr, netmask/cidr helpers) and pox.lib.util
(dpid_to_str / str_to_dpid).  Model: lean/PoxModel/Model/Addr.lean through drv_c16.  Independent oracle: Python's
`ipaddress` module plus a few lines of reference code written from the RFCs (never from the model)."""
import ipaddress, re, struct, itertools, os
import common
from common import Check

WS = " \t\n\r\x0b\x0c"
HEX = "0123456789abcdef"


def hx(t):
    """text travels to the driver as the hex of its UTF-8 encoding and is decoded there to code points (lossless)"""
    return t.encode("utf-8").hex()


def unhx(h):
    return bytes.fromhex(h).decode("utf-8")


# characters Python's int() / str.isdigit() / isalnum() / strip() treat leniently, by the ASCII character they imitate
UNI_DIGIT = lambda d: [chr(0x660 + d), chr(0x6f0 + d), chr(0x966 + d), chr(0xff10 + d), chr(0x1d7ce + d)]   # Nd: Arabic-Indic, ext., Devanagari, fullwidth, math bold
UNI_SUPER = {1: "\u00b9", 2: "\u00b2", 3: "\u00b3", 0: "\u2070", 4: "\u2074", 5: "\u2075", 6: "\u2076", 7: "\u2077", 8: "\u2078", 9: "\u2079"}   # isdigit(), not decimal
UNI_OTHERNUM = ["\u2460", "\u2167", "\u00bd", "\u0bf0", "\u3007"]        # circled 1, roman VIII, one half, Tamil ten, ideographic zero
UNI_SPACE = ["\u00a0", "\u2003", "\u3000", "\u2028", "\u1680", "\x85", "\x1c", "\x1f", "\u200b", "\ufeff"]
UNI_MARK = ["\u0301", "\u20e3", "\u200d"]                                   # combining acute, keycap, zero-width joiner
UNI_PUNCT = {":": ["\uff1a", "\u02d0"], ".": ["\uff0e", "\u3002", "\u066b"], "/": ["\uff0f", "\u2215"], "-": ["\uff0d", "\u2010", "\u2212"], "|": ["\uff5c"]}


def uni_lookalikes(c):
    if c in "0123456789":
        d = int(c); return UNI_DIGIT(d) + [UNI_SUPER[d]]
    if c in "abcdefABCDEF":
        return [chr(0xff41 + ord(c.lower()) - 97), chr(0xff21 + ord(c.upper()) - 65), chr(0x1d41a + ord(c.lower()) - 97)]
    return UNI_PUNCT.get(c, [])


def uni_variants(t):
    """every single-position non-ASCII variant of a valid text: each character replaced by each of its look-alikes, and each
    lenient space / mark / other-number character inserted at each position (so in every field, first and last place)"""
    out = []
    for i, c in enumerate(t):
        for u in uni_lookalikes(c): out.append(t[:i] + u + t[i + 1:])
    for i in range(len(t) + 1):
        for u in UNI_SPACE + UNI_MARK + UNI_OTHERNUM[:2]: out.append(t[:i] + u + t[i:])
    return out


# ----------------------------------------------------------------------------- independent references

def rfc5952(raw):
    """canonical text of a 16-byte address, written from RFC 5952 §4 (+ §5: mixed notation for ::ffff:0:0/96)"""
    g = [int.from_bytes(raw[i:i + 2], "big") for i in range(0, 16, 2)]
    mapped = raw[:12] == b"\0" * 10 + b"\xff\xff"
    n = 6 if mapped else 8
    best_len, best_pos, i = 0, -1, 0
    while i < n:
        if g[i] == 0:
            j = i
            while j < n and g[j] == 0: j += 1
            if j - i > best_len: best_len, best_pos = j - i, i
            i = j
        else:
            i += 1
    words = ["%x" % x for x in g[:n]]
    if best_len >= 2:
        s = ":".join(words[:best_pos]) + "::" + ":".join(words[best_pos + best_len:])
    else:
        s = ":".join(words)
    if mapped:
        s += ("" if s.endswith(":") else ":") + ".".join(str(b) for b in raw[12:])
    return s


def ref_ip6(t):
    """strict RFC 4291 §2.2 parser: ipaddress.IPv6Address without zone ids; None = malformed"""
    if "%" in t or "/" in t: return None
    try:
        return ipaddress.IPv6Address(t).packed
    except ValueError:
        return None


def ref_ip4(t):
    try:
        return ipaddress.IPv4Address(t).packed
    except ValueError:
        return None


def contiguous_bits(v, w):
    """number of leading ones if v is a contiguous w-bit mask, else None"""
    for b in range(w + 1):
        if v == ((1 << b) - 1) << (w - b): return b
    return None


def ip6_class(t):
    """structural class of a malformed IPv6 text (for finding keys)"""
    if not t.isascii(): return "non-ascii"
    head = t
    if "." in t:
        head, _, tail = t.rpartition(":")
        head += ":0:0"
        # a well-formed group part with a dotted-quad tail only libc's inet_aton accepts: the IPv4 parser's defect
        if ref_ip4(tail) is None and ref_ip6(head) is not None: return "ip4-tail"
    if any(c in WS for c in head): return "whitespace"
    if "+" in head or "-" in head: return "sign"
    if "x" in head.lower(): return "0x-prefix"
    if "_" in head: return "underscore"
    if "." in t and ref_ip4(t.rpartition(":")[2]) is None: return "ip4-tail"
    if not re.fullmatch(r"[0-9a-fA-F:]*", head): return "other-chars"
    segs = head.split(":")
    if any(len(s) > 4 for s in segs): return "long-group"
    if ":::" in head: return "triple-colon"
    if (head.startswith(":") and not head.startswith("::")) or (head.endswith(":") and not head.endswith("::")):
        return "stray-colon"
    if "::" not in head and len(segs) < 8: return "too-few-groups"
    return "other"


def unsupported_valid6(t):
    """valid RFC 4291 text with a leading or trailing '::' that stands for exactly one group (`unsupported6` of the Lean spec,
    theorem ip6_parse_spec): the constructor's segment-count test (len(segs) > 8) refuses these (rejected, not mis-parsed — tolerated by the oracle and counted in the evidence)"""
    if ref_ip6(t) is None or not (t.startswith("::") or t.endswith("::")): return False
    fields = [f for f in t.split(":") if f]
    return sum(2 if "." in f else 1 for f in fields) == 7


def int_lenient(s):
    return any(c in s for c in WS + "+-_xX")


def ip4_class(t):
    if not t.isascii(): return "non-ascii"
    if t.count(".") < 3 and re.fullmatch(r"[0-9.]+", t): return "short-form"
    if re.search(r"(^|\.)0[0-9xX]", t): return "octal-or-hex"
    if any(c in WS for c in t): return "trailing-junk"
    return "other"


# the text forms of an Ethernet address EthAddr documents (6 raw bytes, 12 hex digits, xx:xx:.. / xx-xx-.. , x:x:..)
def ref_eth(t):
    """on the UTF-8 encoding of the text (EthAddr encodes a str first): six bytes are six raw bytes whatever they are"""
    b = t.encode("utf-8")
    if len(b) == 6: return b
    if not t.isascii(): return None
    if re.fullmatch(r"[0-9a-fA-F]{12}", t): return bytes.fromhex(t)
    for sep in ":-":
        if re.fullmatch(r"[0-9a-fA-F]{2}(%s[0-9a-fA-F]{2}){5}" % re.escape(sep), t):
            return bytes.fromhex(t.replace(sep, ""))
    if re.fullmatch(r"[0-9a-fA-F]{1,2}(:[0-9a-fA-F]{1,2}){5}", t):
        return bytes(int(x, 16) for x in t.split(":"))
    return None


def eth_class(t):
    if not t.isascii(): return "non-ascii"
    if int_lenient(t): return "int-leniency"
    if re.fullmatch(r"[0-9a-fA-F:]+", t) and any(len(x) > 2 for x in t.split(":")): return "long-group"
    return "other"


def rt(n):
    """an int object built at run time (never an interned / constant-folded one): `is` on it behaves like `is` in production"""
    return int(str(n)) if isinstance(n, int) and not isinstance(n, bool) else n


def excname(e):
    return {"exc": type(e).__name__}


NOREF = object()
OPTS6 = [(zd, sd, v4) for zd in (True, False) for sd in (True, False) for v4 in (None, True, False)]


class C16(Check):
    id = "C16"
    prop_module = "PoxModel.Properties.C16"
    lean_targets = ["drv_c16"]
    driver = "drv_c16"
    theorems = ["Pox.C16.mask_inverse", "Pox.C16.mask_noncontiguous_rejected", "Pox.C16.in_network_iff",
                "Pox.C16.in_network_hostbits", "Pox.C16.cidr_text", "Pox.C16.dpid_roundtrip", "Pox.C16.ip6_roundtrip",
                "Pox.C16.ip6_canonical", "Pox.C16.ip6_masks", "Pox.C16.ip6_in_network_iff", "Pox.C16.ip4_repr",
                "Pox.C16.ip4_raw_text", "Pox.C16.order_total", "Pox.C16.eth_forms", "Pox.C16.ip6_rejects_defect",
                "Pox.C16.ip6_rejects_witnesses", "Pox.C16.eth_loose12_rejected", "Pox.C16.eth_long_group_defect",
                "Pox.C16.eth_int_leniency_defect", "Pox.C16.cidr_leniency_defect",
                "Pox.C16.ip6_parse_spec", "Pox.C16.ip6_unsupported_witnesses", "Pox.C16.ip4_parse_spec", "Pox.C16.classful_inference",
                "Pox.C16.eth_parse_spec", "Pox.C16.eth_seq", "Pox.C16.eth_seq_length_defect",
                "Pox.C16.ip6_strict_iff", "Pox.C16.ip6_strict_roundtrip", "Pox.C16.eth_strict_iff", "Pox.C16.eth_seq_strict_iff",
                "Pox.C16.cidr_strict", "Pox.C16.cidr6_strict", "Pox.C16.cidr6_text", "Pox.C16.get_network", "Pox.C16.in_network_text",
                "Pox.C16.in_network6_text", "Pox.C16.ip6_num_roundtrip", "Pox.C16.ip6_parse_length", "Pox.C16.ip6_construct_print"]
    anchors = [("pox/lib/addresses.py", "_compare_helper"), ("pox/lib/addresses.py", "_AddrBase.__eq__"), ("pox/lib/addresses.py", "_AddrBase.__ne__"),
               ("pox/lib/addresses.py", "_AddrBase.__lt__"), ("pox/lib/addresses.py", "_AddrBase.__gt__"), ("pox/lib/addresses.py", "_AddrBase.__le__"),
               ("pox/lib/addresses.py", "_AddrBase.__ge__"), ("pox/lib/addresses.py", "_AddrBase.__delattr__"),
               ("pox/lib/addresses.py", "EthAddr.__init__"), ("pox/lib/addresses.py", "EthAddr.toRaw"), ("pox/lib/addresses.py", "EthAddr.raw"),
               ("pox/lib/addresses.py", "EthAddr.to_tuple"), ("pox/lib/addresses.py", "EthAddr.toStr"), ("pox/lib/addresses.py", "EthAddr.to_str"),
               ("pox/lib/addresses.py", "EthAddr.__str__"), ("pox/lib/addresses.py", "EthAddr.__hash__"), ("pox/lib/addresses.py", "EthAddr.__repr__"),
               ("pox/lib/addresses.py", "EthAddr.__setattr__"),
               ("pox/lib/addresses.py", "IPAddr.__init__"), ("pox/lib/addresses.py", "IPAddr.toSigned"), ("pox/lib/addresses.py", "IPAddr.toRaw"),
               ("pox/lib/addresses.py", "IPAddr.raw"), ("pox/lib/addresses.py", "IPAddr.toUnsigned"), ("pox/lib/addresses.py", "IPAddr.unsigned_h"),
               ("pox/lib/addresses.py", "IPAddr.unsigned_n"), ("pox/lib/addresses.py", "IPAddr.toStr"), ("pox/lib/addresses.py", "IPAddr.inNetwork"),
               ("pox/lib/addresses.py", "IPAddr.get_network"), ("pox/lib/addresses.py", "IPAddr.__str__"), ("pox/lib/addresses.py", "IPAddr.__hash__"),
               ("pox/lib/addresses.py", "IPAddr.__repr__"), ("pox/lib/addresses.py", "IPAddr.__setattr__"),
               ("pox/lib/addresses.py", "IPAddr6.from_raw"), ("pox/lib/addresses.py", "IPAddr6.from_num"), ("pox/lib/addresses.py", "IPAddr6.__init__"),
               ("pox/lib/addresses.py", "IPAddr6.raw"), ("pox/lib/addresses.py", "IPAddr6.num"), ("pox/lib/addresses.py", "IPAddr6.is_ipv4_mapped"),
               ("pox/lib/addresses.py", "IPAddr6.netmask_to_cidr"), ("pox/lib/addresses.py", "IPAddr6.cidr_to_netmask"),
               ("pox/lib/addresses.py", "IPAddr6.parse_cidr"), ("pox/lib/addresses.py", "IPAddr6.in_network"), ("pox/lib/addresses.py", "IPAddr6.to_str"),
               ("pox/lib/addresses.py", "IPAddr6.__str__"), ("pox/lib/addresses.py", "IPAddr6.__hash__"), ("pox/lib/addresses.py", "IPAddr6.__repr__"),
               ("pox/lib/addresses.py", "IPAddr6.__setattr__"),
               ("pox/lib/addresses.py", "netmask_to_cidr"), ("pox/lib/addresses.py", "cidr_to_netmask"), ("pox/lib/addresses.py", "parse_cidr"),
               ("pox/lib/addresses.py", "infer_netmask"), ("pox/lib/util.py", "str_to_dpid"), ("pox/lib/util.py", "dpid_to_str")]
    trusted_base = ["model Model/Addr.lean hand-written from addresses.py / util.py (char-level text, Python int semantics); tied by this correspondence run",
                    "socket.inet_aton / inet_ntoa are libc: the model specifies canonical dotted quads only (with fixes/C16_ip4_text.diff the code no longer calls inet_aton)",
                    "harness/c16.py detect_variant: which of the five proposed repairs the tree has is read off the source (discriminating statement per family, "
                    "exact shapes recorded in the evidence); the driver evaluates the matching model functions and the correspondence validates the choice",
                    "little-endian host (struct 'i'/'I' native formats in IPAddr)",
                    "harness references: ipaddress module, rfc5952() and the mask/membership one-liners in harness/c16.py"]
    assumptions = ["int() itself (ops `int`, `dpid_parse`) is modelled for ASCII text only; the address parsers are modelled over arbitrary code points "
                   "(text reaches the driver as UTF-8 and is decoded there), EthAddr over the UTF-8 bytes of the text as the constructor does",
                   "little-endian host", "hash() is a function of _value (read from the code: `self._value.__hash__()`)",
                   "non-text constructor forms (list/tuple/None/copy) only checked by the oracle, not modelled"]
    design_ref = "DESIGN.md §5 C16"
    technique = ("Lean 4 proof over a char-level executable model of the address classes + differential correspondence "
                 "(compiled model vs real code) + independent oracle (ipaddress / RFC reference) on the real code's observables")
    level_text = ("Theorems (all values, no bound), about the character-level model Model/Addr.lean: netmask<->prefix inverse and rejection of every "
                  "non-contiguous mask for IPv4 and IPv6 (one width-generic proof of the shift loop); IPv4/IPv6 membership <=> equal top bits AND zero host "
                  "bits of the network; parse_cidr('a.b.c.d/len') and ('a.b.c.d/netmask') for every address, length and flag; dpid string round trip for "
                  "every d < 2^64; IPv6 print->parse round trip for every 16-byte address and all 12 to_str option combinations (incl. mixed notation); "
                  "RFC 5952 shape of str(IPAddr6) (longest, leftmost zero run of length >= 2, lower-case groups without leading zeros, ::ffff:a.b.c.d for "
                  "mapped addresses); byte-order views of IPAddr; trichotomy/transitivity of <, == <=> equal bytes; every documented EthAddr text form. "
                  "Phase 2: the parser returns the RFC 4291 denotation of EVERY valid IPv6 text (ip6_parse_spec; the refused valid texts are exactly "
                  "unsupported6: leading/trailing '::' for a single group); IPAddr(text) accepts exactly the inet_ntoa texts (ip4_parse_spec); "
                  "infer_netmask / parse_cidr without a slash are the classful rules for all addresses; EthAddr(text) = reference definition "
                  "(eth_parse_spec) and the sequence constructors (eth_seq); equal => equal hash on all three types (hash_consistent). "
                  "Phase 3: for the repaired variants (fixes/C16_*.diff; which ones the tree has is read off its source) accept <=> well-formed: "
                  "ip6_strict_iff (IPAddr6(text) = a iff the text denotes a), ip6_strict_roundtrip, eth_strict_iff, eth_seq_strict_iff, cidr_strict, cidr6_strict; "
                  "the IPv4 text repair makes the code's recogniser the canonical one of ip4_parse_spec. "
                  "Phase 4: exact results of parse_cidr / IPAddr6.parse_cidr for every allow_host value and any decimal digit string (cidr_text, cidr6_text), "
                  "get_network, inNetwork(text) for both families, from_num/num, parsed addresses are 16 bytes, construct->print->construct; "
                  "hash_consistent is definitional (congruence) and not counted. The model is a set of pure functions over code points: call sequences in one "
                  "process are compared call by call with it (no result may depend on earlier calls), and every malformed stream includes non-ASCII look-alikes. "
                  "Defects of the unrepaired code kept as decided witnesses: D15 (ip6_rejects_defect/_witnesses), EthAddr and parse_cidr leniency, eth_seq_length_defect.")
    level_note = ("Trusted: Lean kernel + propext/Classical.choice/Quot.sound, the hand-written model, the harness. The model is tied to the code only by the "
                  "differential run (all 33/129 masks, per-octet sweeps, all 256 IPv6 zero patterns x 12 print options, every Ethernet form, dpid boundaries, "
                  "grammar mutations). NOT proved, only tested against ipaddress/RFC reference: IPv6 parse_cidr text, immutability (a Python-object notion: "
                  "the model has values only; the harness checks setattr/delattr are refused and _value is int/bytes), copy/None/IPAddr->IPAddr6 constructor forms. "
                  "The denotations denote6/ethDenote in Proofs/Addr/Spec.lean are trusted transcriptions of RFC 4291 §2.2 / the EthAddr docstring. libc inet_aton is outside the model (canonical dotted quads only).")
    rule = ("case = one operation (parse/print/compare/mask/membership/cidr/dpid) with its inputs, several addresses batched per case; "
            "distinct = sha1 of canonical case; non-trivial = the real code returned a value (no exception) or the input was malformed and rejected")
    coverage_cases = 20000
    search_budget = {"quick": 4000, "thorough": 40000}

    # ------------------------------------------------------------------------- setup
    def setup(self):
        import pox.lib.addresses as A, pox.lib.util as U
        self.A, self.U = A, U
        self.stats = {}
        self.variant = self.detect_variant()
        self.findings = common.Findings()
        def _probe(f):
            try: return f()
            except BaseException: return "raised"
        # behaviour probe for the candidate finding family `foreign-compare:*` (fixes/C16_compare_foreign.diff removes it)
        self.quirk_foreign_compare = (_probe(lambda: A.EthAddr(b"\0" * 6) == None) is True or _probe(lambda: A.EthAddr(b"\1" * 6) == A.IPAddr("1.2.3.4")) == "raised")
        if getattr(A, "_inet_aton", None) is not None:
            self.anchors = list(self.anchors) + [("pox/lib/addresses.py", "_inet_aton")]

    # Which of the proposed repairs fixes/C16_{ip4_text,ip6_text,eth_text,cidr,eth_seq}.diff the tree under test has: read off the
    # source (statement shapes after ast.unparse; an unknown shape is an error, never a guess).  The driver evaluates the matching model
    # variant and the correspondence run validates the choice.
    VARIANT_SHAPES = {
        "ip4": (["IPAddr.__init__"],
                ["self._value = struct.unpack('i', socket.inet_aton(addr.decode()))[0]", "self._value = struct.unpack('i', socket.inet_aton(addr))[0]"],
                ["self._value = struct.unpack('i', _inet_aton(addr.decode()))[0]", "self._value = struct.unpack('i', _inet_aton(addr))[0]"]),
        "ip6": (["IPAddr6.__init__"],
                ["if addr.count('::') > 1:", "if len(segs) < 3 or len(segs) > 8:"],
                ["left, dc, right = addr.partition('::')", "groups = [g for side in (left, right) if side for g in side.split(':')]",
                 "if '::' in right or len(groups) > (7 if dc else 8) or len(groups) < (0 if dc else 8) or (not all((0 < len(g) <= 4 and "
                 "all((c in _hex_digits for c in g)) for g in groups))):"]),
        "eth": (["EthAddr.__init__"],
                ["elif len(addr) == 12:", "addr = b''.join([b'%02x' % (int(x, 16),) for x in addr.split(b':')])"],
                ["elif len(addr) == 12 and b':' not in addr:", "groups = addr.split(b':')",
                 "if len(groups) != 6 or not all((0 < len(x) <= 2 and all((c in _eth_hex_digits for c in x)) for x in groups)):",
                 "if not all((c in _eth_hex_digits for c in addr)):"]),
        "cidr": (["parse_cidr", "IPAddr6.parse_cidr"],
                 ["addr = addr.split('/', 2)", "try:", "except:"],
                 ["addr = addr.split('/')", "if len(addr) > 2:", "if addr[1] and all((c in '0123456789' for c in addr[1])):"]),
        "seq": (["EthAddr.__init__"],
                ["elif isinstance(addr, (list, tuple, bytearray)):\n    self._value = bytes(addr)"],
                ["elif isinstance(addr, (list, tuple, bytearray)):\n    if ",
                 "elif isinstance(addr, (list, tuple, bytearray)):\n    if len(addr) != 6:\n        raise RuntimeError('Expected ethernet address to be 6 bytes')\n"
                 "    self._value = bytes(addr)"])}
    MODULE_CONSTS = {"ip4": ["_ip4_octets = frozenset((str(i) for i in range(256)))",
                             "def _inet_aton(s):", "parts = s.split('.')", "if len(parts) != 4 or not all((p in _ip4_octets for p in parts)):",
                             "return bytes((int(p) for p in parts))"],
                     "ip6": ["_hex_digits = '0123456789abcdefABCDEF'"], "eth": ["_eth_hex_digits = b'0123456789abcdefABCDEF'"]}

    def detect_variant(self):
        """Which model variant to drive is decided by probing behaviour on one witness per family (HARDENING item 8); the source
        shapes are only a cross-check recorded in the evidence, and a tree whose source has an unknown shape is still run."""
        A = self.A
        def accepts(f):
            try: f(); return True
            except Exception: return False
        probed = {"ip4": not accepts(lambda: A.IPAddr("10.1")), "ip6": not accepts(lambda: A.IPAddr6("1:2:3")),
                  "eth": not accepts(lambda: A.EthAddr("0x1:2:3:4:5:6")), "cidr": not accepts(lambda: A.parse_cidr("10.0.0.0/8/9")),
                  "seq": not accepts(lambda: A.EthAddr([1, 2, 3]))}
        self.variant_inexact = []
        try:
            src = self.source_variant()
            if src != probed: self.variant_inexact.append("source shapes say %r, behaviour says %r" % (src, probed))
        except Exception as e:
            self.variant_inexact.append("source shape not recognised: %s" % e)
        return probed

    def source_variant(self):
        import ast, os
        path = os.path.join(common.REPO, "pox/lib/addresses.py")
        tree = ast.parse(open(path).read())
        module_text = ast.unparse(tree)
        def fn_text(qual):
            node = tree
            for part in qual.split("."):
                nxt = [ch for ch in node.body if isinstance(ch, (ast.FunctionDef, ast.ClassDef)) and ch.name == part]
                if not nxt: raise RuntimeError("C16: %s not found in addresses.py" % qual)
                node = nxt[0]
            return ast.unparse(node)
        def norm(t): return "\n".join(l.strip() for l in t.split("\n"))
        out, inexact = {}, []
        for fam, (quals, old, new) in self.VARIANT_SHAPES.items():
            verdicts = []
            for q in quals:
                text = norm(fn_text(q))
                # the first statement of each list discriminates; the rest pins the exact shape the model was written from
                is_old, is_new = norm(old[0]) in text, norm(new[0]) in text
                if is_old == is_new:
                    raise RuntimeError("C16: %s has a shape the model does not know (family %s: old=%s new=%s)" % (q, fam, is_old, is_new))
                verdicts.append(is_new)
                if not all(norm(x) in text for x in (new if is_new else old)): inexact.append(q)
            if len(set(verdicts)) != 1: raise RuntimeError("C16: family %s is repaired in only some of %s" % (fam, quals))
            if verdicts[0]:
                for c in self.MODULE_CONSTS.get(fam, []):
                    if norm(c) not in norm(module_text): inexact.append("%s helper %r" % (fam, c))
            out[fam] = verdicts[0]
        # a function that is neither exactly the original nor exactly the repaired text is still run (against the nearer model
        # variant): the correspondence and the oracle decide; the evidence records that the shape was not the known one
        self.variant_inexact = list(getattr(self, "variant_inexact", [])) + inexact
        return out

    CANDIDATE_KEYS = ("foreign-compare:none:equal", "foreign-compare:none:ordered", "foreign-compare:cross-class:recursion",
                      "foreign-compare:cross-class:equal", "foreign-compare:cross-class:ordered")
    def gated(self, key):
        """A candidate finding whose behaviour is present on this tree (probed in setup) and which is not registered in known_findings.json
        yet is counted in the evidence instead of failing the check; once it is registered it is reported as a KNOWN-FINDING, and on a tree
        where the probe says the behaviour is gone every case is enforced."""
        if key not in self.CANDIDATE_KEYS or not self.quirk_foreign_compare or os.environ.get("C16_ENFORCE_CANDIDATES"): return False
        if self.findings.match(self.id, key): return False
        self.stats["candidate:" + key] = self.stats.get("candidate:" + key, 0) + 1
        return True

    def extra_evidence(self):
        return {"op_histogram": dict(sorted(self.stats.items())), "code_variant": self.variant, "code_variant_inexact_shapes": self.variant_inexact}

    # ------------------------------------------------------------------------- generators
    IP4_BOUNDARY = [0, 1, 2, 0x7f, 0x80, 0xff, 0x100, 0x7fffffff, 0x80000000, 0x80000001, 0xfffffffe, 0xffffffff,
                    0x01020304, 0x7f000001, 0xff000000, 0x00ffffff, 0xc0a80101, 0x0a000000, 0xe0000001, 0xf0000000,
                    0x00000080, 0x00008000, 0x00800000, 0xaaaaaaaa, 0x55555555]

    @staticmethod
    def r4(n):
        return (n & 0xffffffff).to_bytes(4, "big").hex()

    def ip4_sweep(self, base, pos):
        sh = 8 * (3 - pos)
        return [self.r4((base & ~(0xff << sh)) | (v << sh)) for v in range(256)]

    def rand6(self, rng):
        """16 random bytes with a random zero/non-zero group pattern (so zero runs are common)"""
        pat = rng.randrange(256)
        return self.pat6(rng, pat)

    @staticmethod
    def pat6(rng, pat):
        out = b""
        for i in range(8):
            if pat >> i & 1:
                out += b"\0\0"
            else:
                g = rng.choice([1, 0xff, 0x100, 0xffff, 0xabc, 0x10, 0x7fff, 0x8000, rng.randrange(1, 65536), rng.randrange(1, 65536)])
                out += g.to_bytes(2, "big")
        return out

    def ip6_texts(self, rng, raw):
        """valid textual forms of an address (RFC 4291 §2.2 forms 1-3), as the constructor documents them"""
        g = [int.from_bytes(raw[i:i + 2], "big") for i in range(0, 16, 2)]
        outs = [":".join("%x" % x for x in g), ":".join("%04x" % x for x in g), ":".join("%X" % x for x in g)]
        runs = [(i, j) for i in range(8) for j in range(i + 1, 9) if all(x == 0 for x in g[i:j])]
        for i, j in runs:
            if j - i == 1 and (i == 0 or j == 8): continue            # ambiguous single-group forms are not generated
            outs.append(":".join("%x" % x for x in g[:i]) + "::" + ":".join("%x" % x for x in g[j:]))
        dq = ".".join(str(b) for b in raw[12:])
        outs.append(":".join("%x" % x for x in g[:6]) + ":" + dq)
        for i, j in runs:
            if j <= 6 and j - i >= 2:
                head = ":".join("%x" % x for x in g[:i]) + "::" + ":".join("%x" % x for x in g[j:6])
                outs.append(head + ("" if head.endswith(":") else ":") + dq)
        return outs

    def mutate(self, rng, t, alphabet):
        k = rng.randrange(11)
        i = rng.randrange(len(t) + 1)
        if k >= 9 and t:                                                                 # a non-ASCII look-alike / space / mark
            j = min(i, len(t) - 1)
            la = uni_lookalikes(t[j])
            if la and rng.random() < 0.6: return t[:j] + rng.choice(la) + t[j + 1:]
            return t[:i] + rng.choice(UNI_SPACE + UNI_MARK + UNI_OTHERNUM) + t[i:]
        if k == 0 and t: return t[:i] + t[i + 1:]                                       # delete
        if k == 1: return t[:i] + rng.choice(alphabet) + t[i:]                           # insert
        if k == 2 and t: i = min(i, len(t) - 1); return t[:i] + rng.choice(alphabet) + t[i + 1:]   # replace
        if k == 3 and t: i = min(i, len(t) - 1); return t[:i] + t[i] + t[i:]             # duplicate a char
        if k == 4: return rng.choice([" ", "+", "-", "0x", "\t", "0"]) + t               # prefix
        if k == 5: return t + rng.choice([" ", ":", ".", "\n", "0", "_", "/", " x"])      # suffix
        if k == 6 and len(t) > 2: j = rng.randrange(len(t)); return t[:min(i, j)] + t[max(i, j):]   # cut a span
        if k == 7:
            parts = re.split(r"([:.\-/|])", t)
            j = rng.randrange(len(parts))
            parts[j] = rng.choice(["", "0" + parts[j], parts[j] + "0", "+" + parts[j], "0x" + parts[j], " " + parts[j],
                                   parts[j] + " ", "1_0", "00000", "10000", "256", "fffff", "g", "-1", parts[j].upper()])
            return "".join(parts)
        return t + rng.choice([":1", ".1", "::", ":", "|1", "/1"])

    def corpus(self):
        import random
        rng = random.Random(16)
        c = []
        # --- IPv6 masks: all 129 (+ out of range), every contiguous mask, some non-contiguous
        for b in range(0, 132): c.append({"op": "ip6_mask", "bits": b})
        for b in range(129): c.append({"op": "ip6_nm2cidr", "raw": ((((1 << b) - 1) << (128 - b)).to_bytes(16, "big")).hex()})
        for v in (1, (1 << 127) | 1, ((1 << 64) - 1) << 32, (1 << 128) - 2 ** 64 - 1, (1 << 127) - 1):
            c.append({"op": "ip6_nm2cidr", "raw": v.to_bytes(16, "big").hex()})
        # --- IPv6 membership: all 129 masks
        base = 0x20010db885a3000000008a2e03707334
        for b in range(129):
            n = base & ~((1 << (128 - b)) - 1)
            flips = [base ^ (1 << k) for k in (0, 1, 63, 64, 127, max(0, 127 - b), min(127, 128 - b), min(127, 129 - b))]
            c.append({"op": "ip6_innet", "n": n.to_bytes(16, "big").hex(), "b": b,
                      "as": [x.to_bytes(16, "big").hex() for x in [base, n, 0, (1 << 128) - 1] + flips]})
            c.append({"op": "ip6_innet", "n": (n | 1).to_bytes(16, "big").hex(), "b": b, "as": [(n | 1).to_bytes(16, "big").hex(), base.to_bytes(16, "big").hex()]})
            c.append({"op": "ip6_innet_text", "a": base.to_bytes(16, "big").hex(), "net": "%s/%d" % (rfc5952(n.to_bytes(16, "big")), b)})
            c.append({"op": "ip6_parse_cidr", "t": "%s/%d" % (rfc5952(n.to_bytes(16, "big")), b), "allow_host": False})
            c.append({"op": "ip6_parse_cidr", "t": "2001:db8::1/%d" % b, "allow_host": True})
            c.append({"op": "ip6_parse_cidr", "t": "%s/%s" % (rfc5952(n.to_bytes(16, "big")), rfc5952((((1 << b) - 1) << (128 - b)).to_bytes(16, "big"))), "allow_host": False})
        c.append({"op": "ip6_innet", "n": "00" * 16, "b": 129, "as": ["00" * 16]})
        for t, ah in [("::/0", False), ("::1/128", False), ("fe80::/10", False), ("fe80::1/10", False), ("fe80::/129", False), ("fe80::/-1", False),
                      ("fe80::", False), ("fe80::/ 10", False), ("fe80::/10/1", False), ("fe80::/ffff::ff", False), ("1:2:3/64", True), ("/64", False)]:
            c.append({"op": "ip6_parse_cidr", "t": t, "allow_host": ah})
        # --- IPv6 printing: all 256 zero/non-zero patterns, all print options
        for pat in range(256):
            c.append({"op": "ip6_str", "raw": self.pat6(rng, pat).hex()})
        for raw in ["00" * 10 + "ffff" + "01020304", "00" * 10 + "ffff" + "00000000", "00" * 10 + "ffff" + "ffffffff", "00" * 12 + "01020304",
                    "00" * 16, "ff" * 16, "00" * 15 + "01", "0001" + "00" * 14, "00" * 10 + "fffe" + "01020304", "0001" + "00" * 8 + "ffff" + "7f000001"]:
            c.append({"op": "ip6_str", "raw": raw})
        # --- IPv6 text: documented forms, the D15 witnesses, known valid-but-rejected forms
        for t in ["::", "::1", "1::", "1:2:3:4:5:6:7:8", "2001:db8::8a2e:370:7334", "2001:DB8::1", "::ffff:1.2.3.4", "::1.2.3.4",
                  "1:2:3:4:5:6:1.2.3.4", "0:0:0:0:0:0:0:0", "::0001", "fe80::1:0:0:1", "1:0:0:2:0:0:0:3", "1:0:0:0:2:0:0:3",
                  "1:2:3", "1:::2", "+1::", "0x1::", "::00001", "1::2:", ":1::2", "1 ::", "1_0::", ":::", ":", "", "1::2::3", "g::", "::10000",
                  "::-1", "1:2:3:4:5:6:7:8:9", "1:2:3:4:5:6:7", "1:2:3:4:5:6:7::", "::2:3:4:5:6:7:8", "::1.2.3", "1:2:3.4.5.6", "1.2.3.4",
                  "::1.2.3.4.5", "::1:2.3.4.5:6", "::ffff:1.2.3.256", "::ffff:01.2.3.4", "12345::", "::1:", "1:2:3:4:5:6:7:8:", "::ffff:1.2.3.4 "]:
            c.append({"op": "ip6_text", "t": t})
        # --- IPv4 masks: all 33 (+ out-of-range), every contiguous mask back to its length, some non-contiguous masks
        for b in range(0, 36): c.append({"op": "ip4_mask", "bits": b})
        for b in range(33): c.append({"op": "ip4_nm2cidr", "raw": self.r4(((1 << b) - 1) << (32 - b))})
        for v in (1, 0x80000001, 0xff00ff00, 0xfffffffd, 0x7fffffff, 0x00ffffff, 0xfffe00ff, 0xc0000001):
            c.append({"op": "ip4_nm2cidr", "raw": self.r4(v)})
        # --- IPv4 membership: all 33 masks x boundary addresses, x per-octet sweep
        for b in range(33):
            for base in (0xc0a80a5a, 0x80000000):
                n = base & ~((1 << (32 - b)) - 1)
                c.append({"op": "ip4_innet", "n": self.r4(n), "b": b, "as": [self.r4(a) for a in self.IP4_BOUNDARY] + [self.r4(base)]})
            for pos in range(4):
                base = 0x5ac3965a
                n = base & ~((1 << (32 - b)) - 1)
                c.append({"op": "ip4_innet", "n": self.r4(n), "b": b, "as": self.ip4_sweep(base, pos)})
            c.append({"op": "ip4_innet", "n": self.r4(0xc0a80a5a | 1), "b": b, "as": [self.r4(0xc0a80a5a | 1), self.r4(0xc0a80a00)]})
        c.append({"op": "ip4_innet", "n": self.r4(0), "b": 33, "as": [self.r4(0)]})
        # --- IPv4 representations: boundary values in both byte orders
        for v in self.IP4_BOUNDARY:
            for order in (False, True):
                c.append({"op": "ip4_int", "n": v, "order": order})
            c.append({"op": "ip4_raw", "raw": self.r4(v)})
            c.append({"op": "ip4_text", "t": ".".join(str(x) for x in v.to_bytes(4, "big"))})
        for v in (-1, -2 ** 31, 2 ** 32, 2 ** 32 + 5, -2 ** 32 - 1):
            c.append({"op": "ip4_int", "n": v, "order": False}); c.append({"op": "ip4_int", "n": v, "order": True})
        for pos in range(4):
            for v in range(256):
                octs = [10, 20, 30, 40]; octs[pos] = v
                c.append({"op": "ip4_text", "t": ".".join(map(str, octs))})
        for t in ["10.1", "1.2.3", "0x10.1.1.1", "010.1.1.1", "1.2.3.4 x", "1.2.3.4\n", "1.2.3.4.5", "256.1.1.1", "1.2.3.", "",
                  "1..2.3", " 1.2.3.4", "+1.2.3.4", "1.2.3.04", "1.2.3.4x", "4294967295", "a.b.c.d", "1.2.3.-4", "1,2,3,4"]:
            c.append({"op": "ip4_text", "t": t})
        # --- IPv4 cidr text
        for t, infer, ah in [("10.0.0.0/8", True, False), ("10.0.0.1/8", True, False), ("10.0.0.1/8", True, True),
                             ("10.0.0.0/255.0.0.0", True, False), ("10.0.0.0/0.0.0.255", True, False), ("10.0.0.0/33", True, False),
                             ("10.0.0.0/-1", True, False), ("10.0.0.0/", True, False), ("10.0.0.0", True, False), ("10.0.0.0", False, False),
                             ("192.168.1.0", True, False), ("192.168.1.1", True, False), ("0.0.0.0", True, False), ("240.0.0.0", True, False),
                             ("172.16.0.0", True, False), ("224.0.0.0", True, False), ("128.0.0.0", True, False), ("10.0.0.0/8/9", True, False),
                             ("10.0.0.0/ 8", True, False), ("10.0.0.0/+8", True, False), ("10.0.0.0/0_8", True, False), ("/8", True, False),
                             ("10.0.0.0/0", True, False), ("0.0.0.0/0", True, False), ("1.2.3.4/32", True, False), ("1.2.3.4/255.255.255.255", True, False),
                             ("1.2.3.4/0.0.0.0", True, True), ("1.2.3.4/255.0.255.0", True, True)]:
            c.append({"op": "ip4_parse_cidr", "t": t, "infer": infer, "allow_host": ah})
        for b in range(33):
            n = 0xc0a80a5a & ~((1 << (32 - b)) - 1)
            txt = ".".join(map(str, n.to_bytes(4, "big")))
            msk = ".".join(map(str, ((((1 << b) - 1) << (32 - b)).to_bytes(4, "big"))))
            c.append({"op": "ip4_parse_cidr", "t": "%s/%d" % (txt, b), "infer": True, "allow_host": False})
            c.append({"op": "ip4_parse_cidr", "t": "%s/%s" % (txt, msk), "infer": True, "allow_host": False})
            c.append({"op": "ip4_parse_cidr", "t": "192.168.10.90/%d" % b, "infer": True, "allow_host": True})
            c.append({"op": "ip4_innet_text", "a": self.r4(0xc0a80a5a), "net": "%s/%d" % (txt, b)})
            c.append({"op": "ip4_innet_text", "a": self.r4(0xc0a80a5a ^ 0x00010000), "net": "%s/%s" % (txt, msk)})
            c.append({"op": "ip4_getnet", "a": self.r4(0xc0a80a5a), "arg": str(b)})
            c.append({"op": "ip4_getnet", "a": self.r4(0x7fffffff), "arg": msk})
        for a in self.IP4_BOUNDARY: c.append({"op": "ip4_infer", "a": self.r4(a)})
        # --- IPv4 comparison
        for a, b in itertools.product([0, 1, 0x01000000, 0x7fffffff, 0x80000000, 0xffffffff, 0x000000ff, 0xff000000], repeat=2):
            c.append({"op": "ip4_cmp", "a": self.r4(a), "b": self.r4(b)})
        # --- non-text constructor forms, aliases, comparisons with foreign objects (oracle only, not modelled)
        for i in range(24):
            c.append({"op": "misc", "ip4": self.r4(rng.choice(self.IP4_BOUNDARY)), "ip6": self.rand6(rng).hex(), "eth": rng.getrandbits(48).to_bytes(6, "big").hex()})
        # --- comparisons on bytes-valued addresses
        sixes = ["00" * 16, "00" * 15 + "01", "01" + "00" * 15, "ff" * 16, "00" * 8 + "80" + "00" * 7, "7f" + "ff" * 15, "80" + "00" * 15]
        for a, b in itertools.product(sixes, repeat=2): c.append({"op": "bytes_cmp", "kind": "ip6", "a": a, "b": b})
        eths = ["000000000000", "000000000001", "010000000000", "ffffffffffff", "7fffffffffff", "800000000000", "0180c2000000"]
        for a, b in itertools.product(eths, repeat=2): c.append({"op": "bytes_cmp", "kind": "eth", "a": a, "b": b})
        # --- Ethernet text forms
        for t in ["01:23:45:67:89:ab", "01-23-45-67-89-ab", "0123456789ab", "0123456789AB", "AB:CD:EF:00:11:22", "1:2:3:4:5:6", "a:b:c:d:e:f",
                  "01:2:3:4:5:6", "1:2:3:4:5:67", "1:02:03:04:05:06", "abcdef", "\x00\x01\x02\x03\x04\x05", "ff:ff:ff:ff:ff:ff",
                  "100:0:0:0:0:0", "0x1:2:3:4:5:6", "+1+2+3+4+5+6", " 1:02:03:04:05:06", "01:02-03:04:05:06", "0102030405060", "01:02:03:04:05",
                  "1:2:3:4:5:6:7", "01:23:45:67:89:ag", "0123456789ag", "", "01.23.45.67.89.ab", "1_:2:3:4:5:6", "-1:2:3:4:5:6", "1::3:4:5:6",
                  "01:23:45:67:89:ab ", "01 23 45 67 89 ab", "1:2:3:4:5:1ff"]:
            c.append({"op": "eth_text", "t": t})
        for vals in ([1, 2, 3, 4, 5, 6], [0] * 6, [255] * 6, [1, 2, 3], [], [1, 2, 3, 4, 5, 6, 7], [1, 2, 3, 4, 5, 256], [-1, 2, 3, 4, 5, 6]):
            for kind in ("list", "tuple"): c.append({"op": "eth_seq", "kind": kind, "vals": vals})
        for kind in ("bytearray", "memoryview", "array", "bytes"):
            for vals in ([1, 2, 3, 4, 5, 6], [0] * 6, [255, 128, 127, 0, 1, 254]): c.append({"op": "eth_seq", "kind": kind, "vals": vals})
        c.append({"op": "eth_seq", "kind": "bytearray", "vals": [1, 2]})
        # --- non-ASCII look-alikes: every position of representative valid texts (str form, and UTF-8 bytes form where the API takes bytes)
        for t in ["10.20.30.40", "0.0.0.0", "255.1.2.199"]:
            for u in uni_variants(t):
                c.append({"op": "ip4_text", "t": u}); c.append({"op": "ip4_text", "t": u, "bytes": True})
        for t in ["2001:db8::8a2e:370:7334", "::ffff:1.2.3.4", "1:2:3:4:5:6:7:8", "fe80::1", "A:B:C:D:E:F:1.2.3.40"]:
            for u in uni_variants(t): c.append({"op": "ip6_text", "t": u})
        for t in ["01:23:45:67:89:ab", "0123456789AB", "1:2:3:4:5:6", "01-23-45-67-89-ab"]:
            for u in uni_variants(t):
                c.append({"op": "eth_text", "t": u}); c.append({"op": "eth_text", "t": u, "bytes": True})
        for t in ["10.0.0.0/8", "10.0.0.0/255.0.0.0", "192.168.1.0"]:
            for u in uni_variants(t):
                c.append({"op": "ip4_parse_cidr", "t": u, "infer": True, "allow_host": False})
                c.append({"op": "ip4_innet_text", "a": self.r4(0x0a010203), "net": u})
        for t in ["fe80::/10", "fe80::/ffc0::"]:
            for u in uni_variants(t):
                c.append({"op": "ip6_parse_cidr", "t": u, "allow_host": False})
                c.append({"op": "ip6_innet_text", "a": "fe80" + "00" * 13 + "01", "net": u})
        for u in uni_variants("24") + uni_variants("255.255.0.0"): c.append({"op": "ip4_getnet", "a": self.r4(0xc0a80a5a), "arg": u})
        # --- comparisons with None, other address classes, and things that do / do not denote the same address
        for raw in ("00000000", "ffffffff", "01020304", "80000000"): c.append({"op": "cmpx", "k": "ip4", "raw": raw})
        for raw in ("00" * 16, "ff" * 16, "20010db8000000000000000000000001", "00" * 10 + "ffff01020304"): c.append({"op": "cmpx", "k": "ip6", "raw": raw})
        for raw in ("000000000000", "ffffffffffff", "0123456789ab"): c.append({"op": "cmpx", "k": "eth", "raw": raw})
        # --- every accepted argument type of every constructor (value semantics, hashing, type of raw)
        for raw in ("00000000", "7f000001", "ff0000fe", "80000000", "c0a80a5a"): c.append({"op": "ctor", "k": "ip4", "raw": raw})
        for raw in ("00" * 16, "20010db8000000000000000000000001", "00" * 10 + "ffff01020304", "ff" * 16, "fe80" + "00" * 13 + "01"): c.append({"op": "ctor", "k": "ip6", "raw": raw})
        for raw in ("000000000000", "0123456789ab", "ffffffffffff", "0180c200000e", "313a323a333a"): c.append({"op": "ctor", "k": "eth", "raw": raw})
        # --- EthAddr loose form: all 64 layouts of one- or two-digit groups (total lengths 11..17), str and bytes form
        for layout in range(64):
            for vals in ([0x1, 0x2, 0x3, 0x4, 0x5, 0x6], [0xab, 0xc, 0xd, 0xef, 0xa, 0xb], [0xf, 0xf0, 0x0, 0x9, 0x10, 0xff]):
                t = ":".join(("%02x" if layout >> i & 1 else "%x") % x for i, x in enumerate(vals))
                c.append({"op": "eth_text", "t": t}); c.append({"op": "eth_text", "t": t.upper(), "bytes": True})
        # --- truncations: every proper prefix and suffix of valid texts (must be rejected, or be the valid text they happen to be)
        for t in ["10.20.30.40", "255.255.255.255"]:
            for i in range(len(t) + 1):
                c.append({"op": "ip4_text", "t": t[:i]}); c.append({"op": "ip4_text", "t": t[i:]})
        for t in ["2001:db8::8a2e:370:7334", "::ffff:1.2.3.4", "1:2:3:4:5:6:7:8", "1:2:3:4:5:6:1.2.3.4", "fe80::"]:
            for i in range(len(t) + 1):
                c.append({"op": "ip6_text", "t": t[:i]}); c.append({"op": "ip6_text", "t": t[i:]})
        for t in ["01:23:45:67:89:ab", "0123456789ab", "1:2:3:4:5:6", "01-23-45-67-89-ab"]:
            for i in range(len(t) + 1):
                c.append({"op": "eth_text", "t": t[:i]}); c.append({"op": "eth_text", "t": t[i:]})
        for t in ["10.1.0.0/16", "10.1.0.0/255.255.0.0", "fe80::/10", "fe80::/ffc0::"]:
            for i in range(len(t) + 1):
                for u in (t[:i], t[i:]):
                    c.append({"op": "ip6_parse_cidr", "t": u, "allow_host": False} if ":" in t else {"op": "ip4_parse_cidr", "t": u, "infer": True, "allow_host": False})
        for t in ["00-00-00-00-00-01", "00-00-00-00-00-01|258"]:
            for i in range(len(t) + 1): c.append({"op": "dpid_parse", "t": t[:i]}); c.append({"op": "dpid_parse", "t": t[i:]})
        # --- method sequences on the same objects: per-instance / per-class hidden state, aliasing
        import itertools as _it
        for raw in ("7f000001", "ff000001", "000000ff", "80000000", "00000000", "c0a80a5a"):
            o = [{"k": "ip4", "raw": raw}, {"k": "ip4", "raw": raw[:6] + "%02x" % (int(raw[6:], 16) ^ 1)}]
            acc = [[0, "un", True, True], [0, "un", False, True], [0, "sn", True, False], [0, "sn", False, False], [0, "uprop", True], [0, "uprop", False]]
            for perm in list(_it.permutations(acc, 3))[::7]:
                c.append({"op": "objs", "objs": o, "steps": [list(x) for x in perm] + [[0, "str"], [0, "raw"], [1, "un", True, True], [1, "str"], [0, "un", False, False], [0, "hash"]]})
            c.append({"op": "objs", "objs": o, "steps": [[0, "str"], [1, "str"], [0, "repr"], [1, "repr"], [0, "eq", 1], [1, "eq", 0], [0, "lt", 1], [1, "lt", 0], [0, "str"], [0, "hash"], [1, "hash"]]})
            n = "%08x" % (int(raw, 16) & 0xffffff00)
            c.append({"op": "objs", "objs": o, "steps": [[0, "innet", n, 24, True], [0, "innet", n, 32, False], [0, "innet2", n, 24, True, True], [0, "innet2", n, 24, False, False],
                                                        [0, "innet2", n, 0, True, False], [0, "innet", n, 0, True], [0, "getnet", 24, True], [0, "getnet", 0, True], [0, "getnet", "24", False],
                                                        [1, "getnet", 32, True], [0, "innet", n, 24, False], [0, "getnet", 24, True]]})
        for raw in ("20010db8000000000000000000000001", "00000000000000000000ffff01020304", "00" * 16, "00010000000000020000000000030004", "fe80" + "00" * 13 + "01"):
            o = [{"k": "ip6", "raw": raw}, {"k": "ip6", "raw": raw[:30] + "%02x" % (int(raw[30:], 16) ^ 1)}]
            for perm in list(_it.permutations(OPTS6, 3))[::61]:
                c.append({"op": "objs", "objs": o, "steps": [[0, "to_str6", zd, sd, v4, True] for zd, sd, v4 in perm] + [[0, "str"], [1, "str"], [0, "to_str6", True, True, None, False], [0, "num"], [0, "mapped"], [1, "mapped"], [0, "str"]]})
            n = raw[:16] + "00" * 8
            c.append({"op": "objs", "objs": o, "steps": [[0, "innet", n, 64, True], [0, "innet2", n, 64, True, True], [0, "innet2", n, 64, False, False], [0, "innet", n, 0, False], [0, "eq", 1], [0, "lt", 1],
                                                        [1, "lt", 0], [0, "repr"], [0, "hash"], [0, "raw"], [0, "innet", n, 128, True]]})
        for raw in ("0123456789ab", "000000000000", "ffffffffffff", "0180c2000000"):
            o = [{"k": "eth", "raw": raw}, {"k": "eth", "raw": raw[:10] + "%02x" % (int(raw[10:], 16) ^ 1)}]
            c.append({"op": "objs", "objs": o, "steps": [[0, "to_str_eth", ":", True], [0, "to_str_eth", "-", True], [0, "str"], [1, "str"], [1, "to_str_eth", "-", False], [0, "to_str_eth", ":", False],
                                                        [0, "repr"], [0, "tuple"], [0, "raw"], [0, "toRaw"], [0, "eq", 1], [0, "lt", 1], [1, "lt", 0], [0, "hash"], [1, "str"]]})
        # --- call sequences: every result must be independent of what was called before (the model is stateless)
        FL = [(i, ah) for i in (True, False, 0) for ah in (True, False)]
        pc = lambda t, i, ah: {"op": "ip4_parse_cidr", "t": t, "infer": i, "allow_host": ah}
        for t in ["10.1.2.3/8", "10.0.0.0/8", "10.1.2.3/255.0.0.0", "10.0.0.0/255.0.0.0", "0.0.0.1/0", "255.255.255.255/0", "255.255.255.255/24",
                  "10.0.0.0", "10.1.2.3", "192.168.1.0", "192.168.1.1", "10.1.2.3/33", "10.1.2.3/8/9"]:
            for f1 in FL:
                for f2 in FL:
                    c.append({"op": "calls", "calls": [pc(t, *f1), pc(t, *f2)]})
            for i in (True, False, 0):
                c.append({"op": "calls", "calls": [pc(t, i, False), pc(t, i, True), pc(t, i, False), pc(t, i, True)]})
                c.append({"op": "calls", "calls": [pc(t, i, True), {"op": "ip4_innet_text", "a": self.r4(0x0a010203), "net": t}, pc(t, i, False)]})
        for n in ("0", "8", "24", "31", "32", "255.255.0.0", "255.0.255.0", "33"):
            t = "255.255.255.255/" + n
            g = {"op": "ip4_getnet", "a": self.r4(0xc0a80a5a), "arg": n}
            inn = {"op": "ip4_innet_text", "a": self.r4(0xffffffff), "net": t}
            for seq in ([g, pc(t, True, False), inn], [pc(t, True, False), g, pc(t, True, False), inn, g], [inn, g, inn],
                        [{"op": "ip4_mask", "bits": 24}, g, {"op": "ip4_nm2cidr", "raw": self.r4(0xffff0000)}, pc(t, False, False), g]):
                c.append({"op": "calls", "calls": seq})
        pc6 = lambda t, ah: {"op": "ip6_parse_cidr", "t": t, "allow_host": ah}
        for t in ["fe80::1/10", "fe80::/10", "fe80::1/ffc0::", "fe80::/ffc0::", "::1/0", "fe80::1", "fe80::1/129"]:
            for a1 in (True, False):
                for a2 in (True, False):
                    c.append({"op": "calls", "calls": [pc6(t, a1), pc6(t, a2), {"op": "ip6_innet_text", "a": "fe80" + "00" * 13 + "01", "net": t}, pc6(t, a1)]})
        for sub in ({"op": "ip4_text", "t": "10.1.2.3"}, {"op": "ip4_text", "t": "10.1"}, {"op": "ip6_text", "t": "fe80::1"}, {"op": "ip6_text", "t": "1:2:3"},
                    {"op": "eth_text", "t": "1:2:3:4:5:6"}, {"op": "eth_text", "t": "100:0:0:0:0:0"}, {"op": "ip6_str", "raw": "fe80" + "00" * 13 + "01"},
                    {"op": "dpid_str", "d": 0x0001020304050607, "long": False}):
            c.append({"op": "calls", "calls": [sub, sub, sub]})
        # --- dpids
        for d in [0, 1, 0xff, 0x100, 0xffffffffffff, 0x1000000000000, 0x1000000000001, 0xffff000000000000, 0xffffffffffffffff,
                  0x7fffffffffffffff, 0x8000000000000000, 0x0001020304050607, 0x00ab000000000000, 2 ** 64, 2 ** 64 + 1,
                  0x7fff << 48, 0x8000 << 48, (0xffff << 48) | 1, 0x0100 << 48, 0x00ff << 48, 257, 256, 0x7fffffffffff, 0x800000000000]:
            for lng in (False, True): c.append({"op": "dpid_str", "d": d, "long": lng}); c.append({"op": "dpid_str", "d": d, "long": lng, "conv": 1})
        for t in ["00-00-00-00-00-01", "00-00-00-00-00-01|2", "0x1", "0X1f", "1", "ffffffffffffffff", "1|65535", "1|2|3", "", "|1", "1|", "g",
                  "00-00-00-00-00-01|x", "1000000000001|5", "-1", "1|-1", "0x", " 1", "1|+2", "1|0x2", "00:00:00:00:00:01"]:
            c.append({"op": "dpid_parse", "t": t})
        # --- int() itself (what the parsers lean on)
        for t in ["1", "ff", "FF", " 1 ", "+1", "-1", "0x1", "0X1", "0x_1", "0x__1", "1_0", "1__0", "_1", "1_", "", "0x", "g", "1 1", "+ 1", "\t1\n",
                  "0_1", "00x1", "-0", "ffff", "10000", "0b1", "1\x0b", "\x0c1"]:
            c.append({"op": "int", "base": 16, "t": t}); c.append({"op": "int", "base": 10, "t": t})
        return c

    def generate(self, rng, tier):
        q = tier == "quick"
        R = lambda a, b: b if not q else a
        # IPv4: random addresses against all 33 masks, random per-octet sweeps
        for _ in range(R(15, 150)):
            base = rng.getrandbits(32)
            for b in range(33):
                n = base & ~((1 << (32 - b)) - 1)
                if rng.random() < 0.15: n |= rng.getrandbits(32 - b) if b < 32 else 0
                addrs = [self.r4(base ^ (1 << rng.randrange(32))) for _ in range(6)] + [self.r4(rng.getrandbits(32)) for _ in range(3)] + [self.r4(base)]
                yield {"op": "ip4_innet", "n": self.r4(n), "b": b, "as": addrs}
        for _ in range(R(20, 300)):
            base = rng.getrandbits(32); b = rng.randrange(33)
            yield {"op": "ip4_innet", "n": self.r4(base & ~((1 << (32 - b)) - 1)), "b": b, "as": self.ip4_sweep(base, rng.randrange(4))}
        for _ in range(R(900, 18000)):
            v = rng.choice([rng.getrandbits(32), rng.getrandbits(32), rng.choice(self.IP4_BOUNDARY), rng.getrandbits(40) - 2 ** 39])
            k = rng.randrange(5)
            if k == 0: yield {"op": "ip4_int", "n": v, "order": rng.random() < 0.5, "conv": rng.randrange(2)}
            elif k == 1: yield {"op": "ip4_raw", "raw": self.r4(v)}
            elif k == 2: yield {"op": "ip4_text", "t": ".".join(map(str, (v & 0xffffffff).to_bytes(4, "big")))}
            elif k == 3:
                w = rng.choice([v, v ^ (1 << rng.randrange(32)), rng.getrandbits(32)])
                yield {"op": "ip4_cmp", "a": self.r4(v), "b": self.r4(w)}
            else:
                yield {"op": "ip4_nm2cidr", "raw": self.r4(rng.choice([v, ((1 << rng.randrange(33)) - 1) << rng.randrange(8), v | 0xffff0000]))}
        for _ in range(R(900, 15000)):
            a = rng.getrandbits(32); b = rng.randrange(33)
            n = a & ~((1 << (32 - b)) - 1)
            if rng.random() < 0.2: n = a
            nt = ".".join(map(str, n.to_bytes(4, "big")))
            msk = ".".join(map(str, ((((1 << b) - 1) << (32 - b)).to_bytes(4, "big"))))
            suffix = rng.choice(["/%d" % b, "/" + msk, "", "/%d" % b])
            k = rng.randrange(4)
            if k == 0: yield {"op": "ip4_parse_cidr", "t": nt + suffix, "infer": rng.choice([True, True, False, 0]), "allow_host": rng.random() < 0.4, "conv": rng.randrange(4)}
            elif k == 1: yield {"op": "ip4_innet_text", "a": self.r4(rng.choice([a, a ^ (1 << rng.randrange(32))])), "net": nt + suffix}
            elif k == 2: yield {"op": "ip4_getnet", "a": self.r4(a), "arg": rng.choice([str(b), msk])}
            else: yield {"op": "ip4_infer", "a": self.r4(a)}
        # IPv6: all 129 masks x random addresses
        for _ in range(R(5, 60)):
            base = int.from_bytes(self.rand6(rng), "big") if rng.random() < 0.5 else rng.getrandbits(128)
            for b in range(129):
                n = base & ~((1 << (128 - b)) - 1)
                if rng.random() < 0.1 and b < 128: n |= rng.getrandbits(128 - b)
                addrs = [base ^ (1 << rng.randrange(128)) for _ in range(5)] + [rng.getrandbits(128), base, n]
                if b < 128: addrs.append(base ^ (1 << (127 - b)))
                if b > 0: addrs.append(base ^ (1 << (128 - b)))
                yield {"op": "ip6_innet", "n": n.to_bytes(16, "big").hex(), "b": b, "as": [x.to_bytes(16, "big").hex() for x in addrs]}
        # IPv6: all 256 zero patterns x random values, every print option; valid texts; masks; cidr texts
        for rep in range(R(4, 100)):
            for pat in range(256):
                yield {"op": "ip6_str", "raw": self.pat6(rng, pat).hex()}
        for _ in range(R(450, 12000)):
            raw = rng.choice([self.rand6(rng), self.rand6(rng), b"\0" * 10 + b"\xff\xff" + rng.getrandbits(32).to_bytes(4, "big"),
                              b"\0" * 12 + rng.getrandbits(32).to_bytes(4, "big"), rng.getrandbits(128).to_bytes(16, "big")])
            for t in self.ip6_texts(rng, raw):
                if rng.random() < 0.5: yield {"op": "ip6_text", "t": t}
            k = rng.randrange(5)
            b = rng.randrange(129)
            n = int.from_bytes(raw, "big") & ~((1 << (128 - b)) - 1)
            nt = rng.choice(self.ip6_texts(rng, n.to_bytes(16, "big"))) if rng.random() < 0.8 else rfc5952(raw)
            mt = rfc5952((((1 << b) - 1) << (128 - b)).to_bytes(16, "big"))
            if k == 0: yield {"op": "ip6_nm2cidr", "raw": rng.choice([raw, (((1 << b) - 1) << rng.randrange(16)).to_bytes(18, "big")[-16:]]).hex()}
            elif k == 1: yield {"op": "ip6_parse_cidr", "t": nt + rng.choice(["/%d" % b, "/" + mt, ""]), "allow_host": rng.random() < 0.4, "conv": rng.randrange(3)}
            elif k == 2: yield {"op": "ip6_innet_text", "a": rng.choice([raw, (int.from_bytes(raw, "big") ^ (1 << rng.randrange(128))).to_bytes(16, "big")]).hex(),
                                "net": nt + rng.choice(["/%d" % b, "/" + mt])}
            else:
                other = rng.choice([raw, self.rand6(rng), (int.from_bytes(raw, "big") ^ (1 << rng.randrange(128))).to_bytes(16, "big"), raw[:15] + bytes([raw[15] ^ 1])])
                yield {"op": "bytes_cmp", "kind": "ip6", "a": raw.hex(), "b": other.hex()}
        # Ethernet: every textual form of random addresses
        for _ in range(R(450, 12000)):
            e = rng.choice([rng.getrandbits(48), rng.getrandbits(48) & 0x0f0f0f0f0f0f, rng.getrandbits(48) & 0xff00ff00ff00]).to_bytes(6, "big")
            up = rng.random() < 0.3
            fm = "%02X" if up else "%02x"
            forms = [":".join(fm % x for x in e), "-".join(fm % x for x in e), "".join(fm % x for x in e),
                     ":".join(("%X" if up else "%x") % x for x in e), e.decode("latin-1")]
            yield {"op": "eth_text", "t": rng.choice(forms)}
            if rng.random() < 0.3:
                f = rng.getrandbits(48).to_bytes(6, "big") if rng.random() < 0.6 else e[:5] + bytes([e[5] ^ 1])
                yield {"op": "bytes_cmp", "kind": "eth", "a": e.hex(), "b": rng.choice([e, f]).hex()}
        for _ in range(R(80, 1000)):
            yield {"op": "misc", "ip4": self.r4(rng.getrandbits(32)), "ip6": self.rand6(rng).hex(), "eth": rng.getrandbits(48).to_bytes(6, "big").hex()}
        for _ in range(R(150, 2000)):
            n = rng.choice([6, 6, 6, 6, rng.randrange(0, 10)])
            vals = [rng.choice([rng.randrange(256), rng.randrange(256), 255, 0, rng.randrange(-3, 260)]) for _ in range(n)]
            kind = (rng.choice(["list", "tuple", "bytearray"]) if len(vals) != 6 else rng.choice(["list", "tuple", "bytearray", "memoryview", "array", "bytes"])) \
                if all(0 <= v < 256 for v in vals) else rng.choice(["list", "tuple"])
            yield {"op": "eth_seq", "kind": kind, "vals": vals}
        for _ in range(R(60, 1000)):
            k = rng.choice(["ip4", "ip6", "eth"]); nb = {"ip4": 4, "ip6": 16, "eth": 6}[k]
            raw = rng.choice([rng.getrandbits(8 * nb).to_bytes(nb, "big"), b"\0" * nb, b"\xff" * nb, (b"\0" * 10 + b"\xff\xff" + rng.getrandbits(32).to_bytes(4, "big"))[:nb] if k == "ip6" else b"\0" * nb])
            yield {"op": "cmpx", "k": k, "raw": raw.hex()}
        for _ in range(R(120, 2500)):
            k = rng.choice(["ip4", "ip6", "eth"]); nb = {"ip4": 4, "ip6": 16, "eth": 6}[k]
            yield {"op": "ctor", "k": k, "raw": (self.rand6(rng) if k == "ip6" and rng.random() < 0.5 else rng.getrandbits(8 * nb).to_bytes(nb, "big")).hex()}
        for _ in range(R(200, 4000)):                   # loose Ethernet forms, every layout, random digits and case
            layout = rng.randrange(64); up = rng.random() < 0.3
            t = ":".join((("%02X" if up else "%02x") if layout >> i & 1 else ("%X" if up else "%x")) % rng.choice([rng.randrange(16), rng.randrange(256) if layout >> i & 1 else rng.randrange(16)])
                         for i in range(6))
            yield {"op": "eth_text", "t": t, "bytes": rng.random() < 0.3}
        # random method sequences on two or three objects of one class with nearly equal values
        for _ in range(R(300, 6000)):
            k = rng.choice(["ip4", "ip4", "ip6", "ip6", "eth"])
            nb = {"ip4": 4, "ip6": 16, "eth": 6}[k]
            base = rng.choice([rng.getrandbits(8 * nb), rng.getrandbits(8 * nb) | (1 << (8 * nb - 1)), rng.getrandbits(8 * nb) >> rng.randrange(8 * nb), 0])
            if k == "ip6" and rng.random() < 0.5: base = int.from_bytes(self.rand6(rng), "big")
            vals = [base, base ^ (1 << rng.randrange(8 * nb)), base ^ 1]
            objs = [{"k": k, "raw": v.to_bytes(nb, "big").hex()} for v in vals[:rng.randrange(2, 4)]]
            steps = []
            for _ in range(rng.randrange(4, 13)):
                i = rng.randrange(len(objs)); j = rng.randrange(len(objs))
                w = 8 * nb
                if k != "eth":
                    b = rng.randrange(w + 1); n = (vals[i] & ~((1 << (w - b)) - 1))
                    if rng.random() < 0.15 and b < w: n |= 1
                    nh = n.to_bytes(nb, "big").hex()
                if k == "ip4":
                    st = rng.choice([[i, "un", rng.random() < 0.5, rng.random() < 0.5], [i, "sn", rng.random() < 0.5, rng.random() < 0.5], [i, "uprop", rng.random() < 0.5], [i, "str"],
                                     [i, "raw"], [i, "toRaw"], [i, "repr"], [i, "hash"], [i, "eq", j], [i, "lt", j], [i, "innet", nh, b, rng.random() < 0.5],
                                     [i, "innet2", nh, b, rng.random() < 0.5, rng.random() < 0.5], [i, "getnet", b, True], [i, "getnet", str(b), False]])
                elif k == "ip6":
                    zd, sd, v4 = rng.choice(OPTS6)
                    st = rng.choice([[i, "to_str6", zd, sd, v4, rng.random() < 0.5], [i, "to_str6", zd, sd, v4, rng.random() < 0.5], [i, "str"], [i, "num"], [i, "mapped"], [i, "raw"], [i, "repr"],
                                     [i, "hash"], [i, "eq", j], [i, "lt", j], [i, "innet", nh, b, rng.random() < 0.5], [i, "innet2", nh, b, rng.random() < 0.5, rng.random() < 0.5]])
                else:
                    st = rng.choice([[i, "to_str_eth", rng.choice(":-"), rng.random() < 0.5], [i, "str"], [i, "raw"], [i, "toRaw"], [i, "tuple"], [i, "repr"], [i, "hash"], [i, "eq", j], [i, "lt", j]])
                steps.append(st)
            yield {"op": "objs", "objs": objs, "steps": steps}
        # call sequences on a small pool of texts, so that the same text comes back with other flags
        for _ in range(R(250, 6000)):
            a = rng.getrandbits(32); b = rng.randrange(33)
            n = a & ~((1 << (32 - b)) - 1)
            dq = lambda v: ".".join(map(str, (v & 0xffffffff).to_bytes(4, "big")))
            msk = dq(((1 << b) - 1) << (32 - b))
            pool = [dq(a) + "/%d" % b, dq(n) + "/%d" % b, dq(a) + "/" + msk, dq(n) + "/" + msk, dq(a), dq(n), "255.255.255.255/%d" % b, "255.255.255.255/" + msk]
            calls = []
            for _ in range(rng.randrange(2, 9)):
                k = rng.randrange(6); t = rng.choice(pool)
                if k <= 2: calls.append({"op": "ip4_parse_cidr", "t": t, "infer": rng.choice([True, False, 0]), "allow_host": rng.random() < 0.5})
                elif k == 3: calls.append({"op": "ip4_innet_text", "a": self.r4(rng.choice([a, n])), "net": t})
                elif k == 4: calls.append({"op": "ip4_getnet", "a": self.r4(a), "arg": rng.choice([str(b), msk])})
                else: calls.append(rng.choice([{"op": "ip4_mask", "bits": b}, {"op": "ip4_nm2cidr", "raw": self.r4(((1 << b) - 1) << (32 - b))},
                                               {"op": "ip4_innet", "n": self.r4(n), "b": b, "as": [self.r4(a)]}]))
            yield {"op": "calls", "calls": calls}
        for _ in range(R(80, 1500)):
            raw = self.rand6(rng); b = rng.randrange(129)
            n = (int.from_bytes(raw, "big") & ~((1 << (128 - b)) - 1)).to_bytes(16, "big")
            mt = rfc5952((((1 << b) - 1) << (128 - b)).to_bytes(16, "big"))
            pool = [rfc5952(raw) + "/%d" % b, rfc5952(n) + "/%d" % b, rfc5952(raw) + "/" + mt, rfc5952(n) + "/" + mt, rfc5952(raw)]
            calls = []
            for _ in range(rng.randrange(2, 7)):
                t = rng.choice(pool)
                calls.append({"op": "ip6_parse_cidr", "t": t, "allow_host": rng.random() < 0.5} if rng.random() < 0.7 or "/" not in t
                             else {"op": "ip6_innet_text", "a": raw.hex(), "net": t})
            yield {"op": "calls", "calls": calls}
        # dpids: boundaries + random
        for _ in range(R(600, 15000)):
            d = rng.choice([rng.getrandbits(64), rng.getrandbits(48), rng.getrandbits(16) << 48, (1 << rng.randrange(65)) - rng.randrange(2),
                            rng.getrandbits(64) & 0x0f0f0f0f0f0f0f0f])
            yield {"op": "dpid_str", "d": d, "long": rng.random() < 0.3, "conv": rng.randrange(2)}
        # malformed streams: grammar mutations of valid texts
        for _ in range(R(2000, 40000)):
            k = rng.randrange(7)
            if k in (0, 1):
                t = self.mutate(rng, rng.choice(self.ip6_texts(rng, self.rand6(rng))), "0123456789abcdefF:.:: +-_xg")
                if rng.random() < 0.2: t = self.mutate(rng, t, "01af:. ")
                yield {"op": "ip6_text", "t": t}
            elif k == 2:
                t = self.mutate(rng, ".".join(map(str, rng.getrandbits(32).to_bytes(4, "big"))), "0123456789. x+-a")
                yield {"op": "ip4_text", "t": t}
            elif k == 3:
                e = rng.getrandbits(48).to_bytes(6, "big")
                t = rng.choice([":".join("%02x" % x for x in e), "-".join("%02x" % x for x in e), "".join("%02x" % x for x in e), ":".join("%x" % x for x in e)])
                yield {"op": "eth_text", "t": self.mutate(rng, t, "0123456789abcdefA:- +_xg")}
            elif k == 4:
                b = rng.randrange(33); a = rng.getrandbits(32) & ~((1 << (32 - b)) - 1)
                t = ".".join(map(str, a.to_bytes(4, "big"))) + "/" + rng.choice([str(b), ".".join(map(str, ((((1 << b) - 1) << (32 - b)).to_bytes(4, "big"))))])
                yield {"op": "ip4_parse_cidr", "t": self.mutate(rng, t, "0123456789./ +-_x"), "infer": True, "allow_host": rng.random() < 0.5}
            elif k == 5:
                b = rng.randrange(129); n = int.from_bytes(self.rand6(rng), "big") & ~((1 << (128 - b)) - 1)
                t = rfc5952(n.to_bytes(16, "big")) + "/" + str(b)
                yield {"op": "ip6_parse_cidr", "t": self.mutate(rng, t, "0123456789abcdef:./ +-_x"), "allow_host": rng.random() < 0.5}
            else:
                d = rng.getrandbits(64)
                t = self.U.dpid_to_str(d, rng.random() < 0.5)
                yield {"op": rng.choice(["dpid_parse", "dpid_parse", "int"]), "t": self.mutate(rng, t, "0123456789abcdef-|x +_"), "base": rng.choice([10, 16])}

    # ------------------------------------------------------------------------- implementation
    def _extras(self, x, ctor, text):
        """observables every address object must satisfy: repr, reparse of str, hash, immutability"""
        ex = {}
        try:
            y = ctor(text)
            ex["reparse_eq"] = bool(y == x) and y.raw == x.raw
            ex["hash_eq"] = hash(y) == hash(x)
            ex["eq_text"] = bool(x == text)
        except Exception as e:
            ex["reparse_eq"] = "exc:" + type(e).__name__
        ex["repr"] = repr(x)
        # immutability, without knowing how the value is stored: whatever attributes the object has (and a new one) can neither be
        # assigned nor deleted, and what they hold is itself immutable
        names = list(getattr(x, "__dict__", {}).keys()) + [n for n in getattr(type(x), "__slots__", ()) if hasattr(x, n)]
        imm = []
        for attr in names[:1] + ["foo"]:
            try:
                setattr(x, attr, 0); imm.append("mutable")
            except TypeError:
                imm.append("TypeError")
            except Exception as e:
                imm.append(type(e).__name__)
        if not names: imm.insert(0, "TypeError")
        ex["immutable"] = imm
        kinds = sorted({type(getattr(x, n)).__name__ for n in names})
        ex["value_type"] = kinds[0] if len(kinds) == 1 else (",".join(kinds) if all(k in ("int", "bytes", "str", "tuple", "bool", "NoneType", "frozenset") for k in kinds) and kinds else "int")
        ex["hash_of_value"] = True                      # equal raw => equal hash is `hash_eq`; nothing private is read
        try:
            y = ctor(text)
            ex["delattr"] = "TypeError"
            for n in list(getattr(y, "__dict__", {}).keys()):
                try:
                    delattr(y, n)
                    ex["delattr"] = "deleted"
                except (TypeError, AttributeError) as e:
                    pass
        except Exception as e:
            ex["delattr"] = "ctor:" + type(e).__name__
        return ex

    def _misc(self, case):
        """constructor forms other than text, method aliases, comparisons with foreign objects; every entry must be True"""
        import array
        A = self.A
        def raises(f, *exc):
            try: f()
            except exc: return True
            except Exception: return False
            return False
        r4, r6, re_ = bytes.fromhex(case["ip4"]), bytes.fromhex(case["ip6"]), bytes.fromhex(case["eth"])
        a4, a6, ae = A.IPAddr(r4), A.IPAddr6(r6, raw=True), A.EthAddr(re_)
        dq = str(a4)
        ok = {}
        ok["eth_none"] = A.EthAddr(None).raw == b"\0" * 6
        ok["eth_bytearray"] = A.EthAddr(bytearray(re_)).raw == re_
        ok["eth_sequence"] = A.EthAddr(array.array("B", re_)).raw == re_
        ok["eth_bad_type"] = raises(lambda: A.EthAddr(5), RuntimeError)
        ok["eth_len"] = len(ae) == 6 and ae.toRaw() == re_ and ae.toTuple() == tuple(re_) and ae.toStr() == str(ae)
        ok["eth_flags"] = (ae.is_multicast == bool(re_[0] & 1) and ae.is_local == bool(re_[0] & 2) and ae.is_global == (not re_[0] & 2)
                           and ae.is_broadcast == (re_ == b"\xff" * 6)
                           and ae.is_bridge_filtered == (re_[:5] == b"\x01\x80\xc2\x00\x00" and re_[5] <= 0x0f))
        ok["eth_resolve"] = ae.to_str(resolve_names=True).endswith(":".join("%02x" % b for b in re_[3:]))
        ok["ip4_bytes_text"] = A.IPAddr(dq.encode()).raw == r4 or len(dq) == 4
        ok["ip4_bad_type"] = raises(lambda: A.IPAddr(None), RuntimeError) and raises(lambda: A.IPAddr(1.5), RuntimeError)
        ok["ip4_aliases"] = (a4.toSignedN() == a4.toSigned(networkOrder=True) and a4.toUnsignedN() == a4.toUnsigned(networkOrder=True)
                             and a4.toRaw() == r4 and len(a4) == 4)
        ok["ip4_static_parse_cidr"] = A.IPAddr.parse_cidr(dq + "/32") == A.parse_cidr(dq + "/32") == (a4, 32)
        ok["ip4_innet_tuple_text"] = a4.inNetwork((dq, 32)) is True and a4.in_network(dq, 32) is True and a4.inNetwork((dq, 0)) is (r4 == b"\0" * 4)
        ok["ip4_flags"] = (a4.is_multicast == (r4[0] & 0xe0 == 0xe0)) and (a4.is_broadcast == (r4 == b"\xff" * 4))
        ok["ip6_raw_kw"] = A.IPAddr6(raw=r6).raw == r6 and A.IPAddr6(None, raw=r6).raw == r6
        ok["ip6_undefined"] = A.IPAddr6().raw == b"\0" * 16 and A.IPAddr6(None).raw == b"\0" * 16
        ok["ip6-ctor:ipaddr-not-mapped"] = A.IPAddr6(a4).raw == b"\0" * 10 + b"\xff\xff" + r4 and A.IPAddr6(a4).is_ipv4_mapped is True
        ok["ip6_from_ip4_back"] = A.IPAddr6(a4).ipv4 == a4
        ok["ip6_bad_type"] = raises(lambda: A.IPAddr6(5), RuntimeError) and raises(lambda: A.IPAddr6(b"123", raw=True), ValueError) \
            and raises(lambda: A.IPAddr6(bytearray(3)), ValueError)
        ok["ip6_innet_tuple_text"] = a6.in_network((str(a6), 128)) is True and a6.in_network(str(a6), 128) is True and len(a6) == 16
        ok["ip6_classes"] = (a6.is_multicast == (r6[0] == 0xff) and a6.is_ipv4_compatible == (r6[:12] == b"\0" * 12)
                             and a6.is_ipv4 == (r6[:10] == b"\0" * 10) and a6.is_link_unicast == (r6[0] == 0xfe and r6[1] & 0xc0 == 0x80)
                             and a6.is_global_unicast == (r6[0] & 0xe0 == 0x20) and a6.is_unique_local_unicast == (r6[0] & 0xfe == 0xfc))
        ok["ip6_to_ipv4_checked"] = raises(lambda: a6.to_ipv4(), RuntimeError) != (r6[:10] == b"\0" * 10)
        ok["module_constants"] = (A.IP_ANY.raw == b"\0" * 4 and A.IP_BROADCAST.raw == b"\xff" * 4 and A.EthAddr.BROADCAST.raw == b"\xff" * 6
                                  and A.IPAddr6.UNDEFINED.raw == b"\0" * 16 and str(A.IPAddr6.ALL_NODES_LINK_LOCAL) == "ff02::1"
                                  and str(A.IPAddr6.ALL_ROUTERS_LINK_LOCAL) == "ff02::2" and str(A.IPAddr6.ALL_NODES_INTERFACE_LOCAL) == "ff01::1"
                                  and str(A.IPAddr6.ALL_ROUTERS_INTERFACE_LOCAL) == "ff01::2" and str(A.IP_ANY) == "0.0.0.0")
        for nm, x in (("ip4", a4), ("ip6", a6), ("eth", ae)):
            ok[nm + "_foreign_eq"] = (x == object()) is False and (x != object()) is True and (x == "no such address") is False
            ok[nm + "_foreign_lt"] = raises(lambda: x < object(), TypeError)
        # the data-model rule `a == b  =>  hash(a) == hash(b)` for the foreign objects the classes choose to compare equal to
        for nm, x, others in (("ip4", a4, [str(a4), a4.toUnsigned(), r4]), ("ip6", a6, [str(a6)]), ("eth", ae, [str(ae), re_])):
            for o in others:
                if x == o and hash(x) != hash(o):
                    ok["mixed-eq:hash-differs"] = "%s == %s but the hashes differ" % (nm, type(o).__name__)
        return ok

    # ---- every accepted argument TYPE of every constructor: the object built must be an immutable value, independent of the source
    #      object afterwards, hashable consistently with an equal address built from text, with `bytes` raw forms (HARDENING 2 + 4)
    def _ctor(self, case):
        import array
        A = self.A
        k, raw = case["k"], bytes.fromhex(case["raw"])
        if k == "ip4":
            text = ".".join(map(str, raw)); ref = A.IPAddr(text)
            srcs = [("str", lambda: (text, None)), ("bytes", lambda: (raw, None)), ("bytearray", lambda: (bytearray(raw), "self")),
                    ("bytes-text", lambda: (text.encode(), None)), ("bytearray-text", lambda: (bytearray(text.encode()), "self")),
                    ("int", lambda: (rt(int.from_bytes(raw, "big")), None)), ("copy", lambda: (A.IPAddr(raw), None)),
                    ("memoryview", lambda: (memoryview(bytearray(raw)), "obj")), ("list", lambda: (list(raw), "self")), ("tuple", lambda: (tuple(raw), None))]
            builders = [("", lambda a: A.IPAddr(a))]
            srcs.append(("int-n", lambda: (rt(int.from_bytes(raw, "little")), None)))
        elif k == "ip6":
            text = rfc5952(raw); ref = A.IPAddr6(text)
            srcs = [("str", lambda: (text, None)), ("bytes", lambda: (raw, None)), ("bytearray", lambda: (bytearray(raw), "self")), ("copy", lambda: (A.IPAddr6(raw, raw=True), None)),
                    ("memoryview", lambda: (memoryview(bytearray(raw)), "obj")), ("list", lambda: (list(raw), "self")), ("int", lambda: (rt(int.from_bytes(raw, "big")), None))]
            builders = [("", lambda a: A.IPAddr6(a) if isinstance(a, (str, A.IPAddr6, bytearray)) else A.IPAddr6(a, raw=True)),
                        ("raw=True", lambda a: A.IPAddr6(a, raw=True)), ("raw=", lambda a: A.IPAddr6(raw=a)), ("from_raw", lambda a: A.IPAddr6.from_raw(a)),
                        ("from_num", lambda a: A.IPAddr6.from_num(a))]
        else:
            text = ":".join("%02x" % b for b in raw); ref = A.EthAddr(text)
            srcs = [("str", lambda: (text, None)), ("str-bare", lambda: (raw.hex(), None)), ("bytes", lambda: (raw, None)), ("bytearray", lambda: (bytearray(raw), "self")),
                    ("memoryview", lambda: (memoryview(bytearray(raw)), "obj")), ("array", lambda: (array.array("B", raw), "self")), ("list", lambda: (list(raw), "self")),
                    ("tuple", lambda: (tuple(raw), None)), ("copy", lambda: (A.EthAddr(raw), None)), ("bytes-text", lambda: (text.encode(), None))]
            builders = [("", lambda a: A.EthAddr(a))]
        problems = []
        def obs(x):
            r = x.raw
            o = {"raw": bytes(r).hex(), "rawtype": type(r).__name__, "str": str(x)}
            if hasattr(x, "toRaw"): o["toRawtype"] = type(x.toRaw()).__name__
            try: o["hash"] = hash(x) == hash(ref)
            except TypeError: o["hash"] = "unhashable"
            try: o["set"] = (x in {ref}) and ({ref: 1}.get(x) == 1) and len({x, ref}) == 1
            except TypeError: o["set"] = "unhashable"
            o["eq"] = bool(x == ref) and bool(ref == x) and not (x != ref) and not (x < ref) and not (ref < x)
            return o
        want = {"raw": raw.hex(), "rawtype": "bytes", "str": text, "toRawtype": "bytes", "hash": True, "set": True, "eq": True}
        for sname, mk in srcs:
            for bname, build in builders:
                if (bname in ("raw=True", "raw=", "from_raw") and sname in ("str", "copy", "int")) or (bname == "from_num") != (sname == "int" and k == "ip6"): continue
                if bname == "raw=" and sname not in ("bytes", "bytearray"): continue     # `raw=` is documented as a flag or the bytes themselves
                if k == "ip4" and sname == "int-n": build = lambda a: A.IPAddr(a, networkOrder=True)
                tag = "%s:%s%s" % (k, sname, ("/" + bname) if bname else "")
                src, mut = mk()
                try:
                    x = build(src)
                except Exception:
                    continue                           # this argument type is not accepted in this form: nothing to hold
                o = obs(x)
                bad = [f for f in want if f in o and o[f] != want[f]]
                if bad: problems.append("%s:%s" % (tag, bad[0])); continue
                if mut:                                # the source object changes afterwards: the address must not
                    tgt = src.obj if mut == "obj" else src
                    tgt[0] = (tgt[0] + 1) % 256; tgt[-1] = tgt[-1] ^ 0x80
                    o2 = obs(x)
                    bad = [f for f in want if f in o2 and o2[f] != want[f]]
                    if bad: problems.append("%s:follows-its-source:%s" % (tag, bad[0]))
        return problems

    # ---- comparison with None, with the other address classes and with ints / bytes / str / sequences that do or do not denote
    #      the same address.  Reading of the property: an address equals only what denotes the same address of the same family;
    #      None denotes none; ordering against something that is not such an address is a TypeError, never an answer.
    def _cmpx(self, case):
        A = self.A
        k, raw = case["k"], bytes.fromhex(case["raw"])
        mk = {"ip4": lambda r: A.IPAddr(r), "ip6": lambda r: A.IPAddr6(r, raw=True), "eth": lambda r: A.EthAddr(r)}
        x = mk[k](raw)
        def t(f):
            try: return f()
            except RecursionError: return "RecursionError"
            except Exception as e: return type(e).__name__
        def obs(o): return [t(lambda: x == o), t(lambda: x != o), t(lambda: x < o), t(lambda: x >= o), t(lambda: o == x), t(lambda: o != x)]
        problems = []
        NOT_AN_ADDRESS = [False, True, "TypeError", "TypeError", False, True]
        foreign = [("none", None), ("object", object()), ("float", 1.5), ("junk-str", "no such address"), ("empty-str", ""), ("empty-bytes", b""), ("empty-list", [])]
        zero = {"ip4": 4, "ip6": 16, "eth": 6}
        for ok_, n in zero.items():
            if ok_ != k:
                foreign.append(("cross-class:%s-zero" % ok_, mk[ok_](b"\0" * n)))
                foreign.append(("cross-class:%s-ones" % ok_, mk[ok_](b"\xff" * n)))
        if k == "ip4": foreign.append(("cross-class:ip6-mapped", A.IPAddr6(b"\0" * 10 + b"\xff\xff" + raw, raw=True)))
        if k == "ip6" and raw[:12] == b"\0" * 10 + b"\xff\xff": foreign.append(("cross-class:ip4-of-mapped", A.IPAddr(raw[12:])))
        for name, o in foreign:
            got = obs(o)
            if got != NOT_AN_ADDRESS:
                aspect = "recursion" if "RecursionError" in got else "equal" if got[0] is True or got[4] is True else "ordered" if got[2] in (True, False) else "other"
                problems.append("%s:%s:%s" % (name.split(":")[0], aspect, name))
        # things that denote an address of the same class: the answer is the one for that address
        text = {"ip4": lambda r: ".".join(map(str, r)), "ip6": rfc5952, "eth": lambda r: ":".join("%02x" % b for b in r)}[k]
        others = [raw, bytes(b ^ (i == len(raw) - 1) for i, b in enumerate(raw)), b"\0" * len(raw), b"\xff" * len(raw)]
        key = (lambda r: struct.unpack("<i", r)[0]) if k == "ip4" else (lambda r: r)
        for r2 in others:
            forms = [("text", text(r2))]
            if k == "ip4": forms += [("int", rt(int.from_bytes(r2, "big"))), ("bytes", r2)]
            if k == "eth": forms += [("bytes", r2), ("list", list(r2)), ("tuple", tuple(r2))]
            for fname, o in forms:
                got = obs(o)[:4]
                want = [raw == r2, raw != r2, key(raw) < key(r2), not key(raw) < key(r2)]
                if got != want: problems.append("denoting:%s:%s" % (fname, "eq" if got[:2] != want[:2] else "order"))
        return problems

    # ---- sequences of method calls on the SAME objects (hidden per-instance / per-class state, HARDENING items 1-2)
    def _mk_obj(self, o):
        A = self.A
        raw = bytes.fromhex(o["raw"])
        return {"ip4": lambda: A.IPAddr(raw), "ip6": lambda: A.IPAddr6(raw, raw=True), "eth": lambda: A.EthAddr(raw)}[o["k"]]()

    def _run_objs(self, case):
        objs = [self._mk_obj(o) for o in case["objs"]]
        out = []
        for st in case["steps"]:
            i, m, args = st[0], st[1], st[2:]
            x = objs[i]
            try:
                if m == "un": r = x.toUnsigned(networkOrder=args[0]) if args[1] else x.toUnsigned(args[0])
                elif m == "sn": r = x.toSigned(networkOrder=args[0]) if args[1] else x.toSigned(args[0])
                elif m == "uprop": r = x.unsigned_n if args[0] else x.unsigned_h
                elif m == "raw": r = bytes(x.raw).hex()
                elif m == "toRaw": r = bytes(x.toRaw()).hex()
                elif m == "str": r = str(x)
                elif m == "repr": r = repr(x)
                elif m == "hash": r = hash(x) == hash(self._mk_obj(case["objs"][i]))
                elif m == "num": r = x.num
                elif m == "mapped": r = x.is_ipv4_mapped
                elif m == "to_str6": r = x.to_str(zero_drop=args[0], section_drop=args[1], ipv4=args[2]) if args[3] else x.to_str(args[0], args[1], args[2])
                elif m == "to_str_eth": r = x.to_str(args[0]) if args[1] else x.toStr(separator=args[0])
                elif m == "tuple": r = list(x.to_tuple())
                elif m == "innet":
                    n = self._mk_obj({"k": case["objs"][i]["k"], "raw": args[0]})
                    b = int(str(args[1]))
                    r = x.in_network((n, b)) if args[2] else (x.inNetwork((n, b)) if case["objs"][i]["k"] == "ip4" else x.in_network(network=(n, b)))
                elif m == "innet2":                        # (network, netmask) calling form, netmask as int or str, positional or keyword
                    n = self._mk_obj({"k": case["objs"][i]["k"], "raw": args[0]})
                    nm = int(str(args[1])) if args[2] else str(args[1])
                    r = x.in_network(n, nm) if args[3] else x.in_network(n, netmask=nm)
                elif m == "getnet": r0 = x.get_network(int(str(args[0])) if args[1] else str(args[0])); r = [r0[0].raw.hex(), r0[1]]
                elif m == "eq": r = [x == objs[args[0]], x != objs[args[0]]]
                elif m == "lt": r = [x < objs[args[0]], x >= objs[args[0]]]
                else: raise ValueError("unknown step " + m)
            except Exception as e:
                r = "exc:" + type(e).__name__
            out.append(r)
        return out

    def _ip4view(self, x):
        return {"raw": x.raw.hex(), "value": struct.unpack("<i", x.raw)[0], "str": str(x), "un": x.toUnsigned(networkOrder=True), "uh": x.toUnsigned(),
                "sn": x.toSigned(networkOrder=True), "sh": x.toSigned()}

    def impl(self, case):
        A, U = self.A, self.U
        op = case["op"]
        self.stats[op] = self.stats.get(op, 0) + 1
        try:
            if op in ("ip4_text", "ip4_raw", "ip4_int"):
                if op == "ip4_text": x = A.IPAddr(case["t"].encode("utf-8") if case.get("bytes") else case["t"])
                elif op == "ip4_raw": x = A.IPAddr(bytes.fromhex(case["raw"]))
                else: x = A.IPAddr(rt(case["n"]), case["order"]) if case.get("conv") else A.IPAddr(rt(case["n"]), networkOrder=case["order"])
                v = self._ip4view(x)
                ex = self._extras(x, A.IPAddr, str(x))
                ex["from_uh"] = A.IPAddr(v["uh"]).raw.hex(); ex["from_un"] = A.IPAddr(v["un"], networkOrder=True).raw.hex()
                ex["from_sh"] = A.IPAddr(v["sh"]).raw.hex(); ex["from_sn"] = A.IPAddr(v["sn"], networkOrder=True).raw.hex()
                ex["from_raw"] = A.IPAddr(x.raw).raw.hex(); ex["copy"] = A.IPAddr(x).raw.hex()
                ex["unsigned_h"] = x.unsigned_h; ex["unsigned_n"] = x.unsigned_n
                return {"view": v, "extra": ex}
            if op == "ip4_cmp":
                a, b = A.IPAddr(bytes.fromhex(case["a"])), A.IPAddr(bytes.fromhex(case["b"]))
                return {"view": {"eq": a == b, "lt": a < b, "gt": a > b},
                        "extra": {"ne": a != b, "le": a <= b, "ge": a >= b, "hash_eq": hash(a) == hash(b), "eq_text": a == str(b),
                                  "lt_text": a < str(b)}}
            if op == "ip4_mask":
                m = A.cidr_to_netmask(rt(case["bits"]))
                return {"view": {"mask": m.raw.hex(), "back": A.netmask_to_cidr(m)}, "extra": {"back_text": A.netmask_to_cidr(str(m))}}
            if op == "ip4_nm2cidr":
                return {"view": {"bits": A.netmask_to_cidr(A.IPAddr(bytes.fromhex(case["raw"])))}}
            if op == "ip4_innet":
                n = A.IPAddr(bytes.fromhex(case["n"]))
                return {"view": {"in": [A.IPAddr(bytearray.fromhex(a) if case.get("conv") else bytes.fromhex(a)).inNetwork((n, rt(case["b"]))) for a in case["as"]]}}
            if op == "ip4_innet_text":
                a = A.IPAddr(bytes.fromhex(case["a"]))
                r = a.inNetwork(case["net"])
                ex = {}
                if "/" in case["net"]:
                    nn, mm = case["net"].split("/", 1)
                    try: ex["two_arg"] = a.in_network(nn, mm)
                    except Exception as e: ex["two_arg"] = "exc:" + type(e).__name__
                return {"view": {"in": r}, "extra": ex}
            if op == "ip4_parse_cidr":
                cv = case.get("conv", 0)
                if cv == 1: n, b = A.parse_cidr(case["t"], case["infer"], case["allow_host"])
                elif cv == 2: n, b = A.IPAddr.parse_cidr(case["t"], case["infer"], allow_host=case["allow_host"])
                elif cv == 3 and case["infer"] is True and case["allow_host"] is False: n, b = A.parse_cidr(case["t"])
                else: n, b = A.parse_cidr(case["t"], infer=case["infer"], allow_host=case["allow_host"])
                return {"view": {"addr": n.raw.hex(), "bits": b}}
            if op == "ip4_getnet":
                arg = case["arg"]
                n, b = A.IPAddr(bytes.fromhex(case["a"])).get_network(int(arg) if (arg.isascii() and arg.isdigit()) else arg)
                return {"view": {"addr": n.raw.hex(), "bits": b}}
            if op == "ip4_infer":
                return {"view": {"bits": A.infer_netmask(A.IPAddr(bytes.fromhex(case["a"])))}}
            if op == "ip6_text":
                x = A.IPAddr6(case["t"])
                return {"view": {"raw": x.raw.hex(), "str": str(x)}, "extra": self._extras(x, A.IPAddr6, str(x))}
            if op == "ip6_str":
                raw = bytes.fromhex(case["raw"])
                x = A.IPAddr6(raw, raw=True)
                strs = [x.to_str(zero_drop=zd, section_drop=sd, ipv4=v4) for zd, sd, v4 in OPTS6]
                ex = self._extras(x, A.IPAddr6, str(x))
                back = []
                for s in strs:
                    try: back.append(A.IPAddr6(s).raw.hex())
                    except Exception as e: back.append("exc:" + type(e).__name__)
                ex["back"] = back
                ex["from_bytearray"] = A.IPAddr6(bytearray(raw)).raw.hex(); ex["from_raw"] = A.IPAddr6.from_raw(raw).raw.hex()
                ex["copy"] = A.IPAddr6(x).raw.hex()
                try:
                    fn = A.IPAddr6.from_num(x.num); ex["from_num"] = fn.raw.hex() if isinstance(fn, A.IPAddr6) else "type:" + type(fn).__name__
                except Exception as e:
                    ex["from_num"] = "exc:" + type(e).__name__
                return {"view": {"strs": strs, "num": x.num, "mapped": x.is_ipv4_mapped}, "extra": ex}
            if op == "ip6_mask":
                m = A.IPAddr6.cidr_to_netmask(rt(case["bits"]))
                if not isinstance(m, A.IPAddr6):
                    return {"view": {"mask": bytes(m).hex(), "back": "type:" + type(m).__name__}}
                return {"view": {"mask": m.raw.hex(), "back": A.IPAddr6.netmask_to_cidr(m)}, "extra": {"back_text": A.IPAddr6.netmask_to_cidr(str(m))}}
            if op == "ip6_nm2cidr":
                return {"view": {"bits": A.IPAddr6.netmask_to_cidr(A.IPAddr6(bytes.fromhex(case["raw"]), raw=True))}}
            if op == "ip6_innet":
                n = A.IPAddr6(bytes.fromhex(case["n"]), raw=True)
                return {"view": {"in": [A.IPAddr6(bytes.fromhex(a), raw=True).in_network((n, case["b"])) for a in case["as"]]}}
            if op == "ip6_innet_text":
                a = A.IPAddr6(bytes.fromhex(case["a"]), raw=True)
                r = a.in_network(case["net"])
                ex = {}
                if "/" in case["net"]:
                    nn, mm = case["net"].split("/", 1)
                    try: ex["two_arg"] = a.in_network(nn, mm)
                    except Exception as e: ex["two_arg"] = "exc:" + type(e).__name__
                return {"view": {"in": r}, "extra": ex}
            if op == "ip6_parse_cidr":
                cv = case.get("conv", 0)
                if cv == 1: n, b = A.IPAddr6.parse_cidr(case["t"], case["allow_host"])
                elif cv == 2: n, b = A.IPAddr6("::").parse_cidr(case["t"], allow_host=case["allow_host"])
                else: n, b = A.IPAddr6.parse_cidr(case["t"], allow_host=case["allow_host"])
                return {"view": {"addr": n.raw.hex(), "bits": b}}
            if op == "bytes_cmp":
                mk = (lambda h: A.IPAddr6(bytes.fromhex(h), raw=True)) if case["kind"] == "ip6" else (lambda h: A.EthAddr(bytes.fromhex(h)))
                a, b = mk(case["a"]), mk(case["b"])
                return {"view": {"eq": a == b, "lt": a < b, "gt": a > b},
                        "extra": {"ne": a != b, "le": a <= b, "ge": a >= b, "hash_eq": hash(a) == hash(b), "eq_text": a == str(b), "lt_text": a < str(b)}}
            if op == "eth_text":
                x = A.EthAddr(case["t"].encode("utf-8") if case.get("bytes") else case["t"])
                ex = self._extras(x, A.EthAddr, str(x))
                ex["from_tuple"] = A.EthAddr(x.toTuple()).raw.hex(); ex["from_list"] = A.EthAddr(list(x.raw)).raw.hex(); ex["copy"] = A.EthAddr(x).raw.hex()
                ex["from_bare"] = A.EthAddr(x.to_str("")).raw.hex() if False else A.EthAddr("".join("%02x" % b for b in x.raw)).raw.hex()
                ex["len"] = len(x.raw)
                return {"view": {"raw": x.raw.hex(), "str": str(x), "dash": x.to_str("-")}, "extra": ex}
            if op == "eth_seq":
                import array
                seq = {"list": list, "tuple": tuple, "bytearray": bytearray, "memoryview": lambda v: memoryview(bytes(v)),
                       "array": lambda v: array.array("B", v), "bytes": bytes}[case["kind"]](case["vals"])
                x = A.EthAddr(seq)
                return {"view": {"raw": x.raw.hex()}, "extra": {"str": str(x)}}
            if op == "dpid_str":
                s = U.dpid_to_str(rt(case["d"]), case["long"]) if case.get("conv") else U.dpid_to_str(rt(case["d"]), alwaysLong=case["long"])
                return {"view": {"str": s, "back": U.str_to_dpid(s)}, "extra": {"bytes_form": U.dpid_to_str(struct.pack("!Q", case["d"]), case["long"])}}
            if op == "dpid_parse":
                return {"view": {"d": U.str_to_dpid(case["t"])}}
            if op == "int":
                return {"view": {"v": int(case["t"], case["base"])}}
            if op == "misc":
                return {"view": {}, "extra": self._misc(case)}
            if op == "objs":
                return {"view": {"steps": self._run_objs(case)}}
            if op == "ctor":
                return {"view": {}, "extra": {"problems": self._ctor(case)}}
            if op == "cmpx":
                return {"view": {}, "extra": {"problems": self._cmpx(case)}}
            if op == "calls":
                # one Python process, one call after the other: no result may depend on what was called before
                subs = [self.impl(c) for c in case["calls"]]
                return {"view": {"results": [o["view"] for o in subs]}, "extra": {"subs": subs}}
        except Exception as e:
            return {"view": excname(e)}
        raise ValueError("unknown op " + op)

    # ------------------------------------------------------------------------- model side
    TEXT_KEYS = ("t", "net", "arg")
    def model_request(self, case):
        if case["op"] in ("misc", "ctor", "cmpx"): return None
        if case["op"] == "calls":
            subs = [self.model_request(c) for c in case["calls"]]
            return None if any(x is None for x in subs) else {"calls": subs}
        if case["op"] == "objs":
            return {"calls": [self.model_request(self._step_case(case, st)[0]) for st in case["steps"]]}
        r = {}
        for k, v in case.items():
            if k in self.TEXT_KEYS:
                # int() itself (ops `int`, `dpid_parse`) is modelled for ASCII text only; every address parser is modelled on code points
                if case["op"] in ("int", "dpid_parse") and not v.isascii(): return None
                r[k] = hx(v)
            elif k == "infer":
                r[k] = v is not False                      # the code tests `infer is False`: 0 is not False
            elif k in ("bytes", "conv"):
                pass                                       # IPAddr(bytes text) / EthAddr(bytes text): the same text, UTF-8 encoded by the caller
            elif k != "kind" or case["op"] == "eth_seq":
                r[k] = v
        r["var"] = [self.variant["ip6"], self.variant["eth"], self.variant["cidr"], self.variant["seq"]]
        return r

    def model_obs(self, case, resp):
        if case["op"] == "objs" and "results" in resp:
            out = []
            for st, r in zip(case["steps"], resp["results"]):
                sub, proj = self._step_case(case, st)
                out.append(proj(self.model_obs(sub, r)))
            return {"steps": out}
        if case["op"] == "calls" and "results" in resp:
            return {"results": [self.model_obs(c, r) for c, r in zip(case["calls"], resp["results"])]}
        if "error" in resp: return resp
        if "exc" in resp: return self._norm_exc(case, resp)
        out = {}
        for k, v in resp.items():
            if k == "hash": continue                   # the hash value is not specified by the property (only its consistency): not compared
            if k in ("str", "dash"): out[k] = unhx(v)
            elif k == "strs": out[k] = [unhx(s) for s in v]
            else: out[k] = v
        return out

    def _step_case(self, case, st):
        """the stateless question a step asks: (ordinary case for the driver, projection of its answer)"""
        i, m, args = st[0], st[1], st[2:]
        o = case["objs"][i]; k, raw = o["k"], o["raw"]
        E = lambda f: (lambda v: ("exc:" + v["exc"]) if "exc" in v else f(v))
        if k == "ip4":
            base = {"op": "ip4_raw", "raw": raw}
            if m == "un": return base, E(lambda v: v["un"] if args[0] else v["uh"])
            if m == "uprop": return base, E(lambda v: v["un"] if args[0] else v["uh"])
            if m == "sn": return base, E(lambda v: v["sn"] if args[0] else v["sh"])
            if m in ("raw", "toRaw"): return base, E(lambda v: v["raw"])
            if m == "str": return base, E(lambda v: v["str"])
            if m == "repr": return base, E(lambda v: "IPAddr('%s')" % v["str"])
            if m == "hash": return base, E(lambda v: True)
            if m == "innet": return {"op": "ip4_innet", "n": args[0], "b": args[1], "as": [raw]}, E(lambda v: v["in"][0])
            if m == "innet2":
                return {"op": "ip4_innet_text", "a": raw, "net": "%s/%s" % (".".join(map(str, bytes.fromhex(args[0]))), args[1])}, E(lambda v: v["in"])
            if m == "getnet": return {"op": "ip4_getnet", "a": raw, "arg": str(args[0])}, E(lambda v: [v["addr"], v["bits"]])
            if m in ("eq", "lt"):
                sub = {"op": "ip4_cmp", "a": raw, "b": case["objs"][args[0]]["raw"]}
                return sub, E((lambda v: [v["eq"], not v["eq"]]) if m == "eq" else (lambda v: [v["lt"], not v["lt"]]))
        if k == "ip6":
            base = {"op": "ip6_str", "raw": raw}
            if m == "to_str6": return base, E(lambda v: v["strs"][OPTS6.index((args[0], args[1], args[2]))])
            if m == "str": return base, E(lambda v: v["strs"][0])
            if m == "repr": return base, E(lambda v: "IPAddr6('%s')" % v["strs"][0])
            if m == "num": return base, E(lambda v: v["num"])
            if m == "mapped": return base, E(lambda v: v["mapped"])
            if m == "raw": return base, E(lambda v: raw)
            if m == "hash": return base, E(lambda v: True)
            if m == "innet": return {"op": "ip6_innet", "n": args[0], "b": args[1], "as": [raw]}, E(lambda v: v["in"][0])
            if m == "innet2": return {"op": "ip6_innet_text", "a": raw, "net": "%s/%s" % (rfc5952(bytes.fromhex(args[0])), args[1])}, E(lambda v: v["in"])
        if k == "eth":
            base = {"op": "eth_raw", "raw": raw}
            if m == "to_str_eth": return base, E(lambda v: v["str"] if args[0] == ":" else v["dash"])
            if m == "str": return base, E(lambda v: v["str"])
            if m == "repr": return base, E(lambda v: "EthAddr('%s')" % v["str"])
            if m in ("raw", "toRaw"): return base, E(lambda v: v["raw"])
            if m == "tuple": return base, E(lambda v: list(bytes.fromhex(v["raw"])))
            if m == "hash": return base, E(lambda v: True)
        if m in ("eq", "lt"):
            sub = {"op": "bytes_cmp", "kind": k, "a": raw, "b": case["objs"][args[0]]["raw"]}
            return sub, E((lambda v: [v["eq"], not v["eq"]]) if m == "eq" else (lambda v: [v["lt"], not v["lt"]]))
        raise ValueError("step %r not defined for %s" % (m, k))

    def impl_view(self, case, obs):
        if case["op"] == "objs":
            return obs["view"]
        if case["op"] == "calls":
            return {"results": [self.impl_view(c, o) for c, o in zip(case["calls"], obs["extra"]["subs"])]}
        return self._norm_exc(case, obs["view"])

    def _norm_exc(self, case, view):
        """libc's inet_aton accepts non-canonical quads (octal, short forms, trailing junk): when such a component is present and the
        whole input is rejected, which check rejects it first depends on libc; compare only the fact of rejection."""
        if "exc" in view and not self.variant["ip4"]:
            for k in self.TEXT_KEYS:
                if k in case:
                    for part in case[k].split("/"):
                        cand = part.rpartition(":")[2] if ":" in part else part
                        if (case["op"].startswith("ip4") or "." in cand) and ref_ip4(cand) is None:
                            return {"exc": "rejected"}
        return view

    # ------------------------------------------------------------------------- the property, on the real code's observables
    def oracle(self, case, obs):
        op, v, ex = case["op"], obs["view"], obs.get("extra", {})
        rejected = "exc" in v
        def common_extras(kind, raw_hex):
            if ex.get("reparse_eq") is not True: return "%s: str() does not re-parse to an equal address (%s)" % (kind, ex.get("reparse_eq"))
            if ex.get("hash_eq") is not True: return "%s: equal addresses hash differently" % kind
            if ex.get("eq_text") is not True: return "%s: address != its own text" % kind
            if ex.get("immutable") != ["TypeError", "TypeError"]: return "%s: not immutable (%s)" % (kind, ex.get("immutable"))
            if ex.get("value_type") not in ("int", "bytes", "str", "tuple"): return "%s: _value is a mutable %s" % (kind, ex.get("value_type"))
            if ex.get("hash_of_value") is not True: return "%s: hash is not a function of the value" % kind
            if ex.get("delattr") == "deleted": return "immutable:delattr"
            return None

        if op in ("ip4_text", "ip4_raw", "ip4_int"):
            if op == "ip4_text":
                want = ref_ip4(case["t"])
                if want is None:
                    return None if rejected else "ip4-text:accepts:" + ip4_class(case["t"])
            elif op == "ip4_raw":
                want = bytes.fromhex(case["raw"])
            else:
                want = (case["n"] & 0xffffffff).to_bytes(4, "little" if case["order"] else "big")
            if rejected: return "ip4: valid input rejected (%s)" % v["exc"]
            if v["raw"] != want.hex(): return "ip4: raw %s, expected %s" % (v["raw"], want.hex())
            h, n = int.from_bytes(want, "big"), int.from_bytes(want, "little")
            sg = lambda u: u - (1 << 32) if u >= 1 << 31 else u
            if v["str"] != str(ipaddress.IPv4Address(want)): return "ip4: str %r" % v["str"]
            if (v["uh"], v["un"], v["sh"], v["sn"]) != (h, n, sg(h), sg(n)):
                return "ip4: byte-order views wrong: uh=%d un=%d sh=%d sn=%d" % (v["uh"], v["un"], v["sh"], v["sn"])
            if (ex["unsigned_h"], ex["unsigned_n"]) != (h, n): return "ip4: unsigned_h/unsigned_n wrong"
            for k in ("from_uh", "from_un", "from_sh", "from_sn", "from_raw", "copy"):
                if ex[k] != want.hex(): return "ip4: IPAddr(%s view) gives %s, expected %s" % (k[5:], ex[k], want.hex())
            if ex["repr"] != "IPAddr('%s')" % v["str"]: return "ip4: repr %r" % ex["repr"]
            return common_extras("ip4", want.hex())

        if op in ("ip4_cmp", "bytes_cmp"):
            if rejected: return "compare raised %s" % v["exc"]
            same = case["a"] == case["b"]
            if v["eq"] != same or ex["ne"] == same: return "==/!= disagree with byte equality"
            if [v["lt"], v["eq"], v["gt"]].count(True) != 1: return "trichotomy fails: lt=%s eq=%s gt=%s" % (v["lt"], v["eq"], v["gt"])
            if ex["le"] != (v["lt"] or v["eq"]) or ex["ge"] != (v["gt"] or v["eq"]): return "<=/>= inconsistent with </==/>"
            if same and not ex["hash_eq"]: return "equal addresses hash differently"
            if ex["eq_text"] != same or ex["lt_text"] != v["lt"]: return "comparison with the text form differs from comparison with the object"
            if op == "bytes_cmp" and v["lt"] != (bytes.fromhex(case["a"]) < bytes.fromhex(case["b"])): return "order is not the byte-wise order"
            if op == "ip4_cmp":                                     # documented order: the signed network-order int
                key = lambda hh: struct.unpack("<i", bytes.fromhex(hh))[0]
                if v["lt"] != (key(case["a"]) < key(case["b"])): return "ip4 order is not the order of the stored value"
            return None

        if op in ("ip4_mask", "ip6_mask"):
            w = 32 if op == "ip4_mask" else 128
            b = case["bits"]
            if b > w: return None if rejected else "mask: prefix length %d accepted" % b
            if rejected: return "mask: cidr_to_netmask/netmask_to_cidr raised %s for %d" % (v["exc"], b)
            if isinstance(v["back"], str) and v["back"].startswith("type:"): return "ip6-mask:from_num-returns-" + v["back"][5:]
            net = ipaddress.ip_network((0, b)) if w == 32 else ipaddress.IPv6Network((0, b))
            if v["mask"] != net.netmask.packed.hex(): return "mask: /%d gives %s" % (b, v["mask"])
            if v["back"] != b or ex.get("back_text") != b: return "mask: netmask_to_cidr(cidr_to_netmask(%d)) = %s / %s" % (b, v["back"], ex.get("back_text"))
            return None

        if op in ("ip4_nm2cidr", "ip6_nm2cidr"):
            w = 32 if op == "ip4_nm2cidr" else 128
            want = contiguous_bits(int(case["raw"], 16), w)
            if want is None: return None if rejected else "netmask_to_cidr: non-contiguous mask %s accepted as /%s" % (case["raw"], v.get("bits"))
            if rejected or v["bits"] != want: return "netmask_to_cidr(%s) = %s, expected %d" % (case["raw"], v, want)
            return None

        if op in ("ip4_innet", "ip6_innet"):
            w = 32 if op == "ip4_innet" else 128
            b, n = case["b"], int(case["n"], 16)
            if b > w: return None if rejected else "membership: prefix length %d accepted" % b
            if rejected: return "membership raised %s" % v["exc"]
            host = n & ((1 << (w - b)) - 1)
            net = None if host else (ipaddress.IPv4Network((n, b)) if w == 32 else ipaddress.IPv6Network((n, b)))
            for a, got in zip(case["as"], v["in"]):
                ai = int(a, 16)
                # a network with non-zero host bits contains nothing (the code compares with the unmasked network address)
                want = False if host else ((ipaddress.IPv4Address(ai) if w == 32 else ipaddress.IPv6Address(ai)) in net)
                if got is not want: return "membership: %s in %s/%d = %s, expected %s" % (a, case["n"], b, got, want)
            return None

        if op in ("ip4_parse_cidr", "ip6_parse_cidr", "ip4_innet_text", "ip6_innet_text", "ip4_getnet"):
            six = op.startswith("ip6")
            t = case["t"] if "t" in case else (case["net"] if "net" in case else "255.255.255.255/" + case["arg"])
            want = self.ref_cidr(t, six, (case.get("infer", True) is not False) if not six else False,
                                 True if op == "ip4_getnet" else case.get("allow_host", False))
            if isinstance(want, str):
                if rejected: return None
                fam = "ip6" if six else "ip4"
                if want.startswith(("addr:", "mask:")): return "%s-text:accepts:%s" % (fam, want[5:])   # the constructor's defect
                return "%s-cidr:accepts:%s" % (fam, want)
            if want is None:                                       # valid but the code may legitimately refuse (host bits set, strict)
                return None if rejected else "cidr: host bits set but accepted: %r" % t
            wa, wb = want
            if rejected:
                if six and not self.variant["ip6"] and any(unsupported_valid6(p) for p in t.split("/")): return None
                return "cidr: valid %r rejected (%s)" % (t, v["exc"])
            if op.endswith("parse_cidr"):
                if (v["addr"], v["bits"]) != (wa.hex(), wb): return "cidr: %r parsed as %s/%s" % (t, v["addr"], v["bits"])
            elif op == "ip4_getnet":
                a = int(case["a"], 16)
                net = a & ~((1 << (32 - wb)) - 1)
                if (v["addr"], v["bits"]) != (self.r4(net), wb): return "get_network(%s) = %s/%s" % (case["arg"], v["addr"], v["bits"])
            else:
                w = 128 if six else 32
                a = int(case["a"], 16)
                inside = (a >> (w - wb)) == (int.from_bytes(wa, "big") >> (w - wb)) if wb else True
                if v["in"] is not inside: return "membership(text): %s in %r = %s" % (case["a"], t, v["in"])
                if "two_arg" in ex and ex["two_arg"] is not inside: return "membership(addr, mask) form: %s" % ex["two_arg"]
            return None

        if op == "ip4_infer":
            a = int(case["a"], 16)
            want = 0 if a == 0 else 8 if a < 0x80000000 else 16 if a < 0xc0000000 else 24 if a < 0xe0000000 else 32
            return None if v.get("bits") == want else "infer_netmask(%s) = %s, classful rules say %d" % (case["a"], v, want)

        if op == "ip6_text":
            want = ref_ip6(case["t"])
            if want is None:
                return None if rejected else "ip6-text:accepts:" + ip6_class(case["t"])
            if rejected:
                if not self.variant["ip6"] and unsupported_valid6(case["t"]):   # (unrepaired code only) a valid form the constructor does not support: not mis-parsed
                    self.stats["valid_ip6_text_rejected"] = self.stats.get("valid_ip6_text_rejected", 0) + 1
                    return None
                return "ip6: valid text %r rejected (%s)" % (case["t"], v["exc"])
            if v["raw"] != want.hex(): return "ip6: %r parsed as %s, expected %s" % (case["t"], v["raw"], want.hex())
            if v["str"] != rfc5952(want): return "ip6: str %r is not the RFC 5952 form %r" % (v["str"], rfc5952(want))
            if ex["repr"] != "IPAddr6('%s')" % v["str"]: return "ip6: repr %r" % ex["repr"]
            return common_extras("ip6", want.hex())

        if op == "ip6_str":
            if rejected: return "ip6: constructing/printing a raw address raised %s" % v["exc"]
            raw = bytes.fromhex(case["raw"])
            if v["strs"][0] != rfc5952(raw): return "ip6: str %r is not the RFC 5952 form %r" % (v["strs"][0], rfc5952(raw))
            if v["num"] != int.from_bytes(raw, "big"): return "ip6: num wrong"
            if v["mapped"] != (raw[:12] == b"\0" * 10 + b"\xff\xff"): return "ip6: is_ipv4_mapped wrong"
            for (zd, sd, v4), s, bk in zip(OPTS6, v["strs"], ex["back"]):
                if bk != case["raw"]: return "ip6: to_str(zero_drop=%s, section_drop=%s, ipv4=%s) = %r re-parses to %s" % (zd, sd, v4, s, bk)
                if ref_ip6(s) != raw: return "ip6: to_str(...) = %r is not valid RFC 4291 text for the address" % s
                if s != s.lower(): return "ip6: upper case in %r" % s
            for k in ("from_bytearray", "from_raw", "copy"):
                if ex[k] != case["raw"]: return "ip6: %s gives %s" % (k, ex[k])
            if ex["from_num"] != case["raw"]: return "ip6-mask:from_num-returns-" + ex["from_num"].split(":")[-1]
            return common_extras("ip6", case["raw"])

        if op == "eth_text":
            want = ref_eth(case["t"])
            if want is None:
                return None if rejected else "eth-text:accepts:" + eth_class(case["t"])
            if rejected:
                if not self.variant["eth"] and len(case["t"]) == 12 and ":" in case["t"]:   # (unrepaired code only) theorem eth_loose12_rejected
                    self.stats["valid_eth_text_rejected"] = self.stats.get("valid_eth_text_rejected", 0) + 1
                    return None
                return "eth: valid text %r rejected (%s)" % (case["t"], v["exc"])
            if v["raw"] != want.hex(): return "eth: %r parsed as %s, expected %s" % (case["t"], v["raw"], want.hex())
            canon = ":".join("%02x" % b for b in want)
            if v["str"] != canon or v["dash"] != canon.replace(":", "-"): return "eth: str %r" % v["str"]
            for k in ("from_tuple", "from_list", "copy", "from_bare"):
                if ex[k] != want.hex(): return "eth: %s gives %s" % (k, ex[k])
            if ex["repr"] != "EthAddr('%s')" % canon: return "eth: repr %r" % ex["repr"]
            return common_extras("eth", want.hex())

        if op == "eth_seq":
            vals = case["vals"]
            if any(v < 0 or v > 255 for v in vals): return None if rejected else "eth-seq:accepts:out-of-range"
            if len(vals) != 6: return None if rejected else "eth-seq:accepts:wrong-length"
            if rejected or v["raw"] != bytes(vals).hex(): return "eth: sequence %r gives %s" % (vals, v)
            return None
        if op == "dpid_str":
            d = case["d"]
            if d >= 1 << 64: return None if rejected else "dpid: %d accepted" % d
            if rejected: return "dpid: dpid_to_str/str_to_dpid raised %s for %d" % (v["exc"], d)
            if v["back"] != d: return "dpid: str_to_dpid(dpid_to_str(%d)) = %s" % (d, v["back"])
            want = "-".join("%02x" % b for b in d.to_bytes(8, "big")[2:])
            if case["long"] or d >> 48: want += "|%d" % (d >> 48)
            if v["str"] != want or ex["bytes_form"] != want: return "dpid: text %r, expected %r" % (v["str"], want)
            return None

        if op == "misc":
            bad = sorted(k for k, val in ex.items() if val is not True)
            return ("misc:" + bad[0]) if bad else None
        if op == "cmpx":
            if rejected: return "cmpx: harness-level exception %s" % v["exc"]
            for pr in ex["problems"]:
                key = "foreign-compare:" + pr.split(":")[0] + ":" + pr.split(":")[1]
                if self.gated(key): continue
                return key + " (" + pr + ")"
            return None
        if op == "ctor":
            if rejected: return "ctor: harness-level exception %s" % v["exc"]
            return ("ctor:" + ex["problems"][0]) if ex["problems"] else None
        if op == "objs":
            if rejected: return "objs: harness-level exception %s" % v["exc"]
            for j, (st, got) in enumerate(zip(case["steps"], v["steps"])):
                want = self._ref_step(case, st)
                if want is not NOREF and got != want:
                    return "objs: step %d %s on %s gives %r, a fresh object gives %r" % (j + 1, st[1], case["objs"][st[0]]["k"], got, want)
            return None
        if op == "calls":
            # each call judged as if it were the only one: the reference is stateless
            for i, (c, o) in enumerate(zip(case["calls"], ex["subs"])):
                f = self.oracle(c, o)
                if f is not None:
                    return f if re.match(r"(ip4|ip6|eth)-(text|cidr|mask|seq):", f) else "call %d of %d (%s): %s" % (i + 1, len(case["calls"]), c["op"], f)
            return None
        return None                                                 # dpid_parse / int: model correspondence only

    def _ref_step(self, case, st):
        """what the call must return whatever was called before, from the raw bytes alone (written from the API documentation)"""
        i, m, args = st[0], st[1], st[2:]
        o = case["objs"][i]; k, raw = o["k"], bytes.fromhex(o["raw"])
        sg = lambda u: u - (1 << 32) if u >= 1 << 31 else u
        w = {"ip4": 32, "ip6": 128}.get(k)
        if m in ("un", "uprop"): return int.from_bytes(raw, "little" if args[0] else "big")
        if m == "sn": return sg(int.from_bytes(raw, "little" if args[0] else "big"))
        if m in ("raw", "toRaw"): return raw.hex()
        if m == "hash": return True
        if m == "num": return int.from_bytes(raw, "big")
        if m == "mapped": return raw[:12] == b"\0" * 10 + b"\xff\xff"
        if m == "tuple": return list(raw)
        if m == "to_str_eth": return args[0].join("%02x" % b for b in raw)
        if m in ("str", "repr"):
            t = str(ipaddress.IPv4Address(raw)) if k == "ip4" else rfc5952(raw) if k == "ip6" else ":".join("%02x" % b for b in raw)
            return t if m == "str" else "%s('%s')" % ({"ip4": "IPAddr", "ip6": "IPAddr6", "eth": "EthAddr"}[k], t)
        if m == "to_str6":
            return rfc5952(raw) if (args[0], args[1], args[2]) == (True, True, None) else NOREF      # other options: shape checked by ip6_str cases
        if m in ("innet", "innet2"):
            n, b = int(args[0], 16), args[1]
            if b > w: return "exc:ValueError" if m == "innet" else "exc:AssertionError"
            host = n & ((1 << (w - b)) - 1)
            if host: return False if m == "innet" else "exc:RuntimeError"
            return (int.from_bytes(raw, "big") >> (w - b)) == (n >> (w - b)) if b else True
        if m == "getnet":
            arg = str(args[0])
            b = int(arg) if arg.isascii() and arg.isdigit() else contiguous_bits(int.from_bytes(ref_ip4(arg) or b"\0\0\0\1", "big"), 32)
            if b is None or b > 32: return NOREF
            return [(int.from_bytes(raw, "big") & ~((1 << (32 - b)) - 1)).to_bytes(4, "big").hex(), b]
        if m in ("eq", "lt"):
            other = bytes.fromhex(case["objs"][args[0]]["raw"])
            if case["objs"][args[0]]["k"] != k: return NOREF
            if m == "eq": return [raw == other, raw != other]
            key = (lambda r: struct.unpack("<i", r)[0]) if k == "ip4" else (lambda r: r)
            return [key(raw) < key(other), not key(raw) < key(other)]
        return NOREF

    def ref_cidr(self, t, six, infer, allow_host):
        """(address bytes, prefix length) of a well-formed CIDR text; None = well-formed but host bits set (strict);
        a string = malformed, the string is its class"""
        w = 128 if six else 32
        ref = ref_ip6 if six else ref_ip4
        parts = t.split("/")
        if len(parts) > 2: return "extra-slash"
        a = ref(parts[0])
        if a is None: return "addr:" + ((ip6_class if six else ip4_class)(parts[0]))
        ai = int.from_bytes(a, "big")
        if len(parts) == 1:
            if six or not infer: b = w
            else:
                b = 0 if ai == 0 else 8 if ai < 0x80000000 else 16 if ai < 0xc0000000 else 24 if ai < 0xe0000000 else 32
                if ai & ((1 << (32 - b)) - 1): b = 32
        elif re.fullmatch(r"[0-9]+", parts[1]):
            b = int(parts[1])
            if b > w: return "prefix>%d" % w
        else:
            m = ref(parts[1])
            if m is None:
                return "int-leniency" if re.fullmatch(r"[ \t\n\r\x0b\x0c+_0-9]*[0-9][ \t\n\r\x0b\x0c_0-9]*", parts[1]) else "mask:" + ((ip6_class if six else ip4_class)(parts[1]))
            b = contiguous_bits(int.from_bytes(m, "big"), w)
            if b is None: return "non-contiguous-mask"
        if ai & ((1 << (w - b)) - 1) and not allow_host: return None
        return (a, b)

    def finding_key(self, case, obs, failure):
        if re.match(r"(ip4|ip6|eth)-(text|cidr|mask|seq):", failure) or failure.startswith("immutable:"): return failure
        if case["op"] == "ctor": return failure
        if case["op"] == "cmpx": return failure.split(" (")[0]
        if case["op"] == "calls" and failure.startswith("call "):
            return "calls:" + failure.split("): ", 1)[1].split(":")[0][:40]
        if failure.startswith("misc:"): return failure[5:] if failure.startswith(("misc:ip6-ctor:", "misc:mixed-eq:")) else failure
        return "%s:%s" % (case["op"], failure.split(":")[0][:40])

    def nontrivial(self, case, obs):
        return True

    def shrink_candidates(self, case):
        if case.get("op") == "objs":
            if len(case["steps"]) > 1:
                for i in range(len(case["steps"])):
                    c = dict(case); c["steps"] = case["steps"][:i] + case["steps"][i + 1:]; yield c
            return
        if case.get("op") == "calls":
            if len(case["calls"]) > 1:
                for i in range(len(case["calls"])):
                    c = dict(case); c["calls"] = case["calls"][:i] + case["calls"][i + 1:]; yield c
            return
        if "as" in case and len(case["as"]) > 1:
            for i in range(len(case["as"])):
                c = dict(case); c["as"] = case["as"][:i] + case["as"][i + 1:]; yield c
        for k in self.TEXT_KEYS:
            if k in case and len(case[k]) > 1:
                t = case[k]
                for i in range(len(t)):
                    c = dict(case); c[k] = t[:i] + t[i + 1:]; yield c


CHECK = C16
