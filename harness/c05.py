"""C05 — event delivery order, halting and unsubscription are exact (DESIGN §5 C05).

A case is one operation history on one to three fresh event sources:
  {"sources":[{"declared":[et..], "acceptAll":bool, "lazy":bool, "kind", "how", "cls", "base"}, ..], "ops":[action..], "scripts":[[hid, [script..]], ..]}
("how": where the declaration lives -- class attribute, _eventMixin_addEvent(s) on the instance, instance attribute; "cls"/"base": sources
that are instances of one class / of a class and its subclass, each with its OWN declared set; the model only sees declared/acceptAll/lazy.
A "decl" action changes a source's declaration in the middle of a history; such histories are checked by the oracle alone.)
(every action names its source with "s"; event type numbers are real classes with inheritance, see PARENT)
with the action / script / return-value vocabulary of lean/Drivers/C05.lean (the case *is* the driver request, plus
optional "via"/"v" fields that select which of several equivalent Python spellings / concrete return values is used).
Handlers are real Python callables subscribed to a real `EventMixin` subclass; the k-th invocation of handler `hid`
performs its k-th script (actions through the real API, re-entrantly), then returns / raises the scripted value."""
import gc, sys, types, weakref, io, contextlib, itertools, collections
import common, poxenv
from common import Check

N_ET = 6
PARENT = {3: 0, 4: 2, 5: 3}          # Ev3(Ev0), Ev4(Ev2), Ev5(Ev3); Ev0, Ev1, Ev2 derive from Event
FUEL = 200000


class Boom(Exception):
    pass


class Stop(BaseException):
    """an application's own exception that does not derive from Exception"""


class BadStr(Exception):
    """an exception that cannot even be printed"""
    def __str__(self): raise RuntimeError("str() of this exception fails")
    __repr__ = __str__


class FalsyCallable(object):
    """a handler object whose truth value is False"""
    def __init__(self, f): self.f = f
    def __call__(self, *a, **k): return self.f(*a, **k)
    def __len__(self): return 0


class C05(Check):
    id = "C05"
    prop_module = "PoxModel.Properties.C05"
    lean_targets = ["drv_c05"]
    driver = "drv_c05"
    theorems = ["Pox.C05.reachable_inv", "Pox.C05.sorted_inv", "Pox.C05.insertion_position", "Pox.C05.delivery_exact", "Pox.C05.delivery_exact_live",
                "Pox.C05.delivery_order", "Pox.C05.reentrant_safe", "Pox.C05.once_removed_later", "Pox.C05.once_removed_raising",
                "Pox.C05.once_fires_once", "Pox.C05.once_inflight_witness", "Pox.C05.remove_inflight_witness", "Pox.C05.unsubscribe_exact",
                "Pox.C05.bind_prefix_exact", "Pox.C05.sources_independent", "Pox.C05.noerrors", "Pox.C05.noerrors_partial",
                "Pox.C05.undeclared_rejected", "Pox.C05.nonevent_rejected", "Pox.C05.nonevent_defect", "Pox.C05.weak_gone", "Pox.C05.weak_midflight",
                "Pox.C05.lazy_init", "Pox.C05.noerrors_defect", "Pox.C05.once_raises_defect", "Pox.Revent.drive_eq_run"]
    # name-based anchors, resolved on the current source at every run (robust to line shifts); the range of a definition
    # starts at its first statement after the docstring (the `def` line itself only runs at import time)
    ANCHORED = [("pox/lib/revent/revent.py", q) for q in (
                    "EventMixin._eventMixin_init", "EventMixin.raiseEventNoErrors", "EventMixin.raiseEvent",
                    "EventMixin._eventMixin_get_listener_count", "EventMixin.removeListeners", "EventMixin.removeListener", "EventMixin.addListenerByName",
                    "EventMixin.add_listener", "EventMixin.addListener", "EventMixin.listenTo", "EventMixin.addListeners",
                    "EventMixin.clearHandlers", "autoBindEvents", "CallProxy.__init__", "CallProxy._forgetMe", "CallProxy.__call__")] + \
               [("pox/core.py", "_revent_exception_hook")]

    @property
    def anchors(self):
        import ast, os
        out = []
        for rel, qual in self.ANCHORED:
            path = os.path.join(common.REPO, rel)
            r = common.resolve_qualname(path, qual)
            if r is None:
                out.append((rel, qual)); continue            # AnchorCoverage reports it as unresolved
            node = ast.parse(open(path).read())
            for part in qual.split("."):
                node = [c for c in node.body if isinstance(c, (ast.FunctionDef, ast.ClassDef)) and c.name == part][0]
            body = node.body
            if isinstance(body[0], ast.Expr) and isinstance(getattr(body[0], "value", None), ast.Constant) and isinstance(body[0].value.value, str):
                body = body[1:] or body
            out.append((rel, body[0].lineno, r[1]))
        return out

    # which of the proposed repairs D24 / D60 the tree has, read off the source (AST shapes; an unknown shape is modelled as the unrepaired code and recorded in the evidence)
    D24_SHAPES = {False: "raise",
                  True: "eventType = event.__class__ if isinstance(event, Event) else event\n"
                        "if self._eventMixin_events is not True and eventType not in self._eventMixin_events:\n    raise\n"
                        "if handleEventException is not None:\n    import sys\n    handleEventException(self, event, args, kw, sys.exc_info())"}
    D60_SHAPES = {False: "if classCall:\n    rv = event._invoke(handler, *args, **kw)\nelse:\n    rv = handler(event, *args, **kw)\n"
                         "if once:\n    self.removeListener(eid)",
                  True: "try:\n    if classCall:\n        rv = event._invoke(handler, *args, **kw)\n    else:\n        rv = handler(event, *args, **kw)\n"
                        "finally:\n    if once:\n        self.removeListener(eid)"}

    ONCEPRE_SHAPE = "if once and (not self.removeListener(eid)):\n    continue"
    JUNK_SHAPES = {False: ("issubclass(event, Event)", "classCall = False"),
                   True: ("isinstance(event, type) and issubclass(event, Event)", "raise ReventError('%s is not an event' % (event,))")}

    def detect_variant(self):
        import ast, os
        tree = ast.parse(open(os.path.join(common.REPO, "pox/lib/revent/revent.py")).read())
        cls = [n for n in tree.body if isinstance(n, ast.ClassDef) and n.name == "EventMixin"][0]
        fns = {f.name: f for f in cls.body if isinstance(f, ast.FunctionDef)}
        out = {}
        def unknown(name, text):
            # not one of the known shapes: check the tree against the model of the unrepaired code (the oracle and the
            # correspondence then say what the change does); the evidence records that the shape was not recognised
            common.log("C05: revent.py %s site has an unknown shape; modelled as unrepaired:\n%s" % (name, text[:300]))
            self.unknown_shapes.append(name)
            out[name] = False
        # D24: the body of `except ReventError` in raiseEventNoErrors
        tries = [n for n in fns["raiseEventNoErrors"].body if isinstance(n, ast.Try)]
        hs = [h for t in tries for h in t.handlers if h.type is not None and ast.unparse(h.type) == "ReventError"]
        t24 = "\n".join(ast.unparse(x) for x in hs[0].body) if len(hs) == 1 else "<no `except ReventError`>"
        hits = [k for k, shape in self.D24_SHAPES.items() if t24 == shape]
        if len(hits) == 1: out["d24"] = hits[0]
        else: unknown("d24", t24)
        # the dispatch loop of raiseEvent: optional one-shot claim first (oncePre), then the call with or without `finally` (D60)
        loops = [n for n in fns["raiseEvent"].body if isinstance(n, ast.For)]
        body = list(loops[0].body) if len(loops) == 1 else []
        out["oncePre"] = bool(body) and ast.unparse(body[0]) == self.ONCEPRE_SHAPE
        if out["oncePre"]: body = body[1:]
        t60 = "\n".join(ast.unparse(x) for x in body)
        hits = [k for k, shape in self.D60_SHAPES.items() if t60 == shape or t60.startswith(shape + "\n")]
        if len(hits) == 1: out["d60"] = hits[0]
        else: unknown("d60", t60)
        # what raiseEvent does with an argument that is neither an Event nor an Event subclass
        top = [n for n in fns["raiseEvent"].body if isinstance(n, ast.If) and ast.unparse(n.test) == "isinstance(event, Event)"]
        tj = "<no `if isinstance(event, Event)`>"
        if len(top) == 1 and len(top[0].orelse) == 1 and isinstance(top[0].orelse[0], ast.If):
            el = top[0].orelse[0]
            tj = (ast.unparse(el.test), "\n".join(ast.unparse(x) for x in el.orelse))
        hits = [k for k, shape in self.JUNK_SHAPES.items() if tj == shape]
        if len(hits) == 1: out["junk"] = hits[0]
        else: unknown("junk", str(tj))
        return out

    def probe_variant(self):
        """HARDENING 8: which repairs the tree has, by BEHAVIOUR (four tiny experiments on a throw-away source); None = the
        experiment itself behaved unexpectedly.  The source shapes above are only a cross-check."""
        rv = self.rv
        P = type("Probe", (rv.Event,), {})
        S = type("ProbeSource", (rv.EventMixin,), {"_eventMixin_events": set([P])})
        out = {}
        def attempt(f):
            try: return f()
            except Exception: return None
        def d24():
            s = S()
            def h(e): raise rv.ReventError("from a handler")
            s.addListener(P, h)
            try: return s.raiseEventNoErrors(P()) is None
            except rv.ReventError: return False
        def d60():
            s = S()
            def h(e): raise Boom("probe")
            s.addListener(P, h, once=True)
            try: s.raiseEvent(P())
            except Boom: pass
            return sum(len(l) for l in s._eventMixin_handlers.values()) == 0
        def once_pre():
            s, n = S(), []
            def a(e):
                if not n: n.append("a"); s.raiseEvent(P())
            def b(e): n.append("b")
            s.addListener(P, a); s.addListener(P, b, once=True)
            s.raiseEvent(P())
            return {1: True, 2: False}.get(n.count("b"))
        def junk():
            try: S().raiseEvent(int)
            except rv.ReventError: return True
            except (UnboundLocalError, TypeError): return False
            return None
        buf = io.StringIO()
        with contextlib.redirect_stdout(buf), contextlib.redirect_stderr(buf):
            for name, f in (("d24", d24), ("d60", d60), ("oncePre", once_pre), ("junk", junk)):
                out[name] = attempt(f)
        return out

    def extra_evidence(self):
        return {"variant": self.variant, "variant_by_behaviour": self.variant_probe, "variant_by_source_shape": self.variant_ast,
                "variant_sites_with_unknown_shape": self.unknown_shapes,
                "variant_probe_vs_shape_mismatch": [k for k in self.variant if self.variant_probe.get(k) is not None and
                                                     k not in self.unknown_shapes and self.variant_probe[k] != self.variant_ast[k]]}

    trusted_base = ["model Model/Revent.lean hand-written from EventMixin (raiseEvent*, addListener*, removeListener, autoBindEvents, "
                    "CallProxy, lazy _eventMixin_init, event.halt) as repaired by D01 and D28; tied to the code by this correspondence run",
                    "harness: scripted handlers, event ids normalised by the id a probe subscription gets at case start, "
                    "exception classes mapped to {revent, key, other}"]
    assumptions = ["Event._invoke is not overridden (event objects may be raised again and forwarded: event.halt / event.source are shared)",
                   "reading of the one-shot clauses (see level_text): 'one-shot handlers are never invoked again' = the code of a one-shot "
                   "subscription runs at most once ever (the oracle demands it; open finding C05-1 on the tree as committed); 'handlers that ask "
                   "to be removed are never invoked again' = not by any raise that starts after the removal, a delivery already in flight keeps "
                   "the snapshot it took ('removals made by handlers during delivery never cause a handler to be skipped')",
                   "a handler 'halts the event' by the code's own protocol: a halting return value, or event.halt set while some handler "
                   "answers something other than None (a handler that sets event.halt and returns None does not stop the delivery: revent.py:299 "
                   "`continue` skips the test at 315) -- modelled as the code does it, reported as an observation",
                   "raiseEvent is given an Event instance or an Event subclass; the exception hook handleEventException does not raise",
                   "declared event classes have distinct __name__s (by-name subscription is otherwise dict-order dependent)",
                   "an owner of weak handlers is not released while one of its own methods is executing (CPython would keep it alive until the "
                   "method returns; harness and model both treat such a drop as a no-op); any other moment is allowed, also mid-delivery",
                   "single-threaded; sources interact only through handlers and the global event-id counter",
                   "'declares' = the contents of the source's _eventMixin_events at the moment of the call (instance attribute if there is one, "
                   "else the class's), as pox.openflow.nicira relies on when it adds RoleReply to a live connection's set"]
    design_ref = "DESIGN.md §5 C05"
    technique = ("Lean 4 proof (invariants of a small-step machine with an explicit stack of delivery frames, for all handler behaviours and "
                 "all histories) + differential correspondence of the compiled model against real EventMixin objects with scripted handlers "
                 "+ independent Python oracle of the property over the observed invocation log")
    level_text = ("Theorems over the model of EventMixin, for any number of sources sharing the event-id counter, every operation history, every handler "
                  "behaviour (handlers that subscribe, unsubscribe, raise and collect owners re-entrantly on any source to any depth, assign event.halt, "
                  "return any value or raise) and every number of machine steps: reachable_inv, sorted_inv, insertion_position, delivery_exact, "
                  "delivery_exact_live, delivery_order, reentrant_safe, once_removed_later, once_removed_raising (D60), noerrors (D24), noerrors_partial, "
                  "unsubscribe_exact (all five removeListener forms), bind_prefix_exact, sources_independent, undeclared_rejected, weak_gone, "
                  "weak_midflight, lazy_init. The model is parameterised by the repairs the tree has (read off the source on every run; the tree "
                  "as committed is Variant.current = D24 + D60). READING of the one-shot clauses: per raise the snapshot rules (delivery_exact); a "
                  "one-shot subscription's code runs at most once ever, which the tree as committed violates under a re-entrant raise "
                  "(once_inflight_witness, finding C05-1) and fixes/C05_once_fires_once repairs (once_fires_once, for every history); a handler that "
                  "asks to be removed is not invoked by raises that start afterwards but an in-flight delivery still reaches it "
                  "(remove_inflight_witness). nonevent_defect / nonevent_rejected: raising a non-event (finding C05-2 / its repair). "
                  "noerrors_defect / once_raises_defect are regression witnesses for a tree that reverts D24 / D60.")
    level_note = ("Trusted: Lean kernel, axioms propext/Classical.choice/Quot.sound, the hand-written model Model/Revent.lean (which mirrors the code "
                  "after fixes D01 and D28) and this harness. The theorems are about the model; the run ties it to the code on exhaustive small "
                  "histories and random histories of up to 80 operations on one or two sources with re-entrant, cross-source scripts. Event types "
                  "are opaque identities in the model; the harness realises them as a class hierarchy (Ev3(Ev0), Ev4(Ev2), Ev5(Ev3)).")
    rule = ("case = 1-3 sources (declared set over 6 event classes with inheritance, accept-all, lazily initialised; declared on the class, through "
            "_eventMixin_addEvent(s) or as an instance attribute; unrelated classes, instances of one class, base class and subclass, each with its own "
            "declared set; in oracle-only histories the declaration also grows / is replaced on the way) + operation history (subscribe "
            "with priority/once/weak/by-name/autoBind, unsubscribe in all 5 argument forms, raise in instance/class form with and without error "
            "suppression, clear, count, removeListeners, autoBind with method-name prefixes, owner collection also from inside handlers; every op names its source) + per-handler scripts (event.halt assignment, nested actions "
            "on any source, return value); corpus = hand-written seeds + every history of <= 3 ops (at least one subscribe and one raise) over a "
            "14-op alphabet under 9 script profiles (one raising non-Exception exceptions); generated = random histories of 3..80 ops with random scripts (thorough: + every 4-op history "
            "under one profile); non-trivial = some delivery invoked >= 2 handlers or a handler performed a nested action")
    coverage_cases = 400

    # ------------------------------------------------------------------ setup
    def setup(self):
        poxenv.boot(openflow=False)
        import pox.lib.revent.revent as rv
        self.rv = rv
        import pox.core, importlib.util
        self.hook_core = pox.core._revent_exception_hook           # what a running POX installs (and poxenv.boot has installed)
        spec = importlib.util.spec_from_file_location("_revent_pristine", rv.__file__)
        pristine = importlib.util.module_from_spec(spec); spec.loader.exec_module(pristine)
        self.hook_default = pristine.handleEventException          # revent's own default, which pox.core replaces
        self.unknown_shapes = []
        try:
            self.variant_ast = self.detect_variant()
        except Exception as e:                       # the source no longer has the landmarks at all: behaviour decides alone
            common.log("C05: source-shape cross-check failed: %s" % e)
            self.variant_ast = {"d24": False, "d60": False, "oncePre": False, "junk": False}
            self.unknown_shapes = ["d24", "d60", "oncePre", "junk"]
        self.variant_probe = self.probe_variant()
        self.variant = {k: (self.variant_probe[k] if self.variant_probe.get(k) is not None else self.variant_ast[k]) for k in self.variant_ast}
        self._make_events()

    def _make_events(self):
        rv = self.rv
        self.Ev = []
        reg = self._reg = {}
        def __init__(self, fid=None, *a, **k):
            self.fid = fid; self.xa = [list(a), sorted(k.items())]
            reg[fid] = self                                   # every event object ever created, by the call that created it
        for i in range(N_ET):
            base = self.Ev[PARENT[i]] if i in PARENT else rv.Event
            d = {"idx": i}
            if i not in PARENT: d["__init__"] = __init__
            if i in (1, 4): d["__len__"] = lambda self_: 0          # a falsy event: nothing may test an event's truth value
            self.Ev.append(type("Ev%d" % i, (base,), d))
        self.Point = collections.namedtuple("Point", "a b")

    def _fresh(self):
        """a fresh copy of the module under test (HARDENING 1: state a change hides in the module or in a class would otherwise
        leak from the thousands of earlier cases into the one being minimised, and the replay, run in a new process, would not fail)"""
        import importlib
        buf = io.StringIO()
        with contextlib.redirect_stdout(buf), contextlib.redirect_stderr(buf):
            self.rv = importlib.reload(self.rv)
        self.hook_default = self.rv.handleEventException   # the reloaded module has its own default hook again
        self.rv.handleEventException = self.hook_core
        self._make_events()

    def shrink(self, case, key):
        """as common.Check.shrink, but every candidate is judged on a freshly loaded module, so that the minimised history fails
        on its own (in the replay's new process too); if the original history needs state left behind by earlier cases, a seed
        history that fails on its own with the same key is used instead"""
        evals = [0]
        def fails_fresh(c):
            evals[0] += 1
            if evals[0] > 500: return False                  # bounded: each judgement reloads the module
            self._fresh()
            obs, f = self.fails(c)
            return f is not None and self.finding_key(c, obs, f) == key
        cur = case
        if not fails_fresh(cur):
            alt = [c for c in self.seeds() if fails_fresh(c)]
            if not alt: return case
            cur = alt[0]
        for _ in range(200):
            for c in self.shrink_candidates(cur):
                if fails_fresh(c):
                    cur = c; break
            else:
                break
        self._fresh()
        return cur

    # ------------------------------------------------------------------ concrete return values
    def _retval(self, ret):
        rv, k, v = self.rv, ret["k"], ret.get("v", 0)
        pick = lambda l: l[v % len(l)]
        truthy, falsy = [True, 1, "x"], [False, 0, None, ""]
        if k == "none": return None
        if k == "false": return False
        if k == "true": return True
        if k == "tup0": return ()
        if k == "tup1": return (pick(truthy if ret["h"] else falsy),)
        if k == "tup2":
            h, r = ret["h"], ret["r"]
            named = {(False, False): rv.EventContinue, (True, False): rv.EventHalt, (False, True): rv.EventRemove,
                     (True, True): rv.EventHaltAndRemove}[(h, r)]
            rs = [True, 1, 1.0] if r else [False, 0, 2, "True", None]
            return pick([named, rv.EventReturn(halt=h, remove=r), (pick(truthy if h else falsy), pick(rs)),
                         (pick(truthy if h else falsy), pick(rs), "extra")])
        if k == "other": return pick([0, 1, "x", [], [True, True], self.Point(True, True), 2.5])
        raise ValueError(k)

    # what a scripted handler raises: an exception class of the scripted kind, with one of these argument tuples
    MESSAGES = [("scripted",), (), ("",), ("line one\nline two\n",), ("h\u00e9llo \u2713 \u4f8b\u5916",), ("100% {} %s %d {0!r}",), (1,), (2, "No such thing"),
                ("\n",), (b"bytes",), (None,)]

    def _exc(self, e, v=0, mv=0):
        if e == "base":                  # not an Exception: raiseEventNoErrors' bare `except:` suppresses these too
            cls = [Stop, GeneratorExit, SystemExit, KeyboardInterrupt][v % 4]
        elif e == "other":
            cls = [Boom, RuntimeError, ValueError, AssertionError, OSError, StopIteration, NotImplementedError, BadStr, UnicodeError, ZeroDivisionError][v % 10]
        else:
            cls = {"revent": self.rv.ReventError, "key": KeyError, "attr": AttributeError, "unbound": UnboundLocalError}[e]
        x = cls(*self.MESSAGES[mv % len(self.MESSAGES)])
        x._scripted = e                   # the harness made it: its kind is the scripted one whatever the class
        return x

    @staticmethod
    def _kind(e):
        k = getattr(e, "_scripted", None)
        if k is not None: return k
        return {"ReventError": "revent", "KeyError": "key", "AttributeError": "attr", "UnboundLocalError": "unbound",
                "TypeError": "other"}.get(type(e).__name__, type(e).__name__)

    # ------------------------------------------------------------------ the implementation run
    HOOKS = ("core", "core-live", "none", "default")
    def impl(self, case):
        """which handleEventException hook raiseEventNoErrors finds: the one a running POX has (pox.core's, which logs) with logging
        silenced as everywhere in the harness ("core") or really formatting and emitting the record ("core-live"), none, or revent's own
        default (prints a traceback)"""
        import logging
        buf = io.StringIO()
        hook = sys.unraisablehook
        sys.unraisablehook = lambda *a: None      # a weakref callback after clearHandlers() hits a KeyError; CPython only prints it
        mode = self.HOOKS[case.get("hook", 0) % 4]
        saved_hook = self.rv.handleEventException
        self.rv.handleEventException = {"core": self.hook_core, "core-live": self.hook_core, "none": None, "default": self.hook_default}[mode]
        handler = None
        if mode == "core-live":
            handler = logging.StreamHandler(buf); handler.setFormatter(logging.Formatter("%(levelname)s:%(name)s:%(message)s"))
            logging.getLogger().addHandler(handler); logging.disable(logging.NOTSET)
        try:
            with contextlib.redirect_stdout(buf), contextlib.redirect_stderr(buf):
                return self._impl(case)
        finally:
            if handler is not None:
                logging.disable(logging.CRITICAL); logging.getLogger().removeHandler(handler)
            self.rv.handleEventException = saved_hook
            sys.unraisablehook = hook

    def _impl(self, case):
        rv, Ev = self.rv, self.Ev
        srcs, classes = [], {}
        NOT_GIVEN = object()
        def src_init(self_, lazy=False, early=NOT_GIVEN):
            if early is not NOT_GIVEN: self_._eventMixin_events = early       # declared by the instance before anything else runs
            if not lazy: rv.EventMixin.__init__(self_)                         # lazy: a subclass that never calls EventMixin.__init__
        for i, sd in enumerate(case["sources"]):
            # WHERE a source's declaration lives is a case parameter (the declaration itself is sd["declared"] / sd["acceptAll"]
            # whatever the spelling): how 0 = class attribute; 1 = _eventMixin_addEvents on the instance; 2 = _eventMixin_addEvent one
            # by one; 3 = instance attribute assigned after construction; 4 = instance attribute assigned in __init__, the class
            # says nothing itself (it inherits None, or its base's set).  "cls": sources with the same key are instances of ONE class;
            # "base": the source's class derives from the class with that key.  Related sources may declare DIFFERENT sets.
            ck, bk, how, lazy = sd.get("cls"), sd.get("base"), sd.get("how", 0) % 5, bool(sd.get("lazy"))
            evs = [Ev[t] for t in sd["declared"]]
            kind = sd.get("kind", "set")
            decl = True if sd["acceptAll"] else (None if kind == "none" and not evs else
                                               {"set": set, "list": list, "tuple": tuple, "frozenset": frozenset, "none": set}[kind](evs))
            mine = [sorted(sd["declared"]), bool(sd["acceptAll"])]
            if ck is None or ck not in classes:
                parent = classes[bk][0] if bk is not None and bk in classes else rv.EventMixin
                ns = {"__init__": src_init}
                if how == 0: ns["_eventMixin_events"] = decl
                elif how != 4: ns["_eventMixin_events"] = None
                C_, cdecl = type("Src%d" % i, (parent,), ns), (mine if how == 0 else None)
                if ck is not None: classes[ck] = (C_, cdecl)
            else:
                C_, cdecl = classes[ck]                                         # two instances of ONE class: no state may be shared
            if how == 0 and cdecl != mine: how = 3                              # the class declares something else: this instance overrides it
            if how in (1, 2) and (sd["acceptAll"] or (lazy and evs) or C_._eventMixin_events is not None):
                how = 3               # _eventMixin_addEvent needs the per-instance set (it would initialise a lazy source / add to the CLASS's set)
            s_ = C_(lazy, decl) if how == 4 else C_(lazy)
            if how == 1: s_._eventMixin_addEvents([evs, tuple(evs), (e for e in evs)][i % 3])
            elif how == 2:
                for e in evs: s_._eventMixin_addEvent(e)
            elif how == 3: s_._eventMixin_events = decl
            srcs.append(s_)
        # what each source declares right now, kept by the harness (a "decl" action changes it in the middle of a history)
        decl_now = [True if sd["acceptAll"] else sorted(sd["declared"]) for sd in case["sources"]]
        # listener ids are compared relative to the next id the library will hand out; found by subscribing once to a throw-away source
        # (not by reading a private counter: a library that keeps its counter elsewhere is the same library)
        _probe = type("ProbeSrc", (rv.EventMixin,), {"_eventMixin_events": True})()
        base = _probe.addListener(rv.Event, lambda e: None)[1]
        self._reg.clear()
        reg, rootsrc, cur_events, srcchecks = self._reg, {}, [], []
        scripts = {h: l for h, l in case["scripts"]}
        log, snaps, rmchecks, addchecks, subs, bindchecks, junkchecks = [], {}, [], [], [], [], []
        calls, funcs, owners, sinks, keep, running, deaths, argchecks, sinkobjs = {}, {}, {}, {}, [], [], [], [], {}
        state = {"fid": 0}
        EMPTY = {"halt": None, "acts": [], "ret": {"k": "none"}}

        def entry_view(x):
            prio, h, once, eid = x
            weak = None
            if isinstance(h, rv.CallProxy):
                o = h.obj() if h.obj is not None else None
                weak = o.oid if o is not None else "dead"
                hid = h.method.hid
            elif isinstance(h, types.MethodType):
                hid = h.__func__.hid
            else:
                hid = h.hid
            return [int(prio), hid, bool(once), eid - base, weak]

        def dump(i):
            return [[k.idx if isinstance(k, type) else str(k), [entry_view(x) for x in l]]
                    for k, l in getattr(srcs[i], "_eventMixin_handlers", {}).items()]   # no dict before lazy initialisation

        def present(i, pred, et=None):
            for k, l in dump(i):
                if et is not None and k != et: continue
                if any(pred(e) for e in l): return True
            return False

        def run_handler(hid, event, owner=None, a_=(), k_={}):
            argchecks.append([getattr(event, "fid", None), list(a_), sorted(k_.items())])
            t_ = snaps.get(getattr(event, "fid", None))
            if t_ is not None:
                want_src = rootsrc.setdefault(id(event), t_["s"])      # the source the event object was first raised on
                if event.source is not srcs[want_src]: srcchecks.append([event.fid, want_src])
            if owner is not None: running.append(owner)
            cur_events.append(event)
            try:
                return run_handler_(hid, event)
            finally:
                cur_events.pop()
                if owner is not None: running.pop()

        def run_handler_(hid, event):
            k = calls.get(hid, 0); calls[hid] = k + 1
            fid = event.fid
            log.append(["call", fid, snaps[fid]["s"] if fid in snaps else -1, hid])
            sl = scripts.get(hid, [])
            sc = sl[k] if k < len(sl) else EMPTY
            if sc["halt"] is not None: event.halt = sc["halt"]
            try:
                for a, guarded in sc["acts"]:
                    try:
                        r = perform(a)
                    except BaseException as e:       # scripted SystemExit / KeyboardInterrupt must not end the run
                        log.append(["res", ["exc", self._kind(e)]])
                        if not guarded: raise
                    else:
                        log.append(["res", r])
                if sc["ret"]["k"] == "exc":
                    raise self._exc(sc["ret"]["e"], sc["ret"].get("v", 0), sc["ret"].get("mv", 0))
            except BaseException as e:       # scripted SystemExit / KeyboardInterrupt must not end the run
                log.append(["ret", fid, hid, ["exc", self._kind(e)], bool(event.halt)])
                raise
            ret = sc["ret"]
            name = ret["k"] if ret["k"] not in ("tup1", "tup2") else ([ret["k"], ret["h"]] + ([ret["r"]] if ret["k"] == "tup2" else []))
            log.append(["ret", fid, hid, name, bool(event.halt)])
            return self._retval(ret)

        def func_of(hid):                       # plain function, one per hid: strong subscriptions and removal by handler
            if hid not in funcs:
                if hid % 3 == 0:                      # a callable object that is falsy: nothing may test a handler's truth value
                    f = FalsyCallable(lambda event, *a_, _hid=hid, **k_: run_handler(_hid, event, None, a_, k_))
                else:
                    def f(event, *a_, _hid=hid, **k_): return run_handler(_hid, event, None, a_, k_)
                f.hid = hid
                funcs[hid] = f
            return funcs[hid]

        def method_of(hid, o):                  # bound method of owner o: weak subscriptions
            if o not in owners:
                owners[o] = type("Owner", (object,), {"__len__": (lambda self_: 0)} if o % 2 == 0 else {})(); owners[o].oid = o   # even ids: falsy owner
            def m(self_, event, *a_, _hid=hid, **k_): return run_handler(_hid, event, getattr(self_, "oid", None), a_, k_)
            m.hid = hid
            return types.MethodType(m, owners[o])

        def handler_for_removal(hid):
            if hid in sinks: return getattr(sinks[hid][0], sinks[hid][1])
            return func_of(hid)

        def perform(a):
            op, i = a["op"], a["s"]
            src = srcs[i]
            if op == "add":
                et, hid, weak = a["et"], a["hid"], a.get("weak")
                h = method_of(hid, weak) if weak is not None else func_of(hid)
                ov = a.get("ov", 0)
                once_v = ([True, 1, "yes", [0]] if a["once"] else [False, 0, "", None])[ov % 4]        # `once` is only ever tested for truth
                prio_v = float(a["prio"]) if a.get("pv", 0) % 3 == 1 else (True if (a.get("pv", 0) % 3 == 2 and a["prio"] == 1) else a["prio"])
                kw = dict(once=once_v, weak=weak is not None, priority=prio_v)
                via = a.get("via", 0) % 7
                before = dump(i)
                try:
                    if via == 1: r = src.addListenerByName("Ev%d" % et, h, **kw)
                    elif via == 2: r = src.add_listener(h, event_type=Ev[et], **kw)
                    elif via == 3: r = src.add_listener(h, event_name="Ev%d" % et, **kw)
                    elif via == 4:                                   # event name inferred from the handler's name
                        (h.__func__ if weak is not None else h).__name__ = "_handle_Ev%d" % et
                        r = src.add_listener(h, **kw)
                    elif via == 5: r = src.addListener(Ev[et], h, once_v, weak is not None, prio_v)              # positional
                    elif via == 6: r = src.addListenerByName("Ev%d" % et, h, once_v, weak is not None, prio_v)
                    else: r = src.addListener(Ev[et], h, **kw)
                except BaseException as e:       # scripted SystemExit / KeyboardInterrupt must not end the run
                    addchecks.append([i, et, self._kind(e), before == dump(i), decl_now[i]]); raise
                addchecks.append([i, et, "ok", None, decl_now[i]])
                subs.append([i, r[1] - base, r[0].idx, hid, bool(a["once"]), weak])
                return ["pair", r[0].idx, r[1] - base]
            if op == "bind":
                meths, q, hb, weak = a["meths"], a["pfx"], a["base"], a.get("weak")
                mname = lambda p_, et: ("_handle_Ev%d" % et) if p_ == 0 else ("_handle_p%d_Ev%d" % (p_, et))
                ns = {}
                for p_, et in meths:
                    def m(self_, event, *a_, _hid=hb + 10 * p_ + et, **k_): return run_handler(_hid, event, getattr(self_, "oid", None), a_, k_)
                    m.hid = hb + 10 * p_ + et
                    ns[mname(p_, et)] = m
                via = a.get("via", 0) % 6
                old = sinkobjs.get(hb)
                if old is not None and (weak is None or owners.get(weak) is old):
                    sink = old                                     # the same sink object bound again (to this or another source)
                    if via % 3 == 2 and not isinstance(sink, rv.EventMixin): via -= 2
                else:
                    sink = type("Sink", (rv.EventMixin,) if via % 3 == 2 else (object,), ns)()
                    sinkobjs[hb] = sink
                    if weak is not None:
                        sink.oid = weak; owners[weak] = sink
                    else:
                        keep.append(sink)
                for p_, et in meths: sinks[hb + 10 * p_ + et] = (sink, mname(p_, et))
                prefix = "" if q == 0 else (("p%d" % q) if via < 3 else ("_p%d" % q))       # both spellings of a prefix
                w, pr = weak is not None, a["prio"]
                if via % 3 == 1: r = src.addListeners(sink, prefix, w, pr) if via < 3 else src.addListeners(sink, prefix=prefix, weak=w, priority=pr)
                elif via % 3 == 2: r = sink.listenTo(src, prefix, w, pr) if via < 3 else sink.listenTo(src, prefix=prefix, weak=w, priority=pr)
                else: r = rv.autoBindEvents(sink, src, prefix, w, pr) if via < 3 else rv.autoBindEvents(sink, src, prefix=prefix, weak=w, priority=pr)
                for t, e in r: subs.append([i, e - base, t.idx, hb + 10 * q + t.idx, False, weak])
                bindchecks.append([i, [t.idx for t, _ in r], [et for p_, et in meths if p_ == q], decl_now[i]])
                return ["pairs", [[t.idx, e - base] for t, e in r]]
            if op == "rmm":
                ps = [(Ev[et], base + eid) for et, eid in a["pairs"]]
                cv = a.get("cv", 0) % 3
                return bool(src.removeListeners(ps if cv == 0 else (tuple(ps) if cv == 1 else (p_ for p_ in ps))))
            if op in ("rmh", "rme", "rmp"):
                if op == "rmh":
                    arg, scope = handler_for_removal(a["hid"]), a.get("et")
                    pred = lambda e, _h=a["hid"]: e[1] == _h and e[4] is None
                elif op == "rme":
                    arg, scope = base + a["eid"], a.get("et")
                    pred = lambda e, _x=a["eid"]: e[3] == _x
                else:
                    arg, scope = (Ev[a["et"]], base + a["eid"]), (a["et2"] if a.get("et2") is not None else a["et"])
                    pred = lambda e, _x=a["eid"]: e[3] == _x
                second = a.get("et") if op != "rmp" else a.get("et2")
                was = present(i, pred, scope)
                form = op + ("+et" if second is not None else "")
                try:
                    r = src.removeListener(arg, Ev[second]) if second is not None else src.removeListener(arg)
                except BaseException as e:       # scripted SystemExit / KeyboardInterrupt must not end the run
                    rmchecks.append([form, was, present(i, pred, scope), self._kind(e)]); raise
                rmchecks.append([form, was, present(i, pred, scope), "ok"])
                return bool(r)
            if op == "decl":
                # the source declares more events in the middle of its life (dv 0: _eventMixin_addEvents, 1: _eventMixin_addEvent one by
                # one, 2: a new container with the old and the new ones assigned to the instance) or replaces its declaration (dv 3)
                # dv 4: the instance's own set grows in place, as pox.openflow.nicira does (`connection._eventMixin_events.add(RoleReply)`)
                ets, dv = a["ets"], a.get("dv", 0) % 5
                if decl_now[i] is True: return "unit"
                own = vars(src).get("_eventMixin_events")
                if dv in (0, 1, 4) and not isinstance(own, set): dv = 2            # _eventMixin_addEvent needs the instance's own set
                new = sorted(set(ets)) if dv == 3 else sorted(set(decl_now[i]) | set(ets))
                if dv == 0: src._eventMixin_addEvents([Ev[t] for t in ets])
                elif dv == 1:
                    for t in ets: src._eventMixin_addEvent(Ev[t])
                elif dv == 4:
                    for t in ets: own.add(Ev[t])
                else:
                    cur = getattr(src, "_eventMixin_events", None)
                    mk = type(cur) if type(cur) in (set, list, tuple, frozenset) else set
                    src._eventMixin_events = mk(Ev[t] for t in new)
                decl_now[i] = new
                return "unit"
            if op == "clear":
                src.clearHandlers(); return "unit"
            if op == "count":
                return src._eventMixin_get_listener_count()
            if op == "drop":
                if a["o"] in running: return "unit"          # one of its methods is executing: CPython would keep it alive anyway
                o = owners.pop(a["o"], None)
                if o is not None: deaths.append([a["o"], len(log)])
                for h in [h for h, (snk, _) in sinks.items() if snk is o]: del sinks[h]      # the harness itself must not keep the sink alive
                for h in [h for h, snk in sinkobjs.items() if snk is o]: del sinkobjs[h]
                wr = weakref.ref(o) if o is not None else (lambda: None)
                del o; gc.collect(1)
                if wr() is not None: gc.collect()          # only a reference cycle could have kept it; none is built here
                return "unit"
            if op == "raise" and a["form"] in ("junkc", "junko"):
                # something that is neither an event instance nor an event class
                state["fid"] += 1
                junk = [int, dict, Boom][a.get("v", 0) % 3] if a["form"] == "junkc" else [5, "x", None, 2.5][a.get("v", 0) % 4]
                f = src.raiseEventNoErrors if a["noerr"] else src.raiseEvent
                try:
                    r = f(junk)
                except BaseException as e:       # scripted SystemExit / KeyboardInterrupt must not end the run
                    junkchecks.append([i, a["noerr"], ["exc", self._kind(e)]]); raise
                res = "none" if r is None else ["event", bool(r.halt)]
                junkchecks.append([i, a["noerr"], res])
                return res
            if op == "raise":
                et, fid = a["et"], state["fid"]; state["fid"] += 1
                form, reused = a["form"], None
                if form in ("again", "fwd"):
                    # the very event object an earlier call carried / the one the running handler is handling; else a fresh one
                    reused = reg.get(a["f"]) if form == "again" else (cur_events[-1] if cur_events else None)
                    form = "inst"
                    if reused is not None: et = type(reused).idx
                snaps[fid] = {"s": i, "et": et, "noerr": a["noerr"], "form": form, "pos": len(log), "reused": reused is not None, "decl": decl_now[i],
                              "snap": [entry_view(x) for x in getattr(src, "_eventMixin_handlers", {}).get(Ev[et], [])], "result": None}
                f = src.raiseEventNoErrors if a["noerr"] else src.raiseEvent
                xa = a.get("xa", 0) % 3
                snaps[fid]["xa"] = xa
                old_fid = None
                if form == "inst":
                    if reused is not None:
                        ev_ = reused; old_fid = ev_.fid; ev_.fid = fid; reg[fid] = ev_
                    else:
                        ev_ = Ev[et](fid)
                    rootsrc.setdefault(id(ev_), i)
                try:
                    if xa == 0: r = f(ev_) if form == "inst" else f(Ev[et], fid)
                    elif xa == 1: r = f(ev_, 7, k=8) if form == "inst" else f(Ev[et], fid, 7, k=8)      # extra arguments
                    else: r = f(ev_, k=8) if form == "inst" else f(Ev[et], fid=fid, k=8)               # keywords only
                except BaseException as e:       # scripted SystemExit / KeyboardInterrupt must not end the run
                    snaps[fid]["result"] = ["exc", self._kind(e)]; raise
                finally:
                    if old_fid is not None: ev_.fid = old_fid          # an outer delivery of the same object goes on under its own number
                if r is not None: snaps[fid]["evxa"] = getattr(r, "xa", None)
                res = "none" if r is None else ["event", bool(r.halt)]
                snaps[fid]["result"] = res
                return res
            raise ValueError(op)

        n = len(srcs)
        drops = []
        for a in case["ops"]:
            try:
                r = perform(a)
            except BaseException as e:       # scripted SystemExit / KeyboardInterrupt must not end the run
                log.append(["res", ["exc", self._kind(e)]])
            else:
                log.append(["res", r])
            if a["op"] == "drop":
                drops.append([a["o"], len(log), [dump(i) for i in range(n)]])
        started = set(e[1] for e in log if e[0] == "call")
        frames = []
        for fid in sorted(snaps):
            s = snaps[fid]
            if fid in started or (isinstance(s["result"], list) and s["result"][0] == "event"):
                frames.append([fid, s["s"], s["et"], [e[3] for e in s["snap"]]])
        final = [dump(i) for i in range(n)]
        return {"log": log, "frames": frames, "final": final, "count": [sum(len(l) for _, l in f) for f in final],
                "inited": [hasattr(s_, "_eventMixin_handlers") for s_ in srcs],
                "snaps": {str(k): v for k, v in snaps.items()}, "rmchecks": rmchecks, "addchecks": addchecks, "drops": drops, "subs": subs, "bindchecks": bindchecks, "deaths": deaths, "junkchecks": junkchecks, "argchecks": argchecks, "srcchecks": srcchecks}

    # ------------------------------------------------------------------ model side
    @staticmethod
    def _actions(case):
        return list(case["ops"]) + [a for _, sl in case["scripts"] for sc_ in sl for a, _ in sc_["acts"]]

    def model_request(self, case):
        if any(a["op"] == "decl" for a in self._actions(case)): return None      # declarations are fixed in the model: oracle only
        return {"variant": self.variant, "sources": case["sources"], "fuel": FUEL, "ops": case["ops"], "scripts": case["scripts"]}

    VIEW = ("log", "frames", "final", "count", "inited")
    def impl_view(self, case, obs):
        return {k: obs[k] for k in self.VIEW}

    def model_obs(self, case, resp):
        if "error" in resp: return resp
        if not resp.get("finished"): return {"error": "model out of fuel"}
        out = []
        for e in resp["log"]:
            if e[0] == "call": out.append(["call", e[1], e[2], e[4]])            # the real handler does not know its subscription id
            elif e[0] == "ret": out.append(["ret", e[1], e[3], e[4], e[5]])
            else: out.append(e)
        r = {k: resp[k] for k in self.VIEW}
        r["log"] = out
        return r

    # ------------------------------------------------------------------ the property itself, on the implementation's observables
    @staticmethod
    def _stops(r, h):
        """the delivery must not go on after this answer: exception, halting return value, or (the code's rule for
        event.halt) any answer other than None while the handler or a predecessor has set event.halt"""
        if isinstance(r, list):
            if r[0] == "exc": return True
            return bool(r[1]) or h                    # tup1 h / tup2 h r
        return r in ("true", "tup0") or (r != "none" and h)

    @staticmethod
    def _removes(r):
        if isinstance(r, list): return r[0] == "tup2" and bool(r[2])
        return r == "false"

    def oracle(self, case, obs):
        log, snaps = obs["log"], {int(k): v for k, v in obs["snaps"].items()}
        S_ = case["sources"]
        declared = lambda then, et: then is True or et in then          # exact type identity; `then` = what the source declared at that moment
        sortedok = lambda l: all((a[0], -a[3]) > (b[0], -b[3]) for a, b in zip(l, l[1:]))
        # order of every handler list (as seen at every raise and at the end)
        for fid, s in sorted(snaps.items()):
            if not sortedok(s["snap"]): return "order: handler list of Ev%d not sorted by (priority desc, subscription order)" % s["et"]
        for f in obs["final"]:
            for k, l in f:
                if not sortedok(l): return "order: final handler list not sorted by (priority desc, subscription order)"
        # exact delivery, per raise (also under re-entrant modification)
        calls, rets = {}, {}
        for i, e in enumerate(log):
            if e[0] == "call": calls.setdefault(e[1], []).append((i, e[3], e[2]))
            elif e[0] == "ret": rets.setdefault(e[1], []).append((i, e[2], e[3], e[4]))
        nested = self._nested(log)
        removing = any(a["op"] in ("rmh", "rme", "rmp", "rmm", "clear", "drop") for a in
                       list(case["ops"]) + [a for _, sl in case["scripts"] for sc_ in sl for a, _ in sc_["acts"]])
        # Which snapshot entry does each invocation belong to?  Walk the log in time order; every delivery keeps a pointer into its
        # snapshot.  An entry may be passed over only with an excuse: its (weak) owner was collected while the delivery was running, or
        # -- on a tree with the one-shot claim -- it is a one-shot entry that has already fired / may have been unsubscribed.
        claim = bool(self.variant["oncePre"])
        fired, ptr, matched, bad = collections.Counter(), {}, {}, {}
        def dead_at(fid_, ent, pos):
            return ent[4] is not None and any(o == ent[4] and snaps[fid_]["pos"] <= dp <= pos for o, dp in obs["deaths"])
        def spent(fid_, ent):
            return claim and ent[2] and (fired[(snaps[fid_]["s"], ent[3])] > 0 or removing)
        call_events = [(i, e[1], e[3]) for i, e in enumerate(log) if e[0] == "call"]
        for _, fid_, _ in call_events:
            if fid_ not in snaps: return "delivery: handler invoked with an event nobody raised"
        budget = [4000]
        def ends_ok(ptr_):
            # cheap necessary condition used to choose between alignments: every delivery's unreached tail is excusable or cut off
            for fid_, t in snaps.items():
                if not declared(t["decl"], t["et"]): continue
                R_, C_ = rets.get(fid_, []), calls.get(fid_, [])
                tail_ = t["snap"][ptr_.get(fid_, 0):]
                if all(dead_at(fid_, e_, len(log)) or spent(fid_, e_) for e_ in tail_): continue
                if R_ and len(R_) == len(C_) and self._stops(R_[-1][2], R_[-1][3]): continue
                if (t["result"] == ["exc", "revent"] or (t["noerr"] and t["result"] == "none")) and tail_ and dead_at(fid_, tail_[0], len(log)): continue
                return False
            return True
        def assign(n, ptr_, matched_, bad_):
            """walk the invocations in time order; returns (ptr, matched, bad) of the first alignment that has no mismatch and ends
            well, else of the first alignment tried"""
            nonlocal fired
            first = None
            while n < len(call_events):
                i, fid_, hid = call_events[n]
                t = snaps[fid_]
                S, k = t["snap"], ptr_.get(fid_, 0)
                choice = None
                while k < len(S):
                    ent = S[k]
                    takes = ent[1] == hid and not dead_at(fid_, ent, i) and not (claim and ent[2] and fired[(t["s"], ent[3])] > 0)
                    skippable = dead_at(fid_, ent, i) or spent(fid_, ent)
                    if takes and skippable and budget[0] > 0:
                        # a one-shot entry that may have been unsubscribed meanwhile: try "it was skipped" as well
                        budget[0] -= 1
                        saved = (dict(ptr_), {f: list(l) for f, l in matched_.items()}, dict(bad_), collections.Counter(fired))
                        p2 = dict(ptr_); p2[fid_] = k + 1
                        m2 = {f: list(l) for f, l in matched_.items()}; m2.setdefault(fid_, []).append(ent)
                        if ent[2]: fired[(t["s"], ent[3])] += 1
                        r_ = assign(n + 1, p2, m2, dict(bad_))
                        if not r_[2] and ends_ok(r_[0]): return r_
                        if first is None: first = r_
                        ptr_, matched_, bad_, fired = saved[0], saved[1], saved[2], saved[3]
                        k += 1; continue
                    if takes: choice = k; break
                    if not skippable: break
                    k += 1
                if choice is None:
                    bad_[fid_] = True
                else:
                    matched_.setdefault(fid_, []).append(S[choice]); ptr_[fid_] = choice + 1
                    if S[choice][2]: fired[(t["s"], S[choice][3])] += 1
                n += 1
            if first is not None and (bad_ or not ends_ok(ptr_)): return first
            return (ptr_, matched_, bad_)
        ptr, matched, bad = assign(0, {}, {}, {})
        fired = collections.Counter((snaps[f]["s"], e_[3]) for f, l in matched.items() for e_ in l if e_[2])
        for fid, s in sorted(snaps.items()):
            S, C, R = s["snap"], calls.get(fid, []), rets.get(fid, [])
            want = [e[1] for e in S]
            got = [h for _, h, _ in C]
            if not declared(s["decl"], s["et"]):
                # an undeclared type has no subscribers; the instance form must be refused outright, the class form never gets to an event
                if got: return "undeclared: a handler was invoked for an undeclared event type"
                if s["form"] == "inst" and s["result"] != ["exc", "revent"]:
                    return "undeclared: raising an instance of an undeclared event type was not rejected (%s)" % (
                        "subclass of a declared type" if s["decl"] is not True and self._has_declared_ancestor({"declared": s["decl"]}, s["et"]) else "unrelated type")
                if s["form"] == "cls" and s["result"] not in ("none", ["exc", "revent"]):
                    return "undeclared: class-form raise of an undeclared event type produced an event"
                continue
            if any(self._stops(r, h) for _, _, r, h in R[:-1]): return "halt: delivery went on after a handler halted it"
            tail = S[ptr.get(fid, 0):]
            excused = lambda ent: dead_at(fid, ent, len(log)) or spent(fid, ent)
            halted = bool(R and len(R) == len(C) and self._stops(R[-1][2], R[-1][3]))
            proxy_raised = s["result"] == ["exc", "revent"] or (s["noerr"] and s["result"] == "none")
            lead = tail[:next((k for k, e in enumerate(tail) if not dead_at(fid, e, len(log))), len(tail))]
            ok_end = all(excused(e) for e in tail) or halted or (proxy_raised and len(lead) > 0)
            if fid in bad or not ok_end:
                if got != want[:len(got)]:
                    kind = "repeat" if len(set(got)) < len(got) and len(set(want)) == len(want) else ("extra" if len(got) > len(want) else "order/skip")
                else:
                    kind = "skip"
                return "delivery%s: handlers invoked %s, subscribed at the raise %s (%s)" % ("-reentrant" if nested else "", got, want, kind)
            matched_f = matched.get(fid, [])
            # error suppression
            if s["noerr"] and isinstance(s["result"], list) and s["result"][0] == "exc":
                return "noerrors: raiseEventNoErrors propagated a handler's %s" % s["result"][1]
            # one-shot / remove-me handlers are not invoked by later raises
            for j, (pos, hid, r, _) in enumerate(R):
                ent = matched_f[j]
                raised = isinstance(r, list) and r[0] == "exc"
                if ent[2] or (not raised and self._removes(r)):
                    later = [t["snap"] for f2, t in snaps.items() if t["pos"] > pos and t["s"] == s["s"]] + [l for _, l in obs["final"][s["s"]]]
                    if any(e[3] == ent[3] for l in later for e in l):
                        return ("once: one-shot handler that raised %s is still subscribed" % r[1]) if raised else \
                               "once: a one-shot / remove-me handler is still subscribed after it ran"
        # an event belongs to the source it was first raised on (forwarding it elsewhere does not change that)
        for fid_, want_src in obs["srcchecks"]:
            return "delivery: handler invoked with an event whose .source is not the source it was first raised on"
        # what the raiser passes besides the event reaches the handlers (instance form) or the event's constructor (class form) intact
        want_args = {0: ([], []), 1: ([7], [("k", 8)]), 2: ([], [("k", 8)])}
        for fid_, a_, k_ in obs["argchecks"]:
            t = snaps.get(fid_)
            if t is None: return "delivery: handler invoked with an event nobody raised"
            exp = want_args[t.get("xa", 0)] if t["form"] == "inst" else ([], [])
            if [a_, [list(x) for x in k_]] != [exp[0], [list(x) for x in exp[1]]]:
                return "arguments: handler of a %s-form raise got %s %s, the raiser passed %s %s" % (t["form"], a_, k_, exp[0], exp[1])
        for fid_, t in snaps.items():
            if t["form"] == "cls" and t.get("evxa") is not None:
                exp = want_args[t.get("xa", 0)]
                if [t["evxa"][0], [list(x) for x in t["evxa"][1]]] != [exp[0], [list(x) for x in exp[1]]]:
                    return "arguments: event of a class-form raise was constructed with %s, the raiser passed %s" % (t["evxa"], list(exp))
        # a one-shot handler fires at most once, ever (reading R2; also under re-entrant raises)
        for (si, eid), cnt in sorted(fired.items()):
            if cnt > 1: return "once: the code of one-shot subscription %d ran %d times (a re-entrant raise fired it while an outer delivery held it)" % (eid, cnt)
        # something that is not an event at all is certainly not a declared event type
        for si, noerr, res in obs["junkchecks"]:
            if res != ["exc", "revent"] and not (noerr and S_[si]["acceptAll"] and res == "none"):
                return "undeclared: raising a non-event with %s was not rejected (%s)" % (
                    "raiseEventNoErrors" if noerr else "raiseEvent", res[1] if isinstance(res, list) else res)
        # unsubscription
        for form, was, still, res in obs["rmchecks"]:
            if still: return "unsubscribe: removeListener form %s left the subscription in place (%s)" % (form, res)
        # ... and nothing else: a subscription nobody had any reason to remove is still there at the end
        acts = list(case["ops"]) + [a for _, sl in case["scripts"] for sc_ in sl for a, _ in sc_["acts"]]
        if not any(a["op"] == "clear" for a in acts):
            named_eids = set(a["eid"] for a in acts if a["op"] in ("rme", "rmp")) | set(e for a in acts if a["op"] == "rmm" for _, e in a["pairs"])
            named_hids = set(a["hid"] for a in acts if a["op"] == "rmh")
            dropped = set(a["o"] for a in acts if a["op"] == "drop")
            asking = set(h for h, sl in case["scripts"] for sc_ in sl
                         if sc_["ret"]["k"] == "false" or (sc_["ret"]["k"] == "tup2" and sc_["ret"]["r"]))
            final = [{k: set(e[3] for e in l) for k, l in f} for f in obs["final"]]
            for si, eid, et, hid, once, weak in obs["subs"]:
                if once or eid in named_eids or hid in asking or (weak is None and hid in named_hids) or (weak is not None and weak in dropped):
                    continue
                if eid not in final[si].get(et, ()):
                    return "unsubscribe: subscription %d (handler %d) vanished although nothing unsubscribed it" % (eid, hid)
        # subscription by method name: exactly the sink's methods with the given prefix whose event the source declares, in name order
        for si, got_ets, named, then in obs["bindchecks"]:
            if got_ets != [et for et in named if declared(then, et)]:
                return "bind: autoBindEvents subscribed %s, the sink's methods with that prefix name %s" % (got_ets, named)
        # undeclared subscription
        for si, et, res, unchanged, then in obs["addchecks"]:
            if not declared(then, et) and res != "revent":
                return "undeclared: subscription to an undeclared event type was not rejected (%s)" % res
            if not declared(then, et) and not unchanged: return "undeclared: rejected subscription changed the handler lists"
        # weak handlers go with their owner
        for o, pos, st in obs["drops"]:
            if any(e[4] == o or e[4] == "dead" for f in st for _, l in f for e in l): return "weak: handler of a collected owner is still subscribed"
        return None

    @staticmethod
    def _has_declared_ancestor(sd, et):
        while et in PARENT:
            et = PARENT[et]
            if et in sd["declared"]: return True
        return False

    @staticmethod
    def _nested(log):
        """some action was performed from inside a handler"""
        d = 0
        for e in log:
            if e[0] == "call": d += 1
            elif e[0] == "ret": d -= 1
            elif d > 0: return True
        return False

    def finding_key(self, case, obs, failure):
        if failure.startswith("noerrors:"): return "noerrors:handler-" + failure.rsplit(" ", 1)[1] + "-propagates"
        if failure.startswith("once: one-shot handler that raised"): return "once:handler-raises:still-subscribed"
        if failure.startswith("unsubscribe: subscription"): return "unsubscribe:vanished-without-reason"
        if failure.startswith("order:"): return "order:list-not-sorted"
        if failure.startswith("arguments:"): return "arguments:not-passed-through"
        if failure.startswith("once: the code of one-shot"): return "once:fired-twice:reentrant-raise"
        if failure.startswith("undeclared: raising a non-event"):
            return "undeclared:non-event-raise:%s:%s" % (failure.rsplit("(", 1)[1].rstrip(")"), "noerr" if "raiseEventNoErrors" in failure else "plain")
        if failure.startswith("undeclared: raising an instance"): return "undeclared:instance-accepted:" + failure.rsplit("(", 1)[1].rstrip(")").replace(" ", "-")
        if failure.startswith("unsubscribe:"):
            return "unsubscribe:" + failure.split("form ")[1].split(" ")[0] + ":" + failure.rsplit("(", 1)[1].rstrip(")")
        if failure.startswith("delivery") and "(" in failure: return failure.split(":")[0] + ":" + failure.rsplit("(", 1)[1].rstrip(")")
        return failure.split(":")[0] + ":" + failure.split(":", 1)[1].strip()[:48]

    def nontrivial(self, case, obs):
        per = collections.Counter(e[1] for e in obs["log"] if e[0] == "call")
        return any(v >= 2 for v in per.values()) or self._nested(obs["log"])

    def shrink_candidates(self, case):
        import copy
        for i in range(len(case["ops"])):
            c = copy.deepcopy(case); del c["ops"][i]; yield c
        if len(case["sources"]) > 1:                       # everything onto source 0
            c = copy.deepcopy(case); c["sources"] = c["sources"][:1]
            for a in c["ops"] + [a for _, sl in c["scripts"] for sc_ in sl for a, _ in sc_["acts"]]: a["s"] = 0
            yield c
        for si, (hid, sl) in enumerate(case["scripts"]):
            c = copy.deepcopy(case); del c["scripts"][si]; yield c
            for k, sc in enumerate(sl):
                for ai in range(len(sc["acts"])):
                    c = copy.deepcopy(case); del c["scripts"][si][1][k]["acts"][ai]; yield c
                if sc["ret"]["k"] != "none":
                    c = copy.deepcopy(case); c["scripts"][si][1][k]["ret"] = {"k": "none"}; yield c
                if sc["halt"] is not None:
                    c = copy.deepcopy(case); c["scripts"][si][1][k]["halt"] = None; yield c

    # ------------------------------------------------------------------ cases
    @staticmethod
    def add(et, hid, prio=0, once=False, weak=None, via=0, s=0):
        return {"op": "add", "s": s, "et": et, "hid": hid, "prio": prio, "once": once, "weak": weak, "via": via}

    @staticmethod
    def raise_(et, form="inst", noerr=False, s=0):
        return {"op": "raise", "s": s, "et": et, "form": form, "noerr": noerr}

    @staticmethod
    def sc(acts=(), ret="none", halt=None, **kw):
        r = {"k": ret}; r.update(kw)
        return {"halt": halt, "acts": [[a, g] for a, g in acts], "ret": r}

    @staticmethod
    def source(declared=(0, 1), acceptAll=False, lazy=False, kind="set", cls=None, how=0, base=None):
        return {"declared": list(declared), "acceptAll": acceptAll, "lazy": lazy, "kind": kind, "cls": cls, "how": how, "base": base}

    def case(self, ops, scripts=(), declared=(0, 1), acceptAll=False, lazy=False, sources=None):
        if sources is None: sources = [self.source(declared, acceptAll, lazy)]
        return {"sources": sources, "ops": list(ops), "scripts": [[h, list(l)] for h, l in scripts]}

    def seeds(self):
        add, R, sc, case, source = self.add, self.raise_, self.sc, self.case, self.source
        rme = lambda eid, et=None, s=0: {"op": "rme", "s": s, "eid": eid, "et": et}
        rmh = lambda hid, et=None, s=0: {"op": "rmh", "s": s, "hid": hid, "et": et}
        rmp = lambda et, eid, et2=None, s=0: {"op": "rmp", "s": s, "et": et, "eid": eid, "et2": et2}
        cnt = lambda s=0: {"op": "count", "s": s}
        clr = lambda s=0: {"op": "clear", "s": s}
        drop = lambda o: {"op": "drop", "s": 0, "o": o}
        def bind(ms, base, prio=0, weak=None, via=0, pfx=0, s=0):
            ms = [(0, m) if isinstance(m, int) else tuple(m) for m in ms]
            return {"op": "bind", "s": s, "meths": [list(m) for m in sorted(ms)], "pfx": pfx, "base": base, "prio": prio, "weak": weak, "via": via}
        S = []
        # D1: A subscribes a prioritised C during delivery
        S.append(case([add(0, 1), add(0, 2), R(0), R(0)], [(1, [sc([(add(0, 3, prio=5), False)])])]))
        # un-prioritised subscription during delivery must not join the in-flight delivery
        S.append(case([add(0, 1), add(0, 2), R(0), R(0, "cls")], [(1, [sc([(add(0, 3), False)])])]))
        # D28 / D24 / D60
        S.append(case([add(0, 1), add(0, 2), rme(1, 0), R(0), rme(2, 1), rme(2, 2)]))
        S.append(case([add(0, 1), R(0, "inst", True), R(0, "cls", True)], [(1, [sc([(add(2, 2), False)]), sc(ret="exc", e="revent")])]))
        S.append(case([add(0, 1, once=True), add(0, 2), R(0, "inst", True), R(0), R(0)], [(1, [sc(ret="exc", e="other")])]))
        # priorities (also negative), stability, halting, removal by return value
        S.append(case([add(0, 1), add(0, 2, 5), add(0, 3), add(0, 4, 5), add(0, 5, -1), add(0, 6), R(0), R(0), R(0, "cls")],
                      [(3, [sc(ret="tup2", h=False, r=True), sc()]), (6, [sc(), sc(ret="true")]), (4, [sc(), sc(), sc(ret="tup0")])]))
        S.append(case([add(0, 1, -1), add(0, 2, -5), add(0, 3, -1), add(0, 4, -3), add(0, 5), R(0), add(0, 6, -2), R(0)]))
        for k, kw in (("false", {}), ("true", {}), ("tup0", {}), ("tup1", {"h": True}), ("tup1", {"h": False}), ("other", {}),
                      ("tup2", {"h": True, "r": True}), ("tup2", {"h": False, "r": True}), ("tup2", {"h": True, "r": False}),
                      ("tup2", {"h": False, "r": False}), ("exc", {"e": "other"}), ("exc", {"e": "key"}), ("none", {})):
            for v in range(4):
                S.append(case([add(0, 1), add(0, 2, once=(v == 1)), add(0, 3), R(0), R(0, "cls"), cnt()],
                              [(2, [sc(ret=k, v=v, **kw)])]))
            # event.halt set by a handler: by the one that answers, by a predecessor, set and cleared again
            S.append(case([add(0, 1), add(0, 2), add(0, 3), add(0, 4), R(0), R(0, "cls", True)],
                          [(1, [sc(halt=True), sc()]), (2, [sc(ret=k, **kw), sc(ret=k, halt=True, **kw)]), (3, [sc(ret="other")])]))
            S.append(case([add(0, 1), add(0, 2), add(0, 3), R(0)],
                          [(1, [sc(halt=True)]), (2, [sc(halt=False, ret=k, **kw)]), (3, [sc(ret="other", halt=None)])]))
        # something that is not an event: a class, an object; plain and with error suppression; also on an accept-all source
        for acc in (False, True):
            S.append(case([add(0, 1)] + [dict(R(0, f, ne), v=v) for f in ("junkc", "junko") for ne in (False, True) for v in range(3)] + [R(0), cnt()],
                          [(1, [sc([(dict(R(0, "junkc")), True), (dict(R(0, "junko", True)), False), (dict(R(0, "junko")), False)])])],
                          declared=[] if acc else [0, 1], acceptAll=acc))
        # re-entrant raise while an outer delivery holds a one-shot handler; a one-shot handler that re-raises from inside itself
        S.append(case([add(0, 1), add(0, 2, once=True), R(0), R(0)], [(1, [sc([(R(0), False)])])]))
        S.append(case([add(0, 1, once=True), add(0, 2, 3, once=True), add(0, 3), R(0), R(0)],
                      [(2, [sc([(R(0, "cls"), False)])]), (3, [sc([(R(0), True)]), sc()])]))
        S.append(case([add(0, 1, once=True), add(0, 2, once=True, weak=1), add(0, 3), R(0), cnt()],
                      [(3, [sc()]), (1, [sc([(rme(2), False), (R(0), False)])])]))
        # HARDENING 7 (loss at every prefix): a delivery over four handlers, each possible answer at each position, with and without
        # error suppression, instance and class form
        for pos in range(4):
            for k, kw in (("false", {}), ("true", {}), ("tup0", {}), ("tup1", {"h": True}), ("other", {}), ("tup2", {"h": True, "r": True}),
                          ("tup2", {"h": False, "r": True}), ("exc", {"e": "other"}), ("exc", {"e": "revent"}), ("exc", {"e": "key"}),
                          ("exc", {"e": "base", "v": pos})):
                for noerr in (False, True):
                    S.append(case([add(0, 1), add(0, 2, once=(pos == 1)), add(0, 3, 2), add(0, 4, weak=1), R(0, "inst", noerr), R(0, "cls", noerr), cnt()],
                                  [([3, 1, 2, 4][pos], [sc(ret=k, **kw), sc()])]))
        # exceptions that do not derive from Exception (an application's own, GeneratorExit, SystemExit, KeyboardInterrupt): error-suppressed
        # raising suppresses them like any other, plain raising lets them through; directly, from a nested delivery, from a one-shot handler
        for v in range(4):
            for form in ("inst", "cls"):
                S.append(case([add(0, 1), add(0, 2, once=True), add(0, 3), R(0, form, True), R(0, form, False), R(0, form, True), cnt()],
                              [(2, [sc(ret="exc", e="base", v=v)]), (1, [sc(), sc(ret="exc", e="base", v=v), sc()])]))
                S.append(case([add(0, 1), add(1, 2), R(0, form, True), R(0, form, False)],
                              [(1, [sc([(R(1, form, True), False), (R(1, form, False), True), (R(1, form, False), False)])] * 2), (2, [sc(ret="exc", e="base", v=v)] * 6)]))
        # the exception hook (a running POX's, live or silenced; none; revent's default) x what the handler raises (class x message: empty,
        # multi-line, non-ASCII, %-and-{} directives, non-str arguments, unprintable) x raise form: suppressed with, let through without
        for hook in range(4):
            for form in ("inst", "cls"):
                for mv in range(len(self.MESSAGES)):
                    S.append(dict(case([add(0, 1), add(0, 2), add(0, 3), R(0, form, True), R(0, form, False), R(0, form, True), cnt()],
                                       [(2, [sc(ret="exc", e="other", v=mv + hook, mv=mv), sc(ret="exc", e=["key", "revent", "other", "base"][mv % 4], v=7, mv=mv),
                                             sc(ret="exc", e="other", v=7, mv=(mv + 1) % 3)])]), hook=hook))
        # HARDENING 1/2 (hidden or shared state): two instances of ONE source class must not share anything; the same handler on both
        for kind in ("set", "list", "tuple", "frozenset"):
            twin = [source([0, 1], kind=kind, cls=1), source([0, 1], kind=kind, cls=1)]
            S.append(case([add(0, 1, s=0), add(0, 2, 5, s=0), R(0, s=1), R(0, "cls", s=1), cnt(1), add(0, 1, s=1), add(1, 3, once=True, s=1), R(0, s=0), R(0, s=1),
                           rmh(1, s=0), R(0, s=1), R(0, s=0), clr(0), R(0, s=1), cnt(0), cnt(1), add(0, 4, -1, s=1), R(0, s=1), R(1, s=0), R(1, s=1)],
                          [(1, [sc(), sc([(add(0, 5, 9, s=0), False)]), sc(ret="true")])], sources=twin))
            S.append(case([add(3, 1), add(0, 1, via=1), add(0, 2, via=3), R(3), R(0), R(5, "cls"), bind([0, 1, 3], 100), R(0), R(1)], sources=[source([0, 1], kind=kind)]))
        S.append(case([add(0, 1), R(0), R(0, "cls"), cnt(), bind([0], 100), add(0, 1, via=1)], sources=[source([], kind="none")]))
        # ... nor may a source learn anything from what another source (of another class) was asked before: the same by-name /
        # by-type question to a source that declares the type and then to one that does not, in both orders, every spelling
        for first in (0, 1):
            for via in (0, 1, 2, 3, 4, 6):
                S.append(case([add(0, 1, via=via, s=first), add(0, 2, via=via, s=1 - first), R(0, s=0), R(0, s=1), R(0, "cls", s=1 - first),
                               add(0, 3, via=via, s=first), add(3, 4, via=via, s=0), add(3, 5, via=via, s=1), R(3, s=0), R(3, s=1), cnt(0), cnt(1)],
                              sources=[source([0, 1]), source([1, 3])]))
        # ... also when the two sources are RELATED and declare different sets: instances of one class that declare their events per
        # instance (_eventMixin_addEvents / _eventMixin_addEvent / an instance attribute, set after construction or in __init__), an
        # instance overriding what its class declares, a base-class instance next to an instance of a subclass that declares more,
        # fewer or other events (per class or per instance).  Every question (raise in the four forms, subscribe in every spelling,
        # subscribe by method names) is put to the one and then to the other, in both orders, and again after both have answered.
        def cross(first, via, bvia):
            a, b = first, 1 - first
            ops = []
            for et in (0, 1, 3):
                ops += [R(et, s=a), R(et, s=b), R(et, "cls", s=b), R(et, "cls", True, s=a)]
            ops += [add(0, 1, via=via, s=a), add(0, 2, via=via, s=b), R(0, s=0), R(0, s=1), R(0, "cls", s=b),
                    add(0, 3, via=via, s=a), add(3, 4, via=via, s=a), add(3, 5, via=via, s=b), add(1, 6, via=via, s=a), add(1, 1, 2, via=via, s=b),
                    R(3, s=0), R(3, s=1), R(1, "inst", True, s=a), R(1, "inst", True, s=b),
                    bind([0, 1, 3], 100, via=bvia, s=a), bind([0, 1, 3], 200, via=bvia, s=b),
                    add(3, 2, via=via, s=b), add(3, 3, via=via, s=a), add(1, 4, via=via, s=b), add(1, 5, via=via, s=a)]
            for et in (0, 1, 3):
                ops += [R(et, s=a), R(et, s=b), R(et, "cls", s=a), R(et, "inst", True, s=b)]
            return ops + [cnt(0), cnt(1)]
        def related(d0, d1, acc1=False):
            src = lambda d, acc=False, **kw: source([] if acc else d, acc, **kw)
            out = [[src(d0, how=h), src(d1, acc1, how=h)] for h in (1, 3)]                                      # unrelated classes, declared per instance
            out += [[src(d0, cls=1, how=h), src(d1, acc1, cls=1, how=h2)] for h, h2 in ((1, 1), (2, 2), (3, 3), (4, 4), (1, 3), (4, 2), (0, 0), (0, 1))]
            out += [[src(d0, cls=1, how=h), src(d1, acc1, cls=2, base=1, how=h2)] for h, h2 in ((0, 0), (4, 4), (0, 4), (1, 2), (3, 0), (0, 3))]
            return out
        for d0, d1, acc1 in (([0, 1], [1, 3], False), ([0], [0, 1, 3], False), ([0, 1, 3], [3], False), ([0, 1], [], True)):
            for pair in related(d0, d1, acc1):
                for first in (0, 1):
                    for k, via in enumerate((0, 2, 5) if acc1 else (0, 1, 2, 3, 4, 6)):
                        S.append(case(cross(first, via, (k + first) % (3 if acc1 else 6)), [(4, [sc(), sc([(add(3, 6, via=via, s=first), True)])])], sources=pair))
        # a declaration that changes in the middle of a source's life (more events declared in three spellings; the declaration
        # replaced by a smaller one): every question before and after, on the source itself and on a relative that did not change
        decl = lambda ets, dv=0, s=0: {"op": "decl", "s": s, "ets": list(ets), "dv": dv}
        for dv in (0, 1, 2, 4):
            for via in (0, 1, 2, 3, 4, 6):
                for k, rel in enumerate(([source([0], how=1), source([0], how=3)], [source([0], cls=1, how=1 + via % 4), source([0], cls=1, how=1 + dv)],
                                         [source([0], cls=1, how=0), source([0], cls=1, how=0)], [source([0], cls=1), source([0, 1], cls=2, base=1)],
                                         [source([0], cls=2, base=1, how=4), source([0, 1], cls=1, kind="frozenset")])):
                    ask = lambda h: [add(1, h, via=via, s=0), add(1, h + 1, via=via, s=1), add(3, h + 2, via=via, s=0), add(3, h, via=via, s=1), add(0, h, via=via, s=0),
                                     R(1, s=0), R(1, s=1), R(3, "inst", True, s=0), R(3, "cls", s=0), R(3, s=1), R(0, s=0), bind([0, 1, 3], 100 * h, via=(via + h) % 6, s=h % 2)]
                    S.append(case(ask(1) + [decl([1], dv)] + ask(2) + [decl([3, 1], (dv + 1) % 5)] + ask(3) + [decl([0], 3)] + ask(4) + [decl([0, 5], 3, s=1), decl([], dv, s=1)] + ask(5) + [cnt(0), cnt(1)],
                                  [(2, [sc(), sc([(decl([3], dv), False), (add(3, 6, via=via, s=0), True), (R(3, s=0), True)])])], sources=rel))
        # three of a family: a base class, a subclass, a subclass of the subclass, each declaring one event more; asked in every order
        fam = [source([0], cls=1), source([0, 1], cls=2, base=1), source([0, 1, 3], cls=3, base=2)]
        fam2 = [source([0], cls=1, how=4), source([0, 1], cls=1, how=1), source([0, 1, 3], cls=2, base=1, how=4)]
        for order in itertools.permutations(range(3)):
            for via in (1, 3, 4, 0):
                ops = []
                for et in (3, 1, 0):
                    ops += [add(et, 1 + s, via=via, s=s) for s in order] + [R(et, s=s) for s in order]
                ops += [bind([0, 1, 3], 100 * (s + 1), via=s, s=s) for s in order]
                ops += [add(et, 4 + s, via=via, s=s) for et in (0, 1, 3) for s in reversed(order)]
                ops += [R(et, f, ne, s=s) for et in (0, 1, 3) for s in order for f, ne in (("inst", False), ("cls", True))] + [cnt(s) for s in order]
                S.append(case(ops, sources=fam if via != 4 else fam2))
                S.append(case(ops, sources=fam2 if via != 4 else fam))
        S.append(case([add(0, 1), R(0), R(0, "cls"), cnt()], sources=[source([], kind="set"), source([0])]))
        # HARDENING 2 (object reuse): the same event object raised again (halted or not, on the same or the other source), forwarded from
        # inside its own handler (event.halt and event.source are shared), the same sink bound twice and to two sources
        two_ = [source([0, 1]), source([0, 1, 3])]
        again = lambda f, s=0, noerr=False: dict(R(0, "again", noerr, s), f=f)
        fwd = lambda s=0, noerr=False: R(0, "fwd", noerr, s)
        S.append(case([add(0, 1), add(0, 2), add(0, 3, s=1), add(0, 4, s=1), R(0), again(0), again(0, 1), R(0, "cls"), again(3), again(3, 1), again(9), R(2), again(7)],
                      [(2, [sc(ret="true"), sc(ret="other"), sc()]), (3, [sc(ret="other"), sc(halt=False, ret="other")])], sources=two_))
        S.append(case([add(0, 1), add(0, 2), add(0, 3, s=1), add(0, 4, s=1), R(0), R(0, "cls"), again(0, 1, True)],
                      [(1, [sc([(fwd(1), False)]), sc([(fwd(1, True), True), (fwd(0), True)], ret="other")]), (2, [sc(ret="other"), sc()]),
                       (3, [sc(halt=True), sc(ret="tup1", h=True), sc()]), (4, [sc(ret="other")] * 3)], sources=two_))
        S.append(case([add(0, 1), add(1, 2), add(3, 3, s=1), R(1), again(0), again(0, 1), R(3, s=1), again(3, 0), again(3, 1)],
                      [(2, [sc([(fwd(0), True), (fwd(1), True)])])], sources=two_))
        S.append(case([fwd(), add(0, 1), bind([0, 1], 100), bind([0, 1], 100, 3, None, 1), bind([0, 1, 3], 200, 0, 7, 0, 0, 1), bind([0, 1, 3], 200, 2, 7, 2, 0, 0),
                       R(0), R(1), R(0, s=1), R(3, s=1), rmh(100), R(0), drop(7), R(0), R(0, s=1), cnt(0), cnt(1)], sources=two_))
        # HARDENING 3 (rare values): `once` given as 1 / "yes" / [0] / 0 / "" / None, priorities as floats and True, falsy handlers
        # (hid 3, 6), falsy owners (2), falsy events (Ev1, Ev4), the 300th subscription id
        for ov in range(4):
            S.append(case([dict(add(0, 3, once=True), ov=ov), dict(add(0, 6, once=False), ov=ov), dict(add(0, 1, 1), pv=2), dict(add(0, 2, 1), pv=1),
                           dict(add(1, 3, weak=2, once=True), ov=ov), dict(add(1, 6, -1, weak=2), pv=1), R(0), R(0), R(1), R(1), R(1, "cls"), rmh(3), rmh(6), R(0), cnt()],
                          [(6, [sc(), sc(ret="tup1", h=False)])], declared=[0, 1, 4]))
        S.append(case([add(0, 1 + (i % 6), [0, 3, -2][i % 3], once=(i % 7 == 0)) for i in range(300)] + [R(0), rme(299), rme(300), rmp(0, 298), R(0), cnt()],
                      [(2, [sc(), sc(ret="true")])]))
        # HARDENING 4 (calling conventions): positional subscribe, extra positional / keyword arguments to raise, removeListeners with
        # a tuple and a generator
        S.append(case([add(0, 1, 2, True, None, 5), add(0, 2, -1, False, 1, 5), add(0, 3, 0, False, None, 6), add(1, 4, 3, True, None, 6), add(2, 4, via=6),
                       dict(R(0), xa=1), dict(R(0, "cls"), xa=1), dict(R(0, "inst", True), xa=2), dict(R(0, "cls", True), xa=2), dict(R(1), xa=1), dict(R(1, "cls"), xa=2),
                       {"op": "rmm", "s": 0, "pairs": [[0, 2], [0, 3]], "cv": 1}, {"op": "rmm", "s": 0, "pairs": [[0, 1], [2, 1]], "cv": 2}, R(0), cnt()],
                      [(3, [sc([(dict(R(0, "cls"), xa=1), False), (dict(R(0), xa=2), True)])])]))
        # nested raise of the same type with a one-shot handler; nested raise of another type; noerrors at depth
        S.append(case([add(0, 1), add(0, 2, once=True), add(0, 3), R(0), R(0)], [(1, [sc([(R(0), False)])])]))
        S.append(case([add(0, 1), add(1, 2), add(1, 3, 5), add(0, 4), R(0), R(1)],
                      [(1, [sc([(R(1, "cls", True), False), (rme(2), False)])]), (3, [sc(ret="exc", e="other"), sc(ret="tup2", h=True, r=True)])]))
        S.append(case([add(0, 1), add(0, 2), add(1, 3), R(0)], [(1, [sc([(R(1), True), (R(1), False)])]), (3, [sc(ret="exc", e="other")] * 2)]))
        # removal forms, missing keys, clear, count
        S.append(case([add(0, 1), add(1, 1), add(0, 2), rmh(1), R(0), R(1), rmh(2, 0), rmh(2, 1), rmh(2, 2), cnt()]))
        S.append(case([add(0, 1), add(1, 2), rmp(0, 1), rmp(1, 2, 0), rmp(0, 2, 1), rmp(2, 1), clr(), rmp(0, 1), rme(1), R(0, "cls"), cnt()]))
        # handlers removing others / themselves during delivery
        S.append(case([add(0, 1), add(0, 2), add(0, 3), R(0), R(0)], [(1, [sc([(rmh(2), False), (rme(3), False), (rmh(1), False)])])]))
        # undeclared, unrelated type
        S.append(case([add(2, 1), add(2, 1, via=1), add(2, 1, via=3), R(2), R(2, "cls"), R(2, "inst", True), R(2, "cls", True), cnt()]))
        S.append(case([add(2, 1), add(2, 2, 3), R(2), R(2, "cls"), add(3, 1), R(3), R(5)], declared=[], acceptAll=True))
        # event-class inheritance: a subclass of a declared type is another, undeclared type ...
        for d in ([0, 1], [0], [0, 3], [3, 4], [5], [1, 4, 5]):
            ops = [add(0, 1), add(3, 2), add(5, 3), add(2, 4), add(4, 5)]
            for et in (0, 3, 5, 2, 4):
                ops += [R(et), R(et, "cls"), R(et, "inst", True), R(et, "cls", True)]
            ops += [add(3, 6, via=1), add(5, 6, via=3), add(4, 6, via=2), add(3, 6, via=4),
                    bind([0, 2, 3, 4, 5], 100), R(0), R(3), R(5), R(4), cnt()]
            S.append(case(ops, [(1, [sc(), sc([(R(3), True), (R(5, "inst", True), True), (add(3, 7), True)])])], declared=d))
        # by-name spellings
        S.append(case([add(0, 1, via=1), add(0, 2, 5, via=3), add(1, 3, via=2, once=True), add(1, 4, 2, via=4), add(2, 5, via=4), R(0), R(1), R(1)]))
        # a source whose __init__ never ran: every entry point but the counter initialises lazily
        for first in (R(0), R(0, "cls"), R(0, "inst", True), R(2), add(0, 1), add(2, 1), rme(1), rmh(1), rmp(0, 1), rmh(1, 0), clr(), cnt(), drop(1),
                      bind([2], 100), bind([0, 1], 100, via=1), {"op": "rmm", "s": 0, "pairs": [[0, 1]]}, {"op": "rmm", "s": 0, "pairs": []}):
            S.append(case([first, cnt(), add(0, 2), cnt(), R(0)], lazy=True))
        S.append(case([cnt(), add(0, 1, weak=1), cnt()], lazy=True, acceptAll=True, declared=[]))
        # weak handlers
        S.append(case([add(0, 1, weak=1), add(0, 2), add(1, 3, weak=1, prio=3), add(0, 4, weak=2), R(0), rmh(1), R(0), drop(1), R(0), R(1),
                       cnt(), drop(2), R(0), add(0, 1, weak=1), R(0)]))
        # an owner collected in the middle of a delivery that still has its handlers in the snapshot: they answer None by themselves;
        # after clearHandlers the proxy cannot remove itself and raises ReventError("object is gone"); an owner whose method is running stays
        for noerr in (False, True):
            for pre in ([], [clr()]):
                S.append(case([add(0, 1), add(0, 2, weak=1), add(0, 3, weak=2, once=True), add(0, 4), add(1, 5, weak=1), R(0, "inst", noerr), R(0), R(1), cnt()],
                              [(1, [sc([(a_, False) for a_ in pre] + [(drop(1), False), (R(1, "cls", noerr), True)])]),
                               (3, [sc([(drop(2), False), (drop(1), False)])])]))
        S.append(case([add(0, 1, weak=1), add(0, 2, weak=1), add(0, 3, weak=2), R(0), R(0)],
                      [(1, [sc([(drop(1), False), (drop(2), False), (R(0), True)])]), (3, [sc(ret="true")])]))
        S.append(case([add(0, 1, s=0), add(0, 2, weak=1, s=0), add(0, 3, weak=1, s=1), add(0, 4, s=1), R(0, s=1), R(0, s=0)],
                      [(4, [sc([(R(0, s=0), False)])]), (1, [sc([(clr(1), False), (drop(1), False)])])], sources=[source([0]), source([0])]))
        # autoBind in its three spellings, strong and weak
        for via in range(3):
            S.append(case([add(0, 1), bind([0, 1, 2], 100, via=via), bind([1, 2], 200, 4, 7, via=via), R(0), R(1), rmh(101), rmh(201), R(1),
                           drop(7), R(1), cnt()], [(100, [sc(ret="true")])]))
        # method-name prefixes (both spellings, positional and keyword arguments), removeListeners with what autoBind returned
        mixed = [(0, 0), (0, 1), (0, 2), (1, 0), (1, 1), (1, 3), (2, 0), (2, 2)]
        for via in range(6):
            for q in (0, 1, 2, 3):
                S.append(case([add(0, 1, 3), bind(mixed, 100, 3 if q == 1 else 0, None, via, q), R(0), R(1),
                               {"op": "rmm", "s": 0, "pairs": [[0, 2], [1, 3], [0, 7]]}, R(0), R(1),
                               {"op": "rmm", "s": 0, "pairs": [[0, 1], [2, 1], [1, 3]]}, R(0), cnt()],
                              [(110, [sc(ret="true")]), (100, [sc([({"op": "rmm", "s": 0, "pairs": [[0, 1], [0, 2], [0, 3]]}, True)])])]))
        # two sources: handlers of one subscribe / unsubscribe / raise on the other during delivery; shared id counter; shared owners
        two = [source([0, 1]), source([0, 3])]
        S.append(case([add(0, 1, s=0), add(0, 2, s=1), add(0, 3, s=0), add(0, 4, 5, s=1), R(0, s=0), R(0, s=1), cnt(0), cnt(1)],
                      [(1, [sc([(R(0, s=1), False), (add(0, 5, 9, s=1), False), (rme(2, s=1), False), (R(0, "cls", s=1), True)])]),
                       (2, [sc([(add(0, 6, 7, s=0), False), (R(1, "cls", s=0), False)], ret="false")]),
                       (4, [sc(ret="tup1", h=True), sc([(R(0, s=0), True)])])], sources=two))
        S.append(case([add(0, 1, s=0), add(0, 1, s=1), add(3, 2, s=1), add(3, 2, s=0), R(3, s=1), R(3, s=0), rmh(1, s=1), R(0, s=0), R(0, s=1),
                       rme(1, s=1), rme(2, s=0), rmp(0, 1, s=0), cnt(0), cnt(1)],
                      [(2, [sc([(R(0, s=0), False), (R(3, "inst", True, s=0), True)], halt=True, ret="other")])], sources=two))
        S.append(case([add(0, 1, weak=1, s=0), add(0, 1, weak=1, s=1), add(0, 2, weak=2, s=1), R(0, s=0), R(0, s=1), drop(1), R(0, s=0), R(0, s=1), cnt(0), cnt(1)],
                      sources=[source([0]), source([0], lazy=True)]))
        S.append(case([cnt(1), add(0, 1, s=0), cnt(1), R(0, s=0), cnt(1)], [(1, [sc([(cnt(1), True), (R(0, "cls", s=1), False), (cnt(1), False)])])],
                      sources=[source([0]), source([0], lazy=True)]))
        return S

    def alphabet(self):
        add, R = self.add, self.raise_
        return [add(0, 1), add(0, 2), add(0, 2, 5), add(0, 1, once=True), add(0, 2, -1), add(3, 2),
                R(0), R(0, "cls"), R(0, "inst", True), R(3),
                {"op": "rmh", "s": 0, "hid": 1, "et": None}, {"op": "rme", "s": 0, "eid": 1, "et": None},
                {"op": "rme", "s": 0, "eid": 2, "et": 0}, {"op": "rmp", "s": 0, "et": 0, "eid": 1, "et2": None}]

    def profiles(self):
        add, R, sc = self.add, self.raise_, self.sc
        rme = lambda eid: {"op": "rme", "s": 0, "eid": eid, "et": None}
        return [
            [],
            [(1, [sc([(add(0, 3, 5), False)])])],
            [(1, [sc([(add(0, 3), False)])]), (2, [sc(ret="tup2", h=True, r=True)])],
            [(1, [sc([(R(0), False)])]), (2, [sc(), sc(ret="false")])],
            [(1, [sc(ret="true")]), (2, [sc([(rme(1), False)])])],
            [(1, [sc([(rme(2), False), (add(0, 2, 7), True)], ret="false")])],
            [(1, [sc(ret="exc", e="other")]), (2, [sc([(R(0, "cls", True), False)])])],
            [(1, [sc([(R(1), False), (add(2, 3), False)], halt=True)]), (2, [sc([(add(0, 1, 9), False)], ret="tup1", h=False)])],
            [(1, [sc(ret="exc", e="base", v=2), sc(ret="exc", e="base", v=3)]), (2, [sc([(R(0, "cls", True), False)], ret="exc", e="base", v=0)])],
        ]

    def exhaustive(self, maxlen, profiles=None):
        alpha = self.alphabet()
        profs = self.profiles() if profiles is None else profiles
        for n in range(1, maxlen + 1):
            for seq in itertools.product(range(len(alpha)), repeat=n):
                kinds = [alpha[i]["op"] for i in seq]
                if "raise" not in kinds or "add" not in kinds: continue
                for p in profs:
                    yield self.case([alpha[i] for i in seq], p)

    def corpus(self):
        return self.seeds() + list(self.exhaustive(3))

    # random histories
    ETS = [0, 0, 0, 0, 1, 1, 2, 3, 3, 4, 5]
    def rand_action(self, rng, ctx, depth):
        x = rng.random()
        s = rng.randrange(ctx["nsrc"])
        ets = self.ETS
        et_or_none = lambda: rng.choice([None, None, None, None, 0, 1, 2, 3])
        if x < 0.30:
            ctx["adds"] += 1
            weak = rng.choice([1, 2, 3]) if rng.random() < 0.15 else None
            a = self.add(rng.choice(ets), rng.randint(1, 6), rng.choice([0, 0, 0, 0, 5, 5, -1, -4, 7, 3, 1]), rng.random() < 0.25, weak,
                         rng.randint(0, 6) if rng.random() < 0.35 else 0, s)
            if ctx["acceptAll"][s] and a["via"] in (1, 3, 4, 6): a["via"] = 0       # by-name needs a declared set
            if rng.random() < 0.2: a["ov"] = rng.randint(0, 3)
            if rng.random() < 0.15: a["pv"] = rng.randint(0, 2)
            return a
        if x < 0.36:
            return {"op": "rmh", "s": s, "hid": rng.choice([1, 2, 3, 4, 5, 6, 100, 101, 110, 111, 123]), "et": et_or_none()}
        if x < 0.46:
            return {"op": "rme", "s": s, "eid": rng.randint(0, ctx["adds"] + 1), "et": et_or_none()}
        if x < 0.52:
            return {"op": "rmp", "s": s, "et": rng.choice(ets), "eid": rng.randint(0, ctx["adds"] + 1), "et2": et_or_none()}
        if x < 0.53: return {"op": "rmm", "s": s, "pairs": [[rng.choice(ets), rng.randint(0, ctx["adds"] + 1)] for _ in range(rng.randint(0, 4))], "cv": rng.randint(0, 2)}
        if x < 0.54: return {"op": "clear", "s": s}
        if x < 0.59:
            if ctx.get("decl") and x >= 0.57:               # some histories change a declaration on the way (these are checked by the oracle alone)
                return {"op": "decl", "s": s, "ets": rng.sample(range(N_ET), rng.randint(0, 3)), "dv": rng.choice([0, 1, 2, 4, 0, 1, 2, 4, 3])}
            return {"op": "count", "s": s}
        if x < 0.63: return {"op": "drop", "s": 0, "o": rng.choice([1, 2, 3] + ctx["sinkowners"])}
        if x < 0.67 and depth == 0 and not ctx["acceptAll"][s]:                     # sinks are bound at top level only (fresh identities)
            if ctx["bindlist"] and rng.random() < 0.3:                              # the same sink object bound once more
                b_ = dict(rng.choice(ctx["bindlist"])); b_["s"] = s; b_["via"] = rng.randint(0, 5)
                b_["pfx"] = rng.choice([b_["pfx"], b_["pfx"], 0, 1]); b_["prio"] = rng.choice([0, b_["prio"], 3])
                ctx["adds"] += len(b_["meths"])
                return b_
            ctx["binds"] += 1
            weak = None
            if rng.random() < 0.4:
                weak = 10 + ctx["binds"]; ctx["sinkowners"].append(weak)
            meths = sorted(rng.sample([(p_, et) for p_ in (0, 1, 2) for et in range(N_ET)], rng.randint(1, 7)))
            ctx["adds"] += len(meths)
            b_ = {"op": "bind", "s": s, "meths": [list(m) for m in meths], "pfx": rng.choice([0, 0, 1, 1, 2, 3]), "base": 100 * ctx["binds"],
                  "prio": rng.choice([0, 0, 4, -2]), "weak": weak, "via": rng.randint(0, 5)}
            ctx["bindlist"].append(b_)
            return b_
        if x > 0.985:
            return dict(self.raise_(0, rng.choice(["junkc", "junko"]), rng.random() < 0.3, s), v=rng.randint(0, 11))
        r_ = self.raise_(rng.choice(ets), rng.choice(["inst", "inst", "cls"]), rng.random() < 0.3, s)
        y = rng.random()
        if y < 0.07: r_["form"] = "again"; r_["f"] = rng.randint(0, 10)               # an event object raised before, raised again
        elif y < 0.17 and depth > 0: r_["form"] = "fwd"                               # the event being handled, forwarded
        if rng.random() < 0.15: r_["xa"] = rng.randint(1, 2)
        return r_

    def rand_ret(self, rng):
        x = rng.random()
        if x < 0.45: return {"k": "none"}
        k = rng.choice(["false", "true", "tup0", "tup1", "tup2", "tup2", "tup2", "other", "other", "exc"])
        r = {"k": k, "v": rng.randint(0, 11)}
        if k in ("tup1", "tup2"): r["h"] = rng.random() < 0.4
        if k == "tup2": r["r"] = rng.random() < 0.5
        if k == "exc":
            r["e"] = rng.choice(["other", "other", "other", "key", "revent", "base"])
            if rng.random() < 0.6: r["mv"] = rng.randint(0, len(self.MESSAGES) - 1)
        return r

    DECL = [[0, 1], [0, 1], [0, 1, 2], [0], [0, 3], [3, 4], [0, 1, 5], [1, 3, 5]]
    def rand_case(self, rng, nops):
        x = rng.random()
        nsrc = 3 if x < 0.05 else (2 if x < 0.4 else 1)
        sources = []
        for _ in range(nsrc):
            acceptAll = rng.random() < 0.08
            sources.append(self.source([] if acceptAll else rng.choice(self.DECL), acceptAll, rng.random() < 0.12,
                                       rng.choice(["set", "set", "list", "tuple", "frozenset"]),
                                       how=rng.randint(0, 4) if rng.random() < 0.3 else 0))
        if nsrc >= 2:
            y = rng.random()
            if y < 0.2:                                     # two instances of one class, same declaration
                sources[1] = dict(sources[0]); sources[0]["cls"] = sources[1]["cls"] = 1
            elif y < 0.45:                                  # two instances of one class, each with its own declaration
                sources[0]["cls"] = sources[1]["cls"] = 1
                for sd in sources[:2]: sd["how"] = rng.randint(0, 4)
            elif y < 0.7:                                   # an instance of a class and an instance of its subclass
                sources[0]["cls"] = 1; sources[1]["cls"] = 2; sources[1]["base"] = 1
                if rng.random() < 0.5: sources[0]["how"], sources[1]["how"] = rng.choice([(0, 0), (0, 4), (4, 4), (1, 2), (3, 0), (0, 3)])
            if nsrc == 3 and rng.random() < 0.7:            # the third is a twin or a subclass of one of them
                k = rng.randrange(2)
                if sources[k]["cls"] is None: sources[k]["cls"] = 5
                if rng.random() < 0.5: sources[2]["cls"] = sources[k]["cls"]
                else: sources[2]["cls"] = 6; sources[2]["base"] = sources[k]["cls"]
        ctx = {"adds": 0, "binds": 0, "sinkowners": [], "bindlist": [], "nsrc": nsrc, "acceptAll": [sd["acceptAll"] for sd in sources],
               "decl": rng.random() < 0.1}
        ops = [self.rand_action(rng, ctx, 0) for _ in range(nops)]
        scripts = []
        hids = [1, 2, 3, 4, 5, 6] + [100 * b + 10 * p_ + et for b in range(1, ctx["binds"] + 1) for p_ in (0, 1, 2) for et in range(N_ET)]
        for hid in hids:
            if rng.random() < (0.6 if hid < 100 else 0.1):
                sl = []
                for _ in range(rng.randint(1, 3)):
                    acts = [[self.rand_action(rng, ctx, 1), rng.random() < 0.5] for _ in range(rng.choice([0, 0, 1, 1, 2, 3]))]
                    halt = rng.choice([True, True, False]) if rng.random() < 0.15 else None
                    sl.append({"halt": halt, "acts": acts, "ret": self.rand_ret(rng)})
                scripts.append([hid, sl])
        c_ = {"sources": sources, "ops": ops, "scripts": scripts}
        if rng.random() < 0.35: c_["hook"] = rng.randint(1, 3)
        return c_

    def generate(self, rng, tier):
        n = 2500 if tier == "quick" else 25000
        for _ in range(n):
            yield self.rand_case(rng, rng.choice([3, 5, 8, 12, 20, 40, 80]))
        if tier == "thorough":
            profs = self.profiles()
            for c in self.exhaustive(4, [profs[rng.randrange(len(profs))]]):
                yield c

    def search_cases(self, rng, tier):
        for c in self.seeds(): yield c
        while True:
            yield self.rand_case(rng, rng.choice([3, 5, 8, 12, 20]))


CHECK = C05
