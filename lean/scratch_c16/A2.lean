import scratch_c16.A
namespace Pox.Addr

theorem two_pow_split (w b : Nat) (hb : b ≤ w) : 2 ^ w = 2 ^ b * 2 ^ (w - b) := by
  rw [← Nat.pow_add]; congr 1; omega

theorem cidrMaskN_eq (w b : Nat) (hb : b ≤ w) : cidrMaskN w b = .ok (2 ^ w - 2 ^ (w - b)) := by
  unfold cidrMaskN
  rw [if_neg (by omega)]
  congr 1
  rw [Nat.shiftLeft_eq, Nat.one_shiftLeft, Nat.sub_mul, Nat.one_mul, ← two_pow_split w b hb]

theorem cidrMaskN_err (w b : Nat) (hb : w < b) : cidrMaskN w b = .error .value := by
  unfold cidrMaskN; rw [if_pos hb]

theorem mask_lt (w b : Nat) : 2 ^ w - 2 ^ (w - b) < 2 ^ w := by
  have h1 : 0 < 2 ^ (w - b) := Nat.pow_pos (by decide)
  have h2 : 0 < 2 ^ w := Nat.pow_pos (by decide)
  omega

theorem leadLoop_some (w : Nat) (hw : 1 ≤ w) (v : Nat) (hv : v < 2 ^ w) :
    ∃ v' c, leadLoop w (w + 1) v 0 = some (v', c) ∧ tloop (2 ^ (w - 1)) (w + 1) v 0 = some (v' % 2 ^ w, c) := by
  have h := leadLoop_trunc w hw (w + 1) v 0
  rw [Nat.mod_eq_of_lt hv] at h
  cases hl : leadLoop w (w + 1) v 0 with
  | none =>
    rw [hl] at h
    exact absurd h.symm (tloop_fuel w hw (w + 1) 0 v 0 (by omega) (by omega) hv ⟨v, by simp⟩)
  | some p =>
    rw [hl] at h
    exact ⟨p.1, p.2, rfl, h.symm⟩

theorem netmaskToCidrN_spec (w : Nat) (hw : 1 ≤ w) (v : Nat) (hv : v < 2 ^ w) (c : Nat) :
    netmaskToCidrN w v = .ok c ↔ c ≤ w ∧ v = 2 ^ w - 2 ^ (w - c) := by
  obtain ⟨v', c', hl, ht⟩ := leadLoop_some w hw v hv
  unfold netmaskToCidrN
  rw [hl]
  simp only [Nat.and_two_pow_sub_one_eq_mod]
  constructor
  · intro h
    by_cases hz : v' % 2 ^ w ≠ 0
    · rw [if_pos hz] at h; cases h
    · rw [if_neg hz] at h
      have hz' : v' % 2 ^ w = 0 := by omega
      rw [hz'] at ht
      obtain ⟨b, hb, hc, hvb⟩ := tloop_zero_inv w hw _ _ _ _ hv ht
      have : c' = c := by injection h
      subst this
      have : b = c' := by omega
      subst this
      exact ⟨hb, hvb⟩
  · intro ⟨hc, hvc⟩
    have := tloop_mask w hw c (w + 1) 0 hc (by omega)
    rw [← hvc, ht] at this
    simp only [Option.some.injEq, Prod.mk.injEq, Nat.zero_add] at this
    rw [if_neg (by omega), this.2]

theorem netmaskToCidrN_reject (w : Nat) (hw : 1 ≤ w) (v : Nat) (hv : v < 2 ^ w)
    (hn : ¬ ∃ b, b ≤ w ∧ v = 2 ^ w - 2 ^ (w - b)) : netmaskToCidrN w v = .error .runtime := by
  obtain ⟨v', c', hl, ht⟩ := leadLoop_some w hw v hv
  have hs := netmaskToCidrN_spec w hw v hv c'
  unfold netmaskToCidrN at *
  rw [hl] at *
  by_cases hz : v' &&& (2 ^ w - 1) ≠ 0
  · rw [if_pos hz]
  · rw [if_neg hz] at hs
    exact absurd ⟨c', hs.mp rfl⟩ hn

/-- the variant of the loop test used inside `parse_cidr` accepts exactly the same masks -/
theorem maskBits_eq (w : Nat) (hw : 1 ≤ w) (v : Nat) (hv : v < 2 ^ w) : maskBits w v = netmaskToCidrN w v := by
  obtain ⟨v', c', hl, ht⟩ := leadLoop_some w hw v hv
  unfold maskBits netmaskToCidrN
  rw [hl]
  simp only [Nat.and_two_pow_sub_one_eq_mod]
  -- after the loop the top bit of the truncated value is clear
  have hlt : v' % 2 ^ w < 2 ^ (w - 1) := by
    have : ∀ f u c u' c', tloop (2 ^ (w - 1)) f u c = some (u', c') → u' < 2 ^ (w - 1) := by
      intro f
      induction f with
      | zero => intro u c u' c' h; simp [tloop] at h
      | succ f ih =>
        intro u c u' c' h
        simp only [tloop] at h
        by_cases hc : 2 ^ (w - 1) ≤ u
        · rw [if_pos hc] at h; exact ih _ _ _ _ h
        · rw [if_neg hc] at h
          simp only [Option.some.injEq, Prod.mk.injEq] at h
          omega
    exact this _ _ _ _ _ ht
  have e2 : 2 ^ w = 2 ^ (w - 1) * 2 := by
    have : w = (w - 1) + 1 := by omega
    rw [this, Nat.pow_succ]; simp
  have : v' % 2 ^ (w - 1) = v' % 2 ^ w := by
    have h := Nat.mod_mul_left_mod v' 2 (2 ^ (w - 1))
    rw [Nat.mul_comm] at h
    rw [e2, ← h]
    rw [e2] at hlt
    exact (Nat.mod_eq_of_lt hlt).symm
  rw [this]

/-! ### membership -/

theorem inNetworkN_iff (w a n b : Nat) (hb : b ≤ w) :
    inNetworkN w a n b = .ok true ↔ a / 2 ^ (w - b) = n / 2 ^ (w - b) ∧ n % 2 ^ (w - b) = 0 := by
  unfold inNetworkN
  rw [if_neg (by omega)]
  have hp : 0 < 2 ^ (w - b) := Nat.pow_pos (by decide)
  generalize 2 ^ (w - b) = K at *
  have ha := Nat.div_add_mod a K
  have hn := Nat.div_add_mod n K
  have hr : n % K < K := Nat.mod_lt _ hp
  constructor
  · intro h
    have h' : a - a % K = n := by simpa using h
    have e : n = K * (a / K) := by omega
    rw [e, Nat.mul_div_cancel_left _ hp, Nat.mul_mod_right]
    exact ⟨rfl, rfl⟩
  · intro ⟨h1, h2⟩
    have : a - a % K = n := by
      rw [h2] at hn; rw [h1] at ha; omega
    simp [this]

theorem inNetworkN_total (w a n b : Nat) (hb : b ≤ w) : ∃ r, inNetworkN w a n b = .ok r := by
  unfold inNetworkN; rw [if_neg (by omega)]; exact ⟨_, rfl⟩

end Pox.Addr
