import PoxModel.Model.Addr
namespace Pox.Addr

/-! ### mask loop -/

theorem and_two_pow_ne_zero (v k : Nat) : (v &&& 2 ^ k ≠ 0) ↔ v.testBit k = true := by
  constructor
  · intro h
    apply Classical.byContradiction
    intro hb
    apply h
    apply Nat.eq_of_testBit_eq
    intro i
    simp only [Nat.testBit_and, Nat.testBit_two_pow, Nat.zero_testBit]
    have hb' : v.testBit k = false := by simpa using hb
    by_cases hki : k = i
    · subst hki; simp [hb']
    · simp [hki]
  · intro hb h0
    have : (v &&& 2 ^ k).testBit k = true := by
      simp [Nat.testBit_and, Nat.testBit_two_pow, hb]
    rw [h0] at this
    simp at this

theorem testBit_top (v k : Nat) : v.testBit k = true ↔ 2 ^ k ≤ v % 2 ^ (k + 1) := by
  rw [Nat.testBit_eq_decide_div_mod_eq, decide_eq_true_iff, Nat.pow_succ, Nat.mod_mul]
  have h1 : v % 2 ^ k < 2 ^ k := Nat.mod_lt _ (Nat.pow_pos (by decide))
  have h2 : v / 2 ^ k % 2 < 2 := Nat.mod_lt _ (by decide)
  generalize v / 2 ^ k % 2 = q at *
  generalize v % 2 ^ k = r at *
  generalize 2 ^ k = p at *
  constructor
  · intro h; subst h; omega
  · intro h
    rcases Nat.lt_or_ge q 1 with hq | hq
    · have : q = 0 := by omega
      subst this; omega
    · omega

/-- the loop on the value truncated to `w` bits: `H = 2^(w-1)`, `2H = 2^w` -/
def tloop (H : Nat) : Nat → Nat → Nat → Option (Nat × Nat)
  | 0, _, _ => none
  | f+1, u, c => if H ≤ u then tloop H f (2 * u - 2 * H) (c + 1) else some (u, c)

theorem leadLoop_trunc (w : Nat) (hw : 1 ≤ w) : ∀ f v c,
    (leadLoop w f v c).map (fun p => (p.1 % 2 ^ w, p.2)) = tloop (2 ^ (w - 1)) f (v % 2 ^ w) c := by
  obtain ⟨k, rfl⟩ : ∃ k, w = k + 1 := ⟨w - 1, by omega⟩
  intro f
  induction f with
  | zero => intro v c; rfl
  | succ f ih =>
    intro v c
    simp only [leadLoop, tloop, Nat.add_sub_cancel, Nat.one_shiftLeft]
    have hb := and_two_pow_ne_zero v k
    have ht := testBit_top v k
    by_cases hc : v &&& 2 ^ k ≠ 0
    · have hle : 2 ^ k ≤ v % 2 ^ (k + 1) := ht.mp (hb.mp hc)
      rw [if_pos hc, if_pos hle, ih]
      congr 1
      have hlt : v % 2 ^ (k + 1) < 2 ^ (k + 1) := Nat.mod_lt _ (Nat.pow_pos (by decide))
      rw [Nat.shiftLeft_eq, Nat.pow_one, ← Nat.mod_mul_mod]
      rw [Nat.pow_succ] at *
      have hp : 0 < 2 ^ k := Nat.pow_pos (by decide)
      generalize v % (2 ^ k * 2) = r at *
      generalize 2 ^ k = p at *
      rw [Nat.mod_eq_sub_mod (by omega), Nat.mod_eq_of_lt (by omega)]
      omega
    · have hnle : ¬ 2 ^ k ≤ v % 2 ^ (k + 1) := fun h => hc (hb.mpr (ht.mpr h))
      rw [if_neg hc, if_neg hnle]
      rfl

theorem tloop_mask (w : Nat) (hw : 1 ≤ w) : ∀ b f c, b ≤ w → b + 1 ≤ f →
    tloop (2 ^ (w - 1)) f (2 ^ w - 2 ^ (w - b)) c = some (0, c + b) := by
  intro b
  induction b with
  | zero =>
    intro f c _ hf
    obtain ⟨f, rfl⟩ : ∃ f', f = f' + 1 := ⟨f - 1, by omega⟩
    have hp : 0 < 2 ^ (w - 1) := Nat.pow_pos (by decide)
    simp only [tloop, Nat.sub_zero, Nat.sub_self, Nat.add_zero]
    rw [if_neg (by omega)]
  | succ b ih =>
    intro f c hb hf
    obtain ⟨f, rfl⟩ : ∃ f', f = f' + 1 := ⟨f - 1, by omega⟩
    have e1 : 2 ^ (w - b) = 2 * 2 ^ (w - (b + 1)) := by
      have : w - b = (w - (b + 1)) + 1 := by omega
      rw [this, Nat.pow_succ, Nat.mul_comm]
    have e2 : 2 ^ w = 2 * 2 ^ (w - 1) := by
      have : w = (w - 1) + 1 := by omega
      rw [this, Nat.pow_succ, Nat.mul_comm]; simp
    have e3 : 2 ^ (w - (b + 1)) ≤ 2 ^ (w - 1) := Nat.pow_le_pow_right (by decide) (by omega)
    have hp : 0 < 2 ^ (w - (b + 1)) := Nat.pow_pos (by decide)
    simp only [tloop]
    rw [if_pos (by omega)]
    have : 2 * (2 ^ w - 2 ^ (w - (b + 1))) - 2 * 2 ^ (w - 1) = 2 ^ w - 2 ^ (w - b) := by omega
    rw [this, ih f (c + 1) (by omega) (by omega)]
    congr 2; omega

theorem tloop_zero_inv (w : Nat) (hw : 1 ≤ w) : ∀ f u c c', u < 2 ^ w →
    tloop (2 ^ (w - 1)) f u c = some (0, c') → ∃ b, b ≤ w ∧ c' = c + b ∧ u = 2 ^ w - 2 ^ (w - b) := by
  have e2 : 2 ^ w = 2 * 2 ^ (w - 1) := by
    have : w = (w - 1) + 1 := by omega
    rw [this, Nat.pow_succ, Nat.mul_comm]; simp
  intro f
  induction f with
  | zero => intro u c c' _ h; simp [tloop] at h
  | succ f ih =>
    intro u c c' hu h
    simp only [tloop] at h
    by_cases hc : 2 ^ (w - 1) ≤ u
    · rw [if_pos hc] at h
      obtain ⟨b, hb, hc', hu'⟩ := ih _ _ _ (by omega) h
      have hbw : b < w := by
        rcases Nat.lt_or_ge b w with h1 | h1
        · exact h1
        · have : w - b = 0 := by omega
          rw [this] at hu'
          omega
      refine ⟨b + 1, by omega, by omega, ?_⟩
      have e1 : 2 ^ (w - b) = 2 * 2 ^ (w - (b + 1)) := by
        have : w - b = (w - (b + 1)) + 1 := by omega
        rw [this, Nat.pow_succ, Nat.mul_comm]
      have e3 : 2 ^ (w - (b + 1)) ≤ 2 ^ (w - 1) := Nat.pow_le_pow_right (by decide) (by omega)
      omega
    · rw [if_neg hc] at h
      simp only [Option.some.injEq, Prod.mk.injEq] at h
      exact ⟨0, by omega, by omega, by simp [h.1]⟩

theorem tloop_fuel (w : Nat) (hw : 1 ≤ w) : ∀ f k u c, w + 1 ≤ k + f → k ≤ w → u < 2 ^ w → (∃ m, u = 2 ^ k * m) →
    tloop (2 ^ (w - 1)) f u c ≠ none := by
  have e2 : 2 ^ w = 2 * 2 ^ (w - 1) := by
    have : w = (w - 1) + 1 := by omega
    rw [this, Nat.pow_succ, Nat.mul_comm]; simp
  intro f
  induction f with
  | zero => intro k u c h1 h2; omega
  | succ f ih =>
    intro k u c h1 h2 hu ⟨m, hm⟩
    simp only [tloop]
    by_cases hc : 2 ^ (w - 1) ≤ u
    · rw [if_pos hc]
      have hp : 0 < 2 ^ (w - 1) := Nat.pow_pos (by decide)
      have hkw : k < w := by
        rcases Nat.lt_or_ge k w with h | h
        · exact h
        · have : k = w := by omega
          subst this
          have : m = 0 := by
            rcases Nat.eq_zero_or_pos m with h0 | h0
            · exact h0
            · have : 2 ^ k * 1 ≤ 2 ^ k * m := Nat.mul_le_mul_left _ h0
              omega
          subst this; omega
      apply ih (k + 1) _ _ (by omega) (by omega) (by omega)
      refine ⟨m - 2 ^ (w - (k + 1)), ?_⟩
      have : 2 ^ w = 2 ^ (k + 1) * 2 ^ (w - (k + 1)) := by
        rw [← Nat.pow_add]; congr 1; omega
      rw [Nat.mul_sub, ← this, Nat.pow_succ, hm]
      have : 2 ^ k * 2 * m = 2 * (2 ^ k * m) := by
        rw [Nat.mul_comm (2 ^ k) 2, Nat.mul_assoc]
      omega
    · rw [if_neg hc]; simp

end Pox.Addr
