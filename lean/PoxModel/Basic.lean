def hello := "world"
