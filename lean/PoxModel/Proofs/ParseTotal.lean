import PoxModel.Model.PacketParse
import PoxModel.Proofs.TcpOpts
/-!
# Lemmas for C15: the exception-aware parse of `Model/PacketParse.lean` never raises, tiles its input, and its result can be
re-serialised and printed.  Core only.

Structure: generic facts about `struct.unpack` of a slice of the right size (`unpackE_total`), an invariant of parse results
(`Good` at frame level, `GoodIn` inside an IPv4 datagram: header fields in their wire ranges, the bytes of every object =
its header ++ the bytes handed on (++ what IPv4/UDP cut off), TCP options well-formed and inside the header), one lemma per
class (`…_spec`: given that the nested constructor calls succeed on shorter inputs, the class's `parse` succeeds and
establishes the invariant), and the induction over the nesting budget (`parseD_spec`).
-/
namespace Pox.Parse
open Pox Pox.PktLayout Pox.Packet Pox.Checksum

/-! ## `struct.unpack` of a slice of exactly the format's size succeeds, and its values are in range -/

theorem beDec_lt (b : Bytes) : beDec b < 256 ^ b.length := by
  induction b with
  | nil => simp [beDec]
  | cons x xs ih =>
    have hx : x.toNat < 256 := x.toNat_lt
    have hp : 0 < 256 ^ xs.length := Nat.pow_pos (by decide)
    simp only [beDec, List.length_cons, Nat.pow_succ]
    have : x.toNat * 256 ^ xs.length ≤ 255 * 256 ^ xs.length := Nat.mul_le_mul_right _ (by omega)
    omega

theorem beDec_lt_of_length (b : Bytes) (w : Nat) (h : b.length = w) : beDec b < 256 ^ w := h ▸ beDec_lt b

theorem decode_total (L : Layout) : ∀ (bs : Bytes), size L ≤ bs.length →
    ∃ vs, decode L bs = some (vs, bs.drop (size L)) ∧ fits L vs := by
  induction L with
  | nil => intro bs _; exact ⟨[], by simp [decode, size], by simp [fits]⟩
  | cons f L ih =>
    intro bs h
    cases f with
    | uint w =>
      simp only [size] at h
      obtain ⟨vs, hd, hf⟩ := ih (bs.drop w) (by simp [List.length_drop]; omega)
      refine ⟨.num (beDec (bs.take w)) :: vs, ?_, ?_⟩
      · have : ¬ bs.length < w := by omega
        simp [decode, this, hd, size, List.drop_drop]
      · exact ⟨beDec_lt_of_length _ w (by simp [List.length_take]; omega), hf⟩
    | pad n =>
      simp only [size] at h
      obtain ⟨vs, hd, hf⟩ := ih (bs.drop n) (by simp [List.length_drop]; omega)
      refine ⟨vs, ?_, by simpa [fits] using hf⟩
      have : ¬ bs.length < n := by omega
      simp [decode, this, hd, size, List.drop_drop]
    | blob n =>
      simp only [size] at h
      obtain ⟨vs, hd, hf⟩ := ih (bs.drop n) (by simp [List.length_drop]; omega)
      refine ⟨.raw (bs.take n) :: vs, ?_, ?_⟩
      · have : ¬ bs.length < n := by omega
        simp [decode, this, hd, size, List.drop_drop]
      · exact ⟨by simp [List.length_take]; omega, hf⟩

theorem unpackE_total (L : Layout) (bs : Bytes) (h : bs.length = size L) :
    ∃ vs, unpackE L bs = .ok vs ∧ unpack L bs = some vs ∧ fits L vs := by
  obtain ⟨vs, hd, hf⟩ := decode_total L bs (by omega)
  exact ⟨vs, by simp [unpackE, unpack, h, hd], by simp [unpack, h, hd], hf⟩

theorem fits_nil_iff (vs : List Val) : fits [] vs ↔ vs = [] := by
  cases vs <;> simp [fits]

theorem fits_uint_iff (w : Nat) (L : Layout) (vs : List Val) :
    fits (.uint w :: L) vs ↔ ∃ n vs', vs = .num n :: vs' ∧ n < 256 ^ w ∧ fits L vs' := by
  cases vs with
  | nil => simp [fits]
  | cons v vs =>
    cases v with
    | raw b => simp [fits]
    | num n =>
      simp only [fits]
      constructor
      · rintro ⟨h1, h2⟩; exact ⟨n, vs, rfl, h1, h2⟩
      · rintro ⟨n', vs', he, h1, h2⟩
        injection he with he1 he2
        injection he1 with he1
        subst he1; subst he2; exact ⟨h1, h2⟩

theorem fits_blob_iff (k : Nat) (L : Layout) (vs : List Val) :
    fits (.blob k :: L) vs ↔ ∃ b vs', vs = .raw b :: vs' ∧ b.length = k ∧ fits L vs' := by
  cases vs with
  | nil => simp [fits]
  | cons v vs =>
    cases v with
    | num n => simp [fits]
    | raw b =>
      simp only [fits]
      constructor
      · rintro ⟨h1, h2⟩; exact ⟨b, vs, rfl, h1, h2⟩
      · rintro ⟨b', vs', he, h1, h2⟩
        injection he with he1 he2
        injection he1 with he1
        subst he1; subst he2; exact ⟨h1, h2⟩

theorem sl_length (raw : Bytes) (a b : Nat) (h : b ≤ raw.length) : (sl raw a b).length = b - a := by
  simp [sl, List.length_drop, List.length_take]; omega

theorem sl_length_le (raw : Bytes) (a b : Nat) : (sl raw a b).length ≤ b - a := by
  simp [sl, List.length_drop, List.length_take]; omega

/-- `raw = raw[:a] + raw[a:b] + raw[b:]` -/
theorem split3 (raw : Bytes) (a b : Nat) (h : a ≤ b) : raw = raw.take a ++ (sl raw a b ++ raw.drop b) := by
  have h1 : raw = raw.take b ++ raw.drop b := (List.take_append_drop b raw).symm
  have h2 : raw.take b = (raw.take b).take a ++ (raw.take b).drop a := (List.take_append_drop a _).symm
  have h3 : (raw.take b).take a = raw.take a := by rw [List.take_take]; congr 1; omega
  conv => lhs; rw [h1, h2, h3]
  simp [sl, List.append_assoc]

theorem split2 (raw : Bytes) (a : Nat) : raw = raw.take a ++ raw.drop a := (List.take_append_drop a raw).symm

/-! ## the invariant of parse results -/

def Frame.isLeaf : Frame → Bool
  | .raw _ | .nil | .unparsed _ _ => true
  | .foreign c _ => c == "mptcp"      -- the one layer the full model leaves opaque: a TCP segment carrying the MPTCP option
  | _ => false

/-- attributes of an `llc` object whose parse succeeded -/
def LlcFits (h : Llc) : Prop :=
  ∃ d s c, h.dsap = some d ∧ h.ssap = some s ∧ h.control = some c ∧ d < 256 ∧ s < 256 ∧ c < 65536 ∧
    ((h.length = 3 ∨ h.length = 8) → c < 256) ∧
    ((h.oui = none ∧ (h.length = 3 ∨ h.length = 4)) ∨
     (∃ o, h.oui = some o ∧ o.length = 3 ∧ h.ethType < 65536 ∧ (h.length = 8 ∨ h.length = 9)))

def Tlv.Fits : Tlv → Prop
  | .chassis st _ | .port st _ => st < 256
  | .ttl v => v < 65536
  | .endT => True
  | .caps c e => c < 65536 ∧ e < 65536
  | .mgmt ast addr ins ifn oid => ast < 256 ∧ addr.length + 1 < 256 ∧ ins < 256 ∧ ifn < 4294967296 ∧ oid.length < 256
  | .org oui st _ => oui.length = 3 ∧ st < 256
  | .simple t _ => t < 128

/-- the fixed part of a phase-2 header: the bytes handed to the next layer lie behind it -/
def Ext.hdrMin : Ext → Nat
  | .mpls _ | .eapol _ | .eap _ | .icmp6 _ | .echo6 _ | .unreach6 _ | .timeEx6 | .tooBig6 _ | .gre _ => 4
  | .vxlan _ => 8
  | .ipv6 _ => 40
  | _ => 0

def Frame.isExt : Frame → Bool
  | .ext _ _ _ => true
  | _ => false

/-- what `pack()` of the phase-2 classes in the pack model needs: header fields in the range of their `struct` field, and a payload
that is bytes or another phase-2 object (mpls masks every field itself) -/
def ExtOK : Ext → Frame → Prop
  | .mpls _, n => n.isLeaf = true ∨ n.isExt = true
  | .eapol h, n => h.version < 256 ∧ h.type < 256 ∧ h.bodylen < 65536 ∧ (n.isLeaf = true ∨ n.isExt = true)
  | .eap h, n => h.code < 256 ∧ h.id < 256 ∧ h.length < 65536 ∧ (n.isLeaf = true ∨ n.isExt = true)
  | _, _ => True


/-- **Tiling.**  Every object's bytes are its header followed by exactly the bytes handed to the next layer; only `ipv4` (bytes
beyond the total-length field) and `udp` (payload dropped when the length field is inconsistent) cut something off, and
`llc`/`lldp` objects that gave up keep everything in `raw`.  For the phase-2 classes (`ext`) the statement is: the bytes handed
to the next layer are a contiguous slice of the object's bytes that starts behind the fixed part of the header (`Ext.hdrMin`: 4 bytes
of mpls / eapol / eap / icmpv6 and its messages / gre, 8 of vxlan, 40 of ipv6 — or the whole object when it is shorter). -/
def Frame.Tiles : Frame → Prop
  | .raw _ | .nil | .unparsed _ _ | .lldp _ _ _ => True
  | .foreign c _ => c = "mptcp"
  | .eth _ r n => (∃ hd, hd.length = 14 ∧ r = hd ++ n.bytes) ∧ n.Tiles
  | .vlan _ r n => (∃ hd, hd.length = 4 ∧ r = hd ++ n.bytes) ∧ n.Tiles
  | .llc h p r n => (p = true → ∃ hd, hd.length = h.length ∧ r = hd ++ n.bytes) ∧ (p = false → n = .nil) ∧ n.Tiles
  | .arp _ r n => (∃ hd, hd.length = 28 ∧ r = hd ++ n.bytes) ∧ n.Tiles
  | .ipv4 h r n => (∃ hd cut, hd.length = h.hl * 4 ∧ r = hd ++ (n.bytes ++ cut)) ∧ n.Tiles
  | .udp _ r n => (∃ hd cut, hd.length = 8 ∧ r = hd ++ (n.bytes ++ cut)) ∧ n.Tiles
  | .tcp h r n => (∃ hd, hd.length = h.off * 4 ∧ r = hd ++ n.bytes) ∧ n.Tiles
  | .icmp _ r n | .echo _ r n | .unreach _ r n | .timeEx _ r n => (∃ hd, hd.length = 4 ∧ r = hd ++ n.bytes) ∧ n.Tiles
  | .ext x r n => (∃ hd cut, r = hd ++ (n.bytes ++ cut) ∧ min x.hdrMin r.length ≤ hd.length) ∧ ExtOK x n ∧ n.Tiles

/-- inside an IPv4 datagram (`l4` = directly the payload of an IPv4 header, where UDP/TCP/ICMP objects live).  Sub-chains below
a phase-2 object carry the tiling only (`pack()` of those classes is not modelled). -/
def GoodIn : Bool → Frame → Prop
  | _, .raw _ | _, .nil | _, .unparsed _ _ => True
  | _, .foreign c _ => c = "mptcp"
  | l4, .udp h r n => l4 = true ∧ h.Fits ∧ (n.isLeaf = true ∨ (n.isExt = true ∧ n.Tiles)) ∧
      ∃ hd cut, hd.length = 8 ∧ r = hd ++ (n.bytes ++ cut)
  | l4, .tcp h r n => l4 = true ∧ h.Fits ∧ (∀ o ∈ h.opts, o.OK) ∧ 20 + (optsBytes h.opts).length ≤ h.off * 4 ∧ h.off < 16 ∧
      n.isLeaf = true ∧ ∃ hd, hd.length = h.off * 4 ∧ r = hd ++ n.bytes
  | l4, .icmp h r n => l4 = true ∧ h.Fits ∧ (∃ hd, hd.length = 4 ∧ r = hd ++ n.bytes) ∧ GoodIn false n
  | _, .echo h r n => h.Fits ∧ n.isLeaf = true ∧ ∃ hd, hd.length = 4 ∧ r = hd ++ n.bytes
  | _, .unreach h r n => h.Fits ∧ (∃ hd, hd.length = 4 ∧ r = hd ++ n.bytes) ∧ GoodIn false n
  | _, .timeEx h r n => h.Fits ∧ (∃ hd, hd.length = 4 ∧ r = hd ++ n.bytes) ∧ GoodIn false n
  | _, .ipv4 h r n => h.Fits ∧ h.iplen < 65536 ∧
      (∃ hd cut, hd.length = h.hl * 4 ∧ r = hd ++ (n.bytes ++ cut) ∧ h.hl * 4 + n.bytes.length ≤ h.iplen) ∧ GoodIn true n
  | _, .ext x r n => (Frame.ext x r n).Tiles
  | _, .eth _ _ _ | _, .vlan _ _ _ | _, .llc _ _ _ _ | _, .arp _ _ _ | _, .lldp _ _ _ => False

/-- at frame level -/
def Good : Frame → Prop
  | .raw _ | .nil | .unparsed _ _ => True
  | .foreign c _ => c = "mptcp"
  | .eth h r n => h.Fits ∧ (∃ hd, hd.length = 14 ∧ r = hd ++ n.bytes) ∧ Good n
  | .vlan h r n => h.Fits ∧ (∃ hd, hd.length = 4 ∧ r = hd ++ n.bytes) ∧ Good n
  | .llc h p r n => (p = true → LlcFits h ∧ ∃ hd, hd.length = h.length ∧ r = hd ++ n.bytes) ∧ (p = false → n = .nil) ∧ Good n
  | .arp h r n => h.Fits ∧ n.isLeaf = true ∧ ∃ hd, hd.length = 28 ∧ r = hd ++ n.bytes
  | .lldp ts _ _ => ∀ t ∈ ts, t.Fits
  | .ipv4 h r n => GoodIn false (.ipv4 h r n)
  | .ext x r n => (Frame.ext x r n).Tiles
  | .udp _ _ _ | .tcp _ _ _ | .icmp _ _ _ | .echo _ _ _ | .unreach _ _ _ | .timeEx _ _ _ => False

/-- result of a phase-2 constructor: an object that gave up (a leaf) or a phase-2 object whose sub-chain is tiled -/
def SpecX (f : Frame) : Prop := f.Tiles ∧ (f.isLeaf = true ∨ f.isExt = true)

/-- what the constructor of class `k` establishes -/
def Spec : K → Frame → Prop
  | .udp | .tcp | .icmp => GoodIn true
  | .echo | .unreach | .timeEx => GoodIn false
  | .ipv4 => fun f => GoodIn false f ∧ Good f
  | .eth | .vlan | .llc | .arp | .lldp => Good
  | .mpls | .eapol | .eap | .vxlan | .rip | .dns | .ipv6 | .echo6 | .unreach6 | .gre | .igmp | .dhcp | .icmp6 _ _ => SpecX

/-- outcome of a constructor call: it returns an object for exactly the bytes it was given that satisfies `S`, or one of the
registered known findings, one that the tree does not have the repair for (`fx`), raises -/
def Out (fx : Fix) (S : Frame → Prop) (b : Bytes) (r : P Frame) : Prop :=
  (∃ f, r = .ok f ∧ f.bytes = b ∧ S f) ∨ (∃ s, r = .error (.known s) ∧ fx.fixed s = false)

def OutP (fx : Fix) (Q : Frame → Prop) (r : P Frame) : Prop :=
  (∃ f, r = .ok f ∧ Q f) ∨ (∃ s, r = .error (.known s) ∧ fx.fixed s = false)

/-- the nested constructor calls behave on inputs at least 4 bytes shorter than `n` -/
def NextSpec (fx : Fix) (next : K → Bytes → P Frame) (n : Nat) : Prop :=
  ∀ k b, b.length + 4 ≤ n → Out fx (Spec k) b (next k b)

/-- which constructors the parsers that are NOT behind the nesting guard call (caller, callee): the ICMP / ICMPv6 error messages quote
a datagram, udp selects a payload class by port, vxlan / gre carry a frame or a datagram, eapol carries eap.  (ethernet / vlan /
llc dispatch through `ethernet.parse_next`, ipv4 / ipv6 dispatch themselves: those five are guarded.  mpls calls mpls and catches
everything.) -/
def calls : K → K → Bool
  | .icmp, .echo | .icmp, .unreach | .icmp, .timeEx => true
  | .unreach, .ipv4 | .timeEx, .ipv4 => true
  | .udp, .dhcp | .udp, .dns | .udp, .rip | .udp, .vxlan => true
  | .vxlan, .eth => true
  | .gre, .ipv4 | .gre, .eth => true
  | .icmp6 _ _, .echo6 | .icmp6 _ _, .unreach6 => true
  | .unreach6, .ipv6 => true
  | .eapol, .eap => true
  | _, _ => false

/-- the constructors that class `c` calls behave on inputs at least 4 bytes shorter than `n` -/
def NextFor (fx : Fix) (next : K → Bytes → P Frame) (n : Nat) (c : K) : Prop :=
  ∀ k b, calls c k = true → b.length + 4 ≤ n → Out fx (Spec k) b (next k b)

theorem NextSpec.for {fx : Fix} {next : K → Bytes → P Frame} {n : Nat} (h : NextSpec fx next n) (c : K) : NextFor fx next n c :=
  fun k b _ hl => h k b hl

/-- a nested constructor call whose failure the caller catches (mpls: bare `except:`): an object for the bytes, or any exception -/
def OutE (S : Frame → Prop) (b : Bytes) (r : P Frame) : Prop :=
  (∃ f, r = .ok f ∧ f.bytes = b ∧ S f) ∨ (∃ e, r = .error e)

/-- a raise that a repair removes: with the repair the parser does `alt`, without it the registered finding raises -/
theorem raiseOr_cases {α : Type} (fx : Fix) (s : Site) (alt : P α) :
    raiseOr fx s alt = alt ∨ (fx.fixed s = false ∧ raiseOr fx s alt = .error (.known s)) := by
  unfold raiseOr
  cases h : fx.fixed s
  · exact .inr ⟨rfl, by simp⟩
  · exact .inl (by simp)

variable {fx : Fix} {vr : Var}

theorem goodIn_leaf (l4 : Bool) (f : Frame) (h : f.isLeaf = true) : GoodIn l4 f := by
  cases f <;> simp_all [Frame.isLeaf, GoodIn]

theorem good_leaf (f : Frame) (h : f.isLeaf = true) : Good f := by
  cases f <;> simp_all [Frame.isLeaf, Good]

theorem tiles_leaf (f : Frame) (h : f.isLeaf = true) : f.Tiles := by
  cases f <;> simp_all [Frame.isLeaf, Frame.Tiles]

theorem goodIn_tiles : ∀ (f : Frame) (l4 : Bool), GoodIn l4 f → f.Tiles := by
  intro f
  induction f with
  | raw _ | nil | unparsed _ _ | foreign _ _ | lldp _ _ _ => intros; trivial
  | eth _ _ _ _ | vlan _ _ _ _ | llc _ _ _ _ _ | arp _ _ _ _ => intro l4 h; simp [GoodIn] at h
  | ext x r n ih => intro l4 g; exact g
  | ipv4 h r n ih => intro l4 g; obtain ⟨_, _, ⟨hd, cut, h1, h2, _⟩, g'⟩ := g; exact ⟨⟨hd, cut, h1, h2⟩, ih _ g'⟩
  | udp h r n ih =>
    intro l4 g; obtain ⟨_, _, hl, hd, cut, h1, h2⟩ := g
    exact ⟨⟨hd, cut, h1, h2⟩, hl.elim (tiles_leaf n) (fun h => h.2)⟩
  | tcp h r n ih => intro l4 g; obtain ⟨_, _, _, _, _, hl, hd, h1, h2⟩ := g; exact ⟨⟨hd, h1, h2⟩, tiles_leaf n hl⟩
  | icmp h r n ih => intro l4 g; obtain ⟨_, _, t, g'⟩ := g; exact ⟨t, ih _ g'⟩
  | echo h r n ih => intro l4 g; obtain ⟨_, hl, t⟩ := g; exact ⟨t, tiles_leaf n hl⟩
  | unreach h r n ih => intro l4 g; obtain ⟨_, t, g'⟩ := g; exact ⟨t, ih _ g'⟩
  | timeEx h r n ih => intro l4 g; obtain ⟨_, t, g'⟩ := g; exact ⟨t, ih _ g'⟩

theorem good_tiles : ∀ (f : Frame), Good f → f.Tiles := by
  intro f
  induction f with
  | raw _ | nil | unparsed _ _ | foreign _ _ | lldp _ _ _ => intros; trivial
  | udp _ _ _ _ | tcp _ _ _ _ | icmp _ _ _ _ | echo _ _ _ _ | unreach _ _ _ _ | timeEx _ _ _ _ => intro h; simp [Good] at h
  | ext x r n ih => intro g; exact g
  | eth h r n ih => intro g; obtain ⟨_, t, g'⟩ := g; exact ⟨t, ih g'⟩
  | vlan h r n ih => intro g; obtain ⟨_, t, g'⟩ := g; exact ⟨t, ih g'⟩
  | llc h p r n ih => intro g; obtain ⟨a, b, g'⟩ := g; exact ⟨fun hp => (a hp).2, b, ih g'⟩
  | arp h r n ih => intro g; obtain ⟨_, hl, t⟩ := g; exact ⟨t, tiles_leaf n hl⟩
  | ipv4 h r n ih => intro g; exact goodIn_tiles _ false g

/-- the classes of the layers that the model leaves opaque (`Frame.foreign`) -/
def Frame.foreigns : Frame → List String
  | .foreign c _ => [c]
  | .eth _ _ n | .vlan _ _ n | .llc _ _ _ n | .arp _ _ n | .ipv4 _ _ n | .udp _ _ n | .tcp _ _ n | .icmp _ _ n | .echo _ _ n
  | .unreach _ _ n | .timeEx _ _ n | .ext _ _ n => n.foreigns
  | .raw _ | .nil | .unparsed _ _ | .lldp _ _ _ => []

/-- in a well-formed chain the only opaque layer is a TCP segment that carries the MPTCP option -/
theorem tiles_foreigns : ∀ (f : Frame), f.Tiles → ∀ c ∈ f.foreigns, c = "mptcp" := by
  intro f
  induction f with
  | raw _ | nil | unparsed _ _ | lldp _ _ _ => intro _ c hc; simp [Frame.foreigns] at hc
  | foreign c' _ => intro h c hc; simp [Frame.foreigns] at hc; subst hc; exact h
  | eth _ _ _ ih | vlan _ _ _ ih | arp _ _ _ ih | ipv4 _ _ _ ih | udp _ _ _ ih | tcp _ _ _ ih | icmp _ _ _ ih | echo _ _ _ ih
  | unreach _ _ _ ih | timeEx _ _ _ ih => intro h c hc; exact ih h.2 c (by simpa [Frame.foreigns] using hc)
  | ext _ _ _ ih => intro h c hc; exact ih h.2.2 c (by simpa [Frame.foreigns] using hc)
  | llc _ _ _ _ ih => intro h c hc; exact ih h.2.2 c (by simpa [Frame.foreigns] using hc)

theorem specX_good (f : Frame) (h : SpecX f) : Good f := by
  obtain ⟨ht, hl | he⟩ := h
  · exact good_leaf f hl
  · cases f <;> simp [Frame.isExt] at he; exact ht

theorem specX_goodIn (l4 : Bool) (f : Frame) (h : SpecX f) : GoodIn l4 f := by
  obtain ⟨ht, hl | he⟩ := h
  · exact goodIn_leaf l4 f hl
  · cases f <;> simp [Frame.isExt] at he; exact ht

theorem specX_leaf (f : Frame) (h : f.isLeaf = true) : SpecX f := ⟨tiles_leaf f h, .inl h⟩

/-- any slice of `raw` sits between a prefix and a suffix of `raw` -/
theorem slice_tiles (raw : Bytes) (a b : Nat) {k : Nat} (hk : k ≤ a := by first | (simp [Ext.hdrMin]; done) | (simp [Ext.hdrMin]; omega)) :
    ∃ hd cut, raw = hd ++ (sl raw a b ++ cut) ∧ min k raw.length ≤ hd.length := by
  have hl : min k raw.length ≤ (raw.take a).length := by simp [List.length_take]; omega
  by_cases h : a ≤ b
  · exact ⟨raw.take a, raw.drop b, split3 raw a b h, hl⟩
  · refine ⟨raw.take a, raw.drop a, ?_, hl⟩
    have : sl raw a b = [] := by
      apply List.eq_nil_of_length_eq_zero
      have := sl_length_le raw a b
      omega
    simp [this]

theorem drop_tiles (raw : Bytes) (a : Nat) {k : Nat} (hk : k ≤ a := by first | (simp [Ext.hdrMin]; done) | (simp [Ext.hdrMin]; omega)) :
    ∃ hd cut, raw = hd ++ (raw.drop a ++ cut) ∧ min k raw.length ≤ hd.length :=
  ⟨raw.take a, [], by simpa using split2 raw a, by simp [List.length_take]; omega⟩

theorem out_ok {S : Frame → Prop} {b : Bytes} (f : Frame) (hb : f.bytes = b) (hs : S f) : Out fx S b (.ok f) :=
  .inl ⟨f, rfl, hb, hs⟩

/-! ## one lemma per class -/

theorem eth_shape (b : Bytes) (h : b.length = 14) :
    ∃ dst src t, unpackE ethL b = .ok [.raw dst, .raw src, .num t] ∧ unpack ethL b = some [.raw dst, .raw src, .num t] ∧
      dst.length = 6 ∧ src.length = 6 ∧ t < 65536 := by
  obtain ⟨vs, hu, hu', hf⟩ := unpackE_total ethL b (by rw [h]; rfl)
  simp only [ethL, fits_blob_iff, fits_uint_iff, fits_nil_iff] at hf
  obtain ⟨dst, _, rfl, hd, src, _, rfl, hs, t, _, rfl, ht, rfl⟩ := hf
  exact ⟨dst, src, t, hu, hu', hd, hs, by simpa using ht⟩

theorem parseNext_spec (guard : Bool) (next : K → Bytes → P Frame) (t : Nat) (rest : Bytes) (allow : Bool) (n : Nat)
    (hn : NextSpec fx next n) (hl : rest.length + 4 ≤ n) :
    Out fx Good rest (parseNext (Cfg.tree fx vr) guard next t rest allow) := by
  have hx : ∀ k, (Spec k = SpecX) → Out fx Good rest (next k rest) := by
    intro k hk
    rcases hn k rest hl with ⟨f, h1, h2, h3⟩ | ⟨s, hs, hf⟩
    · exact .inl ⟨f, h1, h2, specX_good f (hk ▸ h3)⟩
    · exact .inr ⟨s, hs, hf⟩
  have hg : ∀ k, (Spec k = Good) → Out fx Good rest (next k rest) := by
    intro k hk
    rcases hn k rest hl with ⟨f, h1, h2, h3⟩ | ⟨s, hs, hf⟩
    · exact .inl ⟨f, h1, h2, hk ▸ h3⟩
    · exact .inr ⟨s, hs, hf⟩
  unfold parseNext
  simp only [Cfg.tree, if_true]
  cases guard
  case true => exact .inl ⟨_, rfl, rfl, trivial⟩
  simp only [Bool.false_eq_true, if_false]
  repeat' split
  all_goals first
    | exact .inl ⟨_, rfl, rfl, trivial⟩
    | exact hg _ rfl
    | exact hx _ rfl
    | (rcases hn .ipv4 rest hl with ⟨f, h1, h2, h3⟩ | ⟨s, hs, hf⟩
       · exact .inl ⟨f, h1, h2, h3.2⟩
       · exact .inr ⟨s, hs, hf⟩)

theorem ethParse_spec (guard : Bool) (next : K → Bytes → P Frame) (raw : Bytes) (hn : NextSpec fx next raw.length) :
    Out fx Good raw (ethParse (Cfg.tree fx vr) guard next raw) := by
  unfold ethParse
  split
  · exact .inl ⟨_, rfl, rfl, trivial⟩
  · rename_i hlen
    obtain ⟨dst, src, t, hu, _, hd, hs, ht⟩ := eth_shape (raw.take 14) (by simp [List.length_take]; omega)
    rcases parseNext_spec (vr := vr) guard next t (raw.drop 14) true raw.length hn (by simp [List.length_drop]; omega) with
      ⟨f, hf, hb, hg⟩ | ⟨e, he, hf⟩
    · simp only [hu, hf]
      refine .inl ⟨_, rfl, rfl, ⟨hd, hs, ht⟩, ⟨raw.take 14, by simp [List.length_take]; omega, ?_⟩, hg⟩
      rw [hb]; exact split2 raw 14
    · simp only [hu, he]; exact .inr ⟨e, rfl, hf⟩

theorem nums2_shape (L : Layout) (w1 w2 : Nat) (hL : L = [.uint w1, .uint w2]) (b : Bytes) (h : b.length = w1 + w2) :
    ∃ x y, unpackE L b = .ok [.num x, .num y] ∧ unpack L b = some [.num x, .num y] ∧ x < 256 ^ w1 ∧ y < 256 ^ w2 := by
  subst hL
  obtain ⟨vs, hu, hu', hf⟩ := unpackE_total [.uint w1, .uint w2] b (by simp [size, h])
  simp only [fits_uint_iff, fits_nil_iff] at hf
  obtain ⟨x, _, rfl, hx, y, _, rfl, hy, rfl⟩ := hf
  exact ⟨x, y, hu, hu', hx, hy⟩

theorem num1_shape (w : Nat) (b : Bytes) (h : b.length = w) :
    ∃ x, unpackE [.uint w] b = .ok [.num x] ∧ unpack [.uint w] b = some [.num x] ∧ x < 256 ^ w := by
  obtain ⟨vs, hu, hu', hf⟩ := unpackE_total [.uint w] b (by simp [size, h])
  simp only [fits_uint_iff, fits_nil_iff] at hf
  obtain ⟨x, _, rfl, hx, rfl⟩ := hf
  exact ⟨x, hu, hu', hx⟩

theorem take_len (raw : Bytes) (n : Nat) (h : n ≤ raw.length) : (raw.take n).length = n := by
  simp [List.length_take]; omega

theorem vlanParse_spec (guard : Bool) (next : K → Bytes → P Frame) (raw : Bytes) (hn : NextSpec fx next raw.length) :
    Out fx Good raw (vlanParse (Cfg.tree fx vr) guard next raw) := by
  unfold vlanParse
  split
  · exact .inl ⟨_, rfl, rfl, trivial⟩
  · rename_i hlen
    obtain ⟨x, y, hu, _, hx, hy⟩ := nums2_shape vlanL 2 2 rfl (raw.take 4) (take_len raw 4 (by omega))
    rcases parseNext_spec (vr := vr) guard next y (raw.drop 4) true raw.length hn (by simp [List.length_drop]; omega) with
      ⟨f, hf, hb, hg⟩ | ⟨e, he, hf⟩
    · simp only [hu, hf]
      have hx' : x < 65536 := by simpa using hx
      have hy' : y < 65536 := by simpa using hy
      refine .inl ⟨_, rfl, rfl, ⟨by show x / 8192 < 8; omega, by show x / 4096 % 2 < 2; omega, by show x % 4096 < 4096; omega, hy'⟩,
        ⟨raw.take 4, take_len raw 4 (by omega), ?_⟩, hg⟩
      rw [hb]; exact split2 raw 4
    · simp only [hu, he]; exact .inr ⟨e, rfl, hf⟩

theorem arp_shape (b : Bytes) (h : b.length = 28) :
    ∃ hwtype prototype hwlen protolen opcode hwsrc psrc hwdst pdst,
      unpackE arpL b = .ok [.num hwtype, .num prototype, .num hwlen, .num protolen, .num opcode, .raw hwsrc, .num psrc,
        .raw hwdst, .num pdst] ∧
      unpack arpL b = some [.num hwtype, .num prototype, .num hwlen, .num protolen, .num opcode, .raw hwsrc, .num psrc,
        .raw hwdst, .num pdst] ∧
      opcode < 65536 ∧ hwsrc.length = 6 ∧ psrc < 4294967296 ∧ hwdst.length = 6 ∧ pdst < 4294967296 := by
  obtain ⟨vs, hu, hu', hf⟩ := unpackE_total arpL b (by rw [h]; rfl)
  simp only [arpL, fits_blob_iff, fits_uint_iff, fits_nil_iff] at hf
  obtain ⟨a1, _, rfl, _, a2, _, rfl, _, a3, _, rfl, _, a4, _, rfl, _, a5, _, rfl, h5, a6, _, rfl, h6, a7, _, rfl, h7,
    a8, _, rfl, h8, a9, _, rfl, h9, rfl⟩ := hf
  exact ⟨a1, a2, a3, a4, a5, a6, a7, a8, a9, hu, hu', by simpa using h5, h6, by simpa using h7, h8, by simpa using h9⟩

theorem arpParse_spec (raw : Bytes) : ∃ f, arpParse raw = .ok f ∧ f.bytes = raw ∧ Good f := by
  unfold arpParse
  split
  · exact ⟨_, rfl, rfl, trivial⟩
  · rename_i hlen
    obtain ⟨a1, a2, a3, a4, a5, a6, a7, a8, a9, hu, _, h5, h6, h7, h8, h9⟩ := arp_shape (raw.take 28) (take_len raw 28 (by omega))
    simp only [hu]
    by_cases c1 : a1 ≠ 1
    · rw [if_pos c1]; exact ⟨_, rfl, rfl, trivial⟩
    rw [if_neg c1]
    by_cases c2 : a3 ≠ 6
    · rw [if_pos c2]; exact ⟨_, rfl, rfl, trivial⟩
    rw [if_neg c2]
    by_cases c3 : a2 ≠ 0x0800
    · rw [if_pos c3]; exact ⟨_, rfl, rfl, trivial⟩
    rw [if_neg c3]
    by_cases c4 : a4 ≠ 4
    · rw [if_pos c4]; exact ⟨_, rfl, rfl, trivial⟩
    rw [if_neg c4]
    refine ⟨_, rfl, rfl, ⟨by show a1 = 1; omega, by show a2 = 0x0800; omega, by show a3 = 6; omega, by show a4 = 4; omega, h5, h6, h7, h8, h9⟩, rfl, raw.take 28, take_len raw 28 (by omega), ?_⟩
    exact split2 raw 28

theorem echoParse_spec (raw : Bytes) : ∃ f, echoParse raw = .ok f ∧ f.bytes = raw ∧ GoodIn false f := by
  unfold echoParse
  split
  · exact ⟨_, rfl, rfl, trivial⟩
  · rename_i hlen
    obtain ⟨x, y, hu, _, hx, hy⟩ := nums2_shape echoL 2 2 rfl (raw.take 4) (take_len raw 4 (by omega))
    simp only [hu]
    exact ⟨_, rfl, rfl, ⟨by simpa using hx, by simpa using hy⟩, rfl, raw.take 4, take_len raw 4 (by omega), split2 raw 4⟩

theorem quoteDispatch_spec (c : K) (hc : calls c .ipv4 = true) (next : K → Bytes → P Frame) (raw : Bytes) (hn : NextFor fx next raw.length c) (h4 : 4 ≤ raw.length) :
    Out fx (GoodIn false) (raw.drop 4) (quoteDispatch next raw) := by
  unfold quoteDispatch
  split
  · rcases hn .ipv4 (raw.drop 4) hc (by simp [List.length_drop]; omega) with ⟨f, h1, h2, h3⟩ | ⟨s, hs, hf⟩
    · exact .inl ⟨f, h1, h2, h3.1⟩
    · exact .inr ⟨s, hs, hf⟩
  · exact .inl ⟨_, rfl, rfl, trivial⟩

theorem unreachParse_spec (next : K → Bytes → P Frame) (raw : Bytes) (hn : NextFor fx next raw.length K.unreach) :
    Out fx (GoodIn false) raw (unreachParse next raw) := by
  unfold unreachParse
  split
  · exact .inl ⟨_, rfl, rfl, trivial⟩
  · rename_i hlen
    obtain ⟨x, y, hu, _, hx, hy⟩ := nums2_shape unreachL 2 2 rfl (raw.take 4) (take_len raw 4 (by omega))
    rcases quoteDispatch_spec .unreach rfl next raw hn (by omega) with ⟨f, hf, hb, hg⟩ | ⟨e, he, hf⟩
    · simp only [hu, hf]
      refine .inl ⟨_, rfl, rfl, ⟨by simpa using hx, by simpa using hy⟩, ⟨raw.take 4, take_len raw 4 (by omega), ?_⟩, hg⟩
      rw [hb]; exact split2 raw 4
    · simp only [hu, he]; exact .inr ⟨e, rfl, hf⟩

theorem timeExParse_spec (next : K → Bytes → P Frame) (raw : Bytes) (hn : NextFor fx next raw.length K.timeEx) :
    Out fx (GoodIn false) raw (timeExParse next raw) := by
  unfold timeExParse
  split
  · exact .inl ⟨_, rfl, rfl, trivial⟩
  · rename_i hlen
    obtain ⟨x, hu, _, hx⟩ := num1_shape 4 (raw.take 4) (take_len raw 4 (by omega))
    have hu' : unpackE timeExL (raw.take 4) = .ok [.num x] := hu
    rcases quoteDispatch_spec .timeEx rfl next raw hn (by omega) with ⟨f, hf, hb, hg⟩ | ⟨e, he, hf⟩
    · simp only [hu', hf]
      refine .inl ⟨_, rfl, rfl, ⟨by simpa using hx⟩, ⟨raw.take 4, take_len raw 4 (by omega), ?_⟩, hg⟩
      rw [hb]; exact split2 raw 4
    · simp only [hu', he]; exact .inr ⟨e, rfl, hf⟩

theorem icmp_shape (b : Bytes) (h : b.length = 4) :
    ∃ t c s, unpackE icmpL b = .ok [.num t, .num c, .num s] ∧ unpack icmpL b = some [.num t, .num c, .num s] ∧
      t < 256 ∧ c < 256 ∧ s < 65536 := by
  obtain ⟨vs, hu, hu', hf⟩ := unpackE_total icmpL b (by rw [h]; rfl)
  simp only [icmpL, fits_uint_iff, fits_nil_iff] at hf
  obtain ⟨a1, _, rfl, h1, a2, _, rfl, h2, a3, _, rfl, h3, rfl⟩ := hf
  exact ⟨a1, a2, a3, hu, hu', by simpa using h1, by simpa using h2, by simpa using h3⟩

theorem icmpParse_spec (next : K → Bytes → P Frame) (raw : Bytes) (hn : NextFor fx next raw.length K.icmp) :
    Out fx (GoodIn true) raw (icmpParse next raw) := by
  unfold icmpParse
  split
  · exact .inl ⟨_, rfl, rfl, trivial⟩
  · rename_i hlen
    obtain ⟨t, c, s, hu, _, ht, hc, hs⟩ := icmp_shape (raw.take 4) (take_len raw 4 (by omega))
    have hl : (raw.drop 4).length + 4 ≤ raw.length := by simp [List.length_drop]; omega
    have key : Out fx (GoodIn false) (raw.drop 4) (if t = 8 ∨ t = 0 then next .echo (raw.drop 4) else if t = 3 then next .unreach (raw.drop 4)
        else if t = 11 then next .timeEx (raw.drop 4) else pure (.raw (raw.drop 4))) := by
      repeat' split
      all_goals first
        | exact .inl ⟨_, rfl, rfl, trivial⟩
        | exact hn _ _ rfl hl
    rcases key with ⟨f, hf, hb, hg⟩ | ⟨e, he, hf⟩
    · simp only [hu, hf]
      refine .inl ⟨_, rfl, rfl, rfl, ⟨ht, hc⟩, ⟨raw.take 4, take_len raw 4 (by omega), ?_⟩, hg⟩
      rw [hb]; exact split2 raw 4
    · simp only [hu, he]; exact .inr ⟨e, rfl, hf⟩

theorem udp_shape (b : Bytes) (h : b.length = 8) :
    ∃ sp dp l c, unpackE udpL b = .ok [.num sp, .num dp, .num l, .num c] ∧ unpack udpL b = some [.num sp, .num dp, .num l, .num c] ∧
      sp < 65536 ∧ dp < 65536 ∧ l < 65536 ∧ c < 65536 := by
  obtain ⟨vs, hu, hu', hf⟩ := unpackE_total udpL b (by rw [h]; rfl)
  simp only [udpL, fits_uint_iff, fits_nil_iff] at hf
  obtain ⟨a1, _, rfl, h1, a2, _, rfl, h2, a3, _, rfl, h3, a4, _, rfl, h4, rfl⟩ := hf
  exact ⟨a1, a2, a3, a4, hu, hu', by simpa using h1, by simpa using h2, by simpa using h3, by simpa using h4⟩

theorem udpPayload_spec (next : K → Bytes → P Frame) (cls : String) (k : K) (hk : Spec k = SpecX) (hc : calls .udp k = true) (body : Bytes) (n : Nat)
    (hn : NextFor fx next n .udp) (hl : body.length + 4 ≤ n) :
    Out fx (fun f => f.isLeaf = true ∨ (f.isExt = true ∧ f.Tiles)) body (udpPayload (Cfg.tree fx vr) next cls k body) := by
  unfold udpPayload
  simp only [Cfg.tree, if_true]
  rcases hn k body hc hl with ⟨f, h1, h2, h3⟩ | ⟨s, hs, hf⟩
  · rw [hk] at h3
    exact .inl ⟨f, h1, h2, h3.2.elim .inl (fun he => .inr ⟨he, h3.1⟩)⟩
  · exact .inr ⟨s, hs, hf⟩

theorem udpParse_spec (next : K → Bytes → P Frame) (raw : Bytes) (hn : NextFor fx next raw.length K.udp) :
    Out fx (GoodIn true) raw (udpParse (Cfg.tree fx vr) next raw) := by
  unfold udpParse
  dsimp only
  split
  · exact .inl ⟨_, rfl, rfl, trivial⟩
  · rename_i hlen
    obtain ⟨sp, dp, l, c, hu, _, h1, h2, h3, h4⟩ := udp_shape (raw.take 8) (take_len raw 8 (by omega))
    simp only [hu]
    have tile : raw = raw.take 8 ++ (raw.drop 8 ++ []) := by simpa using split2 raw 8
    have tile0 : raw = raw.take 8 ++ ([] ++ raw.drop 8) := by simpa using split2 raw 8
    have hl : (raw.drop 8).length + 4 ≤ raw.length := by simp [List.length_drop]; omega
    split
    · exact .inl ⟨_, rfl, rfl, rfl, ⟨h1, h2⟩, .inl rfl, raw.take 8, raw.drop 8, take_len raw 8 (by omega), tile0⟩
    · have fin : ∀ (r : P Frame), Out fx (fun f => f.isLeaf = true ∨ (f.isExt = true ∧ f.Tiles)) (raw.drop 8) r →
          Out fx (GoodIn true) raw (match r with
            | .ok n => pure (.udp ⟨sp, dp, l, c⟩ raw n)
            | .error e => .error e) := by
        intro r hr
        rcases hr with ⟨f, hf, hb, hg⟩ | ⟨e, he, hf⟩
        · subst hf
          refine .inl ⟨_, rfl, rfl, rfl, ⟨h1, h2⟩, hg, raw.take 8, [], take_len raw 8 (by omega), ?_⟩
          rw [hb]; exact tile
        · subst he; exact .inr ⟨e, rfl, hf⟩
      by_cases c1 : dp = 67 ∨ dp = 68
      · rw [if_pos c1]; exact fin _ (udpPayload_spec (vr := vr) next "dhcp" .dhcp rfl rfl _ _ hn hl)
      rw [if_neg c1]
      by_cases c2 : dp = 53 ∨ sp = 53
      · rw [if_pos c2]; exact fin _ (udpPayload_spec (vr := vr) next "dns" .dns rfl rfl _ _ hn hl)
      rw [if_neg c2]
      by_cases c3 : dp = 5353 ∨ sp = 5353
      · rw [if_pos c3]; exact fin _ (udpPayload_spec (vr := vr) next "dns" .dns rfl rfl _ _ hn hl)
      rw [if_neg c3]
      by_cases c4 : dp = 520 ∨ sp = 520
      · rw [if_pos c4]; exact fin _ (udpPayload_spec (vr := vr) next "rip" .rip rfl rfl _ _ hn hl)
      rw [if_neg c4]
      by_cases c5 : dp = 4789 ∨ sp = 4789
      · rw [if_pos c5]; exact fin _ (udpPayload_spec (vr := vr) next "vxlan" .vxlan rfl rfl _ _ hn hl)
      rw [if_neg c5]
      by_cases c6 : raw.length < l
      · rw [if_pos c6]
        exact .inl ⟨_, rfl, rfl, rfl, ⟨h1, h2⟩, .inl rfl, raw.take 8, raw.drop 8, take_len raw 8 (by omega), tile0⟩
      · rw [if_neg c6]; exact fin _ (.inl ⟨_, rfl, rfl, .inl rfl⟩)

theorem ipv4_shape (b : Bytes) (h : b.length = 20) :
    ∃ vhl tos iplen id ff ttl proto csum src dst,
      unpackE ipv4L b = .ok [.num vhl, .num tos, .num iplen, .num id, .num ff, .num ttl, .num proto, .num csum, .num src, .num dst] ∧
      unpack ipv4L b = some [.num vhl, .num tos, .num iplen, .num id, .num ff, .num ttl, .num proto, .num csum, .num src, .num dst] ∧
      vhl < 256 ∧ tos < 256 ∧ iplen < 65536 ∧ id < 65536 ∧ ff < 65536 ∧ ttl < 256 ∧ proto < 256 ∧ csum < 65536 ∧
      src < 4294967296 ∧ dst < 4294967296 := by
  obtain ⟨vs, hu, hu', hf⟩ := unpackE_total ipv4L b (by rw [h]; rfl)
  simp only [ipv4L, fits_uint_iff, fits_nil_iff] at hf
  obtain ⟨a1, _, rfl, h1, a2, _, rfl, h2, a3, _, rfl, h3, a4, _, rfl, h4, a5, _, rfl, h5, a6, _, rfl, h6, a7, _, rfl, h7,
    a8, _, rfl, h8, a9, _, rfl, h9, a10, _, rfl, h10, rfl⟩ := hf
  exact ⟨a1, a2, a3, a4, a5, a6, a7, a8, a9, a10, hu, hu', by simpa using h1, by simpa using h2, by simpa using h3,
    by simpa using h4, by simpa using h5, by simpa using h6, by simpa using h7, by simpa using h8, by simpa using h9,
    by simpa using h10⟩

theorem ipv4Dispatch_spec (guard : Bool) (next : K → Bytes → P Frame) (frag proto : Nat) (body : Bytes) (short : Bool) (n : Nat)
    (hn : NextSpec fx next n) (hl : body.length + 4 ≤ n) :
    OutP fx (fun f => (f = .nil ∨ f.bytes = body) ∧ GoodIn true f) (ipv4Dispatch (Cfg.tree fx vr) guard next frag proto body short) := by
  unfold ipv4Dispatch
  split
  · exact .inl ⟨_, rfl, .inr rfl, trivial⟩
  split
  · rename_i hp
    have key : Out fx (GoodIn true) body (next (if proto = 17 then K.udp else if proto = 6 then K.tcp else if proto = 1 then K.icmp
        else if proto = 2 then K.igmp else K.gre) body) := by
      have hx : ∀ k, (Spec k = SpecX) → Out fx (GoodIn true) body (next k body) := by
        intro k hk
        rcases hn k body hl with ⟨f, h1, h2, h3⟩ | ⟨s, hs, hf⟩
        · exact .inl ⟨f, h1, h2, specX_goodIn true f (hk ▸ h3)⟩
        · exact .inr ⟨s, hs, hf⟩
      repeat' split
      all_goals first
        | exact hn _ body hl
        | exact hx _ rfl
    rcases key with ⟨nx, h1, h2, h3⟩ | ⟨e, he, hf⟩
    · simp only [h1]
      by_cases hu : isUnparsed nx = true
      · rw [if_pos hu]; exact .inl ⟨_, rfl, .inr rfl, trivial⟩
      · rw [if_neg hu]; exact .inl ⟨_, rfl, .inr h2, h3⟩
    · simp only [he]; exact .inr ⟨e, rfl, hf⟩
  -- igmp and gre are modelled classes here (the `foreign` branches belong to the phase-1 model)
  rename_i hp
  have h2 : proto ≠ 2 := fun h => hp (.inr (.inr (.inr ⟨rfl, .inl h⟩)))
  have h47 : proto ≠ 47 := fun h => hp (.inr (.inr (.inr ⟨rfl, .inr h⟩)))
  rw [if_neg h2, if_neg h47]
  repeat' split
  all_goals first
    | exact .inl ⟨_, rfl, .inr rfl, trivial⟩
    | exact .inl ⟨_, rfl, .inl rfl, trivial⟩

theorem ipv4Parse_spec (guard : Bool) (next : K → Bytes → P Frame) (raw : Bytes) (hn : NextSpec fx next raw.length) :
    Out fx (fun f => GoodIn false f ∧ Good f) raw (ipv4Parse (Cfg.tree fx vr) guard next raw) := by
  unfold ipv4Parse
  dsimp only
  split
  · exact .inl ⟨_, rfl, rfl, trivial, trivial⟩
  · rename_i hlen
    obtain ⟨vhl, tos, iplen, id, ff, ttl, proto, csum, src, dst, hu, _, h1, h2, h3, h4, h5, h6, h7, h8, h9, h10⟩ :=
      ipv4_shape (raw.take 20) (take_len raw 20 (by omega))
    simp only [hu]
    by_cases c1 : vhl / 16 ≠ 4
    · rw [if_pos c1]; exact .inl ⟨_, rfl, rfl, trivial, trivial⟩
    rw [if_neg c1]
    by_cases c2 : vhl % 16 < 5
    · rw [if_pos c2]; exact .inl ⟨_, rfl, rfl, trivial, trivial⟩
    rw [if_neg c2]
    by_cases c3 : iplen < 20
    · rw [if_pos c3]; exact .inl ⟨_, rfl, rfl, trivial, trivial⟩
    rw [if_neg c3]
    by_cases c4 : vhl % 16 * 4 > iplen
    · rw [if_pos c4]; exact .inl ⟨_, rfl, rfl, trivial, trivial⟩
    rw [if_neg c4]
    by_cases c5 : vhl % 16 * 4 > raw.length
    · rw [if_pos c5]; exact .inl ⟨_, rfl, rfl, trivial, trivial⟩
    rw [if_neg c5]
    generalize hlen' : (if iplen > raw.length then raw.length else iplen) = length
    have hlen1 : vhl % 16 * 4 ≤ length := by subst hlen'; split <;> omega
    have hlen2 : length ≤ raw.length := by subst hlen'; split <;> omega
    have hlen3 : length ≤ iplen := by subst hlen'; split <;> omega
    have hbl : (sl raw (vhl % 16 * 4) length).length = length - vhl % 16 * 4 := sl_length raw _ _ hlen2
    rcases ipv4Dispatch_spec (vr := vr) guard next (ff % 8192) proto (sl raw (vhl % 16 * 4) length)
      (decide (raw.length < iplen)) raw.length hn (by rw [hbl]; omega) with ⟨f, hf, hb, hg⟩ | ⟨e, he, hf⟩
    · simp only [hf]
      have hfits : IPv4.Fits ⟨vhl / 16, vhl % 16, tos, iplen, id, ff / 8192, ff % 8192, ttl, proto, csum, src, dst,
          sl raw 20 (vhl % 16 * 4)⟩ :=
        ⟨by show vhl / 16 = 4; omega, by show 5 ≤ vhl % 16; omega, by show vhl % 16 < 16; omega, h2, h4,
         by show ff / 8192 < 8; omega, by show ff % 8192 < 8192; omega, h6, h7, h9, h10,
         by show (sl raw 20 (vhl % 16 * 4)).length + 20 = 4 * (vhl % 16); rw [sl_length raw _ _ (by omega)]; omega⟩
      have hnode : GoodIn false (.ipv4 ⟨vhl / 16, vhl % 16, tos, iplen, id, ff / 8192, ff % 8192, ttl, proto, csum, src, dst,
          sl raw 20 (vhl % 16 * 4)⟩ raw f) := by
        refine ⟨hfits, h3, ?_, hg⟩
        rcases hb with rfl | hb
        · exact ⟨raw.take (vhl % 16 * 4), raw.drop (vhl % 16 * 4), take_len raw _ (by omega), by simpa [Frame.bytes] using split2 raw _,
            by simp [Frame.bytes]; omega⟩
        · refine ⟨raw.take (vhl % 16 * 4), raw.drop length, take_len raw _ (by omega), ?_, ?_⟩
          · rw [hb]; exact split3 raw _ _ hlen1
          · rw [hb, hbl]; show vhl % 16 * 4 + (length - vhl % 16 * 4) ≤ iplen; omega
      exact .inl ⟨_, rfl, rfl, hnode, hnode⟩
    · simp only [he]; exact .inr ⟨e, rfl, hf⟩

theorem llc_shape (b : Bytes) (h : b.length = 3) :
    ∃ d s c, unpackE llcL b = .ok [.num d, .num s, .num c] ∧ d < 256 ∧ s < 256 ∧ c < 256 := by
  obtain ⟨vs, hu, _, hf⟩ := unpackE_total llcL b (by rw [h]; rfl)
  simp only [llcL, fits_uint_iff, fits_nil_iff] at hf
  obtain ⟨a1, _, rfl, h1, a2, _, rfl, h2, a3, _, rfl, h3, rfl⟩ := hf
  exact ⟨a1, a2, a3, hu, by simpa using h1, by simpa using h2, by simpa using h3⟩

theorem ordE_one (b : Bytes) (h : b.length = 1) : ∃ x, ordE b = .ok x ∧ x < 256 := by
  match b, h with
  | [x], _ => exact ⟨x.toNat, rfl, x.toNat_lt⟩

theorem llcTail_spec (guard : Bool) (next : K → Bytes → P Frame) (raw : Bytes) (d s c len : Nat) (hn : NextSpec fx next raw.length)
    (hlen : len = 3 ∨ len = 4) (hraw : len ≤ raw.length) (hd : d < 256) (hs : s < 256) (hc : c < 65536)
    (hc3 : len = 3 → c < 256) :
    Out fx Good raw (llcTail (Cfg.tree fx vr) guard next raw d s c len) := by
  unfold llcTail
  dsimp only
  split
  · split
    · exact .inl ⟨_, rfl, rfl, by simp, by simp, trivial⟩
    · rename_i hsnap hl5
      obtain ⟨t, hu, _, ht⟩ := num1_shape 2 (sl raw (len + 3) (len + 5)) (by rw [sl_length raw _ _ (by omega)]; omega)
      have hu' : unpackE u16L (sl raw (len + 3) (len + 5)) = .ok [.num t] := hu
      simp only [hu']
      have ht' : t < 65536 := by simpa using ht
      have houi : (sl raw len (len + 3)).length = 3 := by rw [sl_length raw _ _ (by omega)]; omega
      have hfits : LlcFits ⟨some d, some s, some c, len + 5, some (sl raw len (len + 3)), t⟩ :=
        ⟨d, s, c, rfl, rfl, rfl, hd, hs, hc, by intro h; apply hc3; show len = 3; rcases h with h | h <;> simp at h <;> omega,
          .inr ⟨_, rfl, houi, ht', by show len + 5 = 8 ∨ len + 5 = 9; omega⟩⟩
      split
      · rcases parseNext_spec (vr := vr) guard next t (raw.drop (len + 5)) false raw.length hn
          (by simp [List.length_drop]; omega) with ⟨f, hf, hb, hg⟩ | ⟨e, he, hf⟩
        · simp only [hf]
          refine .inl ⟨_, rfl, rfl, fun _ => ⟨hfits, raw.take (len + 5), take_len raw _ (by omega), ?_⟩, by simp, hg⟩
          rw [hb]; exact split2 raw _
        · simp only [he]; exact .inr ⟨e, rfl, hf⟩
      · exact .inl ⟨_, rfl, rfl, fun _ => ⟨hfits, raw.take (len + 5), take_len raw _ (by omega), split2 raw _⟩, by simp, trivial⟩
  · refine .inl ⟨_, rfl, rfl, fun _ => ⟨⟨d, s, c, rfl, rfl, rfl, hd, hs, hc, ?_, .inl ⟨rfl, hlen⟩⟩, raw.take len, take_len raw _ hraw, split2 raw _⟩,
      by simp, trivial⟩
    intro h; apply hc3; show len = 3; rcases h with h | h <;> simp at h <;> omega

theorem llcParse_spec (guard : Bool) (next : K → Bytes → P Frame) (raw : Bytes) (hn : NextSpec fx next raw.length) :
    Out fx Good raw (llcParse (Cfg.tree fx vr) guard next raw) := by
  unfold llcParse
  split
  · exact .inl ⟨_, rfl, rfl, by simp, by simp, trivial⟩
  · rename_i hlen
    obtain ⟨d, s, c, hu, hd, hs, hc⟩ := llc_shape (raw.take 3) (take_len raw 3 (by omega))
    simp only [hu]
    split
    · split
      · exact .inl ⟨_, rfl, rfl, by simp, by simp, trivial⟩
      · obtain ⟨b, hb, hb'⟩ := ordE_one (sl raw 3 4) (by rw [sl_length raw _ _ (by omega)])
        simp only [hb]
        have : c ||| (b <<< 8) < 65536 := by
          have h1 : c < 2 ^ 16 := by omega
          have h2 : b <<< 8 < 2 ^ 16 := by rw [Nat.shiftLeft_eq]; omega
          exact Nat.or_lt_two_pow h1 h2
        exact llcTail_spec (vr := vr) guard next raw d s _ 4 hn (.inr rfl) (by omega) hd hs this (by omega)
    · exact llcTail_spec (vr := vr) guard next raw d s c 3 hn (.inl rfl) (by omega) hd hs (by omega) (fun _ => hc)

/-! ### TCP options -/

theorem beDec_lt_le (b : Bytes) (w : Nat) (h : b.length ≤ w) : beDec b < 256 ^ w :=
  Nat.lt_of_lt_of_le (beDec_lt b) (Nat.pow_le_pow_right (by decide) h)

theorem unpackPairs_spec : ∀ (n : Nat) (b : Bytes) (bl : List (Nat × Nat)), unpackPairs n b = some bl →
    bl.length = n ∧ ∀ p ∈ bl, p.1 < 4294967296 ∧ p.2 < 4294967296 := by
  intro n
  induction n with
  | zero =>
    intro b bl h
    cases b with
    | nil => simp [unpackPairs] at h; subst h; simp
    | cons x xs => simp [unpackPairs] at h
  | succ n ih =>
    intro b bl h
    unfold unpackPairs at h
    split at h
    · simp at h
    · cases hr : unpackPairs n (b.drop 8) with
      | none => simp [hr] at h
      | some r =>
        simp [hr] at h
        subst h
        obtain ⟨h1, h2⟩ := ih _ _ hr
        refine ⟨by simp [h1], ?_⟩
        intro p hp
        simp at hp
        rcases hp with rfl | hp
        · exact ⟨by simpa using beDec_lt_le (b.take 4) 4 (by simp [List.length_take]; omega),
            by simpa using beDec_lt_le ((b.take 8).drop 4) 4 (by simp [List.length_take, List.length_drop]; omega)⟩
        · exact h2 p hp

theorem getU8_lt (arr : Bytes) (i v : Nat) (h : getU8 arr i = some v) : v < 256 ∧ i < arr.length := by
  unfold getU8 at h
  cases hx : arr[i]? with
  | none => simp [hx] at h
  | some x =>
    simp [hx] at h
    subst h
    exact ⟨x.toNat_lt, (List.getElem?_eq_some_iff.mp hx).1⟩

theorem tcpOptUnpack_spec (arr : Bytes) (i t length i' : Nat) (o : TcpOpt)
    (h : tcpOptUnpack arr i t length = some (i', o))
    (ht : t < 256) (hl : length < 256) (hl2 : 2 ≤ length) (hb : i + length ≤ arr.length)
    (t0 : t ≠ 0) (t1 : t ≠ 1) (t30 : t ≠ 30) :
    i' = i + length ∧ o.OK ∧ (optBytes o).length = length := by
  unfold tcpOptUnpack at h
  by_cases c2 : t = 2
  · rw [if_pos c2] at h
    by_cases c : length ≠ 4
    · rw [if_pos c] at h; simp at h
    · rw [if_neg c] at h
      dsimp only at h
      split at h
      · simp at h
      · simp at h
        obtain ⟨rfl, rfl⟩ := h
        refine ⟨rfl, ?_, ?_⟩
        · show beDec _ < 65536
          simpa using beDec_lt_le (sl arr (i + 2) (i + 4)) 2 (by have := sl_length_le arr (i + 2) (i + 4); omega)
        · rw [optBytes_length]; dsimp only; omega
  rw [if_neg c2] at h
  by_cases c3 : t = 3
  · rw [if_pos c3] at h
    by_cases c : length ≠ 3
    · rw [if_pos c] at h; simp at h
    · rw [if_neg c] at h
      cases hv : getU8 arr (i + 2) with
      | none => simp [hv] at h
      | some v =>
        simp [hv] at h
        obtain ⟨rfl, rfl⟩ := h
        exact ⟨rfl, (getU8_lt _ _ _ hv).1, by rw [optBytes_length]; dsimp only; omega⟩
  rw [if_neg c3] at h
  by_cases c4 : t = 4
  · rw [if_pos c4] at h
    by_cases c : length ≠ 2
    · rw [if_pos c] at h; simp at h
    · rw [if_neg c] at h
      simp at h
      obtain ⟨rfl, rfl⟩ := h
      exact ⟨rfl, trivial, by rw [optBytes_length]; dsimp only; omega⟩
  rw [if_neg c4] at h
  by_cases c5 : t = 5
  · rw [if_pos c5] at h
    split at h
    · rename_i hc
      cases hp : unpackPairs ((length - 2) / 8) (sl arr (i + 2) (i + length)) with
      | none => simp [hp] at h
      | some bl =>
        simp [hp] at h
        obtain ⟨rfl, rfl⟩ := h
        obtain ⟨h1, h2⟩ := unpackPairs_spec _ _ _ hp
        refine ⟨rfl, ⟨by rw [h1]; omega, h2⟩, ?_⟩
        rw [optBytes_length]; show 2 + 8 * bl.length = length; rw [h1]; omega
    · simp at h
  rw [if_neg c5] at h
  by_cases c8 : t = 8
  · rw [if_pos c8] at h
    by_cases c : length ≠ 10
    · rw [if_pos c] at h; simp at h
    · rw [if_neg c] at h
      dsimp only at h
      split at h
      · simp at h
      · simp at h
        obtain ⟨rfl, rfl⟩ := h
        refine ⟨rfl, ⟨?_, ?_⟩, by rw [optBytes_length]; dsimp only; omega⟩
        · simpa using beDec_lt_le ((sl arr (i + 2) (i + 10)).take 4) 4 (by simp [List.length_take]; omega)
        · have := sl_length_le arr (i + 2) (i + 10)
          simpa using beDec_lt_le ((sl arr (i + 2) (i + 10)).drop 4) 4 (by simp [List.length_drop]; omega)
  rw [if_neg c8] at h
  simp at h
  obtain ⟨rfl, rfl⟩ := h
  have hlen : (sl arr (i + 2) (i + length)).length = length - 2 := by rw [sl_length arr _ _ hb]; omega
  refine ⟨rfl, ⟨ht, t0, t1, c2, c3, c4, c5, c8, t30, by rw [hlen]; omega⟩, ?_⟩
  rw [optBytes_length]; show 2 + (sl arr (i + 2) (i + length)).length = length; rw [hlen]; omega

theorem cons_ok (o : TcpOpt) (r : OptsRes) (os : List TcpOpt) (h : r.cons o = .ok os) : ∃ rs, r = .ok rs ∧ os = o :: rs := by
  cases r with
  | ok rs => simp [OptsRes.cons] at h; exact ⟨rs, rfl, h.symm⟩
  | fail => simp [OptsRes.cons] at h
  | mptcp => simp [OptsRes.cons] at h

/-- options read by `parse_options` (with the C15-4 bound) are well-formed and end inside the header -/
theorem tcpParseOptsB_spec (arr : Bytes) (hdrLen : Nat) (hh : hdrLen ≤ arr.length) :
    ∀ (fuel i : Nat) (os : List TcpOpt), i ≤ hdrLen → tcpParseOptsB fuel arr hdrLen hdrLen i = .ok os →
      (∀ o ∈ os, o.OK) ∧ i + (optsBytes os).length ≤ hdrLen := by
  intro fuel
  induction fuel with
  | zero => intro i os _ h; simp [tcpParseOptsB] at h
  | succ fuel ih =>
    intro i os hi h
    unfold tcpParseOptsB at h
    by_cases c : i < hdrLen
    · rw [if_pos c] at h
      cases ht : getU8 arr i with
      | none => simp [ht] at h
      | some t =>
        simp only [ht] at h
        obtain ⟨htl, _⟩ := getU8_lt _ _ _ ht
        by_cases t0 : t = 0
        · rw [if_pos t0] at h; simp at h; subst h; simp [optsBytes]; omega
        rw [if_neg t0] at h
        by_cases t1 : t = 1
        · rw [if_pos t1] at h
          obtain ⟨rs, hr, rfl⟩ := cons_ok _ _ _ h
          obtain ⟨h1, h2⟩ := ih (i + 1) rs (by omega) hr
          refine ⟨?_, ?_⟩
          · intro o ho; simp at ho; rcases ho with rfl | ho
            · trivial
            · exact h1 o ho
          · simp [optsBytes, optBytes] at h2 ⊢; omega
        rw [if_neg t1] at h
        by_cases c2 : i + 2 > arr.length
        · rw [if_pos c2] at h; simp at h
        rw [if_neg c2] at h
        cases hl : getU8 arr (i + 1) with
        | none => simp [hl] at h
        | some length =>
          simp only [hl] at h
          obtain ⟨hll, _⟩ := getU8_lt _ _ _ hl
          by_cases c3 : i + length > hdrLen
          · rw [if_pos c3] at h; simp at h
          rw [if_neg c3] at h
          by_cases c4 : length < 2
          · rw [if_pos c4] at h; simp at h
          rw [if_neg c4] at h
          by_cases t30 : t = 30
          · rw [if_pos t30] at h; simp at h
          rw [if_neg t30] at h
          cases hu : tcpOptUnpack arr i t length with
          | none => simp [hu] at h
          | some p =>
            obtain ⟨i', o⟩ := p
            simp only [hu] at h
            obtain ⟨rs, hr, rfl⟩ := cons_ok _ _ _ h
            obtain ⟨e1, e2, e3⟩ := tcpOptUnpack_spec arr i t length i' o hu htl hll (by omega) (by omega) t0 t1 t30
            subst e1
            obtain ⟨h1, h2⟩ := ih (i + length) rs (by omega) hr
            refine ⟨?_, ?_⟩
            · intro q hq; simp at hq; rcases hq with rfl | hq
              · exact e2
              · exact h1 q hq
            · simp [optsBytes, e3] at h2 ⊢; omega
    · rw [if_neg c] at h
      simp at h; subst h
      simp [optsBytes]; omega


/-- **The option loop never runs out of model fuel.**  With at least `1 + (hdrLen − i)` rounds available the result of the option
parser does not depend on the fuel: every round that continues advances `i` (a NOP by 1, any other option by its length ≥ 2), and
at `i ≥ hdrLen` the loop ends.  `tcpParse` starts it at `i = 20` with `hdrLen = off·4 ≥ 20` rounds, so the `.fail` it turns into
"parse_options raised, caught" is never the fuel-0 branch. -/
theorem tcpParseOptsB_fuel (arr : Bytes) (hdrLen bound : Nat) (hb : bound ≤ arr.length) :
    ∀ (fuel i k : Nat), 1 + (hdrLen - i) ≤ fuel →
      tcpParseOptsB (fuel + k) arr hdrLen bound i = tcpParseOptsB fuel arr hdrLen bound i := by
  intro fuel
  induction fuel with
  | zero => intro i k h; omega
  | succ fuel ih =>
    intro i k h
    rw [show fuel + 1 + k = (fuel + k) + 1 by omega]
    unfold tcpParseOptsB
    by_cases c : i < hdrLen
    · rw [if_pos c, if_pos c]
      cases ht : getU8 arr i with
      | none => rfl
      | some t =>
        dsimp only
        by_cases t0 : t = 0
        · rw [if_pos t0, if_pos t0]
        rw [if_neg t0, if_neg t0]
        by_cases t1 : t = 1
        · rw [if_pos t1, if_pos t1, ih (i + 1) k (by omega)]
        rw [if_neg t1, if_neg t1]
        by_cases c2 : i + 2 > arr.length
        · rw [if_pos c2, if_pos c2]
        rw [if_neg c2, if_neg c2]
        cases hl : getU8 arr (i + 1) with
        | none => rfl
        | some length =>
          dsimp only
          by_cases c3 : i + length > bound
          · rw [if_pos c3, if_pos c3]
          rw [if_neg c3, if_neg c3]
          by_cases c4 : length < 2
          · rw [if_pos c4, if_pos c4]
          rw [if_neg c4, if_neg c4]
          by_cases t30 : t = 30
          · rw [if_pos t30, if_pos t30]
          rw [if_neg t30, if_neg t30]
          cases hu : tcpOptUnpack arr i t length with
          | none => rfl
          | some q =>
            obtain ⟨i', o⟩ := q
            dsimp only
            have := (tcpOptUnpack_spec arr i t length i' o hu (getU8_lt arr i t ht).1 (getU8_lt arr (i + 1) length hl).1 (by omega) (by omega) t0 t1 t30).1
            rw [ih i' k (by omega)]
    · rw [if_neg c, if_neg c]

/-- the call `tcpParse` makes: `off·4` rounds from offset 20 are as good as any larger number -/
theorem tcpParse_opts_fuel (cfg : Cfg) (raw : Bytes) (off : Nat) (h20 : 20 ≤ off * 4) (hd : off * 4 ≤ raw.length) (k : Nat) :
    tcpParseOptsB (off * 4 + k) raw (off * 4) (if cfg.tcpOptBound then off * 4 else raw.length) 20 =
    tcpParseOptsB (off * 4) raw (off * 4) (if cfg.tcpOptBound then off * 4 else raw.length) 20 :=
  tcpParseOptsB_fuel raw (off * 4) _ (by split <;> omega) (off * 4) 20 k (by omega)
theorem decode_fits (L : Layout) : ∀ (bs : Bytes) (vs : List Val) (r : Bytes), decode L bs = some (vs, r) → fits L vs := by
  induction L with
  | nil => intro bs vs r h; simp [decode] at h; obtain ⟨rfl, _⟩ := h; simp [fits]
  | cons f L ih =>
    intro bs vs r h
    cases f with
    | uint w =>
      unfold decode at h
      split at h
      · simp at h
      · rename_i hw
        cases hd : decode L (bs.drop w) with
        | none => simp [hd] at h
        | some p =>
          obtain ⟨vs', r'⟩ := p
          simp [hd] at h
          obtain ⟨rfl, rfl⟩ := h
          exact ⟨beDec_lt_of_length _ w (by simp [List.length_take]; omega), ih _ _ _ hd⟩
    | pad n =>
      unfold decode at h
      split at h
      · simp at h
      · simpa [fits] using ih _ _ _ h
    | blob n =>
      unfold decode at h
      split at h
      · simp at h
      · rename_i hw
        cases hd : decode L (bs.drop n) with
        | none => simp [hd] at h
        | some p =>
          obtain ⟨vs', r'⟩ := p
          simp [hd] at h
          obtain ⟨rfl, rfl⟩ := h
          exact ⟨by simp [List.length_take]; omega, ih _ _ _ hd⟩

theorem unpackE_fits (L : Layout) (bs : Bytes) (vs : List Val) (h : unpackE L bs = .ok vs) : fits L vs := by
  unfold unpackE at h
  cases hu : unpack L bs with
  | none => simp [hu] at h
  | some vs' =>
    simp [hu] at h
    subst h
    unfold unpack at hu
    split at hu
    · cases hd : decode L bs with
      | none => simp [hd] at hu
      | some p => simp [hd] at hu; subst hu; exact decode_fits L bs p.1 p.2 hd
    · simp at hu

theorem tcp_shape (b : Bytes) (h : b.length = 20) :
    ∃ sp dp seq ack offres flags win csum urg,
      unpackE tcpL b = .ok [.num sp, .num dp, .num seq, .num ack, .num offres, .num flags, .num win, .num csum, .num urg] ∧
      unpack tcpL b = some [.num sp, .num dp, .num seq, .num ack, .num offres, .num flags, .num win, .num csum, .num urg] ∧
      sp < 65536 ∧ dp < 65536 ∧ seq < 4294967296 ∧ ack < 4294967296 ∧ offres < 256 ∧ flags < 256 ∧ win < 65536 ∧
      csum < 65536 ∧ urg < 65536 := by
  obtain ⟨vs, hu, hu', hf⟩ := unpackE_total tcpL b (by rw [h]; rfl)
  simp only [tcpL, fits_uint_iff, fits_nil_iff] at hf
  obtain ⟨a1, _, rfl, h1, a2, _, rfl, h2, a3, _, rfl, h3, a4, _, rfl, h4, a5, _, rfl, h5, a6, _, rfl, h6, a7, _, rfl, h7,
    a8, _, rfl, h8, a9, _, rfl, h9, rfl⟩ := hf
  exact ⟨a1, a2, a3, a4, a5, a6, a7, a8, a9, hu, hu', by simpa using h1, by simpa using h2, by simpa using h3,
    by simpa using h4, by simpa using h5, by simpa using h6, by simpa using h7, by simpa using h8, by simpa using h9⟩

theorem tcpParse_spec (raw : Bytes) : ∃ f, tcpParse (Cfg.tree fx vr) raw = .ok f ∧ f.bytes = raw ∧ GoodIn true f := by
  unfold tcpParse
  dsimp only
  split
  · exact ⟨_, rfl, rfl, trivial⟩
  · rename_i hlen
    obtain ⟨sp, dp, seq, ack, offres, flags, win, csum, urg, hu, _, h1, h2, h3, h4, h5, h6, h7, h8, h9⟩ :=
      tcp_shape (raw.take 20) (take_len raw 20 (by omega))
    simp only [hu]
    split
    · exact ⟨_, rfl, rfl, trivial⟩
    · rename_i hoff
      have hb : (if (Cfg.tree fx vr).tcpOptBound = true then offres / 16 * 4 else raw.length) = offres / 16 * 4 := by
        simp [Cfg.tree]
      rw [hb]
      cases hr : tcpParseOptsB (offres / 16 * 4) raw (offres / 16 * 4) (offres / 16 * 4) 20 with
      | fail => exact ⟨_, rfl, rfl, trivial⟩
      | mptcp => exact ⟨_, rfl, rfl, rfl⟩
      | ok os =>
        obtain ⟨o1, o2⟩ := tcpParseOptsB_spec raw (offres / 16 * 4) (by omega) _ 20 os (by omega) hr
        refine ⟨_, rfl, rfl, rfl, ⟨h1, h2, h3, h4, by show offres % 16 < 16; omega, h6, h7, h9⟩, o1, o2,
          by show offres / 16 < 16; omega, rfl, raw.take (offres / 16 * 4), take_len raw _ (by omega), split2 raw _⟩

/-! ### LLDP -/

theorem tlvBody_fits (t : Nat) (data : Bytes) (tlv : Tlv) (ht : t < 128) (h : tlvBody t data = .ok tlv) : tlv.Fits := by
  unfold tlvBody at h
  by_cases c12 : t = 1 ∨ t = 2
  · rw [if_pos c12] at h
    split at h
    · simp at h
    · cases hu : unpackE u8L (sl data 0 1) with
      | error e => simp [hu] at h
      | ok vs =>
        have hf := unpackE_fits _ _ _ hu
        simp only [u8L, fits_uint_iff, fits_nil_iff] at hf
        obtain ⟨st, _, rfl, hst, rfl⟩ := hf
        simp [hu] at h
        have hst' : st < 256 := by simpa using hst
        split at h <;> (simp [pure, Except.pure] at h; subst h; exact hst')
  rw [if_neg c12] at h
  by_cases c3 : t = 3
  · rw [if_pos c3] at h
    split at h
    · simp at h
    · cases hu : unpackE u16L (sl data 0 2) with
      | error e => simp [hu] at h
      | ok vs =>
        have hf := unpackE_fits _ _ _ hu
        simp only [u16L, fits_uint_iff, fits_nil_iff] at hf
        obtain ⟨v, _, rfl, hv, rfl⟩ := hf
        simp [hu, pure, Except.pure] at h
        subst h
        show v < 65536
        simpa using hv
  rw [if_neg c3] at h
  by_cases c0 : t = 0
  · rw [if_pos c0] at h
    split at h
    · simp at h
    · simp [pure, Except.pure] at h; subst h; trivial
  rw [if_neg c0] at h
  by_cases c7 : t = 7
  · rw [if_pos c7] at h
    cases hu : unpackE capsL data with
    | error e => simp [hu] at h
    | ok vs =>
      have hf := unpackE_fits _ _ _ hu
      simp only [capsL, fits_uint_iff, fits_nil_iff] at hf
      obtain ⟨a, _, rfl, ha, b, _, rfl, hb, rfl⟩ := hf
      simp [hu, pure, Except.pure] at h
      subst h
      exact ⟨by simpa using ha, by simpa using hb⟩
  rw [if_neg c7] at h
  by_cases c8 : t = 8
  · rw [if_pos c8] at h
    simp only [bind, Except.bind] at h
    cases h0 : idx data 0 with
    | error e => simp [h0] at h
    | ok a1 =>
      simp only [h0] at h
      cases h1 : idx data 1 with
      | error e => simp [h1] at h
      | ok ast =>
        simp only [h1] at h
        cases h2 : idx data (1 + a1) with
        | error e => simp [h2] at h
        | ok ins =>
          simp only [h2] at h
          cases hu : unpackE u32L (sl data (2 + a1) (6 + a1)) with
          | error e => simp [hu] at h
          | ok vs =>
            have hf := unpackE_fits _ _ _ hu
            simp only [u32L, fits_uint_iff, fits_nil_iff] at hf
            obtain ⟨ifn, _, rfl, hifn, rfl⟩ := hf
            simp only [hu] at h
            cases h3 : idx data (6 + a1) with
            | error e => simp [h3] at h
            | ok osl =>
              simp [h3, pure, Except.pure] at h
              subst h
              have idx_lt : ∀ (b : Bytes) (i v : Nat), idx b i = .ok v → v < 256 := by
                intro b i v hv
                unfold idx at hv
                cases hx : b[i]? with
                | none => simp [hx] at hv
                | some x => simp [hx] at hv; subst hv; exact x.toNat_lt
              have ha1 := idx_lt _ _ _ h0
              have hosl := idx_lt _ _ _ h3
              refine ⟨idx_lt _ _ _ h1, ?_, idx_lt _ _ _ h2, by simpa using hifn, ?_⟩
              · have := sl_length_le data 2 (1 + a1); omega
              · have := sl_length_le data (7 + a1) (7 + a1 + osl); omega
  rw [if_neg c8] at h
  by_cases c127 : t = 127
  · rw [if_pos c127] at h
    cases hu : unpackE orgL (sl data 0 4) with
    | error e => simp [hu] at h
    | ok vs =>
      have hf := unpackE_fits _ _ _ hu
      simp only [orgL, fits_blob_iff, fits_uint_iff, fits_nil_iff] at hf
      obtain ⟨oui, _, rfl, ho, st, _, rfl, hst, rfl⟩ := hf
      simp [hu, pure, Except.pure] at h
      subst h
      exact ⟨ho, by simpa using hst⟩
  rw [if_neg c127] at h
  simp [pure, Except.pure] at h
  subst h
  exact ht

theorem tlvParse_fits (raw : Bytes) (tlv : Tlv) (h : tlvParse raw = .ok tlv) : tlv.Fits := by
  unfold tlvParse at h
  cases hu : unpackE u16L (sl raw 0 2) with
  | error e => simp [hu] at h
  | ok vs =>
    have hf := unpackE_fits _ _ _ hu
    simp only [u16L, fits_uint_iff, fits_nil_iff] at hf
    obtain ⟨tl, _, rfl, htl, rfl⟩ := hf
    simp only [hu] at h
    split at h
    · simp at h
    · exact tlvBody_fits _ _ _ (by have : tl < 65536 := by simpa using htl
                                   omega) h

/-- `next_tlv` of the repaired code never raises; what it returns consumed at least the 2-byte TLV header -/
theorem nextTlv_spec (array : Bytes) :
    ∃ r, nextTlv (Cfg.tree fx vr) array = .ok r ∧ ∀ n t, r = some (n, t) → 2 ≤ n ∧ t.Fits := by
  unfold nextTlv
  split
  · exact ⟨none, rfl, by simp⟩
  · rename_i hlen
    obtain ⟨tl, hu, _, _⟩ := num1_shape 2 (sl array 0 2) (by rw [sl_length array _ _ (by omega)])
    have hu' : unpackE u16L (sl array 0 2) = .ok [.num tl] := hu
    simp only [hu']
    have hb : (if (Cfg.tree fx vr).tlvBound = true then 2 + tl % 512 else tl % 512) = 2 + tl % 512 := by simp [Cfg.tree]
    rw [hb]
    by_cases hc : array.length < 2 + tl % 512
    · rw [if_pos hc]; exact ⟨none, rfl, by simp⟩
    · rw [if_neg hc]
      cases ht : tlvParse (sl array 0 (2 + tl % 512)) with
      | ok t =>
        refine ⟨some (2 + tl % 512, t), rfl, ?_⟩
        intro n t' he
        simp at he
        obtain ⟨rfl, rfl⟩ := he
        exact ⟨by omega, tlvParse_fits _ _ ht⟩
      | error e => exact ⟨none, by simp [Cfg.tree, pure, Except.pure], by simp⟩

theorem lldpLoop_spec (raw : Bytes) : ∀ (fuel pduhead : Nat) (acc : List Tlv), 1 ≤ fuel → raw.length + 1 ≤ pduhead + fuel →
    (∀ t ∈ acc, t.Fits) →
    ∃ ts fin, lldpLoop (Cfg.tree fx vr) fuel raw pduhead acc = .ok (ts, fin) ∧ ∀ t ∈ ts, t.Fits := by
  intro fuel
  induction fuel with
  | zero => intro p acc h; omega
  | succ fuel ih =>
    intro p acc _ hinv hacc
    unfold lldpLoop
    obtain ⟨r, hr, hspec⟩ := nextTlv_spec (fx := fx) (vr := vr) (raw.drop p)
    simp only [hr]
    cases r with
    | none => exact ⟨acc, false, rfl, hacc⟩
    | some q =>
      obtain ⟨ret, t⟩ := q
      obtain ⟨hret, htf⟩ := hspec ret t rfl
      have hacc' : ∀ x ∈ acc ++ [t], x.Fits := by
        intro x hx; simp at hx; rcases hx with hx | rfl
        · exact hacc x hx
        · exact htf
      dsimp only
      split
      · exact ⟨_, true, rfl, hacc'⟩
      · split
        · exact ⟨_, false, rfl, hacc'⟩
        · rename_i hge
          exact ih (p + ret) (acc ++ [t]) (by omega) (by omega) hacc'

theorem lldpParse_spec (raw : Bytes) : ∃ f, lldpParse (Cfg.tree fx vr) raw = .ok f ∧ f.bytes = raw ∧ Good f := by
  unfold lldpParse
  split
  · exact ⟨_, rfl, rfl, by simp [Good]⟩
  rename_i hlen
  obtain ⟨r1, h1, s1⟩ := nextTlv_spec (fx := fx) (vr := vr) raw
  simp only [h1]
  cases r1 with
  | none => exact ⟨_, rfl, rfl, by simp [Good]⟩
  | some q1 =>
    obtain ⟨n1, t1⟩ := q1
    obtain ⟨hn1, f1⟩ := s1 n1 t1 rfl
    dsimp only
    split
    · exact ⟨_, rfl, rfl, by simp [Good]; exact f1⟩
    obtain ⟨r2, h2, s2⟩ := nextTlv_spec (fx := fx) (vr := vr) (raw.drop n1)
    simp only [h2]
    cases r2 with
    | none => exact ⟨_, rfl, rfl, by simp [Good]; exact f1⟩
    | some q2 =>
      obtain ⟨n2, t2⟩ := q2
      obtain ⟨hn2, f2⟩ := s2 n2 t2 rfl
      dsimp only
      split
      · exact ⟨_, rfl, rfl, by simp [Good]; exact ⟨f1, f2⟩⟩
      obtain ⟨r3, h3, s3⟩ := nextTlv_spec (fx := fx) (vr := vr) (raw.drop (n1 + n2))
      simp only [h3]
      cases r3 with
      | none => exact ⟨_, rfl, rfl, by simp [Good]; exact ⟨f1, f2⟩⟩
      | some q3 =>
        obtain ⟨n3, t3⟩ := q3
        obtain ⟨hn3, f3⟩ := s3 n3 t3 rfl
        dsimp only
        split
        · exact ⟨_, rfl, rfl, by simp [Good]; exact ⟨f1, f2, f3⟩⟩
        obtain ⟨ts, fin, hl, hts⟩ := lldpLoop_spec (fx := fx) (vr := vr) raw raw.length (n1 + n2 + n3) [t1, t2, t3] (by omega) (by omega)
          (by intro t ht; simp at ht; rcases ht with rfl | rfl | rfl <;> assumption)
        simp only [hl]
        exact ⟨_, rfl, rfl, hts⟩


/-! ## phase 2: one lemma per added class -/

theorem spec_tiles (k : K) (f : Frame) (h : Spec k f) : f.Tiles := by
  cases k <;> simp only [Spec] at h
  all_goals first
    | exact good_tiles f h
    | exact goodIn_tiles f _ h
    | exact good_tiles f h.2
    | exact h.1

theorem ext_specX (x : Ext) (r : Bytes) (n : Frame) (ht : n.Tiles)
    (htile : ∃ hd cut, r = hd ++ (n.bytes ++ cut) ∧ min x.hdrMin r.length ≤ hd.length)
    (hx : ExtOK x n := by first | trivial | (simp [ExtOK, Frame.isLeaf, Frame.isExt]; done) | (simp [ExtOK, Frame.isLeaf, Frame.isExt]; omega)) :
    SpecX (.ext x r n) := ⟨⟨htile, hx, ht⟩, .inr rfl⟩

/-- an object without a next layer: the whole of it is header -/
theorem nil_tiles (r : Bytes) {k : Nat} : ∃ hd cut, r = hd ++ (Frame.nil.bytes ++ cut) ∧ min k r.length ≤ hd.length :=
  ⟨r, [], by simp [Frame.bytes], by omega⟩

theorem idx_ok (b : Bytes) (i : Nat) (h : i < b.length) : ∃ v, idx b i = .ok v ∧ v < 256 := by
  unfold idx
  rw [List.getElem?_eq_getElem h]
  exact ⟨_, rfl, (b[i]).toNat_lt⟩

theorem sl_length_sub (raw : Bytes) (a b : Nat) : (sl raw a b).length ≤ raw.length - a := by
  simp [sl, List.length_drop, List.length_take]; omega

theorem nums3_shape (L : Layout) (w1 w2 w3 : Nat) (hL : L = [.uint w1, .uint w2, .uint w3]) (b : Bytes) (h : b.length = w1 + w2 + w3) :
    ∃ x y z, unpackE L b = .ok [.num x, .num y, .num z] := by
  subst hL
  obtain ⟨vs, hu, _, hf⟩ := unpackE_total [.uint w1, .uint w2, .uint w3] b (by simp [size, h]; omega)
  simp only [fits_uint_iff, fits_nil_iff] at hf
  obtain ⟨x, _, rfl, _, y, _, rfl, _, z, _, rfl, _, rfl⟩ := hf
  exact ⟨x, y, z, hu⟩

theorem nums3_shape_lt (L : Layout) (w1 w2 w3 : Nat) (hL : L = [.uint w1, .uint w2, .uint w3]) (b : Bytes) (h : b.length = w1 + w2 + w3) :
    ∃ x y z, unpackE L b = .ok [.num x, .num y, .num z] ∧ x < 256 ^ w1 ∧ y < 256 ^ w2 ∧ z < 256 ^ w3 := by
  subst hL
  obtain ⟨vs, hu, _, hf⟩ := unpackE_total [.uint w1, .uint w2, .uint w3] b (by simp [size, h]; omega)
  simp only [fits_uint_iff, fits_nil_iff] at hf
  obtain ⟨x, _, rfl, hx, y, _, rfl, hy, z, _, rfl, hz, rfl⟩ := hf
  exact ⟨x, y, z, hu, hx, hy, hz⟩

theorem mplsParse_spec (next : K → Bytes → P Frame) (raw : Bytes) (hn : ∀ b, OutE SpecX b (next .mpls b)) :
    Out fx SpecX raw (mplsParse next raw) := by
  unfold mplsParse
  split
  · exact .inl ⟨_, rfl, rfl, specX_leaf _ rfl⟩
  · rename_i hlen
    obtain ⟨x, y, z, hu⟩ := nums3_shape mplsL 2 1 1 rfl (raw.take 4) (take_len raw 4 (by omega))
    simp only [hu]
    have hraw : SpecX (.ext (.mpls ⟨x * 16 + y / 16, y % 16 / 2, y % 2, z⟩) raw (.raw (raw.drop 4))) :=
      ext_specX _ _ _ trivial (drop_tiles raw 4)
    split
    · rcases hn (raw.drop 4) with ⟨f, hf, hb, hg⟩ | ⟨e, he⟩
      · simp only [hf]
        exact .inl ⟨_, rfl, rfl, ext_specX _ _ _ hg.1 (by rw [hb]; exact drop_tiles raw 4) hg.2⟩
      · simp only [he]; exact .inl ⟨_, rfl, rfl, hraw⟩
    · exact .inl ⟨_, rfl, rfl, hraw⟩

theorem eapParse_spec (raw : Bytes) : Out fx SpecX raw (eapParse vr raw) := by
  unfold eapParse
  split
  · exact .inl ⟨_, rfl, rfl, specX_leaf _ rfl⟩
  · rename_i hlen
    obtain ⟨x, y, z, hu, hx, hy, hz⟩ := nums3_shape_lt eapolL 1 1 2 rfl (raw.take 4) (take_len raw 4 (by omega))
    simp only [Nat.pow_one] at hx hy
    have hz' : z < 65536 := by simpa using hz
    simp only [hu]
    split
    · exact .inl ⟨_, rfl, rfl, ext_specX _ _ _ trivial (nil_tiles raw)⟩
    · rename_i hshort
      split
      · obtain ⟨t, ht, _, _⟩ := num1_shape 1 (sl raw 4 5) (by rw [sl_length raw _ _ (by omega)])
        have ht' : unpackE u8L (sl raw 4 5) = .ok [.num t] := ht
        simp only [ht']
        -- D49: the type octet and the type data are kept as the payload bytes
        cases vr.eapKeep
        · exact .inl ⟨_, rfl, rfl, ext_specX _ _ _ trivial (nil_tiles raw)⟩
        · exact .inl ⟨_, rfl, rfl, ext_specX _ _ _ trivial (drop_tiles raw 4)⟩
      · exact .inl ⟨_, rfl, rfl, ext_specX _ _ _ trivial (nil_tiles raw)⟩

theorem eapolParse_spec (next : K → Bytes → P Frame) (raw : Bytes) (hn : NextFor fx next raw.length K.eapol) :
    Out fx SpecX raw (eapolParse next raw) := by
  unfold eapolParse
  split
  · exact .inl ⟨_, rfl, rfl, specX_leaf _ rfl⟩
  · rename_i hlen
    obtain ⟨x, y, z, hu, hx, hy, hz⟩ := nums3_shape_lt eapolL 1 1 2 rfl (raw.take 4) (take_len raw 4 (by omega))
    simp only [Nat.pow_one] at hx hy
    have hz' : z < 65536 := by simpa using hz
    simp only [hu]
    split
    · rcases hn .eap (raw.drop 4) rfl (by simp [List.length_drop]; omega) with ⟨f, hf, hb, hg⟩ | ⟨e, he, hf⟩
      · simp only [hf]
        exact .inl ⟨_, rfl, rfl, ext_specX _ _ _ hg.1 (by rw [hb]; exact drop_tiles raw 4) ⟨hx, hy, hz', hg.2⟩⟩
      · simp only [he]; exact .inr ⟨e, rfl, hf⟩
    · exact .inl ⟨_, rfl, rfl, ext_specX _ _ _ trivial (nil_tiles raw)⟩

theorem vxlan_shape (b : Bytes) (h : b.length = 8) :
    ∃ fl r v1 v2 v3 z, unpackE vxlanL b = .ok [.num fl, .raw r, .num v1, .num v2, .num v3, .num z] := by
  obtain ⟨vs, hu, _, hf⟩ := unpackE_total vxlanL b (by rw [h]; rfl)
  simp only [vxlanL, fits_uint_iff, fits_blob_iff, fits_nil_iff] at hf
  obtain ⟨a1, _, rfl, _, a2, _, rfl, _, a3, _, rfl, _, a4, _, rfl, _, a5, _, rfl, _, a6, _, rfl, _, rfl⟩ := hf
  exact ⟨a1, a2, a3, a4, a5, a6, hu⟩

theorem vxlanParse_spec (next : K → Bytes → P Frame) (raw : Bytes) (hn : NextFor fx next raw.length K.vxlan) :
    Out fx SpecX raw (vxlanParse next raw) := by
  unfold vxlanParse
  split
  · exact .inl ⟨_, rfl, rfl, specX_leaf _ rfl⟩
  · rename_i hlen
    obtain ⟨fl, r, v1, v2, v3, z, hu⟩ := vxlan_shape (raw.take 8) (take_len raw 8 (by omega))
    simp only [hu]
    rcases hn .eth (raw.drop 8) rfl (by simp [List.length_drop]; omega) with ⟨f, hf, hb, hg⟩ | ⟨e, he, hf⟩
    · simp only [hf]
      exact .inl ⟨_, rfl, rfl, ext_specX _ _ _ (good_tiles f hg) (by rw [hb]; exact drop_tiles raw 8)⟩
    · simp only [he]; exact .inr ⟨e, rfl, hf⟩

theorem ripParse_spec (raw : Bytes) : Out fx SpecX raw (ripParse vr raw) := by
  unfold ripParse
  split
  · exact .inl ⟨_, rfl, rfl, specX_leaf _ rfl⟩
  · rename_i hlen
    obtain ⟨x, y, z, hu⟩ := nums3_shape ripL 1 1 2 rfl (raw.take 4) (take_len raw 4 (by omega))
    simp only [hu]
    split
    · exact .inl ⟨_, rfl, rfl, specX_leaf _ rfl⟩
    · exact .inl ⟨_, rfl, rfl, ext_specX _ _ _ trivial (nil_tiles raw)⟩

theorem dns_shape (b : Bytes) (h : b.length = 12) :
    ∃ a1 a2 a3 a4 a5 a6 a7, unpackE dnsL b = .ok [.num a1, .num a2, .num a3, .num a4, .num a5, .num a6, .num a7] := by
  obtain ⟨vs, hu, _, hf⟩ := unpackE_total dnsL b (by rw [h]; rfl)
  simp only [dnsL, fits_uint_iff, fits_nil_iff] at hf
  obtain ⟨a1, _, rfl, _, a2, _, rfl, _, a3, _, rfl, _, a4, _, rfl, _, a5, _, rfl, _, a6, _, rfl, _, a7, _, rfl, _, rfl⟩ := hf
  exact ⟨a1, a2, a3, a4, a5, a6, a7, hu⟩

theorem dnsParse0_spec (raw : Bytes) : Out fx SpecX raw (dnsParse0 raw) := by
  unfold dnsParse0
  split
  · exact .inl ⟨_, rfl, rfl, specX_leaf _ rfl⟩
  · rename_i hlen
    obtain ⟨a1, a2, a3, a4, a5, a6, a7, hu⟩ := dns_shape (raw.take 12) (take_len raw 12 (by omega))
    simp only [hu]
    split
    · exact .inl ⟨_, rfl, rfl, specX_leaf _ rfl⟩
    · exact .inl ⟨_, rfl, rfl, ext_specX _ _ _ trivial (nil_tiles raw)⟩

/-- DNS with D46: whatever the question / record / name readers do (they are `Option`-valued: every exception is caught by the
`try/except Exception` of `parse`), the constructor returns — an object with the lists, or the object unparsed -/
theorem dnsParse1_spec (raw : Bytes) : Out fx SpecX raw (dnsParse1 raw) := by
  unfold dnsParse1
  split
  · exact .inl ⟨_, rfl, rfl, specX_leaf _ rfl⟩
  · rename_i hlen
    obtain ⟨a1, a2, a3, a4, a5, a6, a7, hu⟩ := dns_shape (raw.take 12) (take_len raw 12 (by omega))
    simp only [hu]
    split
    · exact .inl ⟨_, rfl, rfl, specX_leaf _ rfl⟩
    · exact .inl ⟨_, rfl, rfl, ext_specX _ _ _ trivial (nil_tiles raw)⟩

theorem dnsParse_spec (raw : Bytes) : Out fx SpecX raw (dnsParse vr raw) := by
  unfold dnsParse
  split
  · exact dnsParse1_spec raw
  · exact dnsParse0_spec raw

theorem echo6Parse_spec (raw : Bytes) : Out fx SpecX raw (echo6Parse raw) := by
  unfold echo6Parse
  split
  · exact .inl ⟨_, rfl, rfl, specX_leaf _ rfl⟩
  · rename_i hlen
    obtain ⟨x, y, hu, _⟩ := nums2_shape echoL 2 2 rfl (raw.take 4) (take_len raw 4 (by omega))
    simp only [hu]
    exact .inl ⟨_, rfl, rfl, ext_specX _ _ _ trivial (drop_tiles raw 4)⟩

theorem unreach6Parse_spec (next : K → Bytes → P Frame) (raw : Bytes) (hn : NextFor fx next raw.length K.unreach6) :
    Out fx SpecX raw (unreach6Parse next raw) := by
  unfold unreach6Parse
  split
  · exact .inl ⟨_, rfl, rfl, specX_leaf _ rfl⟩
  · rename_i hlen
    obtain ⟨x, hu, _, _⟩ := num1_shape 4 (raw.take 4) (take_len raw 4 (by omega))
    have hu' : unpackE u32L (raw.take 4) = .ok [.num x] := hu
    simp only [hu']
    split
    · rcases hn .ipv6 (raw.drop 4) rfl (by simp [List.length_drop]; omega) with ⟨f, hf, hb, hg⟩ | ⟨e, he, hf⟩
      · simp only [hf]
        exact .inl ⟨_, rfl, rfl, ext_specX _ _ _ hg.1 (by rw [hb]; exact drop_tiles raw 4)⟩
      · simp only [he]; exact .inr ⟨e, rfl, hf⟩
    · exact .inl ⟨_, rfl, rfl, ext_specX _ _ _ trivial (drop_tiles raw 4)⟩

/-! ### IPv6 -/

/-- the extension-header loop returns or raises exactly finding K9 (never runs out of fuel, never indexes past the end);
offsets only grow -/
theorem extLoop_spec (raw : Bytes) : ∀ (fuel nht offset length : Nat) (acc : List (Nat × Nat × Bytes)),
    1 ≤ fuel → raw.length + 8 ≤ offset + 8 * fuel → length ≤ raw.length →
    (∃ r, extLoop fx vr raw fuel nht offset length acc = .ok r ∧ ∀ a b c e, r = some (a, b, c, e) → offset ≤ b) ∨
    (fx.fixed .k9 = false ∧ extLoop fx vr raw fuel nht offset length acc = .error (.known .k9)) := by
  intro fuel
  induction fuel with
  | zero => intro _ _ _ _ h; omega
  | succ fuel ih =>
    intro nht offset length acc _ hinv hlen
    unfold extLoop
    by_cases c59 : nht = 59
    · rw [if_pos c59]; exact .inl ⟨_, rfl, by intro a b c e h; simp at h; omega⟩
    rw [if_neg c59]
    by_cases cn : nht = 0 ∨ nht = 43 ∨ nht = 60
    · rw [if_pos cn]
      by_cases c8 : length < 8
      · rw [if_pos c8]; exact .inl ⟨_, rfl, by intro a b c e h; simp at h⟩
      rw [if_neg c8]
      by_cases co : offset + 2 > raw.length
      · rw [if_pos co]
        rcases raiseOr_cases fx .k9 (pure none : P ExtRes) with hr | ⟨hf, hr⟩ <;> rw [hr]
        · exact .inl ⟨_, rfl, by intro a b c e h; simp [pure, Except.pure] at h⟩
        · exact .inr ⟨hf, rfl⟩
      rw [if_neg co]
      obtain ⟨nh, h1, _⟩ := idx_ok raw offset (by omega)
      obtain ⟨lb, h2, _⟩ := idx_ok raw (offset + 1) (by omega)
      simp only [h1, h2]
      by_cases ct : length - 2 < lb * 8 + 6
      · rw [if_pos ct]; exact .inl ⟨_, rfl, by intro a b c e h; simp at h⟩
      rw [if_neg ct]
      rcases ih nh (offset + 2 + (lb * 8 + 6)) (length - lb) (acc ++ [(nht, nh, sl raw (offset + 2) (offset + 2 + (lb * 8 + 6)))])
        (by omega) (by omega) (by omega) with ⟨r, hr, hm⟩ | he
      · exact .inl ⟨r, hr, by intro a b c e h; have := hm a b c e h; omega⟩
      · exact .inr he
    rw [if_neg cn]
    by_cases c44 : nht = 44
    · rw [if_pos c44]
      by_cases c8 : length < 8
      · rw [if_pos c8]; exact .inl ⟨_, rfl, by intro a b c e h; simp at h⟩
      rw [if_neg c8]
      by_cases cf : (if vr.ip6Clamp = true then raw.length < offset + 8 else length < offset + 8)
      · rw [if_pos cf]; exact .inl ⟨_, rfl, by intro a b c e h; simp at h⟩
      rw [if_neg cf]
      -- either bound (the one against `max_length`, or D48's against the buffer) keeps the header inside the buffer
      have hin : offset + 8 ≤ raw.length := by
        cases hv : vr.ip6Clamp <;> simp [hv] at cf <;> omega
      obtain ⟨nh, h1, _⟩ := idx_ok raw offset (by omega)
      simp only [h1]
      rcases ih nh (offset + 8) (length - 8) (acc ++ [(44, nh, sl raw (offset + 1) (offset + 8))])
        (by omega) (by omega) (by omega) with ⟨r, hr, hm⟩ | he
      · exact .inl ⟨r, hr, by intro a b c e h; have := hm a b c e h; omega⟩
      · exact .inr he
    · rw [if_neg c44]; exact .inl ⟨_, rfl, by intro a b c e h; simp at h; omega⟩

theorem ipv6_shape (b : Bytes) (h : b.length = 8) :
    ∃ a1 a2 a3 a4, unpackE ipv6L b = .ok [.num a1, .num a2, .num a3, .num a4] := by
  obtain ⟨vs, hu, _, hf⟩ := unpackE_total ipv6L b (by rw [h]; rfl)
  simp only [ipv6L, fits_uint_iff, fits_nil_iff] at hf
  obtain ⟨a1, _, rfl, _, a2, _, rfl, _, a3, _, rfl, _, a4, _, rfl, _, rfl⟩ := hf
  exact ⟨a1, a2, a3, a4, hu⟩

theorem ipv6Parse_spec (guard : Bool) (next : K → Bytes → P Frame) (raw : Bytes) (hn : NextSpec fx next raw.length) :
    Out fx SpecX raw (ipv6Parse fx vr guard next raw) := by
  unfold ipv6Parse
  split
  · exact .inl ⟨_, rfl, rfl, specX_leaf _ rfl⟩
  · rename_i hlen
    obtain ⟨vtcfl, plen, nh0, hop, hu⟩ := ipv6_shape (raw.take 8) (take_len raw 8 (by omega))
    simp only [hu]
    split
    · exact .inl ⟨_, rfl, rfl, specX_leaf _ rfl⟩
    · try dsimp only
      generalize hhv : (if vr.ip6Clamp = true then raw.length - 40 else raw.length) = hv
      have hhv' : hv ≤ raw.length := by subst hhv; split <;> omega
      have hl0 : (if plen > hv then hv else plen) ≤ raw.length := by split <;> omega
      rcases extLoop_spec (fx := fx) (vr := vr) raw (raw.length + 1) nh0 40 (if plen > hv then hv else plen) [] (by omega) (by omega) hl0
        with ⟨r, hr, hm⟩ | ⟨hf9, he⟩
      · simp only [hr]
        cases r with
        | none => exact .inl ⟨_, rfl, rfl, specX_leaf _ rfl⟩
        | some q =>
          obtain ⟨nht, offset, length, exts⟩ := q
          have hoff : 40 ≤ offset := hm nht offset length exts rfl
          dsimp only
          have hbody : (sl raw offset (offset + length)).length + 4 ≤ raw.length := by
            have := sl_length_sub raw offset (offset + length); omega
          cases guard
          case true =>
            -- K1: nested too deeply, the payload stays bytes
            simp only [if_true, pure, Except.pure]
            refine .inl ⟨_, rfl, rfl, ?_⟩
            by_cases hu' : isUnparsed (Frame.raw (sl raw offset (offset + length))) = true
            · rw [if_pos hu']; exact ext_specX _ _ _ trivial (slice_tiles raw _ _)
            · rw [if_neg hu']; exact ext_specX _ _ _ trivial (slice_tiles raw _ _)
          simp only [Bool.false_eq_true, if_false]
          have key : Out fx (fun f => f.Tiles) (sl raw offset (offset + length)) (
              (if nht = 17 then next .udp (sl raw offset (offset + length))
               else if nht = 6 then next .tcp (sl raw offset (offset + length))
               else if nht = 58 then next (.icmp6 (sl raw 8 24) (sl raw 24 40)) (sl raw offset (offset + length))
               else if nht = 59 then pure .nil
               else pure (.raw (sl raw offset (offset + length))) : P Frame)) ∨
              (nht = 59 ∧ nht ≠ 17 ∧ nht ≠ 6 ∧ nht ≠ 58) := by
            by_cases c17 : nht = 17
            · rw [if_pos c17]
              rcases hn .udp _ hbody with ⟨f, h1, h2, h3⟩ | ⟨s, hs, hf⟩
              · exact .inl (.inl ⟨f, h1, h2, goodIn_tiles f _ h3⟩)
              · exact .inl (.inr ⟨s, hs, hf⟩)
            rw [if_neg c17]
            by_cases c6 : nht = 6
            · rw [if_pos c6]
              rcases hn .tcp _ hbody with ⟨f, h1, h2, h3⟩ | ⟨s, hs, hf⟩
              · exact .inl (.inl ⟨f, h1, h2, goodIn_tiles f _ h3⟩)
              · exact .inl (.inr ⟨s, hs, hf⟩)
            rw [if_neg c6]
            by_cases c58 : nht = 58
            · rw [if_pos c58]
              rcases hn (.icmp6 _ _) _ hbody with ⟨f, h1, h2, h3⟩ | ⟨s, hs, hf⟩
              · exact .inl (.inl ⟨f, h1, h2, h3.1⟩)
              · exact .inl (.inr ⟨s, hs, hf⟩)
            rw [if_neg c58]
            by_cases c59 : nht = 59
            · exact .inr ⟨c59, c17, c6, c58⟩
            · rw [if_neg c59]; exact .inl (.inl ⟨_, rfl, rfl, trivial⟩)
          rcases key with (⟨f, hf, hb, ht⟩ | ⟨e, he, hf⟩) | ⟨c59, c17, c6, c58⟩
          · simp only [hf]
            refine .inl ⟨_, rfl, rfl, ?_⟩
            by_cases hu' : isUnparsed f = true
            · rw [if_pos hu']; exact ext_specX _ _ _ trivial (slice_tiles raw _ _)
            · rw [if_neg hu']; exact ext_specX _ _ _ ht (by rw [hb]; exact slice_tiles raw _ _)
          · simp only [he]; exact .inr ⟨e, rfl, hf⟩
          · simp only [if_neg c17, if_neg c6, if_neg c58, if_pos c59]
            exact .inl ⟨_, rfl, rfl, ext_specX _ _ _ trivial (nil_tiles raw)⟩
      · simp only [he]; exact .inr ⟨_, rfl, hf9⟩

/-! ### ICMPv6 / NDP -/

/-- `Except` result that is a value or a registered finding -/
def OkOrKnown (fx : Fix) {α : Type} (r : P α) : Prop := (∃ v, r = .ok v) ∨ (∃ s, r = .error (.known s) ∧ fx.fixed s = false)

theorem ndOpt_spec (raw : Bytes) (offset : Nat) (h : offset + 2 < raw.length) :
    (∃ r, ndOpt fx raw offset = .ok r ∧ ∀ o' opt, r = some (o', opt) → offset + 8 ≤ o') ∨
    (∃ s, ndOpt fx raw offset = .error (.known s) ∧ fx.fixed s = false) := by
  unfold ndOpt
  have k7 : (∃ r, raiseOr fx .k7 (pure none : P (Option (Nat × NdOpt))) = .ok r ∧ ∀ o' opt, r = some (o', opt) → offset + 8 ≤ o') ∨
      (∃ s, raiseOr fx .k7 (pure none : P (Option (Nat × NdOpt))) = .error (.known s) ∧ fx.fixed s = false) := by
    rcases raiseOr_cases fx .k7 (pure none : P (Option (Nat × NdOpt))) with hr | ⟨hf, hr⟩ <;> rw [hr]
    · exact .inl ⟨_, rfl, by intro o' opt h; simp at h⟩
    · exact .inr ⟨_, rfl, hf⟩
  obtain ⟨t, h1, _⟩ := idx_ok raw offset (by omega)
  obtain ⟨l, h2, _⟩ := idx_ok raw (offset + 1) (by omega)
  simp only [h1, h2]
  by_cases l0 : l = 0
  · rw [if_pos l0]; exact k7
  rw [if_neg l0]
  try dsimp only
  by_cases ct : raw.length - (offset + 2) < l * 8 - 2
  · rw [if_pos ct]; exact .inl ⟨_, rfl, by intro o' opt h; simp at h⟩
  rw [if_neg ct]
  have adv : offset + 8 ≤ offset + 2 + (l * 8 - 2) := by omega
  repeat' split
  all_goals first
    | exact k7
    | exact .inl ⟨_, rfl, by intro o' opt h; simp at h; omega⟩

theorem ndOpts_spec (raw : Bytes) : ∀ (fuel offset : Nat) (acc : List NdOpt), 1 ≤ fuel → raw.length + 8 ≤ offset + 8 * fuel →
    OkOrKnown fx (ndOpts fx raw fuel offset acc) := by
  intro fuel
  induction fuel with
  | zero => intro _ _ h; omega
  | succ fuel ih =>
    intro offset acc _ hinv
    unfold ndOpts
    by_cases c : offset + 2 < raw.length
    · rw [if_pos c]
      by_cases c8 : (raw.length - offset) % 8 ≠ 0
      · rw [if_pos c8]
        rcases raiseOr_cases fx .k6 (pure none : P (Option (List NdOpt))) with hr | ⟨hf, hr⟩ <;> rw [hr]
        · exact .inl ⟨_, rfl⟩
        · exact .inr ⟨_, rfl, hf⟩
      rw [if_neg c8]
      rcases ndOpt_spec (fx := fx) raw offset c with ⟨r, hr, hadv⟩ | ⟨s, hs, hf⟩
      · simp only [hr]
        cases r with
        | none => exact .inl ⟨_, rfl⟩
        | some q =>
          obtain ⟨o', opt⟩ := q
          have := hadv o' opt rfl
          exact ih o' (acc ++ [opt]) (by omega) (by omega)
      · simp only [hs]; exact .inr ⟨s, rfl, hf⟩
    · rw [if_neg c]; exact .inl ⟨_, rfl⟩

theorem ndOptsOf_spec (raw : Bytes) (offset : Nat) (h : 8 ≤ offset) (hr : 1 ≤ raw.length) : OkOrKnown fx (ndOptsOf fx raw offset) := by
  unfold ndOptsOf
  rcases ndOpts_spec (fx := fx) raw raw.length offset [] hr (by omega) with ⟨r, hr⟩ | ⟨s, hs, hf⟩
  · simp only [hr]; cases r <;> exact .inl ⟨_, rfl⟩
  · simp only [hs]; exact .inr ⟨s, rfl, hf⟩

/-- the message classes: an object for the bytes behind the 4-byte ICMPv6 header whose sub-chain is tiled, or a registered finding -/
theorem icmp6Body_spec (src dst : Bytes) (next : K → Bytes → P Frame) (type : Nat) (raw : Bytes) (hn : NextFor fx next raw.length (K.icmp6 src dst)) (h4 : 4 ≤ raw.length) :
    Out fx (fun f => f.Tiles) (raw.drop 4) (icmp6Body fx next type raw) := by
  unfold icmp6Body
  dsimp only
  have hl : (raw.drop 4).length + 4 ≤ raw.length := by simp [List.length_drop]; omega
  have d8 : raw.drop 8 = (raw.drop 4).drop 4 := by rw [List.drop_drop]
  have t8 : ∃ hd cut, raw.drop 4 = hd ++ ((Frame.raw (raw.drop 8)).bytes ++ cut) ∧ min 4 (raw.drop 4).length ≤ hd.length := by
    show ∃ hd cut, raw.drop 4 = hd ++ (raw.drop 8 ++ cut) ∧ min 4 (raw.drop 4).length ≤ hd.length
    rw [d8]; exact drop_tiles (raw.drop 4) 4 (k := 4) (by omega)
  have nd : ∀ (x : Ext), ExtOK x .nil → Out fx (fun f => f.Tiles) (raw.drop 4) (.ok (.ext x (raw.drop 4) .nil)) :=
    fun x hx => .inl ⟨_, rfl, rfl, ⟨nil_tiles _, hx, trivial⟩⟩
  have ro : ∀ (s : Site) (x : Ext), ExtOK x .nil → Out fx (fun f => f.Tiles) (raw.drop 4) (raiseOr fx s (pure (.ext x (raw.drop 4) .nil))) := by
    intro s x hx
    rcases raiseOr_cases fx s (pure (.ext x (raw.drop 4) .nil) : P Frame) with hr | ⟨hf, hr⟩ <;> rw [hr]
    · exact nd x hx
    · exact .inr ⟨_, rfl, hf⟩
  have opts : ∀ (o : Nat) (g : List NdOpt → Ext), (∀ os, ExtOK (g os) .nil) → 8 ≤ o →
      Out fx (fun f => f.Tiles) (raw.drop 4) (match ndOptsOf fx raw o with
        | .ok os => pure (.ext (g os) (raw.drop 4) .nil)
        | .error e => .error e) := by
    intro o g hg ho
    rcases ndOptsOf_spec (fx := fx) raw o ho (by omega) with ⟨os, hos⟩ | ⟨s, hs, hf⟩
    · simp only [hos]; exact nd _ (hg _)
    · simp only [hs]; exact .inr ⟨s, rfl, hf⟩
  by_cases c1 : type = 128 ∨ type = 129
  · rw [if_pos c1]
    rcases hn .echo6 _ rfl hl with ⟨f, h1, h2, h3⟩ | ⟨s, hs, hf⟩
    · exact .inl ⟨f, h1, h2, h3.1⟩
    · exact .inr ⟨s, hs, hf⟩
  rw [if_neg c1]
  by_cases c2 : type = 1
  · rw [if_pos c2]
    rcases hn .unreach6 _ rfl hl with ⟨f, h1, h2, h3⟩ | ⟨s, hs, hf⟩
    · exact .inl ⟨f, h1, h2, h3.1⟩
    · exact .inr ⟨s, hs, hf⟩
  rw [if_neg c2]
  by_cases c3 : type = 3
  · rw [if_pos c3]; exact .inl ⟨_, rfl, rfl, ⟨t8, trivial, trivial⟩⟩
  rw [if_neg c3]
  by_cases c4 : type = 2
  · rw [if_pos c4]
    split
    · exact ro _ _ trivial
    · exact .inl ⟨_, rfl, rfl, ⟨t8, trivial, trivial⟩⟩
  rw [if_neg c4]
  by_cases c5 : type = 133
  · rw [if_pos c5]; exact opts 8 _ (fun _ => trivial) (by omega)
  rw [if_neg c5]
  by_cases c6 : type = 134
  · rw [if_pos c6]
    split
    · exact ro _ _ trivial
    · rcases ndOpts_spec (fx := fx) raw raw.length 16 [] (by omega) (by omega) with ⟨r, hr⟩ | ⟨s, hs, hf⟩
      · simp only [hr]; cases r <;> exact nd _ trivial
      · simp only [hs]; exact .inr ⟨s, rfl, hf⟩
  rw [if_neg c6]
  by_cases c7 : type = 135
  · rw [if_pos c7]
    split
    · exact ro _ _ trivial
    · exact opts 24 _ (fun _ => trivial) (by omega)
  rw [if_neg c7]
  by_cases c8 : type = 136
  · rw [if_pos c8]
    cases hi : idx raw 4 with
    | error e => exact ro _ _ trivial
    | ok flags =>
      dsimp only
      split
      · exact ro _ _ trivial
      · exact opts 24 _ (fun _ => trivial) (by omega)
  rw [if_neg c8]
  exact .inl ⟨_, rfl, rfl, trivial⟩

theorem icmp6Parse_spec (src dst : Bytes) (next : K → Bytes → P Frame) (raw : Bytes) (hn : NextFor fx next raw.length (K.icmp6 src dst)) :
    Out fx SpecX raw (icmp6Parse fx src dst next raw) := by
  unfold icmp6Parse
  split
  · exact .inl ⟨_, rfl, rfl, specX_leaf _ rfl⟩
  · rename_i hlen
    obtain ⟨t, c, s, hu, _⟩ := icmp_shape (raw.take 4) (take_len raw 4 (by omega))
    simp only [hu]
    split
    · exact .inl ⟨_, rfl, rfl, specX_leaf _ rfl⟩
    · rcases icmp6Body_spec (fx := fx) src dst next t raw hn (by omega) with ⟨f, hf, hb, ht⟩ | ⟨e, he, hf⟩
      · simp only [hf]
        exact .inl ⟨_, rfl, rfl, ext_specX _ _ _ ht (by rw [hb]; exact drop_tiles raw 4)⟩
      · simp only [he]; exact .inr ⟨e, rfl, hf⟩


/-! ### GRE -/

/-- the optional fields behind the first four bytes: a value, or exactly the raise of finding K10 -/
theorem greField_spec (raw : Bytes) (o n : Nat) : (∃ v, greField raw o n = .ok v) ∨ greField raw o n = .error (.known .k10) := by
  unfold greField
  split
  · exact .inr rfl
  · exact .inl ⟨_, rfl⟩

theorem greRouting_spec (raw : Bytes) : ∀ (fuel o : Nat) (acc : List (Nat × Nat × Nat × Bytes)), 1 ≤ fuel →
    raw.length + 4 ≤ o + 4 * fuel →
    (∃ r, greRouting raw fuel o acc = .ok r ∧ o ≤ r.1) ∨ greRouting raw fuel o acc = .error (.known .k10) := by
  intro fuel
  induction fuel with
  | zero => intro _ _ h; omega
  | succ fuel ih =>
    intro o acc _ hinv
    unfold greRouting
    by_cases c : (sl raw o (o + 4)).length ≠ 4
    · rw [if_pos c]; exact .inr rfl
    rw [if_neg c]
    dsimp only
    have hle : o + 4 ≤ raw.length := by
      have := sl_length_sub raw o (o + 4)
      have h4 : (sl raw o (o + 4)).length = 4 := by omega
      omega
    split
    · exact .inl ⟨_, rfl, by simp⟩
    · rcases ih (o + 4 + beDec (sl raw (o + 3) (o + 4))) _ (by omega) (by omega) with ⟨r, hr, hm⟩ | hs
      · exact .inl ⟨r, hr, by omega⟩
      · exact .inr hs

theorem greOpt_spec (raw : Bytes) (p : Bool) (o : Nat) :
    (∃ r, greOpt raw p o = .ok r ∧ o ≤ r.1) ∨ greOpt raw p o = .error (.known .k10) := by
  unfold greOpt
  split
  · rcases greField_spec raw o 4 with ⟨v, hv⟩ | hs
    · simp only [hv]; exact .inl ⟨_, rfl, by simp⟩
    · exact .inr (by simp only [hs])
  · exact .inl ⟨_, rfl, by simp⟩

theorem greCsum_spec (raw : Bytes) (p : Bool) :
    (∃ r, greCsum raw p = .ok r ∧ 4 ≤ r.1) ∨ greCsum raw p = .error (.known .k10) := by
  unfold greCsum
  split
  · rcases greField_spec raw 4 2 with ⟨v, hv⟩ | hs
    · simp only [hv]
      rcases greField_spec raw 6 2 with ⟨w, hw⟩ | hs
      · simp only [hw]; exact .inl ⟨_, rfl, by simp⟩
      · exact .inr (by simp only [hs])
    · exact .inr (by simp only [hs])
  · exact .inl ⟨_, rfl, by simp⟩

theorem greRoute_spec (raw : Bytes) (p : Bool) (o : Nat) (h1 : 1 ≤ raw.length) (ho : 4 ≤ o) :
    (∃ r, greRoute raw p o = .ok r ∧ o ≤ r.1) ∨ greRoute raw p o = .error (.known .k10) := by
  unfold greRoute
  split
  · rcases greRouting_spec raw raw.length o [] h1 (by omega) with ⟨r, hr, hm⟩ | hs
    · obtain ⟨o', rs⟩ := r
      simp only [hr]; exact .inl ⟨_, rfl, hm⟩
    · exact .inr (by simp only [hs])
  · exact .inl ⟨_, rfl, by simp⟩

/-- the whole header: the payload starts at an offset ≥ 4, or exactly finding K10 raises -/
theorem greHdr_spec (raw : Bytes) (flags type : Nat) (h4 : 4 ≤ raw.length) :
    (∃ h o, greHdr raw flags type = .ok (h, o) ∧ 4 ≤ o) ∨ greHdr raw flags type = .error (.known .k10) := by
  unfold greHdr
  dsimp only
  rcases greCsum_spec raw (decide (flags / 32768 % 2 = 1) || decide (flags / 16384 % 2 = 1)) with ⟨r1, hr1, m1⟩ | hs
  · obtain ⟨o1, csum, ro⟩ := r1
    simp only [hr1]
    rcases greOpt_spec raw (decide (flags / 8192 % 2 = 1)) o1 with ⟨r2, hr2, m2⟩ | hs
    · obtain ⟨o2, key⟩ := r2
      simp only [hr2]
      rcases greOpt_spec raw (decide (flags / 4096 % 2 = 1)) o2 with ⟨r3, hr3, m3⟩ | hs
      · obtain ⟨o3, seq⟩ := r3
        simp only [hr3]
        rcases greRoute_spec raw (decide (flags / 16384 % 2 = 1)) o3 (by omega) (by simp at m1 m2 m3; omega) with ⟨r4, hr4, m4⟩ | hs
        · obtain ⟨o, routing⟩ := r4
          simp only [hr4]
          exact .inl ⟨_, _, rfl, by simp at m1 m2 m3 m4; omega⟩
        · exact .inr (by simp only [hs])
      · exact .inr (by simp only [hs])
    · exact .inr (by simp only [hs])
  · exact .inr (by simp only [hs])

theorem greTail_spec (next : K → Bytes → P Frame) (raw : Bytes) (h : Gre) (o : Nat) (hn : NextFor fx next raw.length K.gre) (ho : 4 ≤ o)
    (h4 : 4 ≤ raw.length) : Out fx SpecX raw (greTail next raw h o) := by
  unfold greTail
  have hl : (raw.drop o).length + 4 ≤ raw.length := by simp [List.length_drop]; omega
  by_cases c1 : h.type = 0x0800
  · rw [if_pos c1]
    rcases hn .ipv4 _ rfl hl with ⟨f, h1, h2, h3⟩ | ⟨s, hs, hf⟩
    · simp only [h1]; exact .inl ⟨_, rfl, rfl, ext_specX _ _ _ (good_tiles f h3.2) (by rw [h2]; exact drop_tiles raw o)⟩
    · simp only [hs]; exact .inr ⟨s, rfl, hf⟩
  rw [if_neg c1]
  by_cases c2 : h.type = 0x6558
  · rw [if_pos c2]
    rcases hn .eth _ rfl hl with ⟨f, h1, h2, h3⟩ | ⟨s, hs, hf⟩
    · simp only [h1]; exact .inl ⟨_, rfl, rfl, ext_specX _ _ _ (good_tiles f h3) (by rw [h2]; exact drop_tiles raw o)⟩
    · simp only [hs]; exact .inr ⟨s, rfl, hf⟩
  rw [if_neg c2]
  exact .inl ⟨_, rfl, rfl, ext_specX _ _ _ trivial (drop_tiles raw o)⟩

theorem greParse_spec (next : K → Bytes → P Frame) (raw : Bytes) (hn : NextFor fx next raw.length K.gre) :
    Out fx SpecX raw (greParse fx next raw) := by
  unfold greParse
  split
  · exact .inl ⟨_, rfl, rfl, specX_leaf _ rfl⟩
  · rename_i hlen
    obtain ⟨flags, type, hu, _⟩ := nums2_shape [.uint 2, .uint 2] 2 2 rfl (raw.take 4) (take_len raw 4 (by omega))
    simp only [hu]
    rcases greHdr_spec raw flags type (by omega) with ⟨h, o, hr, ho⟩ | hs
    · simp only [hr]
      exact greTail_spec next raw h o hn ho (by omega)
    · simp only [hs]
      -- the repaired parser logs and returns: the object keeps its bytes, unparsed
      rcases raiseOr_cases fx .k10 (pure (.unparsed "gre" raw) : P Frame) with hr | ⟨hf, hr⟩ <;> rw [hr]
      · exact .inl ⟨_, rfl, rfl, specX_leaf _ rfl⟩
      · exact .inr ⟨_, rfl, hf⟩

/-! ### IGMP -/

/-- the source list: a list, or (without the repair) exactly finding K14 -/
theorem igmpSrcs_spec (b : Bytes) : ∀ (n o : Nat),
    (∃ v, igmpSrcs fx b n o = .ok v) ∨ (fx.fixed .k14 = false ∧ igmpSrcs fx b n o = .error (.known .k14)) := by
  intro n
  induction n with
  | zero => intro o; exact .inl ⟨_, rfl⟩
  | succ n ih =>
    intro o
    unfold igmpSrcs
    split
    · rcases raiseOr_cases fx .k14 (pure [] : P (List Nat)) with hr | ⟨hf, hr⟩ <;> rw [hr]
      · exact .inl ⟨_, rfl⟩
      · exact .inr ⟨hf, rfl⟩
    · rcases ih (o + 4) with ⟨v, hv⟩ | ⟨hf, hs⟩
      · simp only [hv]; exact .inl ⟨_, rfl⟩
      · exact .inr ⟨hf, by simp only [hs]⟩

/-- what the record walker can do: return, raise K13 (caught by `igmpParse` when repaired), or raise the unrepaired K14 -/
def RecOut {α : Type} (fx : Fix) (r : P α) : Prop :=
  (∃ v, r = .ok v) ∨ r = .error (.known .k13) ∨ (fx.fixed .k14 = false ∧ r = .error (.known .k14))

theorem groupRec_spec (b : Bytes) : RecOut fx (groupRec fx b) := by
  unfold groupRec
  split
  · exact .inr (.inl rfl)
  · dsimp only
    rcases igmpSrcs_spec (fx := fx) b (beDec (sl b 2 4)) 8 with ⟨v, hv⟩ | ⟨hf, hs⟩
    · simp only [hv]; exact .inl ⟨_, rfl⟩
    · exact .inr (.inr ⟨hf, by simp only [hs]⟩)

theorem groupRecs_spec : ∀ (n : Nat) (b : Bytes) (acc : List GroupRec), RecOut fx (groupRecs fx n b acc) := by
  intro n
  induction n with
  | zero => intro b acc; exact .inl ⟨_, rfl⟩
  | succ n ih =>
    intro b acc
    unfold groupRecs
    rcases groupRec_spec (fx := fx) b with ⟨v, hv⟩ | hs | ⟨hf, hs⟩
    · obtain ⟨off, g⟩ := v
      simp only [hv]; exact ih _ _
    · exact .inr (.inl (by simp only [hs]))
    · exact .inr (.inr ⟨hf, by simp only [hs]⟩)

theorem igmp3_shape (b : Bytes) (h : b.length = 8) :
    ∃ a1 a2 a3 a4 a5, unpackE [.uint 1, .uint 1, .uint 2, .uint 2, .uint 2] b = .ok [.num a1, .num a2, .num a3, .num a4, .num a5] := by
  obtain ⟨vs, hu, _, hf⟩ := unpackE_total [.uint 1, .uint 1, .uint 2, .uint 2, .uint 2] b (by rw [h]; rfl)
  simp only [fits_uint_iff, fits_nil_iff] at hf
  obtain ⟨a1, _, rfl, _, a2, _, rfl, _, a3, _, rfl, _, a4, _, rfl, _, a5, _, rfl, _, rfl⟩ := hf
  exact ⟨a1, a2, a3, a4, a5, hu⟩

theorem igmp2_shape (b : Bytes) (h : b.length = 8) :
    ∃ a1 a2 a3 a4, unpackE [.uint 1, .uint 1, .uint 2, .uint 4] b = .ok [.num a1, .num a2, .num a3, .num a4] := by
  obtain ⟨vs, hu, _, hf⟩ := unpackE_total [.uint 1, .uint 1, .uint 2, .uint 4] b (by rw [h]; rfl)
  simp only [fits_uint_iff, fits_nil_iff] at hf
  obtain ⟨a1, _, rfl, _, a2, _, rfl, _, a3, _, rfl, _, a4, _, rfl, _, rfl⟩ := hf
  exact ⟨a1, a2, a3, a4, hu⟩

theorem igmpParse_spec (raw : Bytes) : Out fx SpecX raw (igmpParse fx raw) := by
  unfold igmpParse
  split
  · exact .inl ⟨_, rfl, rfl, specX_leaf _ rfl⟩
  · rename_i hlen
    obtain ⟨vt, hvt, _⟩ := idx_ok raw 0 (by omega)
    simp only [hvt]
    split
    · obtain ⟨a1, a2, a3, a4, a5, hu⟩ := igmp3_shape (raw.take 8) (take_len raw 8 (by omega))
      simp only [hu]
      rcases groupRecs_spec (fx := fx) a5 (raw.drop 8) [] with ⟨v, hv⟩ | hs | ⟨hf, hs⟩
      · obtain ⟨gs, extra⟩ := v
        simp only [hv]
        split
        · exact .inl ⟨_, rfl, rfl, specX_leaf _ rfl⟩
        · exact .inl ⟨_, rfl, rfl, ext_specX _ _ _ trivial (nil_tiles raw)⟩
      · simp only [hs]
        -- the repaired parser returns before the record it cannot read: the object keeps its bytes, unparsed
        rcases raiseOr_cases fx .k13 (pure (.unparsed "igmp" raw) : P Frame) with hr | ⟨hf, hr⟩ <;> rw [hr]
        · exact .inl ⟨_, rfl, rfl, specX_leaf _ rfl⟩
        · exact .inr ⟨_, rfl, hf⟩
      · simp only [hs]; exact .inr ⟨_, rfl, hf⟩
    · split
      · obtain ⟨a1, a2, a3, a4, hu⟩ := igmp2_shape (raw.take 8) (take_len raw 8 (by omega))
        simp only [hu]
        split
        · exact .inl ⟨_, rfl, rfl, specX_leaf _ rfl⟩
        · exact .inl ⟨_, rfl, rfl, ext_specX _ _ _ trivial (nil_tiles raw)⟩
      · exact .inl ⟨_, rfl, rfl, specX_leaf _ rfl⟩
/-! ### DHCP -/

theorem dhcpOpts_spec (barr : Bytes) : ∀ (fuel ofs : Nat) (acc : List (Nat × Bytes)), 1 ≤ fuel → barr.length + 1 ≤ ofs + fuel →
    ∃ r, dhcpOpts barr fuel ofs acc = .ok r := by
  intro fuel
  induction fuel with
  | zero => intro ofs acc h; omega
  | succ fuel ih =>
    intro ofs acc _ hinv
    unfold dhcpOpts
    by_cases c : ofs < barr.length
    · rw [if_pos c]
      obtain ⟨opt, ho, _⟩ := idx_ok barr ofs c
      simp only [ho]
      by_cases c1 : opt = 255
      · rw [if_pos c1]; exact ⟨_, rfl⟩
      rw [if_neg c1]
      by_cases c2 : opt = 0
      · rw [if_pos c2]; exact ih _ _ (by omega) (by omega)
      rw [if_neg c2]
      by_cases c3 : ofs + 1 ≥ barr.length
      · rw [if_pos c3]; exact ⟨_, rfl⟩
      rw [if_neg c3]
      obtain ⟨len, hl, _⟩ := idx_ok barr (ofs + 1) (by omega)
      simp only [hl]
      by_cases c4 : ofs + 2 + len > barr.length
      · rw [if_pos c4]; exact ⟨_, rfl⟩
      · rw [if_neg c4]; exact ih _ _ (by omega) (by omega)
    · rw [if_neg c]; exact ⟨_, rfl⟩

theorem dhcp_shape (b : Bytes) (h : b.length = 28) :
    ∃ a1 a2 a3 a4 a5 a6 a7 a8 a9 a10 a11, unpackE dhcpL b =
      .ok [.num a1, .num a2, .num a3, .num a4, .num a5, .num a6, .num a7, .num a8, .num a9, .num a10, .num a11] := by
  obtain ⟨vs, hu, _, hf⟩ := unpackE_total dhcpL b (by rw [h]; rfl)
  simp only [dhcpL, fits_uint_iff, fits_nil_iff] at hf
  obtain ⟨a1, _, rfl, _, a2, _, rfl, _, a3, _, rfl, _, a4, _, rfl, _, a5, _, rfl, _, a6, _, rfl, _, a7, _, rfl, _,
    a8, _, rfl, _, a9, _, rfl, _, a10, _, rfl, _, a11, _, rfl, _, rfl⟩ := hf
  exact ⟨a1, a2, a3, a4, a5, a6, a7, a8, a9, a10, a11, hu⟩

theorem dhcpParse_spec (raw : Bytes) : Out fx SpecX raw (dhcpParse fx raw) := by
  unfold dhcpParse
  split
  · exact .inl ⟨_, rfl, rfl, specX_leaf _ rfl⟩
  · rename_i hlen
    obtain ⟨a1, a2, a3, a4, a5, a6, a7, a8, a9, a10, a11, hu⟩ := dhcp_shape (raw.take 28) (take_len raw 28 (by omega))
    simp only [hu]
    split
    · exact .inl ⟨_, rfl, rfl, ext_specX _ _ _ trivial (nil_tiles raw)⟩
    · split
      · exact .inl ⟨_, rfl, rfl, ext_specX _ _ _ trivial (nil_tiles raw)⟩
      · obtain ⟨os, hos⟩ := dhcpOpts_spec (raw.drop 240) (raw.length + 1) 0 [] (by omega) (by simp [List.length_drop])
        simp only [hos]
        exact .inl ⟨_, rfl, rfl, ext_specX _ _ _ trivial (nil_tiles raw)⟩

/-- a leaf satisfies what every constructor promises -/
theorem spec_leaf (k : K) (f : Frame) (h : f.isLeaf = true) : Spec k f := by
  cases k <;> simp only [Spec]
  all_goals first
    | exact goodIn_leaf _ f h
    | exact good_leaf f h
    | exact ⟨goodIn_leaf _ f h, good_leaf f h⟩
    | exact specX_leaf f h

/-- the guarded dispatch keeps the payload as bytes: that is fine for every class -/
theorem blocked_spec (n : Nat) : NextSpec fx blocked n :=
  fun k b _ => .inl ⟨.raw b, rfl, rfl, spec_leaf k _ rfl⟩

/-- **One constructor activation.**  Class `k`'s constructor with `d + 1` activations available behaves, given that the
constructors it calls (with `d` available) do: `hg1` / `hg0` for the classes behind the nesting guard when the guard lets them
dispatch (ethernet, vlan, llc through `parse_next`; ipv4, ipv6), `hc` for the classes that call fixed constructors with
`prev=self`, `ht` for vxlan / gre before the K1 repair (they start a new `prev` chain), `hm` for mpls (which catches whatever the
nested mpls raises). -/
theorem parseD_step (d depth : Nat) (k : K) (raw : Bytes)
    (hg1 : (fx.k1 && decide (nestCap ≤ depth + 1)) = false → NextSpec fx (parseD (Cfg.tree fx vr) d (depth + 1)) raw.length)
    (hg0 : (fx.k1 && decide (nestCap ≤ depth)) = false → NextSpec fx (parseD (Cfg.tree fx vr) d (depth + 1)) raw.length)
    (hc : NextFor fx (parseD (Cfg.tree fx vr) d (depth + 1)) raw.length k)
    (ht : fx.k1 = false → NextFor fx (parseD (Cfg.tree fx vr) d 0) raw.length k)
    (hm : ∀ b, OutE SpecX b (parseD (Cfg.tree fx vr) d 0 .mpls b)) :
    Out fx (Spec k) raw (parseD (Cfg.tree fx vr) (d + 1) depth k raw) := by
  have wrap : ∀ {S : Frame → Prop} {r : P Frame}, (∃ f, r = .ok f ∧ f.bytes = raw ∧ S f) → Out fx S raw r := fun h => .inl h
  have n1 : NextSpec fx (if (fx.k1 && decide (nestCap ≤ depth + 1)) = true then blocked else parseD (Cfg.tree fx vr) d (depth + 1)) raw.length := by
    cases hg : (fx.k1 && decide (nestCap ≤ depth + 1))
    · simpa using hg1 hg
    · simpa using blocked_spec raw.length
  have n0 : NextSpec fx (if (fx.k1 && decide (nestCap ≤ depth)) = true then blocked else parseD (Cfg.tree fx vr) d (depth + 1)) raw.length := by
    cases hg : (fx.k1 && decide (nestCap ≤ depth))
    · simpa using hg0 hg
    · simpa using blocked_spec raw.length
  have nt : NextFor fx (if fx.k1 = true then parseD (Cfg.tree fx vr) d (depth + 1) else parseD (Cfg.tree fx vr) d 0) raw.length k := by
    cases hk : fx.k1
    · simpa using ht hk
    · simpa using hc
  cases k <;> simp only [parseD, Spec, Cfg.tree]
  · exact ethParse_spec _ _ raw n1
  · exact vlanParse_spec _ _ raw n1
  · exact llcParse_spec _ _ raw n1
  · exact wrap (arpParse_spec raw)
  · exact ipv4Parse_spec _ _ raw n0
  · exact udpParse_spec _ raw hc
  · exact wrap (tcpParse_spec raw)
  · exact icmpParse_spec _ raw hc
  · exact wrap (echoParse_spec raw)
  · exact unreachParse_spec _ raw hc
  · exact timeExParse_spec _ raw hc
  · exact wrap (lldpParse_spec raw)
  · exact mplsParse_spec _ raw hm
  · exact eapolParse_spec _ raw hc
  · exact eapParse_spec raw
  · exact vxlanParse_spec _ raw nt
  · exact ripParse_spec raw
  · exact dnsParse_spec raw
  · exact ipv6Parse_spec _ _ raw n0
  · exact echo6Parse_spec raw
  · exact unreach6Parse_spec _ raw hc
  · exact greParse_spec _ raw nt
  · exact igmpParse_spec raw
  · exact dhcpParse_spec raw
  · exact icmp6Parse_spec _ _ _ raw hc

theorem Out.toE {S : Frame → Prop} {b : Bytes} {r : P Frame} (h : Out fx S b r) : OutE S b r := by
  rcases h with h | ⟨s, hs, _⟩
  · exact .inl h
  · exact .inr ⟨_, hs⟩

/-- mpls never lets anything out: `mpls.parse` wraps the nested `mpls(...)` in a bare `except:` and keeps the bytes -/
theorem mpls_any : ∀ (d depth : Nat) (raw : Bytes), OutE SpecX raw (parseD (Cfg.tree fx vr) d depth .mpls raw) := by
  intro d
  induction d with
  | zero => intro depth raw; exact .inr ⟨_, rfl⟩
  | succ d ih =>
    intro depth raw
    simp only [parseD]
    exact (mplsParse_spec (fx := fx) _ raw (fun b => ih 0 b)).toE

/-- **Budget by length.**  Every constructor call, given a nesting budget of one activation per four input bytes (every parser that
calls a nested constructor consumed at least four bytes), returns an object for its whole input that satisfies the invariant — or
raises at one of the registered findings that the tree has no repair for.  Nothing else: no other exception, no model fuel.
Holds for every combination of repairs, with or without the nesting guard, at every `prev`-chain depth. -/
theorem parseD_spec : ∀ (d depth : Nat) (k : K) (raw : Bytes), raw.length / 4 + 1 ≤ d →
    Out fx (Spec k) raw (parseD (Cfg.tree fx vr) d depth k raw) := by
  intro d
  induction d with
  | zero => intro depth k raw h; omega
  | succ d ih =>
    intro depth k raw h
    have hn : ∀ depth', NextSpec fx (parseD (Cfg.tree fx vr) d depth') raw.length := by
      intro depth' k' b hb; exact ih depth' k' b (by omega)
    exact parseD_step d depth k raw (fun _ => hn _) (fun _ => hn _) ((hn _).for k) (fun _ => (hn _).for k) (fun b => mpls_any d 0 b)

/-! ### the nesting guard (K1) bounds the number of nested activations: no budget hypothesis on the input -/

/-- how many more activations a class needs at most once the `prev` chain has reached `MAX_NESTING` (where ethernet, vlan, llc, ipv4,
ipv6 no longer dispatch): icmp → unreach → ipv4, udp → vxlan → ethernet, icmpv6 → unreach → ipv6, gre → ipv4 / ethernet, eapol → eap -/
def base : K → Nat
  | .icmp | .udp | .icmp6 _ _ => 3
  | .unreach | .timeEx | .vxlan | .gre | .unreach6 | .eapol => 2
  | _ => 1

theorem calls_base (c k : K) (h : calls c k = true) : base k < base c := by
  cases c <;> cases k <;> simp_all [calls, base]

theorem base_le (k : K) : 1 ≤ base k ∧ base k ≤ 3 := by cases k <;> simp [base]

/-- activations a constructor at `prev`-chain depth `depth` needs at most, with the guard -/
def need (depth : Nat) (k : K) : Nat := if depth < nestCap then nestCap - depth + 3 else base k

/-- **Budget by the guard.**  With the K1 repair every constructor call at `prev`-chain depth `depth` returns (or raises at an
unrepaired registered finding) given `need depth k` activations — whatever the input is, however long. -/
theorem parseD_guarded (hk : fx.k1 = true) : ∀ (d depth : Nat) (k : K) (raw : Bytes), need depth k ≤ d →
    Out fx (Spec k) raw (parseD (Cfg.tree fx vr) d depth k raw) := by
  intro d
  induction d with
  | zero =>
    intro depth k raw h
    have := (base_le k).1
    unfold need at h; split at h <;> omega
  | succ d ih =>
    intro depth k raw h
    -- below the cap every class can be called one level deeper
    have hgen : depth < nestCap → NextSpec fx (parseD (Cfg.tree fx vr) d (depth + 1)) raw.length := by
      intro hlt k' b _
      refine ih (depth + 1) k' b ?_
      have hb := (base_le k').2
      unfold need at h ⊢
      rw [if_pos hlt] at h
      split <;> omega
    -- the classes that are not behind the guard call fixed classes, each needing less
    have hfor : NextFor fx (parseD (Cfg.tree fx vr) d (depth + 1)) raw.length k := by
      intro k' b hc hl
      by_cases hlt : depth < nestCap
      · exact hgen hlt k' b hl
      · refine ih (depth + 1) k' b ?_
        have := calls_base k k' hc
        unfold need at h ⊢
        rw [if_neg hlt] at h
        rw [if_neg (by omega)]
        omega
    refine parseD_step d depth k raw ?_ ?_ hfor (fun h0 => by rw [hk] at h0; cases h0) (fun b => mpls_any d 0 b)
    · intro hg
      rw [hk] at hg
      have : depth + 1 < nestCap := by simpa using hg
      exact hgen (by omega)
    · intro hg
      rw [hk] at hg
      have : depth < nestCap := by simpa using hg
      exact hgen this

/-! ## printing -/

theorem tlvsStr_ok (ts : List Tlv) : tlvsStr (Cfg.tree fx vr) ts = .ok () := by
  induction ts with
  | nil => rfl
  | cons t r ih =>
    have : tlvStr (Cfg.tree fx vr) t = .ok () := by cases t <;> simp [tlvStr, Cfg.tree, pure, Except.pure]
    simp [tlvsStr, this, ih, bind, Except.bind]

theorem llcStr_ok (h : Llc) : llcStr (Cfg.tree fx vr) h = .ok () := by
  unfold llcStr
  repeat' split
  all_goals first | rfl | (rename_i hc; simp [Cfg.tree] at hc)

/-- `__str__` of every phase-2 class is defined on a parsed object: the numbers it formats with `%d` / `%i` / `%x` are numbers -/
theorem extStr_ok (x : Ext) : extStr x = .ok () := by
  cases x <;> try rfl
  case gre h => simp only [extStr]; cases h.csum <;> rfl

/-- `dump()` of a chain is defined unless it contains an opaque layer (the only one a parse produces: TCP with MPTCP options) -/
theorem printF_ok (f : Frame) (h : f.foreigns = []) : printF (Cfg.tree fx vr) f = .ok () := by
  induction f with
  | raw _ | nil | unparsed _ _ => rfl
  | foreign c _ => simp [Frame.foreigns] at h
  | ext x _ n ih => simp [printF, extStr_ok, ih (by simpa [Frame.foreigns] using h), bind, Except.bind]
  | lldp ts _ _ => exact tlvsStr_ok (vr := vr) ts
  | llc hh p r n ih => simp [printF, llcStr_ok, ih (by simpa [Frame.foreigns] using h), bind, Except.bind]
  | eth _ _ _ ih | vlan _ _ _ ih | arp _ _ _ ih | ipv4 _ _ _ ih | udp _ _ _ ih | tcp _ _ _ ih | icmp _ _ _ ih
  | echo _ _ _ ih | unreach _ _ _ ih | timeEx _ _ _ ih => simpa [printF] using ih (by simpa [Frame.foreigns] using h)

/-! ## re-serialising a parse result -/

theorem pk_ok (L : Layout) (vs : List Val) (hf : fits L vs) : ∃ b, pk L vs = .ok b ∧ b.length = size L := by
  obtain ⟨bs, he, _, hl⟩ := decode_encode L vs [] hf
  exact ⟨bs, pk_of_encode he, hl⟩

theorem pack_leaf (f : Frame) (ctx : Option IPCtx) (hl : f.isLeaf = true) (hf : f.hasForeign = false) :
    packF ctx f = .ok f.bytes := by
  cases f <;> simp_all [Frame.isLeaf, Frame.hasForeign, packF, Frame.bytes, pure, Except.pure]

theorem optsPadded_le (os : List TcpOpt) (k : Nat) (h : 20 + (optsBytes os).length ≤ k * 4) :
    20 + (optsPadded os).length ≤ k * 4 := by
  unfold optsPadded
  split
  · simp; omega
  · exact h

theorem packF_ipv4 (ctx : Option IPCtx) (h : IPv4) (r : Bytes) (n : Frame) (rest : Bytes)
    (hrest : packF (some ⟨h.src, h.dst, h.proto⟩) n = .ok rest) (hf : h.Fits) (hn : h.hl * 4 + rest.length < 65536) :
    packF ctx (.ipv4 h r n) = .ok (ipv4Bytes h rest.length ++ rest) := by
  simp [packF, hrest, ipv4Hdr_ok h rest.length hf hn, bind, Except.bind, pure, Except.pure]

theorem isExt_foreign (n : Frame) (h : n.isExt = true) : n.hasForeign = true := by
  cases n <;> simp_all [Frame.isExt, Frame.hasForeign]

/-- inside an IPv4 datagram: `pack()` succeeds and does not produce more bytes than were parsed -/
theorem packIn : ∀ (f : Frame) (l4 : Bool) (ctx : Option IPCtx), GoodIn l4 f → f.bytes.length < 65536 → f.hasForeign = false →
    (l4 = true → ∃ c, ctx = some c ∧ c.Fits) → ∃ out, packF ctx f = .ok out ∧ out.length ≤ f.bytes.length := by
  intro f
  induction f with
  | raw b => intro _ _ _ _ _ _; exact ⟨b, rfl, Nat.le_refl _⟩
  | nil => intro _ _ _ _ _ _; exact ⟨[], rfl, Nat.le_refl _⟩
  | unparsed c r => intro _ _ _ _ _ _; exact ⟨r, rfl, Nat.le_refl _⟩
  | foreign c r => intro _ _ _ _ hf _; simp [Frame.hasForeign] at hf
  | ext x r n ih => intro _ _ _ _ hf _; simp [Frame.hasForeign] at hf
  | eth _ _ _ _ | vlan _ _ _ _ | llc _ _ _ _ _ | arp _ _ _ _ | lldp _ _ _ => intro l4 _ g; simp [GoodIn] at g
  | udp h r n ih =>
    intro l4 ctx g hlen hfo hctx
    obtain ⟨hl4, hfit, hleaf', hd, cut, h1, h2⟩ := g
    obtain ⟨c, rfl, hc⟩ := hctx hl4
    have hnf : n.hasForeign = false := by simpa [Frame.hasForeign] using hfo
    have hleaf : n.isLeaf = true := hleaf'.elim id (fun h => by have := isExt_foreign n h.1; simp_all)
    have hrest := pack_leaf n none hleaf hnf
    have hrl : n.bytes.length + 8 ≤ r.length := by rw [h2]; simp; omega
    have hlen' : r.length < 65536 := hlen
    have := udpHdr_ok c h n.bytes hc hfit (by omega)
    refine ⟨udpBytes c h n.bytes ++ n.bytes, ?_, ?_⟩
    · simp [packF, hrest, this, bind, Except.bind, pure, Except.pure]
    · show _ ≤ r.length; simp [udpBytes_length]; omega
  | tcp h r n ih =>
    intro l4 ctx g hlen hfo hctx
    obtain ⟨hl4, hfit, hok, hopt, hoff, hleaf, hd, h1, h2⟩ := g
    obtain ⟨c, rfl, hc⟩ := hctx hl4
    have hrest := pack_leaf n none hleaf (by simpa [Frame.hasForeign] using hfo)
    have hrl : h.off * 4 + n.bytes.length = r.length := by rw [h2]; simp; omega
    have hlen' : r.length < 65536 := hlen
    have hpad := optsPadded_le h.opts h.off hopt
    have := tcpHdr_ok c h (optsPadded h.opts) n.bytes hc hfit (tcpOptsPadded_ok h.opts hok) (by omega) (by omega)
    refine ⟨tcpBytes c h (optsPadded h.opts) n.bytes ++ n.bytes, ?_, ?_⟩
    · simp [packF, hrest, this, bind, Except.bind, pure, Except.pure]
    · show _ ≤ r.length; simp [tcpBytes_length]; omega
  | icmp h r n ih =>
    intro l4 ctx g hlen hfo hctx
    obtain ⟨_, hfit, ⟨hd, h1, h2⟩, g'⟩ := g
    have hrl : 4 + n.bytes.length = r.length := by rw [h2]; simp; omega
    have hlen' : r.length < 65536 := hlen
    obtain ⟨rest, hrest, hle⟩ := ih false none g' (by omega) (by simpa [Frame.hasForeign] using hfo) (by simp)
    have := icmpHdr_ok h rest hfit (by omega)
    refine ⟨icmpBytes h rest ++ rest, ?_, ?_⟩
    · simp [packF, hrest, this, bind, Except.bind, pure, Except.pure]
    · show _ ≤ r.length; simp [icmpBytes, icmpPre, be16]; omega
  | echo h r n ih =>
    intro l4 ctx g hlen hfo hctx
    obtain ⟨hfit, hleaf, hd, h1, h2⟩ := g
    have hrest := pack_leaf n none hleaf (by simpa [Frame.hasForeign] using hfo)
    have hrl : 4 + n.bytes.length = r.length := by rw [h2]; simp; omega
    refine ⟨echoBytes h ++ n.bytes, ?_, ?_⟩
    · simp [packF, hrest, echoHdr_ok h hfit, bind, Except.bind, pure, Except.pure]
    · show _ ≤ r.length; simp [echoBytes, be16]; omega
  | unreach h r n ih =>
    intro l4 ctx g hlen hfo hctx
    obtain ⟨hfit, ⟨hd, h1, h2⟩, g'⟩ := g
    have hrl : 4 + n.bytes.length = r.length := by rw [h2]; simp; omega
    have hlen' : r.length < 65536 := hlen
    obtain ⟨rest, hrest, hle⟩ := ih false none g' (by omega) (by simpa [Frame.hasForeign] using hfo) (by simp)
    refine ⟨unreachBytes h ++ rest, ?_, ?_⟩
    · simp [packF, hrest, unreachHdr_ok h hfit, bind, Except.bind, pure, Except.pure]
    · show _ ≤ r.length; simp [unreachBytes, be16]; omega
  | timeEx h r n ih =>
    intro l4 ctx g hlen hfo hctx
    obtain ⟨hfit, ⟨hd, h1, h2⟩, g'⟩ := g
    have hrl : 4 + n.bytes.length = r.length := by rw [h2]; simp; omega
    have hlen' : r.length < 65536 := hlen
    obtain ⟨rest, hrest, hle⟩ := ih false none g' (by omega) (by simpa [Frame.hasForeign] using hfo) (by simp)
    refine ⟨timeExBytes h ++ rest, ?_, ?_⟩
    · simp [packF, hrest, timeExHdr_ok h hfit, bind, Except.bind, pure, Except.pure]
    · show _ ≤ r.length; simp [timeExBytes]; omega
  | ipv4 h r n ih =>
    intro l4 ctx g _ hfo _
    obtain ⟨hfit, hip, ⟨hd, cut, h1, h2, h3⟩, g'⟩ := g
    obtain ⟨rest, hrest, hle⟩ := ih true (some ⟨h.src, h.dst, h.proto⟩) g' (by omega)
      (by simpa [Frame.hasForeign] using hfo) (fun _ => ⟨_, rfl, ⟨hfit.src, hfit.dst, hfit.proto⟩⟩)
    have hrl : h.hl * 4 + n.bytes.length ≤ r.length := by rw [h2]; simp; omega
    refine ⟨_, packF_ipv4 ctx h r n rest hrest hfit (by omega), ?_⟩
    show _ ≤ r.length; simp [ipv4Bytes_length h _ hfit]; omega

theorem llcHdr_ok (h : Llc) (hf : LlcFits h) : ∃ b, llcHdr h = .ok b := by
  obtain ⟨d, s, c, hd, hs, hc, d1, s1, c1, c2, hou⟩ := hf
  obtain ⟨a, ha, _⟩ := pk_ok [.uint 1, .uint 1] [.num d, .num s] (by simp [fits]; exact ⟨d1, s1⟩)
  unfold llcHdr
  simp only [hd, hs, hc]
  by_cases h38 : h.length = 3 ∨ h.length = 8
  · obtain ⟨cb, hcb, _⟩ := pk_ok [.uint 1] [.num c] (by simp [fits]; exact c2 h38)
    rcases hou with ⟨ho, _⟩ | ⟨o, ho, _, het, _⟩
    · simp [ho, ha, hcb, h38, bind, Except.bind, pure, Except.pure]
    · obtain ⟨t, ht, _⟩ := pk_ok [.uint 2] [.num h.ethType] (by simp [fits]; exact het)
      simp [ho, ha, hcb, ht, h38, bind, Except.bind, pure, Except.pure]
  · obtain ⟨cb, hcb, _⟩ := pk_ok [.uint 1, .uint 1] [.num (c % 256), .num ((c / 256) % 256)] (by simp [fits]; omega)
    rcases hou with ⟨ho, _⟩ | ⟨o, ho, _, het, _⟩
    · simp [ho, ha, hcb, h38, bind, Except.bind, pure, Except.pure]
    · obtain ⟨t, ht, _⟩ := pk_ok [.uint 2] [.num h.ethType] (by simp [fits]; exact het)
      simp [ho, ha, hcb, ht, h38, bind, Except.bind, pure, Except.pure]

theorem Tlv.type_lt (t : Tlv) (h : t.Fits) : t.type < 128 := by
  cases t <;> simp_all [Tlv.type, Tlv.Fits]

theorem tlvData_ok (t : Tlv) (h : t.Fits) : ∃ d, tlvData t = .ok d := by
  cases t with
  | chassis st id =>
    obtain ⟨a, ha, _⟩ := pk_ok [.uint 1] [.num st] (by simp [fits]; exact h)
    exact ⟨a ++ id, by simp [tlvData, ha, bind, Except.bind, pure, Except.pure]⟩
  | port st id =>
    obtain ⟨a, ha, _⟩ := pk_ok [.uint 1] [.num st] (by simp [fits]; exact h)
    exact ⟨a ++ id, by simp [tlvData, ha, bind, Except.bind, pure, Except.pure]⟩
  | ttl v =>
    obtain ⟨a, ha, _⟩ := pk_ok [.uint 2] [.num v] (by simp [fits]; exact h)
    exact ⟨a, by simp [tlvData, ha]⟩
  | endT => exact ⟨[], rfl⟩
  | caps c e =>
    obtain ⟨a, ha, _⟩ := pk_ok [.uint 2, .uint 2] [.num c, .num e] (by simp [fits]; exact h)
    exact ⟨a, by simp [tlvData, ha]⟩
  | mgmt ast addr ins ifn oid =>
    obtain ⟨h1, h2, h3, h4, h5⟩ := h
    obtain ⟨a, ha, _⟩ := pk_ok [.uint 1, .uint 1] [.num (addr.length + 1), .num ast] (by simp [fits]; exact ⟨h2, h1⟩)
    obtain ⟨b, hb, _⟩ := pk_ok [.uint 1, .uint 4, .uint 1] [.num ins, .num ifn, .num oid.length] (by simp [fits]; exact ⟨h3, h4, h5⟩)
    exact ⟨a ++ addr ++ b ++ oid, by simp [tlvData, ha, hb, bind, Except.bind, pure, Except.pure]⟩
  | org oui st payload =>
    obtain ⟨a, ha, _⟩ := pk_ok [.blob 3, .uint 1] [.raw oui, .num st] (by simp [fits]; exact h)
    exact ⟨a ++ payload, by simp [tlvData, ha, bind, Except.bind, pure, Except.pure]⟩
  | simple t payload => exact ⟨payload, rfl⟩

theorem tlvPack_ok (t : Tlv) (h : t.Fits) : ∃ b, tlvPack t = .ok b := by
  obtain ⟨data, hd⟩ := tlvData_ok t h
  have h1 : data.length % 512 < 2 ^ 9 := by omega
  have := Tlv.type_lt t h
  obtain ⟨hb, hhb, _⟩ := pk_ok [.uint 2] [.num ((t.type <<< 9) ||| (data.length % 512))]
    (by simp [fits]; rw [shl_or _ _ 9 h1]; omega)
  exact ⟨hb ++ data, by simp only [tlvPack, hd, hhb, bind, Except.bind, pure, Except.pure]⟩

theorem tlvsPack_ok (ts : List Tlv) (h : ∀ t ∈ ts, t.Fits) : ∃ b, tlvsPack ts = .ok b := by
  induction ts with
  | nil => exact ⟨[], rfl⟩
  | cons t r ih =>
    obtain ⟨a, ha⟩ := tlvPack_ok t (h t (by simp))
    obtain ⟨b, hb⟩ := ih (fun x hx => h x (by simp [hx]))
    exact ⟨a ++ b, by simp [tlvsPack, ha, hb, bind, Except.bind, pure, Except.pure]⟩

/-- at frame level: `pack()` of a parse result without foreign layers is defined -/
theorem packTop : ∀ (f : Frame), Good f → f.hasForeign = false → ∃ out, packF none f = .ok out := by
  intro f
  induction f with
  | raw b => intro _ _; exact ⟨b, rfl⟩
  | nil => intro _ _; exact ⟨[], rfl⟩
  | unparsed c r => intro _ _; exact ⟨r, rfl⟩
  | foreign c r => intro _ hf; simp [Frame.hasForeign] at hf
  | ext x r n ih => intro _ hf; simp [Frame.hasForeign] at hf
  | udp _ _ _ _ | tcp _ _ _ _ | icmp _ _ _ _ | echo _ _ _ _ | unreach _ _ _ _ | timeEx _ _ _ _ => intro g; simp [Good] at g
  | eth h r n ih =>
    intro g hfo
    obtain ⟨hfit, _, g'⟩ := g
    obtain ⟨rest, hrest⟩ := ih g' (by simpa [Frame.hasForeign] using hfo)
    exact ⟨ethBytes h ++ rest, by simp [packF, hrest, ethHdr_ok h hfit, bind, Except.bind, pure, Except.pure]⟩
  | vlan h r n ih =>
    intro g hfo
    obtain ⟨hfit, _, g'⟩ := g
    obtain ⟨rest, hrest⟩ := ih g' (by simpa [Frame.hasForeign] using hfo)
    exact ⟨vlanBytes h ++ rest, by simp [packF, hrest, vlanHdr_ok h hfit, bind, Except.bind, pure, Except.pure]⟩
  | llc h p r n ih =>
    intro g hfo
    obtain ⟨g1, g2, g'⟩ := g
    cases p with
    | false => exact ⟨r, by simp [packF, pure, Except.pure]⟩
    | true =>
      obtain ⟨rest, hrest⟩ := ih g' (by simpa [Frame.hasForeign] using hfo)
      obtain ⟨hb, hhb⟩ := llcHdr_ok h (g1 rfl).1
      exact ⟨hb ++ rest, by simp [packF, hrest, hhb, bind, Except.bind, pure, Except.pure]⟩
  | arp h r n ih =>
    intro g hfo
    obtain ⟨hfit, hleaf, _⟩ := g
    have hrest := pack_leaf n none hleaf (by simpa [Frame.hasForeign] using hfo)
    obtain ⟨bs, he⟩ := encode_some_of_fits arpL (arpVals h) (arp_fits h hfit)
    have : arpHdr h = .ok bs := pk_of_encode he
    exact ⟨bs ++ n.bytes, by simp [packF, hrest, this, bind, Except.bind, pure, Except.pure]⟩
  | lldp ts p r =>
    intro g _
    cases p with
    | false => exact ⟨r, by simp [packF, pure, Except.pure]⟩
    | true =>
      obtain ⟨b, hb⟩ := tlvsPack_ok ts g
      exact ⟨b, by simp [packF, hb]⟩
  | ipv4 h r n ih =>
    intro g hfo
    obtain ⟨hfit, hip, ⟨hd, cut, h1, h2, h3⟩, g'⟩ := g
    obtain ⟨rest, hrest, hle⟩ := packIn n true (some ⟨h.src, h.dst, h.proto⟩) g' (by omega)
      (by simpa [Frame.hasForeign] using hfo) (fun _ => ⟨_, rfl, ⟨hfit.src, hfit.dst, hfit.proto⟩⟩)
    exact ⟨_, packF_ipv4 none h r n rest hrest hfit (by omega)⟩

/-! ### `pack()` of the phase-2 classes in the pack model (mpls, eapol, eap) -/

theorem mplsHdrX_ok (h : Mpls) : ∃ b, mplsHdrX h = .ok b := by
  unfold mplsHdrX
  obtain ⟨b, hb, _⟩ := pk_ok [.uint 2, .uint 1, .uint 1]
    [.num (h.label % 1048576 / 16), .num (h.label % 1048576 % 16 * 16 + h.tc % 8 * 2 + h.s % 2), .num (h.ttl % 256)]
    (by simp [fits]; omega)
  exact ⟨b, hb⟩

theorem eapolHdrX_ok (h : Eapol) (h1 : h.version < 256) (h2 : h.type < 256) (h3 : h.bodylen < 65536) : ∃ b, eapolHdrX h = .ok b := by
  obtain ⟨b, hb, _⟩ := pk_ok [.uint 1, .uint 1, .uint 2] [.num h.version, .num h.type, .num h.bodylen] (by simp [fits]; omega)
  exact ⟨b, hb⟩

theorem eapHdrX_ok (h : Eap) (h1 : h.code < 256) (h2 : h.id < 256) (h3 : h.length < 65536) : ∃ b, eapHdrX h = .ok b := by
  obtain ⟨b, hb, _⟩ := pk_ok [.uint 1, .uint 1, .uint 2] [.num h.code, .num h.id, .num h.length] (by simp [fits]; omega)
  exact ⟨b, hb⟩

/-- a chain of phase-2 objects of the classes in the pack model, ending in bytes / nothing / an object that gave up, packs -/
theorem packX : ∀ (f : Frame), f.Tiles → (f.isLeaf = true ∨ f.isExt = true) → f.packModelled = true → ∃ out, packF none f = .ok out := by
  intro f
  induction f with
  | raw b => intro _ _ _; exact ⟨b, rfl⟩
  | nil => intro _ _ _; exact ⟨[], rfl⟩
  | unparsed c r => intro _ _ _; exact ⟨r, rfl⟩
  | foreign c r => intro _ _ hp; simp [Frame.packModelled] at hp
  | eth _ _ _ _ | vlan _ _ _ _ | llc _ _ _ _ _ | arp _ _ _ _ | ipv4 _ _ _ _ | udp _ _ _ _ | tcp _ _ _ _ | icmp _ _ _ _ | echo _ _ _ _
  | unreach _ _ _ _ | timeEx _ _ _ _ | lldp _ _ _ => intro _ hl _; simp [Frame.isLeaf, Frame.isExt] at hl
  | ext x r n ih =>
    intro ht _ hp
    obtain ⟨_, hx, hn⟩ := ht
    simp only [Frame.packModelled, Bool.and_eq_true] at hp
    obtain ⟨hpk, hpn⟩ := hp
    cases x with
    | mpls h =>
      obtain ⟨rest, hrest⟩ := ih hn hx hpn
      obtain ⟨hd, hhd⟩ := mplsHdrX_ok h
      exact ⟨hd ++ rest, by simp [packF, hrest, hhd, bind, Except.bind, pure, Except.pure]⟩
    | eapol h =>
      obtain ⟨h1, h2, h3, hl⟩ := hx
      obtain ⟨rest, hrest⟩ := ih hn hl hpn
      obtain ⟨hd, hhd⟩ := eapolHdrX_ok h h1 h2 h3
      exact ⟨hd ++ rest, by simp [packF, hrest, hhd, bind, Except.bind, pure, Except.pure]⟩
    | eap h =>
      obtain ⟨h1, h2, h3, hl⟩ := hx
      obtain ⟨rest, hrest⟩ := ih hn hl hpn
      obtain ⟨hd, hhd⟩ := eapHdrX_ok h h1 h2 h3
      exact ⟨hd ++ rest, by simp [packF, hrest, hhd, bind, Except.bind, pure, Except.pure]⟩
    | _ => simp [Ext.packs] at hpk

/-- `pack()` at frame level, the phase-2 classes of the pack model included -/
theorem packTop2 : ∀ (f : Frame), Good f → f.packModelled = true → ∃ out, packF none f = .ok out := by
  intro f
  induction f with
  | ext x r n _ => intro g hp; exact packX _ g (.inr rfl) hp
  | eth h r n ih =>
    intro g hp
    obtain ⟨hfit, _, g'⟩ := g
    obtain ⟨rest, hrest⟩ := ih g' (by simpa [Frame.packModelled] using hp)
    exact ⟨ethBytes h ++ rest, by simp [packF, hrest, ethHdr_ok h hfit, bind, Except.bind, pure, Except.pure]⟩
  | vlan h r n ih =>
    intro g hp
    obtain ⟨hfit, _, g'⟩ := g
    obtain ⟨rest, hrest⟩ := ih g' (by simpa [Frame.packModelled] using hp)
    exact ⟨vlanBytes h ++ rest, by simp [packF, hrest, vlanHdr_ok h hfit, bind, Except.bind, pure, Except.pure]⟩
  | llc h p r n ih =>
    intro g hp
    obtain ⟨g1, g2, g'⟩ := g
    cases p with
    | false => exact ⟨r, by simp [packF, pure, Except.pure]⟩
    | true =>
      obtain ⟨rest, hrest⟩ := ih g' (by simpa [Frame.packModelled] using hp)
      obtain ⟨hb, hhb⟩ := llcHdr_ok h (g1 rfl).1
      exact ⟨hb ++ rest, by simp [packF, hrest, hhb, bind, Except.bind, pure, Except.pure]⟩
  | foreign c r => intro _ hp; simp [Frame.packModelled] at hp
  | raw _ | nil | unparsed _ _ | arp _ _ _ _ | ipv4 _ _ _ _ | lldp _ _ _ | udp _ _ _ _ | tcp _ _ _ _ | icmp _ _ _ _ | echo _ _ _ _
  | unreach _ _ _ _ | timeEx _ _ _ _ =>
    intro g hp
    exact packTop _ g (by simpa [Frame.packModelled] using hp)

/-! ## relation to the total parser of C14 (`Packet.parse`, Model/PacketHdr.lean)

Whenever the exception-aware parser returns, the C14 parser — which turns every would-be exception into "unparsed" — returns
the same chain (LLC / LLDP objects and foreign layers being what C14 calls `unmodelled`).  Stated for the versions of the code
with repair C15-4 (committed), the TCP-option bound the C14 model has as well. -/

/-- the nested constructor calls agree -/
structure Rel (next : K → Bytes → P Frame) (nextC : Kind → Bytes → Pkt) : Prop where
  same : ∀ k kc b g, k.toKind = some kc → next k b = .ok g → g.toPkt = nextC kc b
  llc : ∀ b g, next .llc b = .ok g → g.toPkt = .unmodelled "llc" b
  lldp : ∀ b g, next .lldp b = .ok g → g.toPkt = .unmodelled "lldp" b

theorem parseNext_ref (cfg : Cfg) (hx : cfg.ext = false) (next : K → Bytes → P Frame) (nextC : Kind → Bytes → Pkt) (hr : Rel next nextC) (t : Nat) (rest : Bytes)
    (allow : Bool) (g : Frame) (h : parseNext cfg false next t rest allow = .ok g) : g.toPkt = Packet.parseNext nextC t rest allow := by
  unfold parseNext at h
  unfold Packet.parseNext
  by_cases c1 : t = 0x8100
  · rw [if_pos c1] at h ⊢; exact hr.same _ _ _ _ rfl h
  rw [if_neg c1] at h ⊢
  by_cases c2 : t = 0x0806 ∨ t = 0x8035
  · rw [if_pos c2] at h ⊢; exact hr.same _ _ _ _ rfl h
  rw [if_neg c2] at h ⊢
  by_cases c3 : t = 0x0800
  · rw [if_pos c3] at h ⊢; exact hr.same _ _ _ _ rfl h
  rw [if_neg c3] at h ⊢
  by_cases c4 : t = 0x86dd
  · rw [if_pos c4] at h ⊢; simp [hx, pure, Except.pure] at h; subst h; rfl
  rw [if_neg c4] at h ⊢
  by_cases c5 : t = 0x88cc
  · rw [if_pos c5] at h ⊢; exact hr.lldp _ _ h
  rw [if_neg c5] at h ⊢
  by_cases c6 : t = 0x888e
  · rw [if_pos c6] at h ⊢; simp [hx, pure, Except.pure] at h; subst h; rfl
  rw [if_neg c6] at h ⊢
  by_cases c7 : t = 0x8847 ∨ t = 0x8848
  · rw [if_pos c7] at h ⊢; simp [hx, pure, Except.pure] at h; subst h; rfl
  rw [if_neg c7] at h ⊢
  by_cases c8 : t < 1536 ∧ allow = true
  · rw [if_pos c8] at h ⊢; exact hr.llc _ _ h
  rw [if_neg c8] at h ⊢
  simp [pure, Except.pure] at h; subst h; rfl

theorem ethParse_ref (cfg : Cfg) (hx : cfg.ext = false) (next : K → Bytes → P Frame) (nextC : Kind → Bytes → Pkt) (hr : Rel next nextC) (raw : Bytes) (f : Frame)
    (h : ethParse cfg false next raw = .ok f) : f.toPkt = Packet.ethParse nextC raw := by
  unfold ethParse at h
  unfold Packet.ethParse
  by_cases c : raw.length < 14
  · rw [if_pos c] at h ⊢; simp [pure, Except.pure] at h; subst h; rfl
  rw [if_neg c] at h ⊢
  obtain ⟨dst, src, t, hu, hu', _⟩ := eth_shape (raw.take 14) (take_len raw 14 (by omega))
  simp only [hu] at h
  simp only [hu']
  cases hn : parseNext cfg false next t (raw.drop 14) with
  | error e => simp [hn] at h
  | ok n =>
    simp [hn, pure, Except.pure] at h
    subst h
    simp [Frame.toPkt, parseNext_ref cfg hx next nextC hr _ _ _ _ hn]

theorem vlanParse_ref (cfg : Cfg) (hx : cfg.ext = false) (next : K → Bytes → P Frame) (nextC : Kind → Bytes → Pkt) (hr : Rel next nextC) (raw : Bytes) (f : Frame)
    (h : vlanParse cfg false next raw = .ok f) : f.toPkt = Packet.vlanParse nextC raw := by
  unfold vlanParse at h
  unfold Packet.vlanParse
  by_cases c : raw.length < 4
  · rw [if_pos c] at h ⊢; simp [pure, Except.pure] at h; subst h; rfl
  rw [if_neg c] at h ⊢
  obtain ⟨x, y, hu, hu', _⟩ := nums2_shape vlanL 2 2 rfl (raw.take 4) (take_len raw 4 (by omega))
  simp only [hu] at h
  simp only [hu']
  cases hn : parseNext cfg false next y (raw.drop 4) with
  | error e => simp [hn] at h
  | ok n =>
    simp [hn, pure, Except.pure] at h
    subst h
    simp [Frame.toPkt, parseNext_ref cfg hx next nextC hr _ _ _ _ hn]

theorem arpParse_ref (raw : Bytes) (f : Frame) (h : arpParse raw = .ok f) : f.toPkt = Packet.arpParse raw := by
  unfold arpParse at h
  unfold Packet.arpParse
  by_cases c : raw.length < 28
  · rw [if_pos c] at h ⊢; simp [pure, Except.pure] at h; subst h; rfl
  rw [if_neg c] at h ⊢
  obtain ⟨a1, a2, a3, a4, a5, a6, a7, a8, a9, hu, hu', _⟩ := arp_shape (raw.take 28) (take_len raw 28 (by omega))
  simp only [hu] at h
  simp only [hu']
  repeat' split at h
  all_goals (simp [pure, Except.pure] at h; subst h; simp_all [Frame.toPkt])

theorem echoParse_ref (raw : Bytes) (f : Frame) (h : echoParse raw = .ok f) : f.toPkt = Packet.echoParse raw := by
  unfold echoParse at h
  unfold Packet.echoParse
  by_cases c : raw.length < 4
  · rw [if_pos c] at h ⊢; simp [pure, Except.pure] at h; subst h; rfl
  rw [if_neg c] at h ⊢
  obtain ⟨x, y, hu, hu', _⟩ := nums2_shape echoL 2 2 rfl (raw.take 4) (take_len raw 4 (by omega))
  simp only [hu] at h
  simp only [hu']
  simp [pure, Except.pure] at h; subst h; rfl

theorem udpParse_ref (cfg : Cfg) (hx : cfg.ext = false) (next : K → Bytes → P Frame) (raw : Bytes) (f : Frame)
    (h : udpParse cfg next raw = .ok f) : f.toPkt = Packet.udpParse raw := by
  unfold udpParse at h
  unfold Packet.udpParse
  simp only [udpPayload, hx, Bool.false_eq_true, if_false] at h
  dsimp only at h ⊢
  by_cases c : raw.length < 8
  · rw [if_pos c] at h ⊢; simp [pure, Except.pure] at h; subst h; rfl
  rw [if_neg c] at h ⊢
  obtain ⟨sp, dp, l, cs, hu, hu', _⟩ := udp_shape (raw.take 8) (take_len raw 8 (by omega))
  simp only [hu] at h
  simp only [hu']
  by_cases c1 : l < 8
  · rw [if_pos c1] at h ⊢; simp [pure, Except.pure] at h; subst h; rfl
  rw [if_neg c1] at h ⊢
  by_cases c2 : dp = 67 ∨ dp = 68
  · rw [if_pos c2] at h ⊢; simp [pure, Except.pure] at h; subst h; rfl
  rw [if_neg c2] at h ⊢
  by_cases c3 : dp = 53 ∨ sp = 53
  · rw [if_pos c3] at h ⊢; simp [pure, Except.pure] at h; subst h; rfl
  rw [if_neg c3] at h ⊢
  by_cases c4 : dp = 5353 ∨ sp = 5353
  · rw [if_pos c4] at h ⊢; simp [pure, Except.pure] at h; subst h; rfl
  rw [if_neg c4] at h ⊢
  by_cases c5 : dp = 520 ∨ sp = 520
  · rw [if_pos c5] at h ⊢; simp [pure, Except.pure] at h; subst h; rfl
  rw [if_neg c5] at h ⊢
  by_cases c6 : dp = 4789 ∨ sp = 4789
  · rw [if_pos c6] at h ⊢; simp [pure, Except.pure] at h; subst h; rfl
  rw [if_neg c6] at h ⊢
  by_cases c7 : raw.length < l
  · rw [if_pos c7] at h ⊢; simp [pure, Except.pure] at h; subst h; rfl
  · rw [if_neg c7] at h ⊢; simp [pure, Except.pure] at h; subst h; rfl

theorem quoteDispatch_ref (next : K → Bytes → P Frame) (nextC : Kind → Bytes → Pkt) (hr : Rel next nextC) (raw : Bytes) (g : Frame)
    (h : quoteDispatch next raw = .ok g) : g.toPkt = Packet.quoteDispatch nextC raw := by
  unfold quoteDispatch at h
  unfold Packet.quoteDispatch
  by_cases c : raw.length ≥ 28
  · rw [if_pos c] at h ⊢; exact hr.same _ _ _ _ rfl h
  · rw [if_neg c] at h ⊢; simp [pure, Except.pure] at h; subst h; rfl

theorem unreachParse_ref (next : K → Bytes → P Frame) (nextC : Kind → Bytes → Pkt) (hr : Rel next nextC) (raw : Bytes) (f : Frame)
    (h : unreachParse next raw = .ok f) : f.toPkt = Packet.unreachParse nextC raw := by
  unfold unreachParse at h
  unfold Packet.unreachParse
  by_cases c : raw.length < 4
  · rw [if_pos c] at h ⊢; simp [pure, Except.pure] at h; subst h; rfl
  rw [if_neg c] at h ⊢
  obtain ⟨x, y, hu, hu', _⟩ := nums2_shape unreachL 2 2 rfl (raw.take 4) (take_len raw 4 (by omega))
  simp only [hu] at h
  simp only [hu']
  cases hn : quoteDispatch next raw with
  | error e => simp [hn] at h
  | ok n =>
    simp [hn, pure, Except.pure] at h
    subst h
    simp [Frame.toPkt, quoteDispatch_ref next nextC hr _ _ hn]

theorem timeExParse_ref (next : K → Bytes → P Frame) (nextC : Kind → Bytes → Pkt) (hr : Rel next nextC) (raw : Bytes) (f : Frame)
    (h : timeExParse next raw = .ok f) : f.toPkt = Packet.timeExParse nextC raw := by
  unfold timeExParse at h
  unfold Packet.timeExParse
  by_cases c : raw.length < 4
  · rw [if_pos c] at h ⊢; simp [pure, Except.pure] at h; subst h; rfl
  rw [if_neg c] at h ⊢
  obtain ⟨x, hu, hu', _⟩ := num1_shape 4 (raw.take 4) (take_len raw 4 (by omega))
  have hu1 : unpackE timeExL (raw.take 4) = .ok [.num x] := hu
  have hu2 : unpack timeExL (raw.take 4) = some [.num x] := hu'
  simp only [hu1] at h
  simp only [hu2]
  cases hn : quoteDispatch next raw with
  | error e => simp [hn] at h
  | ok n =>
    simp [hn, pure, Except.pure] at h
    subst h
    simp [Frame.toPkt, quoteDispatch_ref next nextC hr _ _ hn]

theorem icmpParse_ref (next : K → Bytes → P Frame) (nextC : Kind → Bytes → Pkt) (hr : Rel next nextC) (raw : Bytes) (f : Frame)
    (h : icmpParse next raw = .ok f) : f.toPkt = Packet.icmpParse nextC raw := by
  unfold icmpParse at h
  unfold Packet.icmpParse Packet.icmpDispatch
  by_cases c : raw.length < 4
  · rw [if_pos c] at h ⊢; simp [pure, Except.pure] at h; subst h; rfl
  rw [if_neg c] at h ⊢
  obtain ⟨t, cd, s, hu, hu', _⟩ := icmp_shape (raw.take 4) (take_len raw 4 (by omega))
  simp only [hu] at h
  simp only [hu']
  by_cases c1 : t = 8 ∨ t = 0
  · rw [if_pos c1] at h ⊢
    cases hn : next .echo (raw.drop 4) with
    | error e => simp [hn] at h
    | ok n => simp [hn, pure, Except.pure] at h; subst h; simp [Frame.toPkt, hr.same _ _ _ _ rfl hn]
  rw [if_neg c1] at h ⊢
  by_cases c2 : t = 3
  · rw [if_pos c2] at h ⊢
    cases hn : next .unreach (raw.drop 4) with
    | error e => simp [hn] at h
    | ok n => simp [hn, pure, Except.pure] at h; subst h; simp [Frame.toPkt, hr.same _ _ _ _ rfl hn]
  rw [if_neg c2] at h ⊢
  by_cases c3 : t = 11
  · rw [if_pos c3] at h ⊢
    cases hn : next .timeEx (raw.drop 4) with
    | error e => simp [hn] at h
    | ok n => simp [hn, pure, Except.pure] at h; subst h; simp [Frame.toPkt, hr.same _ _ _ _ rfl hn]
  rw [if_neg c3] at h ⊢
  simp [pure, Except.pure] at h; subst h; rfl

theorem isUnparsed_toPkt (g : Frame) : Packet.isUnparsed g.toPkt = isUnparsed g := by
  cases g with
  | udp h r n => cases n <;> rfl
  | _ => rfl

theorem ipv4Dispatch_ref (cfg : Cfg) (hx : cfg.ext = false) (next : K → Bytes → P Frame) (nextC : Kind → Bytes → Pkt) (hr : Rel next nextC) (frag proto : Nat)
    (body : Bytes) (short : Bool) (g : Frame) (h : ipv4Dispatch cfg false next frag proto body short = .ok g) :
    g.toPkt = Packet.ipv4Dispatch nextC frag proto body short := by
  unfold ipv4Dispatch at h
  simp only [hx, Bool.false_eq_true, false_and, or_false] at h
  unfold Packet.ipv4Dispatch
  by_cases c0 : frag ≠ 0
  · rw [if_pos c0] at h; simp [pure, Except.pure] at h; subst h; simp [c0, Frame.toPkt, Packet.isUnparsed]
  rw [if_neg c0] at h
  simp only [c0, if_false]
  have fin : ∀ (k : K) (kc : Kind) (nx : Frame), k.toKind = some kc → next k body = .ok nx →
      (if isUnparsed nx = true then Frame.raw body else nx).toPkt
        = if Packet.isUnparsed (nextC kc body) = true then Pkt.raw body else nextC kc body := by
    intro k kc nx hk hn
    have e := hr.same _ _ _ _ hk hn
    rw [← e, isUnparsed_toPkt]
    by_cases hu : isUnparsed nx = true <;> simp [hu, Frame.toPkt]
  by_cases c17 : proto = 17
  · subst c17
    cases hn : next .udp body with
    | error e => simp [hn] at h
    | ok nx => simp [hn, pure, Except.pure] at h; subst h; simpa using fin .udp .udp nx rfl hn
  by_cases c6 : proto = 6
  · subst c6
    cases hn : next .tcp body with
    | error e => simp [hn] at h
    | ok nx => simp [hn, pure, Except.pure] at h; subst h; simpa using fin .tcp .tcp nx rfl hn
  by_cases c1 : proto = 1
  · subst c1
    cases hn : next .icmp body with
    | error e => simp [hn] at h
    | ok nx => simp [hn, pure, Except.pure] at h; subst h; simpa using fin .icmp .icmp nx rfl hn
  have hno : ¬ (proto = 17 ∨ proto = 6 ∨ proto = 1) := by omega
  rw [if_neg hno] at h
  simp only [c17, c6, c1, if_false]
  by_cases c2 : proto = 2
  · rw [if_pos c2] at h ⊢; simp [pure, Except.pure] at h; subst h; simp [Frame.toPkt, Packet.isUnparsed]
  rw [if_neg c2] at h ⊢
  by_cases c47 : proto = 47
  · rw [if_pos c47] at h ⊢; simp [pure, Except.pure] at h; subst h; simp [Frame.toPkt, Packet.isUnparsed]
  rw [if_neg c47] at h ⊢
  by_cases cs : short = true
  · rw [if_pos cs] at h ⊢; simp [pure, Except.pure] at h; subst h; simp [Frame.toPkt, Packet.isUnparsed]
  · rw [if_neg cs] at h ⊢; simp [pure, Except.pure] at h; subst h; simp [Frame.toPkt, Packet.isUnparsed]

theorem ipv4Parse_ref (cfg : Cfg) (hx : cfg.ext = false) (next : K → Bytes → P Frame) (nextC : Kind → Bytes → Pkt) (hr : Rel next nextC) (raw : Bytes) (f : Frame)
    (h : ipv4Parse cfg false next raw = .ok f) : f.toPkt = Packet.ipv4Parse nextC raw := by
  unfold ipv4Parse at h
  unfold Packet.ipv4Parse
  dsimp only at h ⊢
  by_cases c : raw.length < 20
  · rw [if_pos c] at h ⊢; simp [pure, Except.pure] at h; subst h; rfl
  rw [if_neg c] at h ⊢
  obtain ⟨vhl, tos, iplen, id, ff, ttl, proto, csum, src, dst, hu, hu', _⟩ :=
    ipv4_shape (raw.take 20) (take_len raw 20 (by omega))
  simp only [hu] at h
  simp only [hu']
  by_cases c1 : vhl / 16 ≠ 4
  · rw [if_pos c1] at h ⊢; simp [pure, Except.pure] at h; subst h; rfl
  rw [if_neg c1] at h ⊢
  by_cases c2 : vhl % 16 < 5
  · rw [if_pos c2] at h ⊢; simp [pure, Except.pure] at h; subst h; rfl
  rw [if_neg c2] at h ⊢
  by_cases c3 : iplen < 20
  · rw [if_pos c3] at h ⊢; simp [pure, Except.pure] at h; subst h; rfl
  rw [if_neg c3] at h ⊢
  by_cases c4 : vhl % 16 * 4 > iplen
  · rw [if_pos c4] at h ⊢; simp [pure, Except.pure] at h; subst h; rfl
  rw [if_neg c4] at h ⊢
  by_cases c5 : vhl % 16 * 4 > raw.length
  · rw [if_pos c5] at h ⊢; simp [pure, Except.pure] at h; subst h; rfl
  rw [if_neg c5] at h ⊢
  cases hn : ipv4Dispatch cfg false next (ff % 8192) proto (sl raw (vhl % 16 * 4) (if iplen > raw.length then raw.length else iplen))
      (decide (raw.length < iplen)) with
  | error e => simp [hn] at h
  | ok n =>
    simp [hn, pure, Except.pure] at h
    subst h
    simp [Frame.toPkt, ipv4Dispatch_ref cfg hx next nextC hr _ _ _ _ _ hn]

theorem tcpParseOptsB_hdr (arr : Bytes) (hdrLen : Nat) : ∀ (fuel i : Nat),
    tcpParseOptsB fuel arr hdrLen hdrLen i = tcpParseOpts fuel arr hdrLen i := by
  intro fuel
  induction fuel with
  | zero => intro i; rfl
  | succ fuel ih =>
    intro i
    have ih' : (fun j => tcpParseOptsB fuel arr hdrLen hdrLen j) = fun j => tcpParseOpts fuel arr hdrLen j := funext ih
    simp only [tcpParseOptsB, tcpParseOpts]
    by_cases c : i < hdrLen
    · simp only [if_pos c]
      cases getU8 arr i with
      | none => rfl
      | some t =>
        dsimp only
        by_cases t0 : t = 0
        · simp only [if_pos t0]
        simp only [if_neg t0]
        by_cases t1 : t = 1
        · simp only [if_pos t1, ih]
        simp only [if_neg t1]
        by_cases c2 : i + 2 > arr.length
        · simp only [if_pos c2]
        simp only [if_neg c2]
        cases getU8 arr (i + 1) with
        | none => rfl
        | some length =>
          dsimp only
          by_cases c3 : i + length > hdrLen
          · simp only [if_pos c3]
          simp only [if_neg c3]
          by_cases c4 : length < 2
          · simp only [if_pos c4]
          simp only [if_neg c4]
          by_cases c5 : t = 30
          · simp only [if_pos c5]
          simp only [if_neg c5]
          cases tcpOptUnpack arr i t length with
          | none => rfl
          | some p => obtain ⟨i', o⟩ := p; simp only [ih]
    · simp only [if_neg c]

theorem tcpParse_ref (cfg : Cfg) (hc : cfg.tcpOptBound = true) (raw : Bytes) (f : Frame) (h : tcpParse cfg raw = .ok f) :
    f.toPkt = Packet.tcpParse raw := by
  unfold tcpParse at h
  unfold Packet.tcpParse
  dsimp only at h ⊢
  by_cases c : raw.length < 20
  · rw [if_pos c] at h ⊢; simp [pure, Except.pure] at h; subst h; rfl
  rw [if_neg c] at h ⊢
  obtain ⟨sp, dp, seq, ack, offres, flags, win, csum, urg, hu, hu', _⟩ := tcp_shape (raw.take 20) (take_len raw 20 (by omega))
  simp only [hu] at h
  simp only [hu']
  by_cases c1 : offres / 16 * 4 < 20 ∨ offres / 16 * 4 > raw.length
  · rw [if_pos c1] at h ⊢; simp [pure, Except.pure] at h; subst h; rfl
  rw [if_neg c1] at h ⊢
  simp only [hc, if_true, tcpParseOptsB_hdr] at h
  cases hr : tcpParseOpts (offres / 16 * 4) raw (offres / 16 * 4) 20 with
  | fail => simp [hr, pure, Except.pure] at h; subst h; rfl
  | mptcp => simp [hr, pure, Except.pure] at h; subst h; rfl
  | ok os => simp [hr, pure, Except.pure] at h; subst h; rfl

theorem llcTail_shape (cfg : Cfg) (guard : Bool) (next : K → Bytes → P Frame) (raw : Bytes) (d s c len : Nat) (g : Frame)
    (h : llcTail cfg guard next raw d s c len = .ok g) : g.toPkt = .unmodelled "llc" raw := by
  unfold llcTail at h
  dsimp only at h
  repeat' split at h
  all_goals first
    | (simp [pure, Except.pure] at h; subst h; rfl)
    | simp at h

theorem llcParse_shape (cfg : Cfg) (guard : Bool) (next : K → Bytes → P Frame) (raw : Bytes) (g : Frame) (h : llcParse cfg guard next raw = .ok g) :
    g.toPkt = .unmodelled "llc" raw := by
  unfold llcParse at h
  repeat' split at h
  all_goals first
    | (simp [pure, Except.pure] at h; subst h; rfl)
    | exact llcTail_shape _ _ _ _ _ _ _ _ _ h
    | simp at h

theorem lldpParse_shape (cfg : Cfg) (raw : Bytes) (g : Frame) (h : lldpParse cfg raw = .ok g) :
    g.toPkt = .unmodelled "lldp" raw := by
  unfold lldpParse at h
  repeat' split at h
  all_goals first
    | (simp [pure, Except.pure] at h; subst h; rfl)
    | simp at h

/-- the exception-aware parser refines the total parser of C14 -/
theorem parseD_ref (cfg : Cfg) (hc : cfg.tcpOptBound = true) (hx : cfg.ext = false) (hk1 : cfg.fix.k1 = false) : ∀ (d depth : Nat),
    Rel (parseD cfg d depth) (Packet.parse d) := by
  intro d
  induction d with
  | zero =>
    intro depth
    exact ⟨fun k kc b g _ h => by simp [parseD] at h, fun b g h => by simp [parseD] at h, fun b g h => by simp [parseD] at h⟩
  | succ d ih =>
    intro depth
    refine ⟨?_, ?_, ?_⟩
    · intro k kc b g hk h
      cases k <;> simp [K.toKind] at hk <;> subst hk <;> simp only [parseD, hk1, Bool.false_and, Bool.false_eq_true, if_false] at h <;>
        simp only [Packet.parse]
      · exact ethParse_ref cfg hx _ _ (ih _) _ _ h
      · exact vlanParse_ref cfg hx _ _ (ih _) _ _ h
      · exact arpParse_ref _ _ h
      · exact ipv4Parse_ref cfg hx _ _ (ih _) _ _ h
      · exact udpParse_ref cfg hx _ _ _ h
      · exact tcpParse_ref cfg hc _ _ h
      · exact icmpParse_ref _ _ (ih _) _ _ h
      · exact echoParse_ref _ _ h
      · exact unreachParse_ref _ _ (ih _) _ _ h
      · exact timeExParse_ref _ _ (ih _) _ _ h
    · intro b g h; simp only [parseD] at h; exact llcParse_shape _ _ _ _ _ h
    · intro b g h; simp only [parseD] at h; exact lldpParse_shape _ _ _ h

/-! ## nesting is bounded only by the frame length -/

/-- `n` 802.1Q tags, each announcing another tag (TCI 0x0001, inner type 0x8100) -/
def vtags : Nat → Bytes
  | 0 => []
  | n+1 => [0x00, 0x01, 0x81, 0x00] ++ vtags n

/-- an Ethernet header of type 0x8100 followed by `n` such tags: 14 + 4·n bytes -/
def nestFrame (n : Nat) : Bytes := List.replicate 12 0 ++ [0x81, 0x00] ++ vtags n

theorem vtags_length (n : Nat) : (vtags n).length = 4 * n := by
  induction n with
  | zero => rfl
  | succ n ih => simp [vtags, ih]; omega

theorem nestFrame_length (n : Nat) : (nestFrame n).length = 14 + 4 * n := by
  simp [nestFrame, vtags_length]; omega

theorem vlan_nest (cfg : Cfg) (hk1 : cfg.fix.k1 = false) : ∀ (m n depth : Nat), m ≤ n → parseD cfg m depth .vlan (vtags n) = .error .recursion := by
  intro m
  induction m with
  | zero => intro n _ _; rfl
  | succ m ih =>
    intro n depth hn
    cases n with
    | zero => omega
    | succ n =>
      have hlen : ¬ (vtags (n + 1)).length < 4 := by rw [vtags_length]; omega
      have hu : unpackE vlanL ((vtags (n + 1)).take 4) = .ok [.num 1, .num 0x8100] := by
        simp only [vtags, List.cons_append, List.nil_append, List.take_succ_cons, List.take_zero]; rfl
      have hd : (vtags (n + 1)).drop 4 = vtags n := by simp [vtags]
      simp only [parseD, hk1, Bool.false_and, Bool.false_eq_true, if_false, vlanParse, if_neg hlen, hu, hd, parseNext, if_true, ih n _ (by omega)]

theorem eth_nest (cfg : Cfg) (hk1 : cfg.fix.k1 = false) (d : Nat) : parseD cfg d 0 .eth (nestFrame d) = .error .recursion := by
  cases d with
  | zero => rfl
  | succ m =>
    have hlen : ¬ (nestFrame (m + 1)).length < 14 := by rw [nestFrame_length]; omega
    have hu : unpackE ethL ((nestFrame (m + 1)).take 14) = .ok [.raw (List.replicate 6 0), .raw (List.replicate 6 0), .num 0x8100] := by
      simp only [nestFrame, List.replicate, List.cons_append, List.nil_append, List.take_succ_cons, List.take_zero]; rfl
    have hd : (nestFrame (m + 1)).drop 14 = vtags (m + 1) := by simp [nestFrame, List.replicate]
    simp only [parseD, hk1, Bool.false_and, Bool.false_eq_true, if_false, ethParse, if_neg hlen, hu, hd, parseNext, if_true, vlan_nest cfg hk1 m (m + 1) _ (by omega)]
end Pox.Parse
