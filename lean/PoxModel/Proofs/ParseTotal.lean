import PoxModel.Model.PacketParse
import PoxModel.Proofs.TcpOpts
/-!
# Lemmas for C15: the exception-aware parse of `Model/PacketParse.lean` never raises, tiles its input, and its result can be
re-serialised and printed.  Core only.

Structure: generic facts about `struct.unpack` of a slice of the right size (`unpackE_total`), an invariant of parse results
(`Good` at frame level, `GoodIn` inside an IPv4 datagram: header fields in their wire ranges, the bytes of every object =
its header ++ the bytes handed on (++ what IPv4/UDP cut off), TCP options well-formed and inside the header), one lemma per
class (`…_spec`: given that the nested constructor calls succeed on shorter inputs, the class's `parse` succeeds and
establishes the invariant), and the induction over the nesting budget (`parseD_spec`).
-/
namespace Pox.Parse
open Pox Pox.Layout Pox.Packet Pox.Checksum

/-! ## `struct.unpack` of a slice of exactly the format's size succeeds, and its values are in range -/

theorem beDec_lt (b : Bytes) : beDec b < 256 ^ b.length := by
  induction b with
  | nil => simp [beDec]
  | cons x xs ih =>
    have hx : x.toNat < 256 := x.toNat_lt
    have hp : 0 < 256 ^ xs.length := Nat.pow_pos (by decide)
    simp only [beDec, List.length_cons, Nat.pow_succ]
    have : x.toNat * 256 ^ xs.length ≤ 255 * 256 ^ xs.length := Nat.mul_le_mul_right _ (by omega)
    omega

theorem beDec_lt_of_length (b : Bytes) (w : Nat) (h : b.length = w) : beDec b < 256 ^ w := h ▸ beDec_lt b

theorem decode_total (L : Layout) : ∀ (bs : Bytes), size L ≤ bs.length →
    ∃ vs, decode L bs = some (vs, bs.drop (size L)) ∧ fits L vs := by
  induction L with
  | nil => intro bs _; exact ⟨[], by simp [decode, size], by simp [fits]⟩
  | cons f L ih =>
    intro bs h
    cases f with
    | uint w =>
      simp only [size] at h
      obtain ⟨vs, hd, hf⟩ := ih (bs.drop w) (by simp [List.length_drop]; omega)
      refine ⟨.num (beDec (bs.take w)) :: vs, ?_, ?_⟩
      · have : ¬ bs.length < w := by omega
        simp [decode, this, hd, size, List.drop_drop]
      · exact ⟨beDec_lt_of_length _ w (by simp [List.length_take]; omega), hf⟩
    | pad n =>
      simp only [size] at h
      obtain ⟨vs, hd, hf⟩ := ih (bs.drop n) (by simp [List.length_drop]; omega)
      refine ⟨vs, ?_, by simpa [fits] using hf⟩
      have : ¬ bs.length < n := by omega
      simp [decode, this, hd, size, List.drop_drop]
    | blob n =>
      simp only [size] at h
      obtain ⟨vs, hd, hf⟩ := ih (bs.drop n) (by simp [List.length_drop]; omega)
      refine ⟨.raw (bs.take n) :: vs, ?_, ?_⟩
      · have : ¬ bs.length < n := by omega
        simp [decode, this, hd, size, List.drop_drop]
      · exact ⟨by simp [List.length_take]; omega, hf⟩

theorem unpackE_total (L : Layout) (bs : Bytes) (h : bs.length = size L) :
    ∃ vs, unpackE L bs = .ok vs ∧ unpack L bs = some vs ∧ fits L vs := by
  obtain ⟨vs, hd, hf⟩ := decode_total L bs (by omega)
  exact ⟨vs, by simp [unpackE, unpack, h, hd], by simp [unpack, h, hd], hf⟩

theorem fits_nil_iff (vs : List Val) : fits [] vs ↔ vs = [] := by
  cases vs <;> simp [fits]

theorem fits_uint_iff (w : Nat) (L : Layout) (vs : List Val) :
    fits (.uint w :: L) vs ↔ ∃ n vs', vs = .num n :: vs' ∧ n < 256 ^ w ∧ fits L vs' := by
  cases vs with
  | nil => simp [fits]
  | cons v vs =>
    cases v with
    | raw b => simp [fits]
    | num n =>
      simp only [fits]
      constructor
      · rintro ⟨h1, h2⟩; exact ⟨n, vs, rfl, h1, h2⟩
      · rintro ⟨n', vs', he, h1, h2⟩
        injection he with he1 he2
        injection he1 with he1
        subst he1; subst he2; exact ⟨h1, h2⟩

theorem fits_blob_iff (k : Nat) (L : Layout) (vs : List Val) :
    fits (.blob k :: L) vs ↔ ∃ b vs', vs = .raw b :: vs' ∧ b.length = k ∧ fits L vs' := by
  cases vs with
  | nil => simp [fits]
  | cons v vs =>
    cases v with
    | num n => simp [fits]
    | raw b =>
      simp only [fits]
      constructor
      · rintro ⟨h1, h2⟩; exact ⟨b, vs, rfl, h1, h2⟩
      · rintro ⟨b', vs', he, h1, h2⟩
        injection he with he1 he2
        injection he1 with he1
        subst he1; subst he2; exact ⟨h1, h2⟩

theorem sl_length (raw : Bytes) (a b : Nat) (h : b ≤ raw.length) : (sl raw a b).length = b - a := by
  simp [sl, List.length_drop, List.length_take]; omega

theorem sl_length_le (raw : Bytes) (a b : Nat) : (sl raw a b).length ≤ b - a := by
  simp [sl, List.length_drop, List.length_take]; omega

/-- `raw = raw[:a] + raw[a:b] + raw[b:]` -/
theorem split3 (raw : Bytes) (a b : Nat) (h : a ≤ b) : raw = raw.take a ++ (sl raw a b ++ raw.drop b) := by
  have h1 : raw = raw.take b ++ raw.drop b := (List.take_append_drop b raw).symm
  have h2 : raw.take b = (raw.take b).take a ++ (raw.take b).drop a := (List.take_append_drop a _).symm
  have h3 : (raw.take b).take a = raw.take a := by rw [List.take_take]; congr 1; omega
  conv => lhs; rw [h1, h2, h3]
  simp [sl, List.append_assoc]

theorem split2 (raw : Bytes) (a : Nat) : raw = raw.take a ++ raw.drop a := (List.take_append_drop a raw).symm

/-! ## the invariant of parse results -/

def Frame.isLeaf : Frame → Bool
  | .raw _ | .nil | .unparsed _ _ | .foreign _ _ => true
  | _ => false

/-- attributes of an `llc` object whose parse succeeded -/
def LlcFits (h : Llc) : Prop :=
  ∃ d s c, h.dsap = some d ∧ h.ssap = some s ∧ h.control = some c ∧ d < 256 ∧ s < 256 ∧ c < 65536 ∧
    ((h.length = 3 ∨ h.length = 8) → c < 256) ∧
    ((h.oui = none ∧ (h.length = 3 ∨ h.length = 4)) ∨
     (∃ o, h.oui = some o ∧ o.length = 3 ∧ h.ethType < 65536 ∧ (h.length = 8 ∨ h.length = 9)))

def Tlv.Fits : Tlv → Prop
  | .chassis st _ | .port st _ => st < 256
  | .ttl v => v < 65536
  | .endT => True
  | .caps c e => c < 65536 ∧ e < 65536
  | .mgmt ast addr ins ifn oid => ast < 256 ∧ addr.length + 1 < 256 ∧ ins < 256 ∧ ifn < 4294967296 ∧ oid.length < 256
  | .org oui st _ => oui.length = 3 ∧ st < 256
  | .simple t _ => t < 128

def Frame.isExt : Frame → Bool
  | .ext _ _ _ => true
  | _ => false

/-- **Tiling.**  Every object's bytes are its header followed by exactly the bytes handed to the next layer; only `ipv4` (bytes
beyond the total-length field) and `udp` (payload dropped when the length field is inconsistent) cut something off, and
`llc`/`lldp` objects that gave up keep everything in `raw`.  For the phase-2 classes (`ext`) the statement is: the bytes handed
to the next layer are a contiguous slice of the object's bytes. -/
def Frame.Tiles : Frame → Prop
  | .raw _ | .nil | .unparsed _ _ | .foreign _ _ | .lldp _ _ _ => True
  | .eth _ r n => (∃ hd, hd.length = 14 ∧ r = hd ++ n.bytes) ∧ n.Tiles
  | .vlan _ r n => (∃ hd, hd.length = 4 ∧ r = hd ++ n.bytes) ∧ n.Tiles
  | .llc h p r n => (p = true → ∃ hd, hd.length = h.length ∧ r = hd ++ n.bytes) ∧ (p = false → n = .nil) ∧ n.Tiles
  | .arp _ r n => (∃ hd, hd.length = 28 ∧ r = hd ++ n.bytes) ∧ n.Tiles
  | .ipv4 h r n => (∃ hd cut, hd.length = h.hl * 4 ∧ r = hd ++ (n.bytes ++ cut)) ∧ n.Tiles
  | .udp _ r n => (∃ hd cut, hd.length = 8 ∧ r = hd ++ (n.bytes ++ cut)) ∧ n.Tiles
  | .tcp h r n => (∃ hd, hd.length = h.off * 4 ∧ r = hd ++ n.bytes) ∧ n.Tiles
  | .icmp _ r n | .echo _ r n | .unreach _ r n | .timeEx _ r n => (∃ hd, hd.length = 4 ∧ r = hd ++ n.bytes) ∧ n.Tiles
  | .ext _ r n => (∃ hd cut, r = hd ++ (n.bytes ++ cut)) ∧ n.Tiles

/-- inside an IPv4 datagram (`l4` = directly the payload of an IPv4 header, where UDP/TCP/ICMP objects live).  Sub-chains below
a phase-2 object carry the tiling only (`pack()` of those classes is not modelled). -/
def GoodIn : Bool → Frame → Prop
  | _, .raw _ | _, .nil | _, .unparsed _ _ | _, .foreign _ _ => True
  | l4, .udp h r n => l4 = true ∧ h.Fits ∧ (n.isLeaf = true ∨ (n.isExt = true ∧ n.Tiles)) ∧
      ∃ hd cut, hd.length = 8 ∧ r = hd ++ (n.bytes ++ cut)
  | l4, .tcp h r n => l4 = true ∧ h.Fits ∧ (∀ o ∈ h.opts, o.OK) ∧ 20 + (optsBytes h.opts).length ≤ h.off * 4 ∧ h.off < 16 ∧
      n.isLeaf = true ∧ ∃ hd, hd.length = h.off * 4 ∧ r = hd ++ n.bytes
  | l4, .icmp h r n => l4 = true ∧ h.Fits ∧ (∃ hd, hd.length = 4 ∧ r = hd ++ n.bytes) ∧ GoodIn false n
  | _, .echo h r n => h.Fits ∧ n.isLeaf = true ∧ ∃ hd, hd.length = 4 ∧ r = hd ++ n.bytes
  | _, .unreach h r n => h.Fits ∧ (∃ hd, hd.length = 4 ∧ r = hd ++ n.bytes) ∧ GoodIn false n
  | _, .timeEx h r n => h.Fits ∧ (∃ hd, hd.length = 4 ∧ r = hd ++ n.bytes) ∧ GoodIn false n
  | _, .ipv4 h r n => h.Fits ∧ h.iplen < 65536 ∧
      (∃ hd cut, hd.length = h.hl * 4 ∧ r = hd ++ (n.bytes ++ cut) ∧ h.hl * 4 + n.bytes.length ≤ h.iplen) ∧ GoodIn true n
  | _, .ext x r n => (Frame.ext x r n).Tiles
  | _, .eth _ _ _ | _, .vlan _ _ _ | _, .llc _ _ _ _ | _, .arp _ _ _ | _, .lldp _ _ _ => False

/-- at frame level -/
def Good : Frame → Prop
  | .raw _ | .nil | .unparsed _ _ | .foreign _ _ => True
  | .eth h r n => h.Fits ∧ (∃ hd, hd.length = 14 ∧ r = hd ++ n.bytes) ∧ Good n
  | .vlan h r n => h.Fits ∧ (∃ hd, hd.length = 4 ∧ r = hd ++ n.bytes) ∧ Good n
  | .llc h p r n => (p = true → LlcFits h ∧ ∃ hd, hd.length = h.length ∧ r = hd ++ n.bytes) ∧ (p = false → n = .nil) ∧ Good n
  | .arp h r n => h.Fits ∧ n.isLeaf = true ∧ ∃ hd, hd.length = 28 ∧ r = hd ++ n.bytes
  | .lldp ts _ _ => ∀ t ∈ ts, t.Fits
  | .ipv4 h r n => GoodIn false (.ipv4 h r n)
  | .ext x r n => (Frame.ext x r n).Tiles
  | .udp _ _ _ | .tcp _ _ _ | .icmp _ _ _ | .echo _ _ _ | .unreach _ _ _ | .timeEx _ _ _ => False

/-- result of a phase-2 constructor: an object that gave up (a leaf) or a phase-2 object whose sub-chain is tiled -/
def SpecX (f : Frame) : Prop := f.Tiles ∧ (f.isLeaf = true ∨ f.isExt = true)

/-- what the constructor of class `k` establishes -/
def Spec : K → Frame → Prop
  | .udp | .tcp | .icmp => GoodIn true
  | .echo | .unreach | .timeEx => GoodIn false
  | .ipv4 => fun f => GoodIn false f ∧ Good f
  | .eth | .vlan | .llc | .arp | .lldp => Good
  | .mpls | .eapol | .eap | .vxlan | .rip | .dns | .ipv6 | .echo6 | .unreach6 | .gre | .igmp | .icmp6 _ _ => SpecX

/-- outcome of a constructor call: it returns an object for exactly the bytes it was given that satisfies `S`, or one of the
registered known findings raises -/
def Out (S : Frame → Prop) (b : Bytes) (r : P Frame) : Prop :=
  (∃ f, r = .ok f ∧ f.bytes = b ∧ S f) ∨ (∃ s, r = .error (.known s))

def OutP (Q : Frame → Prop) (r : P Frame) : Prop :=
  (∃ f, r = .ok f ∧ Q f) ∨ (∃ s, r = .error (.known s))

/-- the nested constructor calls behave on inputs at least 4 bytes shorter than `n` -/
def NextSpec (next : K → Bytes → P Frame) (n : Nat) : Prop :=
  ∀ k b, b.length + 4 ≤ n → Out (Spec k) b (next k b)

theorem goodIn_leaf (l4 : Bool) (f : Frame) (h : f.isLeaf = true) : GoodIn l4 f := by
  cases f <;> simp_all [Frame.isLeaf, GoodIn]

theorem good_leaf (f : Frame) (h : f.isLeaf = true) : Good f := by
  cases f <;> simp_all [Frame.isLeaf, Good]

theorem tiles_leaf (f : Frame) (h : f.isLeaf = true) : f.Tiles := by
  cases f <;> simp_all [Frame.isLeaf, Frame.Tiles]

theorem goodIn_tiles : ∀ (f : Frame) (l4 : Bool), GoodIn l4 f → f.Tiles := by
  intro f
  induction f with
  | raw _ | nil | unparsed _ _ | foreign _ _ | lldp _ _ _ => intros; trivial
  | eth _ _ _ _ | vlan _ _ _ _ | llc _ _ _ _ _ | arp _ _ _ _ => intro l4 h; simp [GoodIn] at h
  | ext x r n ih => intro l4 g; exact g
  | ipv4 h r n ih => intro l4 g; obtain ⟨_, _, ⟨hd, cut, h1, h2, _⟩, g'⟩ := g; exact ⟨⟨hd, cut, h1, h2⟩, ih _ g'⟩
  | udp h r n ih =>
    intro l4 g; obtain ⟨_, _, hl, hd, cut, h1, h2⟩ := g
    exact ⟨⟨hd, cut, h1, h2⟩, hl.elim (tiles_leaf n) (fun h => h.2)⟩
  | tcp h r n ih => intro l4 g; obtain ⟨_, _, _, _, _, hl, hd, h1, h2⟩ := g; exact ⟨⟨hd, h1, h2⟩, tiles_leaf n hl⟩
  | icmp h r n ih => intro l4 g; obtain ⟨_, _, t, g'⟩ := g; exact ⟨t, ih _ g'⟩
  | echo h r n ih => intro l4 g; obtain ⟨_, hl, t⟩ := g; exact ⟨t, tiles_leaf n hl⟩
  | unreach h r n ih => intro l4 g; obtain ⟨_, t, g'⟩ := g; exact ⟨t, ih _ g'⟩
  | timeEx h r n ih => intro l4 g; obtain ⟨_, t, g'⟩ := g; exact ⟨t, ih _ g'⟩

theorem good_tiles : ∀ (f : Frame), Good f → f.Tiles := by
  intro f
  induction f with
  | raw _ | nil | unparsed _ _ | foreign _ _ | lldp _ _ _ => intros; trivial
  | udp _ _ _ _ | tcp _ _ _ _ | icmp _ _ _ _ | echo _ _ _ _ | unreach _ _ _ _ | timeEx _ _ _ _ => intro h; simp [Good] at h
  | ext x r n ih => intro g; exact g
  | eth h r n ih => intro g; obtain ⟨_, t, g'⟩ := g; exact ⟨t, ih g'⟩
  | vlan h r n ih => intro g; obtain ⟨_, t, g'⟩ := g; exact ⟨t, ih g'⟩
  | llc h p r n ih => intro g; obtain ⟨a, b, g'⟩ := g; exact ⟨fun hp => (a hp).2, b, ih g'⟩
  | arp h r n ih => intro g; obtain ⟨_, hl, t⟩ := g; exact ⟨t, tiles_leaf n hl⟩
  | ipv4 h r n ih => intro g; exact goodIn_tiles _ false g

theorem specX_good (f : Frame) (h : SpecX f) : Good f := by
  obtain ⟨ht, hl | he⟩ := h
  · exact good_leaf f hl
  · cases f <;> simp [Frame.isExt] at he; exact ht

theorem specX_goodIn (l4 : Bool) (f : Frame) (h : SpecX f) : GoodIn l4 f := by
  obtain ⟨ht, hl | he⟩ := h
  · exact goodIn_leaf l4 f hl
  · cases f <;> simp [Frame.isExt] at he; exact ht

theorem specX_leaf (f : Frame) (h : f.isLeaf = true) : SpecX f := ⟨tiles_leaf f h, .inl h⟩

/-- any slice of `raw` sits between a prefix and a suffix of `raw` -/
theorem slice_tiles (raw : Bytes) (a b : Nat) : ∃ hd cut, raw = hd ++ (sl raw a b ++ cut) := by
  by_cases h : a ≤ b
  · exact ⟨raw.take a, raw.drop b, split3 raw a b h⟩
  · refine ⟨[], raw, ?_⟩
    have : sl raw a b = [] := by
      apply List.eq_nil_of_length_eq_zero
      have := sl_length_le raw a b
      omega
    simp [this]

theorem drop_tiles (raw : Bytes) (a : Nat) : ∃ hd cut, raw = hd ++ (raw.drop a ++ cut) :=
  ⟨raw.take a, [], by simpa using split2 raw a⟩

theorem out_ok {S : Frame → Prop} {b : Bytes} (f : Frame) (hb : f.bytes = b) (hs : S f) : Out S b (.ok f) :=
  .inl ⟨f, rfl, hb, hs⟩

/-! ## one lemma per class -/

theorem eth_shape (b : Bytes) (h : b.length = 14) :
    ∃ dst src t, unpackE ethL b = .ok [.raw dst, .raw src, .num t] ∧ unpack ethL b = some [.raw dst, .raw src, .num t] ∧
      dst.length = 6 ∧ src.length = 6 ∧ t < 65536 := by
  obtain ⟨vs, hu, hu', hf⟩ := unpackE_total ethL b (by rw [h]; rfl)
  simp only [ethL, fits_blob_iff, fits_uint_iff, fits_nil_iff] at hf
  obtain ⟨dst, _, rfl, hd, src, _, rfl, hs, t, _, rfl, ht, rfl⟩ := hf
  exact ⟨dst, src, t, hu, hu', hd, hs, by simpa using ht⟩

theorem parseNext_spec (next : K → Bytes → P Frame) (t : Nat) (rest : Bytes) (allow : Bool) (n : Nat)
    (hn : NextSpec next n) (hl : rest.length + 4 ≤ n) :
    Out Good rest (parseNext Cfg.repaired next t rest allow) := by
  have hx : ∀ k, (Spec k = SpecX) → Out Good rest (next k rest) := by
    intro k hk
    rcases hn k rest hl with ⟨f, h1, h2, h3⟩ | ⟨s, hs⟩
    · exact .inl ⟨f, h1, h2, specX_good f (hk ▸ h3)⟩
    · exact .inr ⟨s, hs⟩
  have hg : ∀ k, (Spec k = Good) → Out Good rest (next k rest) := by
    intro k hk
    rcases hn k rest hl with ⟨f, h1, h2, h3⟩ | ⟨s, hs⟩
    · exact .inl ⟨f, h1, h2, hk ▸ h3⟩
    · exact .inr ⟨s, hs⟩
  unfold parseNext
  simp only [Cfg.repaired, if_true]
  repeat' split
  all_goals first
    | exact .inl ⟨_, rfl, rfl, trivial⟩
    | exact hg _ rfl
    | exact hx _ rfl
    | (rcases hn .ipv4 rest hl with ⟨f, h1, h2, h3⟩ | ⟨s, hs⟩
       · exact .inl ⟨f, h1, h2, h3.2⟩
       · exact .inr ⟨s, hs⟩)

theorem ethParse_spec (next : K → Bytes → P Frame) (raw : Bytes) (hn : NextSpec next raw.length) :
    Out Good raw (ethParse Cfg.repaired next raw) := by
  unfold ethParse
  split
  · exact .inl ⟨_, rfl, rfl, trivial⟩
  · rename_i hlen
    obtain ⟨dst, src, t, hu, _, hd, hs, ht⟩ := eth_shape (raw.take 14) (by simp [List.length_take]; omega)
    rcases parseNext_spec next t (raw.drop 14) true raw.length hn (by simp [List.length_drop]; omega) with
      ⟨f, hf, hb, hg⟩ | ⟨e, he⟩
    · simp only [hu, hf]
      refine .inl ⟨_, rfl, rfl, ⟨hd, hs, ht⟩, ⟨raw.take 14, by simp [List.length_take]; omega, ?_⟩, hg⟩
      rw [hb]; exact split2 raw 14
    · simp only [hu, he]; exact .inr ⟨e, rfl⟩

theorem nums2_shape (L : Layout) (w1 w2 : Nat) (hL : L = [.uint w1, .uint w2]) (b : Bytes) (h : b.length = w1 + w2) :
    ∃ x y, unpackE L b = .ok [.num x, .num y] ∧ unpack L b = some [.num x, .num y] ∧ x < 256 ^ w1 ∧ y < 256 ^ w2 := by
  subst hL
  obtain ⟨vs, hu, hu', hf⟩ := unpackE_total [.uint w1, .uint w2] b (by simp [size, h])
  simp only [fits_uint_iff, fits_nil_iff] at hf
  obtain ⟨x, _, rfl, hx, y, _, rfl, hy, rfl⟩ := hf
  exact ⟨x, y, hu, hu', hx, hy⟩

theorem num1_shape (w : Nat) (b : Bytes) (h : b.length = w) :
    ∃ x, unpackE [.uint w] b = .ok [.num x] ∧ unpack [.uint w] b = some [.num x] ∧ x < 256 ^ w := by
  obtain ⟨vs, hu, hu', hf⟩ := unpackE_total [.uint w] b (by simp [size, h])
  simp only [fits_uint_iff, fits_nil_iff] at hf
  obtain ⟨x, _, rfl, hx, rfl⟩ := hf
  exact ⟨x, hu, hu', hx⟩

theorem take_len (raw : Bytes) (n : Nat) (h : n ≤ raw.length) : (raw.take n).length = n := by
  simp [List.length_take]; omega

theorem vlanParse_spec (next : K → Bytes → P Frame) (raw : Bytes) (hn : NextSpec next raw.length) :
    Out Good raw (vlanParse Cfg.repaired next raw) := by
  unfold vlanParse
  split
  · exact .inl ⟨_, rfl, rfl, trivial⟩
  · rename_i hlen
    obtain ⟨x, y, hu, _, hx, hy⟩ := nums2_shape vlanL 2 2 rfl (raw.take 4) (take_len raw 4 (by omega))
    rcases parseNext_spec next y (raw.drop 4) true raw.length hn (by simp [List.length_drop]; omega) with
      ⟨f, hf, hb, hg⟩ | ⟨e, he⟩
    · simp only [hu, hf]
      have hx' : x < 65536 := by simpa using hx
      have hy' : y < 65536 := by simpa using hy
      refine .inl ⟨_, rfl, rfl, ⟨by show x / 8192 < 8; omega, by show x / 4096 % 2 < 2; omega, by show x % 4096 < 4096; omega, hy'⟩,
        ⟨raw.take 4, take_len raw 4 (by omega), ?_⟩, hg⟩
      rw [hb]; exact split2 raw 4
    · simp only [hu, he]; exact .inr ⟨e, rfl⟩

theorem arp_shape (b : Bytes) (h : b.length = 28) :
    ∃ hwtype prototype hwlen protolen opcode hwsrc psrc hwdst pdst,
      unpackE arpL b = .ok [.num hwtype, .num prototype, .num hwlen, .num protolen, .num opcode, .raw hwsrc, .num psrc,
        .raw hwdst, .num pdst] ∧
      unpack arpL b = some [.num hwtype, .num prototype, .num hwlen, .num protolen, .num opcode, .raw hwsrc, .num psrc,
        .raw hwdst, .num pdst] ∧
      opcode < 65536 ∧ hwsrc.length = 6 ∧ psrc < 4294967296 ∧ hwdst.length = 6 ∧ pdst < 4294967296 := by
  obtain ⟨vs, hu, hu', hf⟩ := unpackE_total arpL b (by rw [h]; rfl)
  simp only [arpL, fits_blob_iff, fits_uint_iff, fits_nil_iff] at hf
  obtain ⟨a1, _, rfl, _, a2, _, rfl, _, a3, _, rfl, _, a4, _, rfl, _, a5, _, rfl, h5, a6, _, rfl, h6, a7, _, rfl, h7,
    a8, _, rfl, h8, a9, _, rfl, h9, rfl⟩ := hf
  exact ⟨a1, a2, a3, a4, a5, a6, a7, a8, a9, hu, hu', by simpa using h5, h6, by simpa using h7, h8, by simpa using h9⟩

theorem arpParse_spec (raw : Bytes) : ∃ f, arpParse raw = .ok f ∧ f.bytes = raw ∧ Good f := by
  unfold arpParse
  split
  · exact ⟨_, rfl, rfl, trivial⟩
  · rename_i hlen
    obtain ⟨a1, a2, a3, a4, a5, a6, a7, a8, a9, hu, _, h5, h6, h7, h8, h9⟩ := arp_shape (raw.take 28) (take_len raw 28 (by omega))
    simp only [hu]
    by_cases c1 : a1 ≠ 1
    · rw [if_pos c1]; exact ⟨_, rfl, rfl, trivial⟩
    rw [if_neg c1]
    by_cases c2 : a3 ≠ 6
    · rw [if_pos c2]; exact ⟨_, rfl, rfl, trivial⟩
    rw [if_neg c2]
    by_cases c3 : a2 ≠ 0x0800
    · rw [if_pos c3]; exact ⟨_, rfl, rfl, trivial⟩
    rw [if_neg c3]
    by_cases c4 : a4 ≠ 4
    · rw [if_pos c4]; exact ⟨_, rfl, rfl, trivial⟩
    rw [if_neg c4]
    refine ⟨_, rfl, rfl, ⟨by show a1 = 1; omega, by show a2 = 0x0800; omega, by show a3 = 6; omega, by show a4 = 4; omega, h5, h6, h7, h8, h9⟩, rfl, raw.take 28, take_len raw 28 (by omega), ?_⟩
    exact split2 raw 28

theorem echoParse_spec (raw : Bytes) : ∃ f, echoParse raw = .ok f ∧ f.bytes = raw ∧ GoodIn false f := by
  unfold echoParse
  split
  · exact ⟨_, rfl, rfl, trivial⟩
  · rename_i hlen
    obtain ⟨x, y, hu, _, hx, hy⟩ := nums2_shape echoL 2 2 rfl (raw.take 4) (take_len raw 4 (by omega))
    simp only [hu]
    exact ⟨_, rfl, rfl, ⟨by simpa using hx, by simpa using hy⟩, rfl, raw.take 4, take_len raw 4 (by omega), split2 raw 4⟩

theorem quoteDispatch_spec (next : K → Bytes → P Frame) (raw : Bytes) (hn : NextSpec next raw.length) (h4 : 4 ≤ raw.length) :
    Out (GoodIn false) (raw.drop 4) (quoteDispatch next raw) := by
  unfold quoteDispatch
  split
  · rcases hn .ipv4 (raw.drop 4) (by simp [List.length_drop]; omega) with ⟨f, h1, h2, h3⟩ | ⟨s, hs⟩
    · exact .inl ⟨f, h1, h2, h3.1⟩
    · exact .inr ⟨s, hs⟩
  · exact .inl ⟨_, rfl, rfl, trivial⟩

theorem unreachParse_spec (next : K → Bytes → P Frame) (raw : Bytes) (hn : NextSpec next raw.length) :
    Out (GoodIn false) raw (unreachParse next raw) := by
  unfold unreachParse
  split
  · exact .inl ⟨_, rfl, rfl, trivial⟩
  · rename_i hlen
    obtain ⟨x, y, hu, _, hx, hy⟩ := nums2_shape unreachL 2 2 rfl (raw.take 4) (take_len raw 4 (by omega))
    rcases quoteDispatch_spec next raw hn (by omega) with ⟨f, hf, hb, hg⟩ | ⟨e, he⟩
    · simp only [hu, hf]
      refine .inl ⟨_, rfl, rfl, ⟨by simpa using hx, by simpa using hy⟩, ⟨raw.take 4, take_len raw 4 (by omega), ?_⟩, hg⟩
      rw [hb]; exact split2 raw 4
    · simp only [hu, he]; exact .inr ⟨e, rfl⟩

theorem timeExParse_spec (next : K → Bytes → P Frame) (raw : Bytes) (hn : NextSpec next raw.length) :
    Out (GoodIn false) raw (timeExParse next raw) := by
  unfold timeExParse
  split
  · exact .inl ⟨_, rfl, rfl, trivial⟩
  · rename_i hlen
    obtain ⟨x, hu, _, hx⟩ := num1_shape 4 (raw.take 4) (take_len raw 4 (by omega))
    have hu' : unpackE timeExL (raw.take 4) = .ok [.num x] := hu
    rcases quoteDispatch_spec next raw hn (by omega) with ⟨f, hf, hb, hg⟩ | ⟨e, he⟩
    · simp only [hu', hf]
      refine .inl ⟨_, rfl, rfl, ⟨by simpa using hx⟩, ⟨raw.take 4, take_len raw 4 (by omega), ?_⟩, hg⟩
      rw [hb]; exact split2 raw 4
    · simp only [hu', he]; exact .inr ⟨e, rfl⟩

theorem icmp_shape (b : Bytes) (h : b.length = 4) :
    ∃ t c s, unpackE icmpL b = .ok [.num t, .num c, .num s] ∧ unpack icmpL b = some [.num t, .num c, .num s] ∧
      t < 256 ∧ c < 256 ∧ s < 65536 := by
  obtain ⟨vs, hu, hu', hf⟩ := unpackE_total icmpL b (by rw [h]; rfl)
  simp only [icmpL, fits_uint_iff, fits_nil_iff] at hf
  obtain ⟨a1, _, rfl, h1, a2, _, rfl, h2, a3, _, rfl, h3, rfl⟩ := hf
  exact ⟨a1, a2, a3, hu, hu', by simpa using h1, by simpa using h2, by simpa using h3⟩

theorem icmpParse_spec (next : K → Bytes → P Frame) (raw : Bytes) (hn : NextSpec next raw.length) :
    Out (GoodIn true) raw (icmpParse next raw) := by
  unfold icmpParse
  split
  · exact .inl ⟨_, rfl, rfl, trivial⟩
  · rename_i hlen
    obtain ⟨t, c, s, hu, _, ht, hc, hs⟩ := icmp_shape (raw.take 4) (take_len raw 4 (by omega))
    have hl : (raw.drop 4).length + 4 ≤ raw.length := by simp [List.length_drop]; omega
    have key : Out (GoodIn false) (raw.drop 4) (if t = 8 ∨ t = 0 then next .echo (raw.drop 4) else if t = 3 then next .unreach (raw.drop 4)
        else if t = 11 then next .timeEx (raw.drop 4) else pure (.raw (raw.drop 4))) := by
      repeat' split
      all_goals first
        | exact .inl ⟨_, rfl, rfl, trivial⟩
        | exact hn _ _ hl
    rcases key with ⟨f, hf, hb, hg⟩ | ⟨e, he⟩
    · simp only [hu, hf]
      refine .inl ⟨_, rfl, rfl, rfl, ⟨ht, hc⟩, ⟨raw.take 4, take_len raw 4 (by omega), ?_⟩, hg⟩
      rw [hb]; exact split2 raw 4
    · simp only [hu, he]; exact .inr ⟨e, rfl⟩

theorem udp_shape (b : Bytes) (h : b.length = 8) :
    ∃ sp dp l c, unpackE udpL b = .ok [.num sp, .num dp, .num l, .num c] ∧ unpack udpL b = some [.num sp, .num dp, .num l, .num c] ∧
      sp < 65536 ∧ dp < 65536 ∧ l < 65536 ∧ c < 65536 := by
  obtain ⟨vs, hu, hu', hf⟩ := unpackE_total udpL b (by rw [h]; rfl)
  simp only [udpL, fits_uint_iff, fits_nil_iff] at hf
  obtain ⟨a1, _, rfl, h1, a2, _, rfl, h2, a3, _, rfl, h3, a4, _, rfl, h4, rfl⟩ := hf
  exact ⟨a1, a2, a3, a4, hu, hu', by simpa using h1, by simpa using h2, by simpa using h3, by simpa using h4⟩

theorem udpPayload_spec (next : K → Bytes → P Frame) (cls : String) (k : K) (hk : Spec k = SpecX) (body : Bytes) (n : Nat)
    (hn : NextSpec next n) (hl : body.length + 4 ≤ n) :
    Out (fun f => f.isLeaf = true ∨ (f.isExt = true ∧ f.Tiles)) body (udpPayload Cfg.repaired next cls k body) := by
  unfold udpPayload
  simp only [Cfg.repaired, if_true]
  rcases hn k body hl with ⟨f, h1, h2, h3⟩ | ⟨s, hs⟩
  · rw [hk] at h3
    exact .inl ⟨f, h1, h2, h3.2.elim .inl (fun he => .inr ⟨he, h3.1⟩)⟩
  · exact .inr ⟨s, hs⟩

theorem udpParse_spec (next : K → Bytes → P Frame) (raw : Bytes) (hn : NextSpec next raw.length) :
    Out (GoodIn true) raw (udpParse Cfg.repaired next raw) := by
  unfold udpParse
  dsimp only
  split
  · exact .inl ⟨_, rfl, rfl, trivial⟩
  · rename_i hlen
    obtain ⟨sp, dp, l, c, hu, _, h1, h2, h3, h4⟩ := udp_shape (raw.take 8) (take_len raw 8 (by omega))
    simp only [hu]
    have tile : raw = raw.take 8 ++ (raw.drop 8 ++ []) := by simpa using split2 raw 8
    have tile0 : raw = raw.take 8 ++ ([] ++ raw.drop 8) := by simpa using split2 raw 8
    have hl : (raw.drop 8).length + 4 ≤ raw.length := by simp [List.length_drop]; omega
    split
    · exact .inl ⟨_, rfl, rfl, rfl, ⟨h1, h2⟩, .inl rfl, raw.take 8, raw.drop 8, take_len raw 8 (by omega), tile0⟩
    · have fin : ∀ (r : P Frame), Out (fun f => f.isLeaf = true ∨ (f.isExt = true ∧ f.Tiles)) (raw.drop 8) r →
          Out (GoodIn true) raw (match r with
            | .ok n => pure (.udp ⟨sp, dp, l, c⟩ raw n)
            | .error e => .error e) := by
        intro r hr
        rcases hr with ⟨f, hf, hb, hg⟩ | ⟨e, he⟩
        · subst hf
          refine .inl ⟨_, rfl, rfl, rfl, ⟨h1, h2⟩, hg, raw.take 8, [], take_len raw 8 (by omega), ?_⟩
          rw [hb]; exact tile
        · subst he; exact .inr ⟨e, rfl⟩
      by_cases c1 : dp = 67 ∨ dp = 68
      · rw [if_pos c1]; exact fin _ (.inl ⟨_, rfl, rfl, .inl rfl⟩)
      rw [if_neg c1]
      by_cases c2 : dp = 53 ∨ sp = 53
      · rw [if_pos c2]; exact fin _ (udpPayload_spec next "dns" .dns rfl _ _ hn hl)
      rw [if_neg c2]
      by_cases c3 : dp = 5353 ∨ sp = 5353
      · rw [if_pos c3]; exact fin _ (udpPayload_spec next "dns" .dns rfl _ _ hn hl)
      rw [if_neg c3]
      by_cases c4 : dp = 520 ∨ sp = 520
      · rw [if_pos c4]; exact fin _ (udpPayload_spec next "rip" .rip rfl _ _ hn hl)
      rw [if_neg c4]
      by_cases c5 : dp = 4789 ∨ sp = 4789
      · rw [if_pos c5]; exact fin _ (udpPayload_spec next "vxlan" .vxlan rfl _ _ hn hl)
      rw [if_neg c5]
      by_cases c6 : raw.length < l
      · rw [if_pos c6]
        exact .inl ⟨_, rfl, rfl, rfl, ⟨h1, h2⟩, .inl rfl, raw.take 8, raw.drop 8, take_len raw 8 (by omega), tile0⟩
      · rw [if_neg c6]; exact fin _ (.inl ⟨_, rfl, rfl, .inl rfl⟩)

theorem ipv4_shape (b : Bytes) (h : b.length = 20) :
    ∃ vhl tos iplen id ff ttl proto csum src dst,
      unpackE ipv4L b = .ok [.num vhl, .num tos, .num iplen, .num id, .num ff, .num ttl, .num proto, .num csum, .num src, .num dst] ∧
      unpack ipv4L b = some [.num vhl, .num tos, .num iplen, .num id, .num ff, .num ttl, .num proto, .num csum, .num src, .num dst] ∧
      vhl < 256 ∧ tos < 256 ∧ iplen < 65536 ∧ id < 65536 ∧ ff < 65536 ∧ ttl < 256 ∧ proto < 256 ∧ csum < 65536 ∧
      src < 4294967296 ∧ dst < 4294967296 := by
  obtain ⟨vs, hu, hu', hf⟩ := unpackE_total ipv4L b (by rw [h]; rfl)
  simp only [ipv4L, fits_uint_iff, fits_nil_iff] at hf
  obtain ⟨a1, _, rfl, h1, a2, _, rfl, h2, a3, _, rfl, h3, a4, _, rfl, h4, a5, _, rfl, h5, a6, _, rfl, h6, a7, _, rfl, h7,
    a8, _, rfl, h8, a9, _, rfl, h9, a10, _, rfl, h10, rfl⟩ := hf
  exact ⟨a1, a2, a3, a4, a5, a6, a7, a8, a9, a10, hu, hu', by simpa using h1, by simpa using h2, by simpa using h3,
    by simpa using h4, by simpa using h5, by simpa using h6, by simpa using h7, by simpa using h8, by simpa using h9,
    by simpa using h10⟩

theorem ipv4Dispatch_spec (next : K → Bytes → P Frame) (frag proto : Nat) (body : Bytes) (short : Bool) (n : Nat)
    (hn : NextSpec next n) (hl : body.length + 4 ≤ n) :
    OutP (fun f => (f = .nil ∨ f.bytes = body) ∧ GoodIn true f) (ipv4Dispatch Cfg.repaired next frag proto body short) := by
  unfold ipv4Dispatch
  split
  · exact .inl ⟨_, rfl, .inr rfl, trivial⟩
  split
  · rename_i hp
    have key : Out (GoodIn true) body (next (if proto = 17 then K.udp else if proto = 6 then K.tcp else if proto = 1 then K.icmp
        else if proto = 2 then K.igmp else K.gre) body) := by
      have hx : ∀ k, (Spec k = SpecX) → Out (GoodIn true) body (next k body) := by
        intro k hk
        rcases hn k body hl with ⟨f, h1, h2, h3⟩ | ⟨s, hs⟩
        · exact .inl ⟨f, h1, h2, specX_goodIn true f (hk ▸ h3)⟩
        · exact .inr ⟨s, hs⟩
      repeat' split
      all_goals first
        | exact hn _ body hl
        | exact hx _ rfl
    rcases key with ⟨nx, h1, h2, h3⟩ | ⟨e, he⟩
    · simp only [h1]
      by_cases hu : isUnparsed nx = true
      · rw [if_pos hu]; exact .inl ⟨_, rfl, .inr rfl, trivial⟩
      · rw [if_neg hu]; exact .inl ⟨_, rfl, .inr h2, h3⟩
    · simp only [he]; exact .inr ⟨e, rfl⟩
  repeat' split
  all_goals first
    | exact .inl ⟨_, rfl, .inr rfl, trivial⟩
    | exact .inl ⟨_, rfl, .inl rfl, trivial⟩

theorem ipv4Parse_spec (next : K → Bytes → P Frame) (raw : Bytes) (hn : NextSpec next raw.length) :
    Out (fun f => GoodIn false f ∧ Good f) raw (ipv4Parse Cfg.repaired next raw) := by
  unfold ipv4Parse
  dsimp only
  split
  · exact .inl ⟨_, rfl, rfl, trivial, trivial⟩
  · rename_i hlen
    obtain ⟨vhl, tos, iplen, id, ff, ttl, proto, csum, src, dst, hu, _, h1, h2, h3, h4, h5, h6, h7, h8, h9, h10⟩ :=
      ipv4_shape (raw.take 20) (take_len raw 20 (by omega))
    simp only [hu]
    by_cases c1 : vhl / 16 ≠ 4
    · rw [if_pos c1]; exact .inl ⟨_, rfl, rfl, trivial, trivial⟩
    rw [if_neg c1]
    by_cases c2 : vhl % 16 < 5
    · rw [if_pos c2]; exact .inl ⟨_, rfl, rfl, trivial, trivial⟩
    rw [if_neg c2]
    by_cases c3 : iplen < 20
    · rw [if_pos c3]; exact .inl ⟨_, rfl, rfl, trivial, trivial⟩
    rw [if_neg c3]
    by_cases c4 : vhl % 16 * 4 > iplen
    · rw [if_pos c4]; exact .inl ⟨_, rfl, rfl, trivial, trivial⟩
    rw [if_neg c4]
    by_cases c5 : vhl % 16 * 4 > raw.length
    · rw [if_pos c5]; exact .inl ⟨_, rfl, rfl, trivial, trivial⟩
    rw [if_neg c5]
    generalize hlen' : (if iplen > raw.length then raw.length else iplen) = length
    have hlen1 : vhl % 16 * 4 ≤ length := by subst hlen'; split <;> omega
    have hlen2 : length ≤ raw.length := by subst hlen'; split <;> omega
    have hlen3 : length ≤ iplen := by subst hlen'; split <;> omega
    have hbl : (sl raw (vhl % 16 * 4) length).length = length - vhl % 16 * 4 := sl_length raw _ _ hlen2
    rcases ipv4Dispatch_spec next (ff % 8192) proto (sl raw (vhl % 16 * 4) length)
      (decide (raw.length < iplen)) raw.length hn (by rw [hbl]; omega) with ⟨f, hf, hb, hg⟩ | ⟨e, he⟩
    · simp only [hf]
      have hfits : IPv4.Fits ⟨vhl / 16, vhl % 16, tos, iplen, id, ff / 8192, ff % 8192, ttl, proto, csum, src, dst,
          sl raw 20 (vhl % 16 * 4)⟩ :=
        ⟨by show vhl / 16 = 4; omega, by show 5 ≤ vhl % 16; omega, by show vhl % 16 < 16; omega, h2, h4,
         by show ff / 8192 < 8; omega, by show ff % 8192 < 8192; omega, h6, h7, h9, h10,
         by show (sl raw 20 (vhl % 16 * 4)).length + 20 = 4 * (vhl % 16); rw [sl_length raw _ _ (by omega)]; omega⟩
      have hnode : GoodIn false (.ipv4 ⟨vhl / 16, vhl % 16, tos, iplen, id, ff / 8192, ff % 8192, ttl, proto, csum, src, dst,
          sl raw 20 (vhl % 16 * 4)⟩ raw f) := by
        refine ⟨hfits, h3, ?_, hg⟩
        rcases hb with rfl | hb
        · exact ⟨raw.take (vhl % 16 * 4), raw.drop (vhl % 16 * 4), take_len raw _ (by omega), by simpa [Frame.bytes] using split2 raw _,
            by simp [Frame.bytes]; omega⟩
        · refine ⟨raw.take (vhl % 16 * 4), raw.drop length, take_len raw _ (by omega), ?_, ?_⟩
          · rw [hb]; exact split3 raw _ _ hlen1
          · rw [hb, hbl]; show vhl % 16 * 4 + (length - vhl % 16 * 4) ≤ iplen; omega
      exact .inl ⟨_, rfl, rfl, hnode, hnode⟩
    · simp only [he]; exact .inr ⟨e, rfl⟩

theorem llc_shape (b : Bytes) (h : b.length = 3) :
    ∃ d s c, unpackE llcL b = .ok [.num d, .num s, .num c] ∧ d < 256 ∧ s < 256 ∧ c < 256 := by
  obtain ⟨vs, hu, _, hf⟩ := unpackE_total llcL b (by rw [h]; rfl)
  simp only [llcL, fits_uint_iff, fits_nil_iff] at hf
  obtain ⟨a1, _, rfl, h1, a2, _, rfl, h2, a3, _, rfl, h3, rfl⟩ := hf
  exact ⟨a1, a2, a3, hu, by simpa using h1, by simpa using h2, by simpa using h3⟩

theorem ordE_one (b : Bytes) (h : b.length = 1) : ∃ x, ordE b = .ok x ∧ x < 256 := by
  match b, h with
  | [x], _ => exact ⟨x.toNat, rfl, x.toNat_lt⟩

theorem llcTail_spec (next : K → Bytes → P Frame) (raw : Bytes) (d s c len : Nat) (hn : NextSpec next raw.length)
    (hlen : len = 3 ∨ len = 4) (hraw : len ≤ raw.length) (hd : d < 256) (hs : s < 256) (hc : c < 65536)
    (hc3 : len = 3 → c < 256) :
    Out Good raw (llcTail Cfg.repaired next raw d s c len) := by
  unfold llcTail
  dsimp only
  split
  · split
    · exact .inl ⟨_, rfl, rfl, by simp, by simp, trivial⟩
    · rename_i hsnap hl5
      obtain ⟨t, hu, _, ht⟩ := num1_shape 2 (sl raw (len + 3) (len + 5)) (by rw [sl_length raw _ _ (by omega)]; omega)
      have hu' : unpackE u16L (sl raw (len + 3) (len + 5)) = .ok [.num t] := hu
      simp only [hu']
      have ht' : t < 65536 := by simpa using ht
      have houi : (sl raw len (len + 3)).length = 3 := by rw [sl_length raw _ _ (by omega)]; omega
      have hfits : LlcFits ⟨some d, some s, some c, len + 5, some (sl raw len (len + 3)), t⟩ :=
        ⟨d, s, c, rfl, rfl, rfl, hd, hs, hc, by intro h; apply hc3; show len = 3; rcases h with h | h <;> simp at h <;> omega,
          .inr ⟨_, rfl, houi, ht', by show len + 5 = 8 ∨ len + 5 = 9; omega⟩⟩
      split
      · rcases parseNext_spec next t (raw.drop (len + 5)) false raw.length hn
          (by simp [List.length_drop]; omega) with ⟨f, hf, hb, hg⟩ | ⟨e, he⟩
        · simp only [hf]
          refine .inl ⟨_, rfl, rfl, fun _ => ⟨hfits, raw.take (len + 5), take_len raw _ (by omega), ?_⟩, by simp, hg⟩
          rw [hb]; exact split2 raw _
        · simp only [he]; exact .inr ⟨e, rfl⟩
      · exact .inl ⟨_, rfl, rfl, fun _ => ⟨hfits, raw.take (len + 5), take_len raw _ (by omega), split2 raw _⟩, by simp, trivial⟩
  · refine .inl ⟨_, rfl, rfl, fun _ => ⟨⟨d, s, c, rfl, rfl, rfl, hd, hs, hc, ?_, .inl ⟨rfl, hlen⟩⟩, raw.take len, take_len raw _ hraw, split2 raw _⟩,
      by simp, trivial⟩
    intro h; apply hc3; show len = 3; rcases h with h | h <;> simp at h <;> omega

theorem llcParse_spec (next : K → Bytes → P Frame) (raw : Bytes) (hn : NextSpec next raw.length) :
    Out Good raw (llcParse Cfg.repaired next raw) := by
  unfold llcParse
  split
  · exact .inl ⟨_, rfl, rfl, by simp, by simp, trivial⟩
  · rename_i hlen
    obtain ⟨d, s, c, hu, hd, hs, hc⟩ := llc_shape (raw.take 3) (take_len raw 3 (by omega))
    simp only [hu]
    split
    · split
      · exact .inl ⟨_, rfl, rfl, by simp, by simp, trivial⟩
      · obtain ⟨b, hb, hb'⟩ := ordE_one (sl raw 3 4) (by rw [sl_length raw _ _ (by omega)])
        simp only [hb]
        have : c ||| (b <<< 8) < 65536 := by
          have h1 : c < 2 ^ 16 := by omega
          have h2 : b <<< 8 < 2 ^ 16 := by rw [Nat.shiftLeft_eq]; omega
          exact Nat.or_lt_two_pow h1 h2
        exact llcTail_spec next raw d s _ 4 hn (.inr rfl) (by omega) hd hs this (by omega)
    · exact llcTail_spec next raw d s c 3 hn (.inl rfl) (by omega) hd hs (by omega) (fun _ => hc)

/-! ### TCP options -/

theorem beDec_lt_le (b : Bytes) (w : Nat) (h : b.length ≤ w) : beDec b < 256 ^ w :=
  Nat.lt_of_lt_of_le (beDec_lt b) (Nat.pow_le_pow_right (by decide) h)

theorem unpackPairs_spec : ∀ (n : Nat) (b : Bytes) (bl : List (Nat × Nat)), unpackPairs n b = some bl →
    bl.length = n ∧ ∀ p ∈ bl, p.1 < 4294967296 ∧ p.2 < 4294967296 := by
  intro n
  induction n with
  | zero =>
    intro b bl h
    cases b with
    | nil => simp [unpackPairs] at h; subst h; simp
    | cons x xs => simp [unpackPairs] at h
  | succ n ih =>
    intro b bl h
    unfold unpackPairs at h
    split at h
    · simp at h
    · cases hr : unpackPairs n (b.drop 8) with
      | none => simp [hr] at h
      | some r =>
        simp [hr] at h
        subst h
        obtain ⟨h1, h2⟩ := ih _ _ hr
        refine ⟨by simp [h1], ?_⟩
        intro p hp
        simp at hp
        rcases hp with rfl | hp
        · exact ⟨by simpa using beDec_lt_le (b.take 4) 4 (by simp [List.length_take]; omega),
            by simpa using beDec_lt_le ((b.take 8).drop 4) 4 (by simp [List.length_take, List.length_drop]; omega)⟩
        · exact h2 p hp

theorem getU8_lt (arr : Bytes) (i v : Nat) (h : getU8 arr i = some v) : v < 256 ∧ i < arr.length := by
  unfold getU8 at h
  cases hx : arr[i]? with
  | none => simp [hx] at h
  | some x =>
    simp [hx] at h
    subst h
    exact ⟨x.toNat_lt, (List.getElem?_eq_some_iff.mp hx).1⟩

theorem tcpOptUnpack_spec (arr : Bytes) (i t length i' : Nat) (o : TcpOpt)
    (h : tcpOptUnpack arr i t length = some (i', o))
    (ht : t < 256) (hl : length < 256) (hl2 : 2 ≤ length) (hb : i + length ≤ arr.length)
    (t0 : t ≠ 0) (t1 : t ≠ 1) (t30 : t ≠ 30) :
    i' = i + length ∧ o.OK ∧ (optBytes o).length = length := by
  unfold tcpOptUnpack at h
  by_cases c2 : t = 2
  · rw [if_pos c2] at h
    by_cases c : length ≠ 4
    · rw [if_pos c] at h; simp at h
    · rw [if_neg c] at h
      dsimp only at h
      split at h
      · simp at h
      · simp at h
        obtain ⟨rfl, rfl⟩ := h
        refine ⟨rfl, ?_, ?_⟩
        · show beDec _ < 65536
          simpa using beDec_lt_le (sl arr (i + 2) (i + 4)) 2 (by have := sl_length_le arr (i + 2) (i + 4); omega)
        · rw [optBytes_length]; dsimp only; omega
  rw [if_neg c2] at h
  by_cases c3 : t = 3
  · rw [if_pos c3] at h
    by_cases c : length ≠ 3
    · rw [if_pos c] at h; simp at h
    · rw [if_neg c] at h
      cases hv : getU8 arr (i + 2) with
      | none => simp [hv] at h
      | some v =>
        simp [hv] at h
        obtain ⟨rfl, rfl⟩ := h
        exact ⟨rfl, (getU8_lt _ _ _ hv).1, by rw [optBytes_length]; dsimp only; omega⟩
  rw [if_neg c3] at h
  by_cases c4 : t = 4
  · rw [if_pos c4] at h
    by_cases c : length ≠ 2
    · rw [if_pos c] at h; simp at h
    · rw [if_neg c] at h
      simp at h
      obtain ⟨rfl, rfl⟩ := h
      exact ⟨rfl, trivial, by rw [optBytes_length]; dsimp only; omega⟩
  rw [if_neg c4] at h
  by_cases c5 : t = 5
  · rw [if_pos c5] at h
    split at h
    · rename_i hc
      cases hp : unpackPairs ((length - 2) / 8) (sl arr (i + 2) (i + length)) with
      | none => simp [hp] at h
      | some bl =>
        simp [hp] at h
        obtain ⟨rfl, rfl⟩ := h
        obtain ⟨h1, h2⟩ := unpackPairs_spec _ _ _ hp
        refine ⟨rfl, ⟨by rw [h1]; omega, h2⟩, ?_⟩
        rw [optBytes_length]; show 2 + 8 * bl.length = length; rw [h1]; omega
    · simp at h
  rw [if_neg c5] at h
  by_cases c8 : t = 8
  · rw [if_pos c8] at h
    by_cases c : length ≠ 10
    · rw [if_pos c] at h; simp at h
    · rw [if_neg c] at h
      dsimp only at h
      split at h
      · simp at h
      · simp at h
        obtain ⟨rfl, rfl⟩ := h
        refine ⟨rfl, ⟨?_, ?_⟩, by rw [optBytes_length]; dsimp only; omega⟩
        · simpa using beDec_lt_le ((sl arr (i + 2) (i + 10)).take 4) 4 (by simp [List.length_take]; omega)
        · have := sl_length_le arr (i + 2) (i + 10)
          simpa using beDec_lt_le ((sl arr (i + 2) (i + 10)).drop 4) 4 (by simp [List.length_drop]; omega)
  rw [if_neg c8] at h
  simp at h
  obtain ⟨rfl, rfl⟩ := h
  have hlen : (sl arr (i + 2) (i + length)).length = length - 2 := by rw [sl_length arr _ _ hb]; omega
  refine ⟨rfl, ⟨ht, t0, t1, c2, c3, c4, c5, c8, t30, by rw [hlen]; omega⟩, ?_⟩
  rw [optBytes_length]; show 2 + (sl arr (i + 2) (i + length)).length = length; rw [hlen]; omega

theorem cons_ok (o : TcpOpt) (r : OptsRes) (os : List TcpOpt) (h : r.cons o = .ok os) : ∃ rs, r = .ok rs ∧ os = o :: rs := by
  cases r with
  | ok rs => simp [OptsRes.cons] at h; exact ⟨rs, rfl, h.symm⟩
  | fail => simp [OptsRes.cons] at h
  | mptcp => simp [OptsRes.cons] at h

/-- options read by `parse_options` (with the C15-4 bound) are well-formed and end inside the header -/
theorem tcpParseOptsB_spec (arr : Bytes) (hdrLen : Nat) (hh : hdrLen ≤ arr.length) :
    ∀ (fuel i : Nat) (os : List TcpOpt), i ≤ hdrLen → tcpParseOptsB fuel arr hdrLen hdrLen i = .ok os →
      (∀ o ∈ os, o.OK) ∧ i + (optsBytes os).length ≤ hdrLen := by
  intro fuel
  induction fuel with
  | zero => intro i os _ h; simp [tcpParseOptsB] at h
  | succ fuel ih =>
    intro i os hi h
    unfold tcpParseOptsB at h
    by_cases c : i < hdrLen
    · rw [if_pos c] at h
      cases ht : getU8 arr i with
      | none => simp [ht] at h
      | some t =>
        simp only [ht] at h
        obtain ⟨htl, _⟩ := getU8_lt _ _ _ ht
        by_cases t0 : t = 0
        · rw [if_pos t0] at h; simp at h; subst h; simp [optsBytes]; omega
        rw [if_neg t0] at h
        by_cases t1 : t = 1
        · rw [if_pos t1] at h
          obtain ⟨rs, hr, rfl⟩ := cons_ok _ _ _ h
          obtain ⟨h1, h2⟩ := ih (i + 1) rs (by omega) hr
          refine ⟨?_, ?_⟩
          · intro o ho; simp at ho; rcases ho with rfl | ho
            · trivial
            · exact h1 o ho
          · simp [optsBytes, optBytes] at h2 ⊢; omega
        rw [if_neg t1] at h
        by_cases c2 : i + 2 > arr.length
        · rw [if_pos c2] at h; simp at h
        rw [if_neg c2] at h
        cases hl : getU8 arr (i + 1) with
        | none => simp [hl] at h
        | some length =>
          simp only [hl] at h
          obtain ⟨hll, _⟩ := getU8_lt _ _ _ hl
          by_cases c3 : i + length > hdrLen
          · rw [if_pos c3] at h; simp at h
          rw [if_neg c3] at h
          by_cases c4 : length < 2
          · rw [if_pos c4] at h; simp at h
          rw [if_neg c4] at h
          by_cases t30 : t = 30
          · rw [if_pos t30] at h; simp at h
          rw [if_neg t30] at h
          cases hu : tcpOptUnpack arr i t length with
          | none => simp [hu] at h
          | some p =>
            obtain ⟨i', o⟩ := p
            simp only [hu] at h
            obtain ⟨rs, hr, rfl⟩ := cons_ok _ _ _ h
            obtain ⟨e1, e2, e3⟩ := tcpOptUnpack_spec arr i t length i' o hu htl hll (by omega) (by omega) t0 t1 t30
            subst e1
            obtain ⟨h1, h2⟩ := ih (i + length) rs (by omega) hr
            refine ⟨?_, ?_⟩
            · intro q hq; simp at hq; rcases hq with rfl | hq
              · exact e2
              · exact h1 q hq
            · simp [optsBytes, e3] at h2 ⊢; omega
    · rw [if_neg c] at h
      simp at h; subst h
      simp [optsBytes]; omega


theorem decode_fits (L : Layout) : ∀ (bs : Bytes) (vs : List Val) (r : Bytes), decode L bs = some (vs, r) → fits L vs := by
  induction L with
  | nil => intro bs vs r h; simp [decode] at h; obtain ⟨rfl, _⟩ := h; simp [fits]
  | cons f L ih =>
    intro bs vs r h
    cases f with
    | uint w =>
      unfold decode at h
      split at h
      · simp at h
      · rename_i hw
        cases hd : decode L (bs.drop w) with
        | none => simp [hd] at h
        | some p =>
          obtain ⟨vs', r'⟩ := p
          simp [hd] at h
          obtain ⟨rfl, rfl⟩ := h
          exact ⟨beDec_lt_of_length _ w (by simp [List.length_take]; omega), ih _ _ _ hd⟩
    | pad n =>
      unfold decode at h
      split at h
      · simp at h
      · simpa [fits] using ih _ _ _ h
    | blob n =>
      unfold decode at h
      split at h
      · simp at h
      · rename_i hw
        cases hd : decode L (bs.drop n) with
        | none => simp [hd] at h
        | some p =>
          obtain ⟨vs', r'⟩ := p
          simp [hd] at h
          obtain ⟨rfl, rfl⟩ := h
          exact ⟨by simp [List.length_take]; omega, ih _ _ _ hd⟩

theorem unpackE_fits (L : Layout) (bs : Bytes) (vs : List Val) (h : unpackE L bs = .ok vs) : fits L vs := by
  unfold unpackE at h
  cases hu : unpack L bs with
  | none => simp [hu] at h
  | some vs' =>
    simp [hu] at h
    subst h
    unfold unpack at hu
    split at hu
    · cases hd : decode L bs with
      | none => simp [hd] at hu
      | some p => simp [hd] at hu; subst hu; exact decode_fits L bs p.1 p.2 hd
    · simp at hu

theorem tcp_shape (b : Bytes) (h : b.length = 20) :
    ∃ sp dp seq ack offres flags win csum urg,
      unpackE tcpL b = .ok [.num sp, .num dp, .num seq, .num ack, .num offres, .num flags, .num win, .num csum, .num urg] ∧
      unpack tcpL b = some [.num sp, .num dp, .num seq, .num ack, .num offres, .num flags, .num win, .num csum, .num urg] ∧
      sp < 65536 ∧ dp < 65536 ∧ seq < 4294967296 ∧ ack < 4294967296 ∧ offres < 256 ∧ flags < 256 ∧ win < 65536 ∧
      csum < 65536 ∧ urg < 65536 := by
  obtain ⟨vs, hu, hu', hf⟩ := unpackE_total tcpL b (by rw [h]; rfl)
  simp only [tcpL, fits_uint_iff, fits_nil_iff] at hf
  obtain ⟨a1, _, rfl, h1, a2, _, rfl, h2, a3, _, rfl, h3, a4, _, rfl, h4, a5, _, rfl, h5, a6, _, rfl, h6, a7, _, rfl, h7,
    a8, _, rfl, h8, a9, _, rfl, h9, rfl⟩ := hf
  exact ⟨a1, a2, a3, a4, a5, a6, a7, a8, a9, hu, hu', by simpa using h1, by simpa using h2, by simpa using h3,
    by simpa using h4, by simpa using h5, by simpa using h6, by simpa using h7, by simpa using h8, by simpa using h9⟩

theorem tcpParse_spec (raw : Bytes) : ∃ f, tcpParse Cfg.repaired raw = .ok f ∧ f.bytes = raw ∧ GoodIn true f := by
  unfold tcpParse
  dsimp only
  split
  · exact ⟨_, rfl, rfl, trivial⟩
  · rename_i hlen
    obtain ⟨sp, dp, seq, ack, offres, flags, win, csum, urg, hu, _, h1, h2, h3, h4, h5, h6, h7, h8, h9⟩ :=
      tcp_shape (raw.take 20) (take_len raw 20 (by omega))
    simp only [hu]
    split
    · exact ⟨_, rfl, rfl, trivial⟩
    · rename_i hoff
      have hb : (if Cfg.repaired.tcpOptBound = true then offres / 16 * 4 else raw.length) = offres / 16 * 4 := by
        simp [Cfg.repaired]
      rw [hb]
      cases hr : tcpParseOptsB (offres / 16 * 4) raw (offres / 16 * 4) (offres / 16 * 4) 20 with
      | fail => exact ⟨_, rfl, rfl, trivial⟩
      | mptcp => exact ⟨_, rfl, rfl, trivial⟩
      | ok os =>
        obtain ⟨o1, o2⟩ := tcpParseOptsB_spec raw (offres / 16 * 4) (by omega) _ 20 os (by omega) hr
        refine ⟨_, rfl, rfl, rfl, ⟨h1, h2, h3, h4, by show offres % 16 < 16; omega, h6, h7, h9⟩, o1, o2,
          by show offres / 16 < 16; omega, rfl, raw.take (offres / 16 * 4), take_len raw _ (by omega), split2 raw _⟩

/-! ### LLDP -/

theorem tlvBody_fits (t : Nat) (data : Bytes) (tlv : Tlv) (ht : t < 128) (h : tlvBody t data = .ok tlv) : tlv.Fits := by
  unfold tlvBody at h
  by_cases c12 : t = 1 ∨ t = 2
  · rw [if_pos c12] at h
    split at h
    · simp at h
    · cases hu : unpackE u8L (sl data 0 1) with
      | error e => simp [hu] at h
      | ok vs =>
        have hf := unpackE_fits _ _ _ hu
        simp only [u8L, fits_uint_iff, fits_nil_iff] at hf
        obtain ⟨st, _, rfl, hst, rfl⟩ := hf
        simp [hu] at h
        have hst' : st < 256 := by simpa using hst
        split at h <;> (simp [pure, Except.pure] at h; subst h; exact hst')
  rw [if_neg c12] at h
  by_cases c3 : t = 3
  · rw [if_pos c3] at h
    split at h
    · simp at h
    · cases hu : unpackE u16L (sl data 0 2) with
      | error e => simp [hu] at h
      | ok vs =>
        have hf := unpackE_fits _ _ _ hu
        simp only [u16L, fits_uint_iff, fits_nil_iff] at hf
        obtain ⟨v, _, rfl, hv, rfl⟩ := hf
        simp [hu, pure, Except.pure] at h
        subst h
        show v < 65536
        simpa using hv
  rw [if_neg c3] at h
  by_cases c0 : t = 0
  · rw [if_pos c0] at h
    split at h
    · simp at h
    · simp [pure, Except.pure] at h; subst h; trivial
  rw [if_neg c0] at h
  by_cases c7 : t = 7
  · rw [if_pos c7] at h
    cases hu : unpackE capsL data with
    | error e => simp [hu] at h
    | ok vs =>
      have hf := unpackE_fits _ _ _ hu
      simp only [capsL, fits_uint_iff, fits_nil_iff] at hf
      obtain ⟨a, _, rfl, ha, b, _, rfl, hb, rfl⟩ := hf
      simp [hu, pure, Except.pure] at h
      subst h
      exact ⟨by simpa using ha, by simpa using hb⟩
  rw [if_neg c7] at h
  by_cases c8 : t = 8
  · rw [if_pos c8] at h
    simp only [bind, Except.bind] at h
    cases h0 : idx data 0 with
    | error e => simp [h0] at h
    | ok a1 =>
      simp only [h0] at h
      cases h1 : idx data 1 with
      | error e => simp [h1] at h
      | ok ast =>
        simp only [h1] at h
        cases h2 : idx data (1 + a1) with
        | error e => simp [h2] at h
        | ok ins =>
          simp only [h2] at h
          cases hu : unpackE u32L (sl data (2 + a1) (6 + a1)) with
          | error e => simp [hu] at h
          | ok vs =>
            have hf := unpackE_fits _ _ _ hu
            simp only [u32L, fits_uint_iff, fits_nil_iff] at hf
            obtain ⟨ifn, _, rfl, hifn, rfl⟩ := hf
            simp only [hu] at h
            cases h3 : idx data (6 + a1) with
            | error e => simp [h3] at h
            | ok osl =>
              simp [h3, pure, Except.pure] at h
              subst h
              have idx_lt : ∀ (b : Bytes) (i v : Nat), idx b i = .ok v → v < 256 := by
                intro b i v hv
                unfold idx at hv
                cases hx : b[i]? with
                | none => simp [hx] at hv
                | some x => simp [hx] at hv; subst hv; exact x.toNat_lt
              have ha1 := idx_lt _ _ _ h0
              have hosl := idx_lt _ _ _ h3
              refine ⟨idx_lt _ _ _ h1, ?_, idx_lt _ _ _ h2, by simpa using hifn, ?_⟩
              · have := sl_length_le data 2 (1 + a1); omega
              · have := sl_length_le data (7 + a1) (7 + a1 + osl); omega
  rw [if_neg c8] at h
  by_cases c127 : t = 127
  · rw [if_pos c127] at h
    cases hu : unpackE orgL (sl data 0 4) with
    | error e => simp [hu] at h
    | ok vs =>
      have hf := unpackE_fits _ _ _ hu
      simp only [orgL, fits_blob_iff, fits_uint_iff, fits_nil_iff] at hf
      obtain ⟨oui, _, rfl, ho, st, _, rfl, hst, rfl⟩ := hf
      simp [hu, pure, Except.pure] at h
      subst h
      exact ⟨ho, by simpa using hst⟩
  rw [if_neg c127] at h
  simp [pure, Except.pure] at h
  subst h
  exact ht

theorem tlvParse_fits (raw : Bytes) (tlv : Tlv) (h : tlvParse raw = .ok tlv) : tlv.Fits := by
  unfold tlvParse at h
  cases hu : unpackE u16L (sl raw 0 2) with
  | error e => simp [hu] at h
  | ok vs =>
    have hf := unpackE_fits _ _ _ hu
    simp only [u16L, fits_uint_iff, fits_nil_iff] at hf
    obtain ⟨tl, _, rfl, htl, rfl⟩ := hf
    simp only [hu] at h
    split at h
    · simp at h
    · exact tlvBody_fits _ _ _ (by have : tl < 65536 := by simpa using htl
                                   omega) h

/-- `next_tlv` of the repaired code never raises; what it returns consumed at least the 2-byte TLV header -/
theorem nextTlv_spec (array : Bytes) :
    ∃ r, nextTlv Cfg.repaired array = .ok r ∧ ∀ n t, r = some (n, t) → 2 ≤ n ∧ t.Fits := by
  unfold nextTlv
  split
  · exact ⟨none, rfl, by simp⟩
  · rename_i hlen
    obtain ⟨tl, hu, _, _⟩ := num1_shape 2 (sl array 0 2) (by rw [sl_length array _ _ (by omega)])
    have hu' : unpackE u16L (sl array 0 2) = .ok [.num tl] := hu
    simp only [hu']
    have hb : (if Cfg.repaired.tlvBound = true then 2 + tl % 512 else tl % 512) = 2 + tl % 512 := by simp [Cfg.repaired]
    rw [hb]
    by_cases hc : array.length < 2 + tl % 512
    · rw [if_pos hc]; exact ⟨none, rfl, by simp⟩
    · rw [if_neg hc]
      cases ht : tlvParse (sl array 0 (2 + tl % 512)) with
      | ok t =>
        refine ⟨some (2 + tl % 512, t), rfl, ?_⟩
        intro n t' he
        simp at he
        obtain ⟨rfl, rfl⟩ := he
        exact ⟨by omega, tlvParse_fits _ _ ht⟩
      | error e => exact ⟨none, by simp [Cfg.repaired, pure, Except.pure], by simp⟩

theorem lldpLoop_spec (raw : Bytes) : ∀ (fuel pduhead : Nat) (acc : List Tlv), 1 ≤ fuel → raw.length + 1 ≤ pduhead + fuel →
    (∀ t ∈ acc, t.Fits) →
    ∃ ts fin, lldpLoop Cfg.repaired fuel raw pduhead acc = .ok (ts, fin) ∧ ∀ t ∈ ts, t.Fits := by
  intro fuel
  induction fuel with
  | zero => intro p acc h; omega
  | succ fuel ih =>
    intro p acc _ hinv hacc
    unfold lldpLoop
    obtain ⟨r, hr, hspec⟩ := nextTlv_spec (raw.drop p)
    simp only [hr]
    cases r with
    | none => exact ⟨acc, false, rfl, hacc⟩
    | some q =>
      obtain ⟨ret, t⟩ := q
      obtain ⟨hret, htf⟩ := hspec ret t rfl
      have hacc' : ∀ x ∈ acc ++ [t], x.Fits := by
        intro x hx; simp at hx; rcases hx with hx | rfl
        · exact hacc x hx
        · exact htf
      dsimp only
      split
      · exact ⟨_, true, rfl, hacc'⟩
      · split
        · exact ⟨_, false, rfl, hacc'⟩
        · rename_i hge
          exact ih (p + ret) (acc ++ [t]) (by omega) (by omega) hacc'

theorem lldpParse_spec (raw : Bytes) : ∃ f, lldpParse Cfg.repaired raw = .ok f ∧ f.bytes = raw ∧ Good f := by
  unfold lldpParse
  split
  · exact ⟨_, rfl, rfl, by simp [Good]⟩
  rename_i hlen
  obtain ⟨r1, h1, s1⟩ := nextTlv_spec raw
  simp only [h1]
  cases r1 with
  | none => exact ⟨_, rfl, rfl, by simp [Good]⟩
  | some q1 =>
    obtain ⟨n1, t1⟩ := q1
    obtain ⟨hn1, f1⟩ := s1 n1 t1 rfl
    dsimp only
    split
    · exact ⟨_, rfl, rfl, by simp [Good]; exact f1⟩
    obtain ⟨r2, h2, s2⟩ := nextTlv_spec (raw.drop n1)
    simp only [h2]
    cases r2 with
    | none => exact ⟨_, rfl, rfl, by simp [Good]; exact f1⟩
    | some q2 =>
      obtain ⟨n2, t2⟩ := q2
      obtain ⟨hn2, f2⟩ := s2 n2 t2 rfl
      dsimp only
      split
      · exact ⟨_, rfl, rfl, by simp [Good]; exact ⟨f1, f2⟩⟩
      obtain ⟨r3, h3, s3⟩ := nextTlv_spec (raw.drop (n1 + n2))
      simp only [h3]
      cases r3 with
      | none => exact ⟨_, rfl, rfl, by simp [Good]; exact ⟨f1, f2⟩⟩
      | some q3 =>
        obtain ⟨n3, t3⟩ := q3
        obtain ⟨hn3, f3⟩ := s3 n3 t3 rfl
        dsimp only
        split
        · exact ⟨_, rfl, rfl, by simp [Good]; exact ⟨f1, f2, f3⟩⟩
        obtain ⟨ts, fin, hl, hts⟩ := lldpLoop_spec raw raw.length (n1 + n2 + n3) [t1, t2, t3] (by omega) (by omega)
          (by intro t ht; simp at ht; rcases ht with rfl | rfl | rfl <;> assumption)
        simp only [hl]
        exact ⟨_, rfl, rfl, hts⟩


/-! ## phase 2: one lemma per added class -/

theorem spec_tiles (k : K) (f : Frame) (h : Spec k f) : f.Tiles := by
  cases k <;> simp only [Spec] at h
  all_goals first
    | exact good_tiles f h
    | exact goodIn_tiles f _ h
    | exact good_tiles f h.2
    | exact h.1

theorem ext_specX (x : Ext) (r : Bytes) (n : Frame) (ht : n.Tiles) (htile : ∃ hd cut, r = hd ++ (n.bytes ++ cut)) :
    SpecX (.ext x r n) := ⟨⟨htile, ht⟩, .inr rfl⟩

theorem nil_tiles (r : Bytes) : ∃ hd cut, r = hd ++ (Frame.nil.bytes ++ cut) := ⟨[], r, by simp [Frame.bytes]⟩

theorem idx_ok (b : Bytes) (i : Nat) (h : i < b.length) : ∃ v, idx b i = .ok v ∧ v < 256 := by
  unfold idx
  rw [List.getElem?_eq_getElem h]
  exact ⟨_, rfl, (b[i]).toNat_lt⟩

theorem sl_length_sub (raw : Bytes) (a b : Nat) : (sl raw a b).length ≤ raw.length - a := by
  simp [sl, List.length_drop, List.length_take]; omega

theorem nums3_shape (L : Layout) (w1 w2 w3 : Nat) (hL : L = [.uint w1, .uint w2, .uint w3]) (b : Bytes) (h : b.length = w1 + w2 + w3) :
    ∃ x y z, unpackE L b = .ok [.num x, .num y, .num z] := by
  subst hL
  obtain ⟨vs, hu, _, hf⟩ := unpackE_total [.uint w1, .uint w2, .uint w3] b (by simp [size, h]; omega)
  simp only [fits_uint_iff, fits_nil_iff] at hf
  obtain ⟨x, _, rfl, _, y, _, rfl, _, z, _, rfl, _, rfl⟩ := hf
  exact ⟨x, y, z, hu⟩

theorem mplsParse_spec (next : K → Bytes → P Frame) (raw : Bytes) (hn : NextSpec next raw.length) :
    Out SpecX raw (mplsParse next raw) := by
  unfold mplsParse
  split
  · exact .inl ⟨_, rfl, rfl, specX_leaf _ rfl⟩
  · rename_i hlen
    obtain ⟨x, y, z, hu⟩ := nums3_shape mplsL 2 1 1 rfl (raw.take 4) (take_len raw 4 (by omega))
    simp only [hu]
    have hraw : SpecX (.ext (.mpls ⟨x * 16 + y / 16, y % 16 / 2, y % 2, z⟩) raw (.raw (raw.drop 4))) :=
      ext_specX _ _ _ trivial (drop_tiles raw 4)
    split
    · rcases hn .mpls (raw.drop 4) (by simp [List.length_drop]; omega) with ⟨f, hf, hb, hg⟩ | ⟨e, he⟩
      · simp only [hf]
        exact .inl ⟨_, rfl, rfl, ext_specX _ _ _ hg.1 (by rw [hb]; exact drop_tiles raw 4)⟩
      · simp only [he]; exact .inl ⟨_, rfl, rfl, hraw⟩
    · exact .inl ⟨_, rfl, rfl, hraw⟩

theorem eapParse_spec (raw : Bytes) : Out SpecX raw (eapParse raw) := by
  unfold eapParse
  split
  · exact .inl ⟨_, rfl, rfl, specX_leaf _ rfl⟩
  · rename_i hlen
    obtain ⟨x, y, z, hu⟩ := nums3_shape eapolL 1 1 2 rfl (raw.take 4) (take_len raw 4 (by omega))
    simp only [hu]
    split
    · exact .inl ⟨_, rfl, rfl, ext_specX _ _ _ trivial (nil_tiles raw)⟩
    · rename_i hshort
      split
      · obtain ⟨t, ht, _, _⟩ := num1_shape 1 (sl raw 4 5) (by rw [sl_length raw _ _ (by omega)])
        have ht' : unpackE u8L (sl raw 4 5) = .ok [.num t] := ht
        simp only [ht']
        exact .inl ⟨_, rfl, rfl, ext_specX _ _ _ trivial (nil_tiles raw)⟩
      · exact .inl ⟨_, rfl, rfl, ext_specX _ _ _ trivial (nil_tiles raw)⟩

theorem eapolParse_spec (next : K → Bytes → P Frame) (raw : Bytes) (hn : NextSpec next raw.length) :
    Out SpecX raw (eapolParse next raw) := by
  unfold eapolParse
  split
  · exact .inl ⟨_, rfl, rfl, specX_leaf _ rfl⟩
  · rename_i hlen
    obtain ⟨x, y, z, hu⟩ := nums3_shape eapolL 1 1 2 rfl (raw.take 4) (take_len raw 4 (by omega))
    simp only [hu]
    split
    · rcases hn .eap (raw.drop 4) (by simp [List.length_drop]; omega) with ⟨f, hf, hb, hg⟩ | ⟨e, he⟩
      · simp only [hf]
        exact .inl ⟨_, rfl, rfl, ext_specX _ _ _ hg.1 (by rw [hb]; exact drop_tiles raw 4)⟩
      · simp only [he]; exact .inr ⟨e, rfl⟩
    · exact .inl ⟨_, rfl, rfl, ext_specX _ _ _ trivial (nil_tiles raw)⟩

theorem vxlan_shape (b : Bytes) (h : b.length = 8) :
    ∃ fl r v1 v2 v3 z, unpackE vxlanL b = .ok [.num fl, .raw r, .num v1, .num v2, .num v3, .num z] := by
  obtain ⟨vs, hu, _, hf⟩ := unpackE_total vxlanL b (by rw [h]; rfl)
  simp only [vxlanL, fits_uint_iff, fits_blob_iff, fits_nil_iff] at hf
  obtain ⟨a1, _, rfl, _, a2, _, rfl, _, a3, _, rfl, _, a4, _, rfl, _, a5, _, rfl, _, a6, _, rfl, _, rfl⟩ := hf
  exact ⟨a1, a2, a3, a4, a5, a6, hu⟩

theorem vxlanParse_spec (next : K → Bytes → P Frame) (raw : Bytes) (hn : NextSpec next raw.length) :
    Out SpecX raw (vxlanParse next raw) := by
  unfold vxlanParse
  split
  · exact .inl ⟨_, rfl, rfl, specX_leaf _ rfl⟩
  · rename_i hlen
    obtain ⟨fl, r, v1, v2, v3, z, hu⟩ := vxlan_shape (raw.take 8) (take_len raw 8 (by omega))
    simp only [hu]
    rcases hn .eth (raw.drop 8) (by simp [List.length_drop]; omega) with ⟨f, hf, hb, hg⟩ | ⟨e, he⟩
    · simp only [hf]
      exact .inl ⟨_, rfl, rfl, ext_specX _ _ _ (good_tiles f hg) (by rw [hb]; exact drop_tiles raw 8)⟩
    · simp only [he]; exact .inr ⟨e, rfl⟩

theorem ripParse_spec (raw : Bytes) : Out SpecX raw (ripParse raw) := by
  unfold ripParse
  split
  · exact .inl ⟨_, rfl, rfl, specX_leaf _ rfl⟩
  · rename_i hlen
    obtain ⟨x, y, z, hu⟩ := nums3_shape ripL 1 1 2 rfl (raw.take 4) (take_len raw 4 (by omega))
    simp only [hu]
    split
    · exact .inl ⟨_, rfl, rfl, specX_leaf _ rfl⟩
    · exact .inl ⟨_, rfl, rfl, ext_specX _ _ _ trivial (nil_tiles raw)⟩

theorem dns_shape (b : Bytes) (h : b.length = 12) :
    ∃ a1 a2 a3 a4 a5 a6 a7, unpackE dnsL b = .ok [.num a1, .num a2, .num a3, .num a4, .num a5, .num a6, .num a7] := by
  obtain ⟨vs, hu, _, hf⟩ := unpackE_total dnsL b (by rw [h]; rfl)
  simp only [dnsL, fits_uint_iff, fits_nil_iff] at hf
  obtain ⟨a1, _, rfl, _, a2, _, rfl, _, a3, _, rfl, _, a4, _, rfl, _, a5, _, rfl, _, a6, _, rfl, _, a7, _, rfl, _, rfl⟩ := hf
  exact ⟨a1, a2, a3, a4, a5, a6, a7, hu⟩

theorem dnsParse_spec (raw : Bytes) : Out SpecX raw (dnsParse raw) := by
  unfold dnsParse
  split
  · exact .inl ⟨_, rfl, rfl, specX_leaf _ rfl⟩
  · rename_i hlen
    obtain ⟨a1, a2, a3, a4, a5, a6, a7, hu⟩ := dns_shape (raw.take 12) (take_len raw 12 (by omega))
    simp only [hu]
    split
    · exact .inl ⟨_, rfl, rfl, specX_leaf _ rfl⟩
    · exact .inl ⟨_, rfl, rfl, ext_specX _ _ _ trivial (nil_tiles raw)⟩

theorem echo6Parse_spec (raw : Bytes) : Out SpecX raw (echo6Parse raw) := by
  unfold echo6Parse
  split
  · exact .inl ⟨_, rfl, rfl, specX_leaf _ rfl⟩
  · rename_i hlen
    obtain ⟨x, y, hu, _⟩ := nums2_shape echoL 2 2 rfl (raw.take 4) (take_len raw 4 (by omega))
    simp only [hu]
    exact .inl ⟨_, rfl, rfl, ext_specX _ _ _ trivial (drop_tiles raw 4)⟩

theorem unreach6Parse_spec (next : K → Bytes → P Frame) (raw : Bytes) (hn : NextSpec next raw.length) :
    Out SpecX raw (unreach6Parse next raw) := by
  unfold unreach6Parse
  split
  · exact .inl ⟨_, rfl, rfl, specX_leaf _ rfl⟩
  · rename_i hlen
    obtain ⟨x, hu, _, _⟩ := num1_shape 4 (raw.take 4) (take_len raw 4 (by omega))
    have hu' : unpackE u32L (raw.take 4) = .ok [.num x] := hu
    simp only [hu']
    split
    · rcases hn .ipv6 (raw.drop 4) (by simp [List.length_drop]; omega) with ⟨f, hf, hb, hg⟩ | ⟨e, he⟩
      · simp only [hf]
        exact .inl ⟨_, rfl, rfl, ext_specX _ _ _ hg.1 (by rw [hb]; exact drop_tiles raw 4)⟩
      · simp only [he]; exact .inr ⟨e, rfl⟩
    · exact .inl ⟨_, rfl, rfl, ext_specX _ _ _ trivial (drop_tiles raw 4)⟩
end Pox.Parse
