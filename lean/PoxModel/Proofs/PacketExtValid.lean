import PoxModel.Proofs.PacketExtChain
import PoxModel.Proofs.PacketValid
import PoxModel.Proofs.Igmp3
/-!
# Phase-2 classes: whole-chain validity over IPv6, idempotence of `hdr`, and a composed VXLAN frame (C14; core only)
-/
namespace Pox.Packet
open Pox Pox.PktLayout Pox.Checksum

/-! ## what a receiver reads out of the emitted IPv6 header -/

theorem ipv6_wire_fields (h : IPv6) (n : Nat) (hf : h.Fits) :
    sl (ipv6Bytes h n) 8 24 = h.src ∧ sl (ipv6Bytes h n) 24 40 = h.dst ∧ beDec (sl (ipv6Bytes h n) 6 7) = h.nh := by
  have hs := hf.src; have hd := hf.dst
  have e : ipv6Bytes h n = (beEnc 4 (ipv6Word h) ++ (be16 n ++ (beEnc 1 h.nh ++ beEnc 1 h.hop))) ++ (h.src ++ h.dst) := by
    simp [ipv6Bytes, List.append_assoc]
  have hl8 : (beEnc 4 (ipv6Word h) ++ (be16 n ++ (beEnc 1 h.nh ++ beEnc 1 h.hop))).length = 8 := by simp
  refine ⟨?_, ?_, ?_⟩
  · rw [e]
    have := sl_mid (beEnc 4 (ipv6Word h) ++ (be16 n ++ (beEnc 1 h.nh ++ beEnc 1 h.hop))) h.src h.dst 8 24 hl8.symm (by rw [hl8, hs])
    exact this
  · rw [e, ← List.append_assoc]
    exact sl_tail _ _ 24 40 (by rw [List.length_append, hl8, hs]) (by rw [List.length_append, hl8, hs, hd])
  · have : sl (ipv6Bytes h n) 6 7 = beEnc 1 h.nh := by
      unfold ipv6Bytes
      rw [← List.append_assoc (beEnc 4 _) (be16 _)]
      exact sl_mid (beEnc 4 (ipv6Word h) ++ be16 n) (beEnc 1 h.nh) _ 6 7 (by simp) (by simp)
    rw [this, beDec_beEnc 1 _ (by simpa using hf.nh)]

/-- **UDP over IPv6, whole frame.**  `ethernet/ipv6/udp/payload` packs to the Ethernet header, a 40-byte IPv6 header whose
payload-length field is the UDP segment's length, and a segment whose length field is its own length and whose checksum
is RFC 1071 over the pseudo header a receiver builds from the **emitted IPv6 header bytes** (source, destination, next
header) and the segment with its checksum word zeroed (0 sent as 0xffff) -/
theorem xpack_ipv6_udp_valid (cfg : XCfg) (e : Eth) (h : IPv6) (u : Udp) (b : Bytes) (he : e.Fits) (hf : h.Fits)
    (hu : u.Fits) (hn : b.length + 8 < 65536) :
    ∃ ip6 seg, xpack cfg none (.eth e (.ipv6 h (.udp u (.raw b)))) = .ok (ethBytes e ++ (ip6 ++ seg)) ∧ ip6.length = 40 ∧
      beDec (sl ip6 4 6) = seg.length ∧ beDec (sl seg 4 6) = seg.length ∧
      beDec (sl seg 6 8) =
        (let r := rfc1071 (pseudo6 (sl ip6 8 24) (sl ip6 24 40) seg.length (beDec (sl ip6 6 7)) ++ zeroWord 3 seg)
         if r = 0 then 65535 else r) := by
  have hcs := udp6CsumSpec_lt h.src h.dst h.nh u b
  have hseg : (udpPre u b.length ++ be16 (udp6CsumSpec h.src h.dst h.nh u b) ++ b).length = b.length + 8 := by
    simp [udpPre_length]; omega
  obtain ⟨f1, f2, f3⟩ := ipv6_wire_fields h (b.length + 8) hf
  refine ⟨ipv6Bytes h (b.length + 8), udpPre u b.length ++ be16 (udp6CsumSpec h.src h.dst h.nh u b) ++ b, ?_,
    ipv6Bytes_length h _ hf, ?_, ?_, ?_⟩
  · simp only [xpack, xpackU, udpHdr6_ok h.src h.dst h.nh u b hf.src hf.dst hf.nh hu hn, bind, Except.bind, pure, Except.pure]
    rw [hseg]
    simp only [ipv6Hdr_ok h (b.length + 8) hf hn, ethHdr_ok e he]
  · rw [ipv6_len_field h _ hn, hseg]
  · have : sl (udpPre u b.length ++ be16 (udp6CsumSpec h.src h.dst h.nh u b) ++ b) 4 6 = be16 (b.length + 8) := by
      unfold udpPre
      simp only [List.append_assoc]
      rw [← List.append_assoc (be16 u.sport) (be16 u.dport)]
      exact sl_mid (be16 u.sport ++ be16 u.dport) (be16 (b.length + 8)) _ 4 6 (by simp) (by simp)
    rw [this, be16, beDec_beEnc 2 _ (by simpa using hn), hseg]
  · have e1 : sl (udpPre u b.length ++ be16 (udp6CsumSpec h.src h.dst h.nh u b) ++ b) 6 8
        = be16 (udp6CsumSpec h.src h.dst h.nh u b) := by
      rw [List.append_assoc]
      exact sl_mid _ _ _ 6 8 (by rw [udpPre_length]) (by rw [udpPre_length, be16_length])
    have hz : zeroWord 3 (udpPre u b.length ++ be16 (udp6CsumSpec h.src h.dst h.nh u b) ++ b)
        = udpPre u b.length ++ 0 :: 0 :: b := by
      rw [be16_eq _ hcs]
      simp only [List.append_assoc, List.cons_append, List.nil_append]
      exact zeroWord_at 3 _ _ _ _ (by rw [udpPre_length])
    have hlt : udp6CsumSpec h.src h.dst h.nh u b < 256 ^ 2 := hcs
    rw [e1, f1, f2, f3, hz, hseg, be16, beDec_beEnc 2 _ hlt]
    rfl

/-- **ICMPv6 over IPv6, whole frame**: the checksum is over the pseudo header read from the emitted IPv6 header with
next header 58, and the message with its checksum word zeroed -/
theorem xpack_ipv6_icmp6_valid (cfg : XCfg) (e : Eth) (h : IPv6) (i : Icmp) (b : Bytes) (he : e.Fits) (hf : h.Fits)
    (hi : i.Fits) (hn : b.length + 4 < 65536) :
    ∃ ip6 seg, xpack cfg none (.eth e (.ipv6 h (.icmp6 i (.raw b)))) = .ok (ethBytes e ++ (ip6 ++ seg)) ∧ ip6.length = 40 ∧
      beDec (sl ip6 4 6) = seg.length ∧
      beDec (sl seg 2 4) = rfc1071 (pseudo6 (sl ip6 8 24) (sl ip6 24 40) seg.length 58 ++ zeroWord 1 seg) := by
  have hcs : icmp6CsumSpec h.src h.dst i b < 65536 := rfc1071_lt _
  have hpl : (icmpPre i).length = 2 := by simp [icmpPre]
  have hseg : (icmp6Bytes h.src h.dst i b ++ b).length = b.length + 4 := by simp [icmp6Bytes, hpl]; omega
  obtain ⟨f1, f2, _⟩ := ipv6_wire_fields h (b.length + 4) hf
  refine ⟨ipv6Bytes h (b.length + 4), icmp6Bytes h.src h.dst i b ++ b, ?_, ipv6Bytes_length h _ hf, ?_, ?_⟩
  · simp only [xpack, xpackU, icmp6Hdr_ok h.src h.dst i b hf.src hf.dst hi (by omega), bind, Except.bind, pure, Except.pure]
    rw [hseg]
    simp only [ipv6Hdr_ok h (b.length + 4) hf hn, ethHdr_ok e he]
  · rw [ipv6_len_field h _ hn, hseg]
  · have e1 : sl (icmp6Bytes h.src h.dst i b ++ b) 2 4 = be16 (icmp6CsumSpec h.src h.dst i b) := by
      unfold icmp6Bytes; rw [List.append_assoc]
      exact sl_mid _ _ _ 2 4 (by rw [hpl]) (by rw [hpl, be16_length])
    have hz : zeroWord 1 (icmp6Bytes h.src h.dst i b ++ b) = icmpPre i ++ 0 :: 0 :: b := by
      unfold icmp6Bytes
      rw [be16_eq _ hcs]
      simp only [List.append_assoc, List.cons_append, List.nil_append]
      exact zeroWord_at 1 _ _ _ _ (by rw [hpl])
    have hlt : icmp6CsumSpec h.src h.dst i b < 256 ^ 2 := hcs
    rw [e1, f1, f2, hz, hseg, be16, beDec_beEnc 2 _ hlt]
    rfl

/-- **TCP over IPv6, whole frame** -/
theorem xpack_ipv6_tcp_valid (cfg : XCfg) (e : Eth) (h : IPv6) (t : Tcp) (b : Bytes) (he : e.Fits) (hf : h.Fits)
    (ht : t.Fits) (hok : ∀ o ∈ t.opts, o.OK) (hol : (optsPadded t.opts).length ≤ 40)
    (hn : 20 + (optsPadded t.opts).length + b.length < 65536) :
    ∃ ip6 seg, xpack cfg none (.eth e (.ipv6 h (.tcp t (.raw b)))) = .ok (ethBytes e ++ (ip6 ++ seg)) ∧ ip6.length = 40 ∧
      beDec (sl ip6 4 6) = seg.length ∧
      beDec (sl seg 16 18) = rfc1071 (pseudo6 (sl ip6 8 24) (sl ip6 24 40) seg.length (beDec (sl ip6 6 7)) ++ zeroWord 8 seg) := by
  generalize hop : optsPadded t.opts = op at *
  have hcs : tcp6CsumSpec h.src h.dst h.nh t op b < 65536 := rfc1071_lt _
  have hres := tcpHdr6_ok h.src h.dst h.nh t op b hf.src hf.dst hf.nh ht (by rw [← hop]; exact tcpOptsPadded_ok t.opts hok)
    hol (by omega)
  have hseg : (tcpPre t ((20 + op.length) / 4) ++ (be16 (tcp6CsumSpec h.src h.dst h.nh t op b) ++ (be16 t.urg ++ op)) ++ b).length
      = 20 + op.length + b.length := by simp [tcpPre_length]; omega
  obtain ⟨f1, f2, f3⟩ := ipv6_wire_fields h (20 + op.length + b.length) hf
  refine ⟨ipv6Bytes h (20 + op.length + b.length),
    tcpPre t ((20 + op.length) / 4) ++ (be16 (tcp6CsumSpec h.src h.dst h.nh t op b) ++ (be16 t.urg ++ op)) ++ b, ?_,
    ipv6Bytes_length h _ hf, ?_, ?_⟩
  · simp only [xpack, xpackU, hres, bind, Except.bind, pure, Except.pure]
    rw [hseg]
    simp only [ipv6Hdr_ok h (20 + op.length + b.length) hf hn, ethHdr_ok e he]
  · rw [ipv6_len_field h _ hn, hseg]
  · have e1 : sl (tcpPre t ((20 + op.length) / 4) ++ (be16 (tcp6CsumSpec h.src h.dst h.nh t op b) ++ (be16 t.urg ++ op)) ++ b) 16 18
        = be16 (tcp6CsumSpec h.src h.dst h.nh t op b) := by
      simp only [List.append_assoc]
      exact sl_mid _ _ _ 16 18 (by rw [tcpPre_length]) (by rw [tcpPre_length, be16_length])
    have hz : zeroWord 8 (tcpPre t ((20 + op.length) / 4) ++ (be16 (tcp6CsumSpec h.src h.dst h.nh t op b) ++ (be16 t.urg ++ op)) ++ b)
        = tcpPre t ((20 + op.length) / 4) ++ 0 :: 0 :: (be16 t.urg ++ (op ++ b)) := by
      rw [be16_eq _ hcs]
      simp only [List.append_assoc, List.cons_append, List.nil_append]
      exact zeroWord_at 8 _ _ _ _ (by rw [tcpPre_length])
    have hlt : tcp6CsumSpec h.src h.dst h.nh t op b < 256 ^ 2 := hcs
    rw [e1, f1, f2, f3, hz, hseg, be16, beDec_beEnc 2 _ hlt]
    rfl

/-! ## `hdr` is idempotent on what `parse` returns (phase-2 classes) -/

theorem ipv6Hdr_idem (h : IPv6) (n m : Nat) : ipv6Hdr { h with plen := m } n = ipv6Hdr h n := by
  simp [ipv6Hdr]

theorem icmp6Hdr_idem (s d : Bytes) (h : Icmp) (c : Nat) (p : Bytes) : icmp6Hdr s d { h with csum := c } p = icmp6Hdr s d h p := by
  simp [icmp6Hdr]

theorem igmpHdr_idem (h : Igmp) (c : Nat) : igmpHdr { h with csum := c } = igmpHdr h := by
  unfold igmpHdr
  by_cases hv : h.vt = 0x22
  · simp [hv]
  · simp only [hv, if_false]

/-- re-serialising a parsed GRE header: the stored checksum is emitted as is, and `hdr`'s own assertion
(`checksum(r + payload) == 0`) holds -/
theorem greHdr_idem (h : Gre) (payload : Bytes) (hf : h.Fits) (hn : payload.length + 16 ≤ 131072) :
    greHdr { h with csum := if h.csum = .absent then .absent else .val (greCsumSpec h payload) } payload
      = .ok ({ h with csum := if h.csum = .absent then .absent else .val (greCsumSpec h payload) }, greBytes h payload) := by
  rcases hf.csum with hc | hc
  · have := greHdr_ok h payload hf hn
    simp only [hc, if_true] at this ⊢
    have hh : ({ h with csum := GreCsum.absent } : Gre) = h := by cases h; simp_all
    rw [hh] at this ⊢
    exact this
  · have hfl := greFlags_lt h
    have hk := optU32_ok h.key hf.key
    have hs := optU32_ok h.seq hf.seq
    have hne : ¬ (h.csum = GreCsum.absent) := by rw [hc]; simp
    have hflags : (if (GreCsum.val (greCsumSpec h payload)) = GreCsum.absent then 0 else 0x8000) +
        (if h.key.isSome then 0x2000 else 0) + (if h.seq.isSome then 0x1000 else 0) + (if h.ssr then 0x800 else 0) +
        ((h.recursion / 256) % 8) * 65536 = greFlags h := by
      rw [hf.recursion]; simp [greFlags, hc]
    have ea : pk [.uint 2, .uint 2] [.num (greFlags h), .num h.type] = .ok (be16 (greFlags h) ++ be16 h.type) := by
      simp [pk, encode, be16, hfl, hf.type]
    have hcs : greCsumSpec h payload < 65536 := rfc1071_lt _
    have ec : pk [.uint 2, .uint 2] [.num (greCsumSpec h payload), .num h.routeOffset]
        = .ok (be16 (greCsumSpec h payload) ++ be16 h.routeOffset) := by
      simp [pk, encode, be16, hcs, hf.routeOffset]
    have hbytes : be16 (greFlags h) ++ be16 h.type ++ (be16 (greCsumSpec h payload) ++ be16 h.routeOffset ++ (greOpt h.key ++ greOpt h.seq))
        = greBytes h payload := by
      simp [greBytes, hc, greTail, List.append_assoc]
    have hlen : (greBytes h payload ++ payload).length ≤ 131072 := by
      rw [← hbytes]; simp [greOpt_length]; split <;> split <;> omega
    have hver : checksum (greBytes h payload ++ payload) 0 none = 0 := by
      rw [checksum_eq _ hlen]; exact gre_verifies h payload hc
    unfold greHdr
    simp only [hne, if_false, hflags, ea, ec, hk, hs, bind, Except.bind, pure, Except.pure, hbytes, hver, if_true]

/-! ## a composed phase-2 frame: Ethernet / IPv4 / UDP(4789) / VXLAN / Ethernet / ARP -/

theorem xparse_vxlan_step (cfg : XCfg) (f : Nat) (ctx : Option XCtx) (raw : Bytes) :
    xparse cfg (f + 1) ctx .vxlan raw = vxlanParse (xparse cfg f) raw := rfl

theorem xparse_arp_step (cfg : XCfg) (f : Nat) (ctx : Option XCtx) (raw : Bytes) :
    xparse cfg (f + 1) ctx (.core .arp) raw = lift (contOf (xparse cfg f)) (arpParse raw) := rfl

/-- **VXLAN-encapsulated ARP, whole frame.**  For every outer Ethernet/IPv4/UDP (destination port 4789) header, VXLAN
header, inner Ethernet header (EtherType ARP), ARP body and trailing padding, all fields in range: `pack()` succeeds,
`ethernet(raw = bytes)` returns the six-layer chain with the same fields (IPv4 total length / checksum and UDP length /
checksum as `hdr` computed them), and packing that again reproduces the bytes. -/
theorem vxlan_arp_frame (cfg : XCfg) (e1 : Eth) (ip : IPv4) (u : Udp) (vx : Vxlan) (e2 : Eth) (a : Arp) (pad : Bytes)
    (he1 : e1.Fits) (ht1 : e1.type = 0x0800) (hip : ip.Fits) (hfr : ip.frag = 0) (hpr : ip.proto = 17) (hu : u.Fits)
    (hsel : udpSel u = some "vxlan") (hvx : vx.Fits) (he2 : e2.Fits) (ht2 : e2.type = 0x0806) (ha : a.Fits)
    (hsz : 4 * ip.hl + 58 + pad.length < 65536) :
    ∃ ip' u' bs,
      xpack cfg none (.eth e1 (.ipv4 ip (.udp u (.vxlan vx (.eth e2 (.arp a (.raw pad))))))) = .ok bs ∧
      xparseTop cfg (.core .eth) bs = .eth e1 (.ipv4 ip' (.udp u' (.vxlan vx (.eth e2 (.arp a (.raw pad)))))) ∧
      xpack cfg none (.eth e1 (.ipv4 ip' (.udp u' (.vxlan vx (.eth e2 (.arp a (.raw pad))))))) = .ok bs := by
  obtain ⟨ab, hab, habl, hap⟩ := arp_parse a pad ha
  have hc : IPCtx.Fits ⟨ip.src, ip.dst, ip.proto⟩ := ⟨hip.src, hip.dst, hip.proto⟩
  generalize hcd : (⟨ip.src, ip.dst, ip.proto⟩ : IPCtx) = c at hc
  obtain ⟨inner, hid⟩ : ∃ x, x = ethBytes e2 ++ (ab ++ pad) := ⟨_, rfl⟩
  obtain ⟨vxl, hvd⟩ : ∃ x, x = vxlanBytes vx ++ inner := ⟨_, rfl⟩
  obtain ⟨seg, hsd⟩ : ∃ x, x = udpBytes c u vxl ++ vxl := ⟨_, rfl⟩
  have hinner : inner.length = 42 + pad.length := by rw [hid]; simp [ethBytes_length e2 he2, habl]; omega
  have hvxl : vxl.length = 50 + pad.length := by rw [hvd]; simp [vxlanBytes_length, hinner]; omega
  have hseg : seg.length = 58 + pad.length := by rw [hsd]; simp [udpBytes_length, hvxl]; omega
  have hun : vxl.length + 8 < 65536 := by have := hip.hl5; omega
  have hipn : ip.hl * 4 + seg.length < 65536 := by omega
  have hudp := udpHdr_ok c u vxl hc hu hun
  have hiph := ipv4Hdr_ok ip seg.length hip hipn
  -- pack, layer by layer
  have hx1 : xpackU cfg none (.eth e2 (.arp a (.raw pad))) = .ok (.eth e2 (.arp a (.raw pad)), inner) := by
    simp [xpackU, hab, ethHdr_ok e2 he2, bind, Except.bind, pure, Except.pure, hid]
  have hx2 : xpackU cfg none (.vxlan vx (.eth e2 (.arp a (.raw pad))))
      = .ok (.vxlan vx (.eth e2 (.arp a (.raw pad))), vxl) := by
    rw [xpackU, hx1]
    simp only [vxlanHdr_ok vx hvx, bind, Except.bind, pure, Except.pure, hvd]
  have hx3 : ∀ (uu : Udp), udpHdr (some c) uu vxl = udpHdr (some c) u vxl →
      xpackU cfg (some (.v4 c)) (.udp uu (.vxlan vx (.eth e2 (.arp a (.raw pad)))))
      = .ok (.udp (udpUpd c u vxl) (.vxlan vx (.eth e2 (.arp a (.raw pad)))), seg) := by
    intro uu huu
    rw [xpackU, hx2]
    simp only [ipCtxOf, huu, hudp, bind, Except.bind, pure, Except.pure, hsd]
  have hx4 : ∀ (ii : IPv4) (uu : Udp), ii.src = ip.src → ii.dst = ip.dst → ii.proto = ip.proto →
      ipv4Hdr ii seg.length = ipv4Hdr ip seg.length → udpHdr (some c) uu vxl = udpHdr (some c) u vxl →
      xpack cfg none (.eth e1 (.ipv4 ii (.udp uu (.vxlan vx (.eth e2 (.arp a (.raw pad)))))))
      = .ok (ethBytes e1 ++ (ipv4Bytes ip seg.length ++ seg)) := by
    intro ii uu h1 h2 h3 hii huu
    have hctx : (⟨ii.src, ii.dst, ii.proto⟩ : IPCtx) = c := by rw [h1, h2, h3, hcd]
    unfold xpack
    rw [xpackU, xpackU, hctx, hx3 uu huu]
    simp only [hii, hiph, ethHdr_ok e1 he1, bind, Except.bind, pure, Except.pure]
  refine ⟨ipv4Upd ip seg.length, udpUpd c u vxl, ethBytes e1 ++ (ipv4Bytes ip seg.length ++ seg), ?_, ?_, ?_⟩
  · exact hx4 ip u rfl rfl rfl rfl rfl
  · have hflen : (ethBytes e1 ++ (ipv4Bytes ip seg.length ++ seg)).length + 1 = (4 * ip.hl + 67 + pad.length) + 1 + 1 + 1 + 1 + 1 + 1 := by
      simp only [List.length_append, ethBytes_length e1 he1, ipv4Bytes_length ip _ hip, hseg]; omega
    unfold xparseTop
    rw [hflen, xparse_eth cfg _ none e1 _ he1]
    have s1 : xEthNext (xparse cfg (4 * ip.hl + 67 + pad.length + 1 + 1 + 1 + 1 + 1)) e1.type (ipv4Bytes ip seg.length ++ seg)
        = xparse cfg (4 * ip.hl + 67 + pad.length + 1 + 1 + 1 + 1 + 1) none (.core .ipv4) (ipv4Bytes ip seg.length ++ seg) := by
      simp [xEthNext, ht1]
    rw [s1, xparse_ipv4 cfg _ none ip seg hip hipn]
    have s2 : xparse cfg (4 * ip.hl + 67 + pad.length + 1 + 1 + 1 + 1) none (.core .udp) seg
        = .udp (udpUpd c u vxl) (.vxlan vx (.eth e2 (.arp a (.raw pad)))) := by
      rw [hsd, xparse_udp cfg _ none c u vxl hu hun]
      simp only [hsel]
      have s3 : contOf (xparse cfg (4 * ip.hl + 67 + pad.length + 1 + 1 + 1)) "vxlan" vxl
          = xparse cfg (4 * ip.hl + 67 + pad.length + 1 + 1 + 1) none .vxlan vxl := by simp [contOf]
      rw [s3, xparse_vxlan_step, hvd, vxlan_parse _ vx inner hvx, hid, xparse_eth cfg _ none e2 _ he2]
      have s4 : xEthNext (xparse cfg (4 * ip.hl + 67 + pad.length + 1)) e2.type (ab ++ pad)
          = xparse cfg (4 * ip.hl + 67 + pad.length + 1) none (.core .arp) (ab ++ pad) := by
        simp [xEthNext, ht2]
      rw [s4, xparse_arp_step, hap]
      simp [lift]
    simp only [xIp4Next, hfr, hpr, s2]
    simp [isUnparsedX]
  · exact hx4 (ipv4Upd ip seg.length) (udpUpd c u vxl) rfl rfl rfl (ipv4Hdr_idem ip _ _) (udpHdr_idem _ c u vxl vxl)

end Pox.Packet
