import PoxModel.Proofs.PacketExtChain
import PoxModel.Proofs.PacketValid
import PoxModel.Proofs.Igmp3
/-!
# Phase-2 classes: whole-chain validity over IPv6, idempotence of `hdr`, and a composed VXLAN frame (C14; core only)
-/
namespace Pox.Packet
open Pox Pox.PktLayout Pox.Checksum

/-! ## what a receiver reads out of the emitted IPv6 header -/

theorem ipv6_wire_fields (h : IPv6) (n : Nat) (hf : h.Fits) :
    sl (ipv6Bytes h n) 8 24 = h.src ∧ sl (ipv6Bytes h n) 24 40 = h.dst ∧ beDec (sl (ipv6Bytes h n) 6 7) = h.nh := by
  have hs := hf.src; have hd := hf.dst
  have e : ipv6Bytes h n = (beEnc 4 (ipv6Word h) ++ (be16 n ++ (beEnc 1 h.nh ++ beEnc 1 h.hop))) ++ (h.src ++ h.dst) := by
    simp [ipv6Bytes, List.append_assoc]
  have hl8 : (beEnc 4 (ipv6Word h) ++ (be16 n ++ (beEnc 1 h.nh ++ beEnc 1 h.hop))).length = 8 := by simp
  refine ⟨?_, ?_, ?_⟩
  · rw [e]
    have := sl_mid (beEnc 4 (ipv6Word h) ++ (be16 n ++ (beEnc 1 h.nh ++ beEnc 1 h.hop))) h.src h.dst 8 24 hl8.symm (by rw [hl8, hs])
    exact this
  · rw [e, ← List.append_assoc]
    exact sl_tail _ _ 24 40 (by rw [List.length_append, hl8, hs]) (by rw [List.length_append, hl8, hs, hd])
  · have : sl (ipv6Bytes h n) 6 7 = beEnc 1 h.nh := by
      unfold ipv6Bytes
      rw [← List.append_assoc (beEnc 4 _) (be16 _)]
      exact sl_mid (beEnc 4 (ipv6Word h) ++ be16 n) (beEnc 1 h.nh) _ 6 7 (by simp) (by simp)
    rw [this, beDec_beEnc 1 _ (by simpa using hf.nh)]

/-- **UDP over IPv6, whole frame.**  `ethernet/ipv6/udp/payload` packs to the Ethernet header, a 40-byte IPv6 header whose
payload-length field is the UDP segment's length, and a segment whose length field is its own length and whose checksum
is RFC 1071 over the pseudo header a receiver builds from the **emitted IPv6 header bytes** (source, destination, next
header) and the segment with its checksum word zeroed (0 sent as 0xffff) -/
theorem xpack_ipv6_udp_valid (cfg : XCfg) (e : Eth) (h : IPv6) (u : Udp) (b : Bytes) (he : e.Fits) (hf : h.Fits)
    (hu : u.Fits) (hn : b.length + 8 < 65536) :
    ∃ ip6 seg, xpack cfg none (.eth e (.ipv6 h (.udp u (.raw b)))) = .ok (ethBytes e ++ (ip6 ++ seg)) ∧ ip6.length = 40 ∧
      beDec (sl ip6 4 6) = seg.length ∧ beDec (sl seg 4 6) = seg.length ∧
      beDec (sl seg 6 8) =
        (let r := rfc1071 (pseudo6 (sl ip6 8 24) (sl ip6 24 40) seg.length (beDec (sl ip6 6 7)) ++ zeroWord 3 seg)
         if r = 0 then 65535 else r) := by
  have hcs := udp6CsumSpec_lt h.src h.dst h.nh u b
  have hseg : (udpPre u b.length ++ be16 (udp6CsumSpec h.src h.dst h.nh u b) ++ b).length = b.length + 8 := by
    simp [udpPre_length]; omega
  obtain ⟨f1, f2, f3⟩ := ipv6_wire_fields h (b.length + 8) hf
  refine ⟨ipv6Bytes h (b.length + 8), udpPre u b.length ++ be16 (udp6CsumSpec h.src h.dst h.nh u b) ++ b, ?_,
    ipv6Bytes_length h _ hf, ?_, ?_, ?_⟩
  · simp only [xpack, xpackU, udpHdr6_ok h.src h.dst h.nh u b hf.src hf.dst hf.nh hu hn, bind, Except.bind, pure, Except.pure]
    rw [hseg]
    simp only [ipv6Hdr_ok h (b.length + 8) hf hn, ethHdr_ok e he]
  · rw [ipv6_len_field h _ hn, hseg]
  · have : sl (udpPre u b.length ++ be16 (udp6CsumSpec h.src h.dst h.nh u b) ++ b) 4 6 = be16 (b.length + 8) := by
      unfold udpPre
      simp only [List.append_assoc]
      rw [← List.append_assoc (be16 u.sport) (be16 u.dport)]
      exact sl_mid (be16 u.sport ++ be16 u.dport) (be16 (b.length + 8)) _ 4 6 (by simp) (by simp)
    rw [this, be16, beDec_beEnc 2 _ (by simpa using hn), hseg]
  · have e1 : sl (udpPre u b.length ++ be16 (udp6CsumSpec h.src h.dst h.nh u b) ++ b) 6 8
        = be16 (udp6CsumSpec h.src h.dst h.nh u b) := by
      rw [List.append_assoc]
      exact sl_mid _ _ _ 6 8 (by rw [udpPre_length]) (by rw [udpPre_length, be16_length])
    have hz : zeroWord 3 (udpPre u b.length ++ be16 (udp6CsumSpec h.src h.dst h.nh u b) ++ b)
        = udpPre u b.length ++ 0 :: 0 :: b := by
      rw [be16_eq _ hcs]
      simp only [List.append_assoc, List.cons_append, List.nil_append]
      exact zeroWord_at 3 _ _ _ _ (by rw [udpPre_length])
    have hlt : udp6CsumSpec h.src h.dst h.nh u b < 256 ^ 2 := hcs
    rw [e1, f1, f2, f3, hz, hseg, be16, beDec_beEnc 2 _ hlt]
    rfl

/-- **ICMPv6 over IPv6, whole frame**: the checksum is over the pseudo header read from the emitted IPv6 header with
next header 58, and the message with its checksum word zeroed -/
theorem xpack_ipv6_icmp6_valid (cfg : XCfg) (e : Eth) (h : IPv6) (i : Icmp) (b : Bytes) (he : e.Fits) (hf : h.Fits)
    (hi : i.Fits) (hn : b.length + 4 < 65536) :
    ∃ ip6 seg, xpack cfg none (.eth e (.ipv6 h (.icmp6 i (.raw b)))) = .ok (ethBytes e ++ (ip6 ++ seg)) ∧ ip6.length = 40 ∧
      beDec (sl ip6 4 6) = seg.length ∧
      beDec (sl seg 2 4) = rfc1071 (pseudo6 (sl ip6 8 24) (sl ip6 24 40) seg.length 58 ++ zeroWord 1 seg) := by
  have hcs : icmp6CsumSpec h.src h.dst i b < 65536 := rfc1071_lt _
  have hpl : (icmpPre i).length = 2 := by simp [icmpPre]
  have hseg : (icmp6Bytes h.src h.dst i b ++ b).length = b.length + 4 := by simp [icmp6Bytes, hpl]; omega
  obtain ⟨f1, f2, _⟩ := ipv6_wire_fields h (b.length + 4) hf
  refine ⟨ipv6Bytes h (b.length + 4), icmp6Bytes h.src h.dst i b ++ b, ?_, ipv6Bytes_length h _ hf, ?_, ?_⟩
  · simp only [xpack, xpackU, icmp6Hdr_ok h.src h.dst i b hf.src hf.dst hi (by omega), bind, Except.bind, pure, Except.pure]
    rw [hseg]
    simp only [ipv6Hdr_ok h (b.length + 4) hf hn, ethHdr_ok e he]
  · rw [ipv6_len_field h _ hn, hseg]
  · have e1 : sl (icmp6Bytes h.src h.dst i b ++ b) 2 4 = be16 (icmp6CsumSpec h.src h.dst i b) := by
      unfold icmp6Bytes; rw [List.append_assoc]
      exact sl_mid _ _ _ 2 4 (by rw [hpl]) (by rw [hpl, be16_length])
    have hz : zeroWord 1 (icmp6Bytes h.src h.dst i b ++ b) = icmpPre i ++ 0 :: 0 :: b := by
      unfold icmp6Bytes
      rw [be16_eq _ hcs]
      simp only [List.append_assoc, List.cons_append, List.nil_append]
      exact zeroWord_at 1 _ _ _ _ (by rw [hpl])
    have hlt : icmp6CsumSpec h.src h.dst i b < 256 ^ 2 := hcs
    rw [e1, f1, f2, hz, hseg, be16, beDec_beEnc 2 _ hlt]
    rfl

end Pox.Packet
